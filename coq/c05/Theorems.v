(* C05 — the statements used by coq/props/C05.v, assembled from the proof files. *)
From Coq Require Import List NArith ZArith Bool Arith Lia String.
From Verif Require Import c05.Heap c05.HeapProofs c05.Natives c05.NativeProofs c05.DelProofs c05.AppendProofs
  c05.Sites gen.GenMapSites.
Import ListNotations.
Open Scope nat_scope.
Local Notation length := List.length.

(* writes ⊆ addresses allocated during the call, or handed to the call as owned *)
Definition writes_fresh {A} (p : prog A) : Prop :=
  forall h owned r s', run p (start h owned) = Some (r, s') ->
    forall x, In x (wr s') -> In x owned \/ (length h <= x < length (hp s')).

Lemma psafe_writes_fresh : forall A (p : prog A), psafe p -> writes_fresh p.
Proof.
  intros A p H h owned r s' E x Hx.
  assert (safe s') as S. { eapply H; eauto. intros y []. }
  apply S in Hx. apply (fr_al_new _ _ (run_frame _ _ _ _ _ E)) in Hx. exact Hx.
Qed.

(* and therefore: nothing that existed before the call and was not handed over is changed *)
Lemma writes_fresh_unchanged : forall A (p : prog A), writes_fresh p ->
  forall h owned r s', run p (start h owned) = Some (r, s') ->
  forall x, x < length h -> ~ In x owned -> nth_error (hp s') x = nth_error h x.
Proof.
  intros A p H h owned r s' E x Hx Ho. pose proof (run_frame _ _ _ _ _ E) as F.
  apply (fr_keep _ _ F); auto. intro Hw. destruct (H _ _ _ _ E x Hw) as [H1|H1]; auto. cbn in H1. lia.
Qed.

(* value level: the JSON value of everything living in a closed region the call does not own *)
Lemma writes_fresh_value_frame : forall A (p : prog A), writes_fresh p ->
  forall h owned r s' (R : addr -> Prop), run p (start h owned) = Some (r, s') ->
  closed R h -> (forall a, R a -> a < length h /\ ~ In a owned) ->
  forall n v, vin R v -> abs n (hp s') v = abs n h v.
Proof.
  intros A p H h owned r s' R E C HR n v V. eapply abs_frame; eauto.
  intros a Ra. destruct (HR a Ra). eapply writes_fresh_unchanged; eauto.
Qed.

Section Natives.
Variable grow : nat -> nat -> nat.

Lemma wf_array_construct : forall xs, writes_fresh (arr_construct grow xs).
Proof. intros; apply psafe_writes_fresh, arr_construct_psafe. Qed.
Lemma wf_object : forall kvs, writes_fresh (op_object kvs).
Proof. intros; apply psafe_writes_fresh, op_object_psafe. Qed.
Lemma wf_op_add : forall l r, writes_fresh (op_add l r).
Proof. intros; apply psafe_writes_fresh, op_add_psafe. Qed.
Lemma wf_deep_merge : forall fuel a b, writes_fresh (deep_merge fuel a b).
Proof. intros; apply psafe_writes_fresh, deep_merge_psafe. Qed.
Lemma wf_add : forall v, writes_fresh (func_add grow v).
Proof. intros; apply psafe_writes_fresh, func_add_psafe. Qed.
Lemma wf_sort_by : forall v x, writes_fresh (sort_by v x).
Proof. intros; apply psafe_writes_fresh, sort_by_psafe. Qed.
Lemma wf_sort : forall v, writes_fresh (func_sort v).
Proof. intros; apply psafe_writes_fresh, func_sort_psafe. Qed.
Lemma wf_unique_by : forall v x, writes_fresh (unique_by grow v x).
Proof. intros; apply psafe_writes_fresh, unique_by_psafe. Qed.
Lemma wf_group_by : forall v x, writes_fresh (group_by grow v x).
Proof. intros; apply psafe_writes_fresh, group_by_psafe. Qed.
Lemma wf_min_max_by : forall b v x, writes_fresh (min_max_by b v x).
Proof. intros; apply psafe_writes_fresh, min_max_by_psafe. Qed.
Lemma wf_reverse : forall v, writes_fresh (func_reverse v).
Proof. intros; apply psafe_writes_fresh, func_reverse_psafe. Qed.
Lemma wf_flatten : forall v d, writes_fresh (func_flatten grow v d).
Proof. intros; apply psafe_writes_fresh, func_flatten_psafe. Qed.
Lemma wf_transpose : forall v, writes_fresh (func_transpose v).
Proof. intros; apply psafe_writes_fresh, func_transpose_psafe. Qed.
Lemma wf_slice : forall v e s, writes_fresh (func_slice v e s).
Proof. intros; apply psafe_writes_fresh, ro_psafe, func_slice_ro. Qed.
(* a slice does not even allocate: the result is a window of the argument's backing array *)
Lemma slice_shares : forall v e s st0 r st1, run (func_slice v e s) st0 = Some (r, st1) ->
  st1 = st0 /\ match v, r with
               | VArr a _ _ _, VArr a' _ _ _ => a' = a
               | VNull, VNull => True
               | _, _ => False
               end.
Proof.
  intros v e s st0 r st1 E. split. eapply func_slice_ro; eauto.
  unfold func_slice in E. destruct v; try discriminate.
  - cbn in E. inversion E; auto.
  - destruct s; try discriminate; destruct e; try discriminate; cbn in E; inversion E; auto.
Qed.
(* `+` on arrays/objects returns THE SAME container when the other operand is empty *)
Lemma op_add_shares_left_empty : forall a off cap r st0,
  run (op_add (VArr a off 0 cap) r) st0 = match r with VNull => Some (VArr a off 0 cap, st0) | VArr _ _ _ _ => Some (r, st0) | _ => None end.
Proof. intros. destruct r; reflexivity. Qed.

(* delpaths with the repaired deleteEmpty *)
Lemma wf_delpaths_repaired : forall v ps, writes_fresh (delpaths1 true v ps).
Proof. intros; apply psafe_writes_fresh, delpaths1_owned_psafe. Qed.
End Natives.

(* delpaths with the deleteEmpty that is in the tree (the flag is regenerated from /repo) *)
Lemma wf_delpaths_tree : delete_empty_owned = true -> forall v ps, writes_fresh (delpaths1 delete_empty_owned v ps).
Proof. intros ->. apply wf_delpaths_repaired. Qed.

(* the live statement: delpaths with the deleteEmpty that is in the tree NOW.  The proof only type-checks while
   the translator reports the repaired shape (delete_empty_owned computes to true): a regression to the
   sweeping function breaks this obligation. *)
Lemma wf_delpaths_current : forall v ps, writes_fresh (delpaths1 delete_empty_owned v ps).
Proof. exact (wf_delpaths_tree eq_refl). Qed.

Lemma wf_delpaths_refuted : ~ (forall v ps, writes_fresh (delpaths1 false v ps)).
Proof.
  intros H. destruct delpaths_witness as (r & s' & E & Hw & Ha & _).
  destruct (H _ _ _ _ _ _ E 0 Hw) as [[]|H1]. cbn in H1. lia.
Qed.
Lemma wf_delpaths_tree_refuted : delete_empty_owned = false -> ~ (forall v ps, writes_fresh (delpaths1 delete_empty_owned v ps)).
Proof. intros ->. apply wf_delpaths_refuted. Qed.

(* the reviewed site list matches the tree (finite computation over the ~100 generated sites) *)
Lemma sites_reviewed : sites_ok gen_sites = true.
Proof. vm_compute. reflexivity. Qed.
