(* Generic facts about the interpreter of Heap.v: the logs are faithful (an address that is not in the
   write log and existed before still holds the same cell; the allocation log is exactly the set of new
   addresses), and the frame property of [abs]. Proved once for ALL programs by induction on [prog]. *)
From Coq Require Import List NArith ZArith Bool Arith Lia.
From Verif Require Import c05.Heap.
Import ListNotations.

Lemma run_bind : forall A B (p : prog A) (f : A -> prog B) s,
  run (bind p f) s = match run p s with Some (a, s') => run (f a) s' | None => None end.
Proof.
  induction p; intros; cbn [bind run]; auto.
  - destruct (nth_error (hp s) a); auto.
  - destruct (a <? length (hp s)); auto.
Qed.

Lemma set_nth_length : forall A n (x : A) l, length (set_nth n x l) = length l.
Proof. induction n; destruct l; cbn; auto. Qed.

Lemma nth_error_set_nth_other : forall A n m (x : A) l, n <> m -> nth_error (set_nth n x l) m = nth_error l m.
Proof.
  induction n; destruct l, m; cbn; intros; try congruence; auto.
Qed.
Lemma nth_error_set_nth_same : forall A n (x : A) l, n < length l -> nth_error (set_nth n x l) n = Some x.
Proof. induction n; destruct l; cbn; intros; try lia; auto. apply IHn. lia. Qed.

Lemma set_nth_same : forall A n (x : A) l, nth_error l n = Some x -> set_nth n x l = l.
Proof. induction n; destruct l; cbn; intros; try congruence. f_equal. auto. Qed.

(* what every run guarantees, whatever the program *)
Record frame (s s' : st) : Prop := {
  fr_len : length (hp s) <= length (hp s');
  fr_keep : forall x, x < length (hp s) -> ~ In x (wr s') -> nth_error (hp s') x = nth_error (hp s) x;
  fr_wr : incl (wr s) (wr s');
  fr_al : incl (al s) (al s');
  fr_al_new : forall x, In x (al s') -> In x (al s) \/ (length (hp s) <= x < length (hp s'));
  fr_new_al : forall x, length (hp s) <= x < length (hp s') -> In x (al s');
  fr_wr_new : forall x, In x (wr s') -> In x (wr s) \/ x < length (hp s')
}.

Lemma frame_refl : forall s, frame s s.
Proof. intros; constructor; auto using incl_refl; intros; try lia; auto. Qed.

Lemma frame_trans : forall a b c, frame a b -> frame b c -> frame a c.
Proof.
  intros a b c [l1 k1 w1 a1 n1 m1 v1] [l2 k2 w2 a2 n2 m2 v2]; constructor.
  - lia.
  - intros. rewrite k2; try lia; auto.
  - eauto using incl_tran.
  - eauto using incl_tran.
  - intros x H. destruct (n2 x H) as [H1|H1]. destruct (n1 x H1); auto. right; lia. right; lia.
  - intros x H. destruct (Nat.lt_ge_cases x (length (hp b))). apply a2, m1. lia. apply m2. lia.
  - intros x H. destruct (v2 x H) as [H1|H1]; auto. destruct (v1 x H1); auto. right; lia.
Qed.

Theorem run_frame : forall A (p : prog A) s r s', run p s = Some (r, s') -> frame s s'.
Proof.
  induction p; intros s r s' E; cbn [run] in E.
  - inversion E; subst. apply frame_refl.
  - discriminate.
  - apply H in E. eapply frame_trans; [|exact E].
    constructor; cbn [hp wr al]; try rewrite app_length; cbn [length]; try lia.
    + intros. rewrite nth_error_app1; auto.
    + apply incl_refl.
    + apply incl_tl, incl_refl.
    + intros x [Hx|Hx]; auto. right. lia.
    + intros x Hx. left. lia.
    + auto.
  - destruct (nth_error (hp s) a); try discriminate. eauto.
  - destruct (a <? length (hp s)) eqn:La; try discriminate. apply Nat.ltb_lt in La.
    apply IHp in E. eapply frame_trans; [|exact E].
    constructor; cbn [hp wr al]; try rewrite set_nth_length; auto using incl_refl, incl_tl; try lia.
    + intros x Hx Hn. apply nth_error_set_nth_other. intro; subst. apply Hn. left; auto.
    + intros x [Hx|Hx]; subst; auto.
Qed.

(* a safe run from [start h owned] leaves every old cell outside [owned] exactly as it was,
   although it may have allocated and may have written into what it allocated or was handed *)
Theorem safe_unchanged : forall A (p : prog A) h owned r s',
  run p (start h owned) = Some (r, s') -> safe s' ->
  forall x, x < length h -> ~ In x owned -> nth_error (hp s') x = nth_error h x.
Proof.
  intros A p h owned r s' E S x Hx Ho. pose proof (run_frame _ _ _ _ _ E) as F.
  apply (fr_keep _ _ F); auto. intro Hw. apply S in Hw. apply (fr_al_new _ _ F) in Hw.
  cbn in Hw. destruct Hw; [auto | lia].
Qed.

(* ---- frame property of abs ---- *)
Lemma In_firstn : forall A n (l : list A) x, In x (firstn n l) -> In x l.
Proof. induction n; destruct l; cbn; intros; try tauto. destruct H; auto. Qed.
Lemma In_skipn' : forall A n (l : list A) x, In x (skipn n l) -> In x l.
Proof. induction n; destruct l; cbn; intros; try tauto. right; auto. Qed.
Lemma In_window : forall A off len (l : list A) x, In x (window off len l) -> In x l.
Proof. unfold window; intros. eapply In_skipn', In_firstn; eauto. Qed.
Lemma abs_frame : forall (R : addr -> Prop) h h', closed R h -> agree R h h' ->
  forall n v, vin R v -> abs n h' v = abs n h v.
Proof.
  intros R h h' C G. induction n; intros v V; cbn [abs]; auto.
  destruct v; auto.
  - destruct (len =? 0) eqn:L; auto. unfold vin, vaddr in V. rewrite L in V.
    rewrite (G _ V). destruct (nth_error h a) as [[xs|kvs]|] eqn:E; auto.
    f_equal. apply map_ext_in. intros x Hx. apply IHn.
    pose proof (C _ _ V E) as F. cbn in F. rewrite Forall_forall in F. apply F.
    eapply In_window; eauto.
  - unfold vin, vaddr in V. rewrite (G _ V). destruct (nth_error h a) as [[xs|kvs]|] eqn:E; auto.
    f_equal. apply map_ext_in. intros [k x] Hx. cbn. f_equal. apply IHn.
    pose proof (C _ _ V E) as F. cbn in F. rewrite Forall_forall in F. apply F.
    apply in_map_iff. exists (k, x); auto.
Qed.

(* the corollary used for every native: a safe call cannot change the JSON value of anything that
   lived in a closed region disjoint from what the call owns *)
Theorem safe_value_frame : forall A (p : prog A) h owned r s' (R : addr -> Prop),
  run p (start h owned) = Some (r, s') -> safe s' ->
  closed R h -> (forall a, R a -> a < length h /\ ~ In a owned) ->
  forall n v, vin R v -> abs n (hp s') v = abs n h v.
Proof.
  intros. eapply abs_frame; eauto. intros a Ra. destruct (H2 a Ra).
  eapply safe_unchanged; eauto.
Qed.

(* ---- a small Hoare logic over run ---- *)
Definition sat {A} (P : st -> Prop) (p : prog A) (Q : A -> st -> Prop) : Prop :=
  forall s r s', P s -> run p s = Some (r, s') -> Q r s'.

Lemma sat_ret : forall A (P : st -> Prop) (a : A) (Q : A -> st -> Prop), (forall s, P s -> Q a s) -> sat P (Ret a) Q.
Proof. intros A P a Q H s r s' Ps E. cbn in E. inversion E; subst; auto. Qed.

Lemma sat_fail : forall A P (Q : A -> st -> Prop), sat P Fail Q.
Proof. intros A P Q s r s' _ E. discriminate. Qed.

Lemma sat_bind : forall A B (P : st -> Prop) (p : prog A) (M : A -> st -> Prop) (f : A -> prog B) (Q : B -> st -> Prop),
  sat P p M -> (forall a, sat (M a) (f a) Q) -> sat P (bind p f) Q.
Proof.
  intros A B P p M f Q Hp Hf s r s' Ps E. rewrite run_bind in E.
  destruct (run p s) as [[a s1]|] eqn:E1; try discriminate. eapply Hf; eauto.
Qed.

Lemma sat_conseq : forall A (P P' : st -> Prop) (p : prog A) (Q Q' : A -> st -> Prop),
  sat P' p Q' -> (forall s, P s -> P' s) -> (forall a s, Q' a s -> Q a s) -> sat P p Q.
Proof. intros A P P' p Q Q' H HP HQ s r s' Ps E. apply HQ. eapply H; eauto. Qed.

Lemma sat_new : forall A (P : st -> Prop) c (k : addr -> prog A) Q,
  (forall a, sat (fun s => exists s0, P s0 /\ a = length (hp s0) /\ s = mkst (hp s0 ++ [c]) (wr s0) (a :: al s0)) (k a) Q) ->
  sat P (NewCell c k) Q.
Proof. intros A P c k Q H s r s' Ps E. cbn [run] in E. eapply H; eauto. Qed.

Lemma sat_get : forall A (P : st -> Prop) a (k : cell -> prog A) Q,
  (forall c, sat (fun s => P s /\ nth_error (hp s) a = Some c) (k c) Q) -> sat P (Get a k) Q.
Proof.
  intros A P a k Q H s r s' Ps E. cbn [run] in E. destruct (nth_error (hp s) a) eqn:E1; try discriminate.
  eapply H; eauto.
Qed.

Lemma sat_put : forall A (P : st -> Prop) a c (k : prog A) Q,
  sat (fun s => exists s0, P s0 /\ a < length (hp s0) /\ s = mkst (set_nth a c (hp s0)) (a :: wr s0) (al s0)) k Q ->
  sat P (Put a c k) Q.
Proof.
  intros A P a c k Q H s r s' Ps E. cbn [run] in E. destruct (a <? length (hp s)) eqn:L; try discriminate.
  apply Nat.ltb_lt in L. eapply H; eauto.
Qed.

(* ownership facts are stable: the allocation log only grows *)
Definition owned (a : addr) (s : st) : Prop := In a (al s).
Lemma owned_mono : forall A (p : prog A) s r s' a, run p s = Some (r, s') -> owned a s -> owned a s'.
Proof. intros. apply (fr_al _ _ (run_frame _ _ _ _ _ H)); auto. Qed.

Lemma safe_put : forall s a c, safe s -> owned a s -> safe (mkst (set_nth a c (hp s)) (a :: wr s) (al s)).
Proof. intros s a c S O x [Hx|Hx]; cbn; subst; auto. Qed.
Lemma safe_new : forall s c, safe s -> safe (mkst (hp s ++ [c]) (wr s) (length (hp s) :: al s)).
Proof. intros s c S x Hx; cbn in *. right; auto. Qed.

Lemma safeb_ok : forall s, safeb s = true <-> safe s.
Proof.
  intros s; unfold safeb, safe. rewrite forallb_forall. split; intros H x Hx.
  - apply H in Hx. apply existsb_exists in Hx. destruct Hx as [y [Hy E]]. apply Nat.eqb_eq in E; subst; auto.
  - apply existsb_exists. exists x. split; auto. apply Nat.eqb_refl.
Qed.
