(* C05 — the REVIEWED list of (a) every place where Go map iteration order could leak and (b) every place
   where a JSON container is written, in package gojq and package cli, with the reason why the site is
   order-independent / writes only into memory owned by the call.  tools/go2coq/mapsites regenerates the
   actual list from /repo on every run (coq/gen/GenMapSites.v); [sites_ok] compares the two as multisets.
   A new, moved or vanished site makes [sites_ok gen_sites] compute to false, the obligation
   C05_sites_reviewed breaks, and the check searches the functions of the new sites with repeated runs. *)
From Coq Require Import String List Bool.
Import ListNotations.
Open Scope string_scope.

Definition site := (string * string * string * string)%type.

Definition reviewed : list (site * string) := [
  (("cli/cli.go", "cli.runInternal", "range-map", "opts.Arg"),
   "keys of one flag map are distinct and (name, value) pairs are appended together, so the binding name->value does not depend on the order; the order only decides which of several INVALID --argjson/--slurpfile/--rawfile arguments is reported first (command-line error path, not a query run: observation O1 of docs/C05.md)");
  (("cli/cli.go", "cli.runInternal", "range-map", "opts.ArgJSON"),
   "keys of one flag map are distinct and (name, value) pairs are appended together, so the binding name->value does not depend on the order; the order only decides which of several INVALID --argjson/--slurpfile/--rawfile arguments is reported first (command-line error path, not a query run: observation O1 of docs/C05.md)");
  (("cli/cli.go", "cli.runInternal", "range-map", "opts.RawFile"),
   "keys of one flag map are distinct and (name, value) pairs are appended together, so the binding name->value does not depend on the order; the order only decides which of several INVALID --argjson/--slurpfile/--rawfile arguments is reported first (command-line error path, not a query run: observation O1 of docs/C05.md)");
  (("cli/cli.go", "cli.runInternal", "range-map", "opts.SlurpFile"),
   "keys of one flag map are distinct and (name, value) pairs are appended together, so the binding name->value does not depend on the order; the order only decides which of several INVALID --argjson/--slurpfile/--rawfile arguments is reported first (command-line error path, not a query run: observation O1 of docs/C05.md)");
  (("cli/encoder.go", "encoder.encodeObject", "range-map", "vs"),
   "collected into kvs and sorted by key (sort.Slice) before anything is written");
  (("cli/error.go", "yamlParseError.Error", "range-unknown", "te.Errors"),
   "a slice of the YAML library's errors (type of an imported package), not a map");
  (("cli/flags.go", "formatFlags", "range-unknown", "typ.NumField()"),
   "range over an integer (reflect NumField)");
  (("cli/flags.go", "parseFlags", "range-unknown", "val.NumField()"),
   "range over an integer (reflect NumField)");
  (("cli/inputs.go", "normalizeYAMLNumbers", "range-map", "v"),
   "every member of a map the YAML decoder has just allocated for this document (not yet visible to any query) is replaced by a function of its own value only: order-independent (repo fix 823b7fa)");
  (("compiler.go", "compiler.compileArray", "set-index", "v"),
   "v := make([]any, l) is local; it becomes the folded constant (compile time, before any run)");
  (("compiler.go", "compiler.compileFunc", "set-index", "env"),
   "env := make(map) is local; it becomes the $ENV constant (compile time); entries come from a list, later ones win");
  (("compiler.go", "compiler.compileObject", "set-index", "w"),
   "w := make(map) is local; it becomes the folded constant (compile time)");
  (("compiler.go", "compiler.funcBuiltins", "range-map", "builtinFuncDefs"),
   "names are collected into xs, which is sorted by (name, arity) before the result is built");
  (("compiler.go", "compiler.funcBuiltins", "range-map", "c.customFuncs"),
   "names are collected into xs, which is sorted by (name, arity) before the result is built");
  (("compiler.go", "compiler.funcBuiltins", "range-map", "internalFuncs"),
   "names are collected into xs, which is sorted by (name, arity) before the result is built");
  (("compiler.go", "compiler.funcBuiltins", "set-index", "ys"),
   "ys := make([]any, len(xs)) is fresh");
  (("compiler.go", "compiler.funcModulemeta", "set-index", "meta"),
   "meta is a fresh map built by ToValue for this call");
  (("compiler.go", "compiler.funcModulemeta", "set-index", "meta"),
   "meta is a fresh map built by ToValue for this call");
  (("compiler.go", "compiler.optimizeTailRec", "set-index", "scopes"),
   "compile-time table of the compiler, not a JSON value");
  (("compiler.go", "listModuleDefs", "set-index", "defs"),
   "defs is a fresh slice");
  (("compiler.go", "listModuleDeps", "set-index", "deps"),
   "deps / v are fresh containers");
  (("compiler.go", "listModuleDeps", "set-index", "v"),
   "deps / v are fresh containers");
  (("compiler.go", "listModuleDeps", "set-index", "v"),
   "deps / v are fresh containers");
  (("compiler.go", "listModuleDeps", "set-index", "v"),
   "deps / v are fresh containers");
  (("encoder.go", "encoder.encodeObject", "range-map", "vs"),
   "collected into kvs and sorted by key (sort.Slice) before anything is written");
  (("execute.go", "env.Next", "append", "env.values[i].([]any)"),
   "opappend: the register holds the accumulator of ONE array construction; it starts as the zero-capacity constant []any{} (first append allocates) and is loaded only after the construction fork is exhausted (model: arr_construct; theorems C05_append_no_alias, C05_array_construct_fresh)");
  (("execute.go", "env.Next", "copy", "vs"),
   "env.values growth: VM registers, copied into a larger fresh slice");
  (("execute.go", "env.Next", "range-map", "v"),
   "opiter over an object: entries are collected into xs and sorted by key before any is emitted");
  (("execute.go", "env.Next", "set-index", "args"),
   "VM-private memory of the env created for this run: registers env.values (opstore, opappend, opforklabel), the argument buffer env.args, and the fresh map m of opobject (model: op_object)");
  (("execute.go", "env.Next", "set-index", "env.values"),
   "VM-private memory of the env created for this run: registers env.values (opstore, opappend, opforklabel), the argument buffer env.args, and the fresh map m of opobject (model: op_object)");
  (("execute.go", "env.Next", "set-index", "env.values"),
   "VM-private memory of the env created for this run: registers env.values (opstore, opappend, opforklabel), the argument buffer env.args, and the fresh map m of opobject (model: op_object)");
  (("execute.go", "env.Next", "set-index", "env.values"),
   "VM-private memory of the env created for this run: registers env.values (opstore, opappend, opforklabel), the argument buffer env.args, and the fresh map m of opobject (model: op_object)");
  (("execute.go", "env.Next", "set-index", "m"),
   "VM-private memory of the env created for this run: registers env.values (opstore, opappend, opforklabel), the argument buffer env.args, and the fresh map m of opobject (model: op_object)");
  (("execute.go", "env.poppaths", "append", "xs"),
   "xs := []any{} is local and fresh");
  (("execute.go", "env.poppaths", "set-index", "xs"),
   "in-place reversal of the fresh local xs");
  (("execute.go", "env.poppaths", "set-index", "xs"),
   "in-place reversal of the fresh local xs");
  (("func.go", "add", "append", "w"),
   "w is the accumulator created by make+copy from the first array: owned by this call (model: add_step, theorem C05_add_writes_fresh)");
  (("func.go", "add", "call:maps.Clone", "x"),
   "the first object is cloned: the accumulator is fresh; the clone's content does not depend on iteration order");
  (("func.go", "add", "call:maps.Copy", "w"),
   "maps.Copy(w, x): w is the cloned accumulator (owned); x is only read; the result is the same for every iteration order (last writer per key is the later argument)");
  (("func.go", "add", "call:maps.Copy", "x"),
   "maps.Copy(w, x): w is the cloned accumulator (owned); x is only read; the result is the same for every iteration order (last writer per key is the later argument)");
  (("func.go", "add", "copy", "s"),
   "s := make([]any, len(x)) is fresh");
  (("func.go", "add", "range-unknown", "xs"),
   "range over an iter.Seq (function iterator), not a map");
  (("func.go", "allocator.makeArray", "call:reflect.ValueOf", "v"),
   "reads the pointer of the fresh slice only");
  (("func.go", "allocator.makeArray", "set-index", "a"),
   "a is the allocator (map[uintptr]struct{}) private to one reduction, not a JSON value");
  (("func.go", "allocator.makeObject", "call:reflect.ValueOf", "v"),
   "reads the pointer of the fresh map only");
  (("func.go", "allocator.makeObject", "set-index", "a"),
   "a is the allocator (map[uintptr]struct{}) private to one reduction, not a JSON value");
  (("func.go", "deleteEmpty", "delete", "v"),
   "deletes a marker entry: markers only exist in containers created by this reduction's allocator");
  (("func.go", "deleteEmpty", "range-map", "v"),
   "every entry is visited and treated independently of the others: order-independent");
  (("func.go", "deleteEmpty", "set-index", "v"),
   "v[k] = deleteEmpty(w, a) / v[j] = deleteEmpty(w, a) / v[i] = nil are reached only after a.allocated(v): the container was created by this reduction (model: delete_empty true, theorem C05_writes_fresh_delpaths; before the fix D6 they were executed on every reachable container)");
  (("func.go", "deleteEmpty", "set-index", "v"),
   "v[k] = deleteEmpty(w, a) / v[j] = deleteEmpty(w, a) / v[i] = nil are reached only after a.allocated(v): the container was created by this reduction (model: delete_empty true, theorem C05_writes_fresh_delpaths; before the fix D6 they were executed on every reachable container)");
  (("func.go", "deleteEmpty", "set-index", "v"),
   "v[k] = deleteEmpty(w, a) / v[j] = deleteEmpty(w, a) / v[i] = nil are reached only after a.allocated(v): the container was created by this reduction (model: delete_empty true, theorem C05_writes_fresh_delpaths; before the fix D6 they were executed on every reachable container)");
  (("func.go", "explode", "set-index", "xs"),
   "xs is fresh");
  (("func.go", "flatten", "append", "xs"),
   "xs starts as the fresh []any{} of funcFlatten and is threaded through the recursion: owned by this call (model: flatten_go)");
  (("func.go", "funcAdd", "call:slices.Values", "vs"),
   "read-only iterator over vs");
  (("func.go", "funcCaptures", "set-index", "w"),
   "w is a fresh map");
  (("func.go", "funcContains", "range-map", "r"),
   "a for-all check: false as soon as one key fails, true otherwise; errors of nested calls count as false: order-independent");
  (("func.go", "funcGroupBy", "append", "rs"),
   "rs is the fresh result; rs[len(rs)-1] is the group created by the literal []any{r.value} in this call (model: group_loop, theorem C05_group_by_writes_fresh)");
  (("func.go", "funcGroupBy", "append", "rs[len(rs)-1].([]any)"),
   "rs is the fresh result; rs[len(rs)-1] is the group created by the literal []any{r.value} in this call (model: group_loop, theorem C05_group_by_writes_fresh)");
  (("func.go", "funcGroupBy", "set-index", "rs"),
   "rs is the fresh result");
  (("func.go", "funcKeys", "set-index", "w"),
   "w is fresh");
  (("func.go", "funcKeys", "set-index", "w"),
   "w is fresh");
  (("func.go", "funcMatch", "range-unknown", "xs"),
   "range over the result of a regexp call (slice), not a map");
  (("func.go", "funcMatch", "set-index", "captures"),
   "captures / res are fresh");
  (("func.go", "funcMatch", "set-index", "captures"),
   "captures / res are fresh");
  (("func.go", "funcMatch", "set-index", "res"),
   "captures / res are fresh");
  (("func.go", "funcReverse", "set-index", "ws"),
   "ws := make([]any, len(vs)) is fresh (model: func_reverse)");
  (("func.go", "funcSplit", "range-unknown", "ss"),
   "range over strings.Split result (slice)");
  (("func.go", "funcSplit", "set-index", "xs"),
   "xs is fresh");
  (("func.go", "funcTranspose", "set-index", "wss[j]"),
   "wss[j] / xs are fresh rows (model: func_transpose)");
  (("func.go", "funcTranspose", "set-index", "xs"),
   "wss[j] / xs are fresh rows (model: func_transpose)");
  (("func.go", "indices", "append", "rs"),
   "rs is fresh");
  (("func.go", "keys", "range-map", "v"),
   "keys are collected into w and sorted (sort.Strings) before use");
  (("func.go", "sortBy", "set-index", "rs"),
   "rs := make([]any, len(items)) is fresh; the input is never sorted in place: sortItems sorts a fresh []*sortItem (model: sort_by)");
  (("func.go", "uniqueBy", "append", "rs"),
   "rs := []any{} is fresh (model: unique_by)");
  (("func.go", "updateArrayIndex", "clear", "v[l:i]"),
   "v is written only when a.allocated(v): the cleared slots are the ones the in-place growth exposes, inside the backing array the allocator owns (repo fix 73ac0b6) — allocator-level model: C02 (HeapPath clear_cells)");
  (("func.go", "updateArrayIndex", "copy", "w"),
   "w comes from a.makeArray (fresh) — allocator-level model: C02");
  (("func.go", "updateArrayIndex", "set-index", "v"),
   "v is written only when a.allocated(v); w is fresh — allocator-level model: C02");
  (("func.go", "updateArrayIndex", "set-index", "w"),
   "v is written only when a.allocated(v); w is fresh — allocator-level model: C02");
  (("func.go", "updateArraySlice", "copy", "w"),
   "w is v only when a.allocated(v), otherwise fresh — allocator-level model: C02");
  (("func.go", "updateArraySlice", "copy", "w"),
   "w is v only when a.allocated(v), otherwise fresh — allocator-level model: C02");
  (("func.go", "updateArraySlice", "copy", "w[start+len(u):]"),
   "w is v only when a.allocated(v), otherwise fresh — allocator-level model: C02");
  (("func.go", "updateArraySlice", "copy", "w[start:]"),
   "w is v only when a.allocated(v), otherwise fresh — allocator-level model: C02");
  (("func.go", "updateArraySlice", "set-index", "w"),
   "w is v only when a.allocated(v), otherwise fresh — allocator-level model: C02");
  (("func.go", "updateObject", "call:maps.Copy", "v"),
   "maps.Copy(w, v): w fresh from a.makeObject, v only read; order-independent");
  (("func.go", "updateObject", "call:maps.Copy", "w"),
   "maps.Copy(w, v): w fresh from a.makeObject, v only read; order-independent");
  (("func.go", "updateObject", "set-index", "v"),
   "v is written only when a.allocated(v); w is fresh — allocator-level model: C02");
  (("func.go", "updateObject", "set-index", "w"),
   "v is written only when a.allocated(v); w is fresh — allocator-level model: C02");
  (("func.go", "values", "set-index", "vs"),
   "vs is fresh; filled in sorted key order");
  (("module_loader.go", "moduleLoader.LoadJSONWithMeta", "append", "vals"),
   "vals is a fresh slice of the loader");
  (("operator.go", "deepMergeObjects", "call:maps.Copy", "l"),
   "maps.Copy(m, l): m fresh, l only read");
  (("operator.go", "deepMergeObjects", "call:maps.Copy", "m"),
   "maps.Copy(m, l): m fresh, l only read");
  (("operator.go", "deepMergeObjects", "range-map", "r"),
   "each key of r is merged independently into the fresh m: order-independent (model: deep_merge)");
  (("operator.go", "deepMergeObjects", "set-index", "m"),
   "m is fresh");
  (("operator.go", "funcOpAdd", "call:maps.Copy", "l"),
   "maps.Copy(m, l); maps.Copy(m, r): m fresh, operands only read; r wins per key whatever the order (model: op_add)");
  (("operator.go", "funcOpAdd", "call:maps.Copy", "m"),
   "maps.Copy(m, l); maps.Copy(m, r): m fresh, operands only read; r wins per key whatever the order (model: op_add)");
  (("operator.go", "funcOpAdd", "call:maps.Copy", "m"),
   "maps.Copy(m, l); maps.Copy(m, r): m fresh, operands only read; r wins per key whatever the order (model: op_add)");
  (("operator.go", "funcOpAdd", "call:maps.Copy", "r"),
   "maps.Copy(m, l); maps.Copy(m, r): m fresh, operands only read; r wins per key whatever the order (model: op_add)");
  (("operator.go", "funcOpAdd", "copy", "v"),
   "v := make([]any, len(l)+len(r)) is fresh (model: op_add)");
  (("operator.go", "funcOpAdd", "copy", "v[len(l):]"),
   "v := make([]any, len(l)+len(r)) is fresh (model: op_add)");
  (("operator.go", "funcOpDiv", "range-unknown", "xs"),
   "range over strings.Split result (slice)");
  (("operator.go", "funcOpDiv", "set-index", "vs"),
   "vs is fresh");
  (("operator.go", "funcOpSub", "append", "v"),
   "v := make([]any, 0, len(l)) is fresh");
  (("option.go", "withFunction", "set-index", "c.customFuncs"),
   "compiler option table, written before Compile returns");
  (("option.go", "withFunction", "set-index", "c.customFuncs"),
   "compiler option table, written before Compile returns");
  (("option.go", "withOwnArgs", "call:slices.Clone", "xs"),
   "a fresh copy of the interpreter's argument buffer is handed to the custom function; xs itself is only read (repo fix 81d0c57)");
  (("query.go", "ConstArray.toValue", "set-index", "v"),
   "fresh value built at compile time");
  (("query.go", "ConstObject.ToValue", "set-index", "v"),
   "fresh value built at compile time");
  (("query.go", "Index.toIndices", "append", "xs"),
   "xs is a fresh path built at compile time");
  (("compiler.go", "compiler.compileArray", "code-const", "[]any{}"),
   "the empty-array constant / the start value of the construction accumulator: ZERO capacity, so the first opappend allocates (theorem C05_append_no_alias relies on it)");
  (("compiler.go", "compiler.compileArray", "code-const", "[]any{}"),
   "the empty-array constant / the start value of the construction accumulator: ZERO capacity, so the first opappend allocates (theorem C05_append_no_alias relies on it)");
  (("compiler.go", "compiler.compileArray", "code-const", "v"),
   "the folded constant array: v := make([]any, l), len = cap, never an opappend target");
  (("compiler.go", "compiler.compileFunc", "code-const", "env"),
   "the $ENV object: a map (no capacity hazard), read-only at run time");
  (("compiler.go", "compiler.compileModify", "code-const", "[]any{}"),
   "the start value of _modify's list of paths to delete ($d): ZERO capacity, so every activation's first opappend allocates its own list (a constant with spare capacity here would be shared by all activations and runs: seeded change C05-r3b)");
  (("compiler.go", "compiler.compileObject", "code-const", "map[string]any{}"),
   "the empty-object constant: a map (no capacity hazard), read-only at run time");
  (("compiler.go", "compiler.compileObject", "code-const", "w"),
   "the folded constant object: a map, read-only at run time");
  (("compiler.go", "compiler.compileQueryUpdate", "code-const", "xs"),
   "a constant path built by toIndices: only read by setpath");
  (("compiler.go", "compiler.compileCallInternal", "code-const-any", "c.codes[j+2].v"),
   "copies the operand of an existing constant instruction (inlining of a one-instruction argument)");
  (("compiler.go", "compiler.compileCallInternal", "code-const-any", "fn"),
   "the [3]any describing a native call, not a JSON value");
  (("compiler.go", "compiler.compileCallInternal", "code-const-any", "fn"),
   "the [3]any describing a native call, not a JSON value");
  (("compiler.go", "compiler.compileImport", "code-const-any", "vals"),
   "data of an imported JSON file (from the module loader): stored into a variable, never an opappend target");
  (("compiler.go", "compiler.compileImport", "code-const-any", "vals"),
   "data of an imported JSON file (from the module loader): stored into a variable, never an opappend target");
  (("compiler.go", "compiler.compileIndex", "code-const-any", "k"),
   "a constant index (string or number)");
  (("compiler.go", "compiler.compileTerm", "code-const-any", "toNumber(e.Number)"),
   "a number constant");
  (("compiler.go", "compiler.compileUnary", "code-const-any", "v"),
   "a number constant (folded sign)");
  (("func.go", "allocator.makeArray", "make-cap", "make([]any, l, max(l, c))"),
   "storage of the reduction's allocator: registered as owned, grown in place only by updateArrayIndex of the same reduction (C02)");
  (("operator.go", "funcOpSub", "make-cap", "make([]any, 0, len(l))"),
   "local result of array subtraction, filled by append before it is returned; never a constant")
].

Definition site_eqb (a b : site) : bool :=
  match a, b with
  | (f1, g1, k1, e1), (f2, g2, k2, e2) => String.eqb f1 f2 && String.eqb g1 g2 && String.eqb k1 k2 && String.eqb e1 e2
  end.
(* remove one occurrence *)
Fixpoint remove1 (x : site) (l : list site) : option (list site) :=
  match l with
  | [] => None
  | y :: r => if site_eqb x y then Some r else match remove1 x r with Some r' => Some (y :: r') | None => None end
  end.
(* multiset difference a - b *)
Fixpoint minus (a b : list site) : list site :=
  match a with
  | [] => []
  | x :: r => match remove1 x b with Some b' => minus r b' | None => x :: minus r b end
  end.
Definition sites_new (gen : list site) : list site := minus gen (map fst reviewed).
Definition sites_gone (gen : list site) : list site := minus (map fst reviewed) gen.
Definition sites_ok (gen : list site) : bool :=
  match sites_new gen, sites_gone gen with [], [] => true | _, _ => false end.
