(* C05 — model of the gojq natives that build, share or write JSON containers (definitions only).
   Each definition mirrors the Go code named in its comment (read in /repo at the time of writing;
   the write/iteration sites of those functions are enumerated on every run by tools/go2coq/mapsites
   and compared with the reviewed list in Sites.v).

   [grow] stands for Go's growslice policy (runtime, outside /repo): new capacity for an append that
   needs [n] elements when the old capacity is [c]. *)
From Coq Require Import List NArith ZArith Bool Arith Lia.
From Verif Require Import c05.Heap.
Import ListNotations.
Open Scope nat_scope.

Section Natives.
Variable grow : nat -> nat -> nat.

(* []any{} — zero capacity, no backing array (the address of a zero-length slice is never read) *)
Definition empty_arr : val := VArr 0 0 0 0.

(* the visible elements of a slice *)
Definition elems (v : val) : prog (list val) :=
  match v with
  | VArr a off len cap =>
      if len =? 0 then Ret [] else
      Get a (fun c => match c with CArr xs => Ret (window off len xs) | _ => Fail end)
  | _ => Fail
  end.

(* make([]any, n) filled with xs: len = cap = n *)
Definition mk_arr (xs : list val) : prog val :=
  NewCell (CArr xs) (fun a => Ret (VArr a 0 (length xs) (length xs))).
Definition mk_obj (m : list (key * val)) : prog val :=
  NewCell (CMap m) (fun a => Ret (VObj a)).

(* Go's append(v, xs...): writes IN PLACE into the backing array when the capacity suffices (this is
   the write beyond len that makes sharing a backing array dangerous), otherwise copies into a fresh,
   larger array.  Appending nothing returns v itself. *)
Definition go_append (v : val) (xs : list val) : prog val :=
  match v with
  | VArr a off len cap =>
      let n := length xs in
      if n =? 0 then Ret v
      else if len + n <=? cap then
        Get a (fun c => match c with
                        | CArr cells => Put a (CArr (splice cells (off + len) xs)) (Ret (VArr a off (len + n) cap))
                        | _ => Fail
                        end)
      else
        old <- elems v ;;
        let c' := Nat.max (grow cap (len + n)) (len + n) in
        NewCell (CArr (old ++ xs ++ repeat VNull (c' - (len + n)))) (fun a' => Ret (VArr a' 0 (len + n) c'))
  | _ => Fail
  end.

(* execute.go opappend: env.values[i] = append(env.values[i].([]any), env.pop()) *)
Definition op_append (reg x : val) : prog val := go_append reg [x].

(* compiler.go compileArray + execute.go: `[q]` = push []any{}; store r; fork; q; opappend r; backtrack;
   load r — the accumulator starts as the zero-capacity constant and receives every output of q *)
Fixpoint arr_construct_from (acc : val) (xs : list val) : prog val :=
  match xs with
  | [] => Ret acc
  | x :: r => acc' <- op_append acc x ;; arr_construct_from acc' r
  end.
Definition arr_construct (xs : list val) : prog val := arr_construct_from empty_arr xs.

(* execute.go opobject: pairs are popped last-first into a fresh map; an existing key is kept, so the
   LAST occurrence in source order wins *)
Definition op_object (kvs : list (key * val)) : prog val :=
  mk_obj (fold_right (fun kv m => match map_get (fst kv) m with Some _ => m | None => map_set (fst kv) (snd kv) m end) [] kvs).

(* operator.go funcOpAdd (container cases; numbers and strings for completeness of `add`) *)
Definition op_add (l r : val) : prog val :=
  match l, r with
  | VNull, _ => Ret r
  | _, VNull => Ret l
  | VNum a, VNum b => Ret (VNum (a + b))
  | VStr a, VStr b => Ret (VStr (a ++ b))
  | VArr _ _ ll _, VArr _ _ lr _ =>
      if ll =? 0 then Ret r                 (* the SAME container: sharing, not a copy *)
      else if lr =? 0 then Ret l
      else le <- elems l ;; re <- elems r ;; mk_arr (le ++ re)
  | VObj a, VObj b =>
      Get a (fun ca => Get b (fun cb =>
        match ca, cb with
        | CMap ma, CMap mb =>
            match ma, mb with
            | [], _ => Ret r
            | _, [] => Ret l
            | _, _ => mk_obj (map_copy (map_copy [] ma) mb)
            end
        | _, _ => Fail
        end))
  | _, _ => Fail
  end.

(* operator.go funcOpMul on objects = deepMergeObjects: fresh map at every merged level, values of
   untouched keys are shared with the operands *)
Fixpoint deep_merge (fuel : nat) (a b : addr) : prog val :=
  match fuel with
  | O => Fail
  | S f =>
      Get a (fun ca => Get b (fun cb =>
        match ca, cb with
        | CMap ma, CMap mb =>
            (fix loop (kvs : list (key * val)) (m : list (key * val)) : prog val :=
               match kvs with
               | [] => mk_obj m
               | (k, v) :: r =>
                   match map_get k m, v with
                   | Some (VObj x), VObj y => w <- deep_merge f x y ;; loop r (map_set k w m)
                   | _, _ => loop r (map_set k v m)
                   end
               end) mb (map_copy [] ma)
        | _, _ => Fail
        end))
  end.

(* func.go values *)
Definition values (v : val) : prog (list val) :=
  match v with
  | VArr _ _ _ _ => elems v
  | VObj a => Get a (fun c => match c with CMap m => Ret (map snd m) | _ => Fail end)
  | _ => Fail
  end.

(* func.go add: the accumulator is a fresh copy of the first array (make+copy) / first object
   (maps.Clone); later arrays are APPENDED IN PLACE into it, later objects maps.Copy'd into it *)
Inductive acc := ANil | AStr (s : list N) | AArr (v : val) | AObj (a : addr) | AOther (v : val).

Definition add_step (ac : acc) (x : val) : prog acc :=
  match x with
  | VNull => Ret ac
  | _ =>
      match ac, x with
      | ANil, VStr s => Ret (AStr s)
      | AStr w, VStr s => Ret (AStr (w ++ s))
      | ANil, VArr _ _ _ _ => xs <- elems x ;; v <- mk_arr xs ;; Ret (AArr v)
      | AArr w, VArr _ _ _ _ => xs <- elems x ;; v <- go_append w xs ;; Ret (AArr v)
      | ANil, VObj b =>
          Get b (fun c => match c with
                          | CMap m => NewCell (CMap (map_copy [] m)) (fun a => Ret (AObj a))
                          | _ => Fail end)
      | AObj a, VObj b =>
          Get b (fun cb => match cb with
            | CMap mb => Get a (fun ca => match ca with
                | CMap ma => Put a (CMap (map_copy ma mb)) (Ret (AObj a))
                | _ => Fail end)
            | _ => Fail end)
      | ANil, _ => Ret (AOther x)
      | AOther (VNum a), VNum b => Ret (AOther (VNum (a + b)))
      | _, _ => Fail
      end
  end.
Fixpoint add_loop (ac : acc) (xs : list val) : prog acc :=
  match xs with
  | [] => Ret ac
  | x :: r => ac' <- add_step ac x ;; add_loop ac' r
  end.
Definition acc_val (ac : acc) : val :=
  match ac with ANil => VNull | AStr s => VStr s | AArr v => v | AObj a => VObj a | AOther v => v end.
Definition func_add (v : val) : prog val :=
  vs <- values v ;; ac <- add_loop ANil vs ;; Ret (acc_val ac).

(* ---- comparison (compare.go) on abstract values, for the sort family ---- *)
Definition type_index (v : jv) : nat :=
  match v with
  | JNull => 0 | JBool false => 1 | JBool true => 2 | JNum _ => 3 | JStr _ => 4 | JArr _ => 5 | JObj _ => 6
  | JEmpty => 7 | JBad => 8
  end.
Fixpoint keys_cmp (a b : list key) : comparison :=
  match a, b with
  | [], [] => Eq | [], _ => Lt | _, [] => Gt
  | x :: a', y :: b' => match key_cmp x y with Eq => keys_cmp a' b' | c => c end
  end.
Fixpoint jcmp (a b : jv) {struct a} : comparison :=
  match a, b with
  | JNum x, JNum y => Z.compare x y
  | JStr x, JStr y => key_cmp x y
  | JArr la, JArr lb =>
      (fix go (la lb : list jv) {struct la} : comparison :=
         match la, lb with
         | [], [] => Eq | [], _ => Lt | _, [] => Gt
         | x :: la', y :: lb' => match jcmp x y with Eq => go la' lb' | c => c end
         end) la lb
  | JObj la, JObj lb =>
      match keys_cmp (map fst la) (map fst lb) with
      | Eq => (fix go (la lb : list (key * jv)) {struct la} : comparison :=
                 match la, lb with
                 | (_, x) :: la', (_, y) :: lb' => match jcmp x y with Eq => go la' lb' | c => c end
                 | _, _ => Eq
                 end) la lb
      | c => c
      end
  | _, _ => Nat.compare (type_index a) (type_index b)
  end.

(* the JSON value of a heap value, computed by reading the heap (fuel bounds the nesting depth) *)
Fixpoint absp (n : nat) (v : val) : prog jv :=
  match n with
  | O => Fail
  | S n =>
      match v with
      | VNull => Ret JNull | VBool b => Ret (JBool b) | VNum z => Ret (JNum z) | VStr s => Ret (JStr s)
      | VEmpty => Ret JEmpty
      | VArr a off len cap =>
          if len =? 0 then Ret (JArr []) else
          Get a (fun c => match c with
            | CArr xs =>
                l <- (fix mm (l : list val) : prog (list jv) :=
                        match l with [] => Ret [] | x :: r => y <- absp n x ;; ys <- mm r ;; Ret (y :: ys) end)
                       (window off len xs) ;;
                Ret (JArr l)
            | _ => Fail end)
      | VObj a =>
          Get a (fun c => match c with
            | CMap kvs =>
                l <- (fix mm (l : list (key * val)) : prog (list (key * jv)) :=
                        match l with [] => Ret [] | (k, x) :: r => y <- absp n x ;; ys <- mm r ;; Ret ((k, y) :: ys) end)
                       kvs ;;
                Ret (JObj l)
            | _ => Fail end)
      end
  end.
Fixpoint absp_list (n : nat) (l : list val) : prog (list jv) :=
  match l with [] => Ret [] | x :: r => y <- absp n x ;; ys <- absp_list n r ;; Ret (y :: ys) end.

Definition depth_fuel : nat := 64.

(* sort.SliceStable(items, Compare(key_i, key_j) < 0): stable insertion sort *)
Fixpoint insert_item (x : val * jv) (l : list (val * jv)) : list (val * jv) :=
  match l with
  | [] => [x]
  | y :: r => match jcmp (snd x) (snd y) with Lt => x :: l | _ => y :: insert_item x r end
  end.
Definition sort_items (l : list (val * jv)) : list (val * jv) := fold_left (fun acc x => insert_item x acc) l [].

(* func.go sortItems: both must be arrays of the same length; the items are a FRESH slice of pointers,
   nothing is sorted in place *)
Definition sorted_items (v x : val) : prog (list (val * jv)) :=
  match v, x with
  | VArr _ _ _ _, VArr _ _ _ _ =>
      vs <- elems v ;; xs <- elems x ;;
      if length vs =? length xs then ks <- absp_list depth_fuel xs ;; Ret (sort_items (combine vs ks)) else Fail
  | _, _ => Fail
  end.
(* func.go sortBy / funcSort / funcSortBy: rs := make([]any, len(items)) *)
Definition sort_by (v x : val) : prog val := items <- sorted_items v x ;; mk_arr (map fst items).
Definition func_sort (v : val) : prog val := sort_by v v.

(* func.go uniqueBy: rs := []any{} then append — fresh *)
Fixpoint uniq (l : list (val * jv)) (last : option jv) : list val :=
  match l with
  | [] => []
  | (v, k) :: r =>
      match last with
      | Some k0 => match jcmp k0 k with Eq => uniq r last | _ => v :: uniq r (Some k) end
      | None => v :: uniq r (Some k)
      end
  end.
Definition unique_by (v x : val) : prog val := items <- sorted_items v x ;; arr_construct (uniq items None).

(* func.go minMaxBy: returns the element itself (shared) *)
Fixpoint min_max (isMin : bool) (l : list (val * jv)) (best : val * jv) : val :=
  match l with
  | [] => fst best
  | y :: r =>
      let gt := match jcmp (snd best) (snd y) with Gt => true | _ => false end in
      if Bool.eqb gt isMin then min_max isMin r y else min_max isMin r best
  end.
Definition min_max_by (isMin : bool) (v x : val) : prog val :=
  match v, x with
  | VArr _ _ _ _, VArr _ _ _ _ =>
      vs <- elems v ;; xs <- elems x ;;
      if length vs =? length xs then
        ks <- absp_list depth_fuel xs ;;
        match combine vs ks with [] => Ret VNull | b :: r => Ret (min_max isMin r b) end
      else Fail
  | _, _ => Fail
  end.

(* func.go funcGroupBy: rs = append(rs, []any{value}) for a new key, otherwise
   rs[len(rs)-1] = append(rs[len(rs)-1].([]any), value): an in-place append into the last group *)
Fixpoint group_loop (items : list (val * jv)) (rs cur : val) (last : option jv) : prog val :=
  match items with
  | [] => Ret rs
  | (v, k) :: r =>
      let same := match last with Some k0 => match jcmp k0 k with Eq => true | _ => false end | None => false end in
      if same then
        cur' <- go_append cur [v] ;;
        match rs with
        | VArr a off len cap =>
            Get a (fun c => match c with
              | CArr cells => Put a (CArr (set_nth (off + len - 1) cur' cells)) (group_loop r rs cur' last)
              | _ => Fail end)
        | _ => Fail
        end
      else
        g <- mk_arr [v] ;; rs' <- go_append rs [g] ;; group_loop r rs' g (Some k)
  end.
Definition group_by (v x : val) : prog val := items <- sorted_items v x ;; group_loop items empty_arr empty_arr None.

(* func.go funcReverse: ws := make([]any, len(vs)) *)
Definition func_reverse (v : val) : prog val :=
  match v with VArr _ _ _ _ => vs <- elems v ;; mk_arr (rev vs) | _ => Fail end.

(* func.go funcFlatten / flatten: xs starts as []any{} and is appended to *)
Fixpoint flatten_go (fuel : nat) (xs : val) (vs : list val) (depth : Z) : prog val :=
  match fuel with
  | O => Fail
  | S f =>
      (fix loop (vs : list val) (xs : val) : prog val :=
         match vs with
         | [] => Ret xs
         | v :: r =>
             match v with
             | VArr _ _ _ _ =>
                 if (depth =? 0)%Z then xs' <- go_append xs [v] ;; loop r xs'
                 else sub <- elems v ;; xs' <- flatten_go f xs sub (depth - 1)%Z ;; loop r xs'
             | _ => xs' <- go_append xs [v] ;; loop r xs'
             end
         end) vs xs
  end.
(* depth None = no argument (-1: never reaches 0) *)
Definition func_flatten (v : val) (depth : option Z) : prog val :=
  vs <- values v ;;
  match depth with
  | None => flatten_go depth_fuel empty_arr vs (-1)%Z
  | Some d => if (d <? 0)%Z then Fail else flatten_go depth_fuel empty_arr vs d
  end.

(* func.go slice: vs[start:end] — shares the backing array (read-only for every native except append) *)
Definition clamp (i mn mx : Z) : Z :=
  let i := if (i <? 0)%Z then (i + mx)%Z else i in
  if (i <? mn)%Z then mn else if (i <? mx)%Z then i else mx.
Definition func_slice (v e s : val) : prog val :=
  match v with
  | VNull => Ret VNull
  | VArr a off len cap =>
      match (match s with VNull => Some 0%Z | VNum i => Some (clamp i 0 (Z.of_nat len)) | _ => None end) with
      | None => Fail
      | Some st =>
          match (match e with VNull => Some (Z.of_nat len) | VNum i => Some (clamp i st (Z.of_nat len)) | _ => None end) with
          | None => Fail
          | Some en => Ret (VArr a (off + Z.to_nat st) (Z.to_nat en - Z.to_nat st) (cap - Z.to_nat st))
          end
      end
  | _ => Fail
  end.

(* func.go funcTranspose: fresh rows *)
Fixpoint nth_or_null (l : list val) (i : nat) : val := match nth_error l i with Some v => v | None => VNull end.
Fixpoint rows_of (vss : list val) : prog (list (list val)) :=
  match vss with
  | [] => Ret []
  | v :: r => match v with VArr _ _ _ _ => xs <- elems v ;; rs <- rows_of r ;; Ret (xs :: rs) | _ => Fail end
  end.
Fixpoint mk_rows (rows : list (list val)) (l : nat) (i : nat) : prog (list val) :=
  match l with
  | O => Ret []
  | S l' => row <- mk_arr (map (fun r => nth_or_null r i) rows) ;; rest <- mk_rows rows l' (S i) ;; Ret (row :: rest)
  end.
Definition func_transpose (v : val) : prog val :=
  match v with
  | VArr _ _ _ _ =>
      vss <- elems v ;;
      match vss with
      | [] => Ret empty_arr
      | _ => rows <- rows_of vss ;;
             let l := fold_left Nat.max (map (@length val) rows) 0 in
             outs <- mk_rows rows l 0 ;; mk_arr outs
      end
  | _ => Fail
  end.

(* ---- delpaths, restricted to paths of one step (the allocator-level model of multi-step updates
   belongs to C02); [alloc] is the allocator: the addresses created by this reduction ---- *)
Definition allocated (alloc : list addr) (v : val) : bool :=
  match v with
  | VObj a => existsb (Nat.eqb a) alloc
  | VArr a off _ _ => existsb (Nat.eqb a) alloc && (off =? 0)
  | _ => false
  end.

(* func.go update / updateObject / updateArrayIndex with n = struct{}{} and a path of length 1 *)
Definition upd1 (u p : val) (alloc : list addr) : prog (val * list addr) :=
  match p, u with
  | VStr _, VNull => Ret (VNull, alloc)
  | VStr k, VObj a =>
      Get a (fun c => match c with
        | CMap m =>
            match map_get k m with
            | None => Ret (u, alloc)
            | Some _ =>
                if allocated alloc u then Put a (CMap (map_set k VEmpty m)) (Ret (u, alloc))
                else NewCell (CMap (map_set k VEmpty (map_copy [] m))) (fun a' => Ret (VObj a', a' :: alloc))
            end
        | _ => Fail end)
  | VStr _, VEmpty => Ret (u, alloc)
  | VNum _, VNull => Ret (VNull, alloc)
  | VNum i, VArr a off len cap =>
      let j := clamp i (-1) (Z.of_nat len) in
      if (j <? 0)%Z then Ret (u, alloc)
      else if (j <? Z.of_nat len)%Z then
        let j := Z.to_nat j in
        Get a (fun c => match c with
          | CArr cells =>
              if allocated alloc u then Put a (CArr (set_nth (off + j) VEmpty cells)) (Ret (u, alloc))
              else let c' := Nat.max len cap in
                   NewCell (CArr (set_nth j VEmpty (window off len cells) ++ repeat VNull (c' - len)))
                           (fun a' => Ret (VArr a' 0 len c', a' :: alloc))
          | _ => Fail end)
      else Ret (u, alloc)
  | VNum _, VEmpty => Ret (u, alloc)
  | _, _ => Fail
  end.

(* func.go deleteEmpty.  [owned_only] selects the variant that is in /repo:
     false — the function walks the WHOLE value and re-assigns every element (v[k] = deleteEmpty(w),
             v[j] = deleteEmpty(w)), also in containers that were never copied by the update;
     true  — the repaired function returns at once on a container the allocator does not own.
   The two loops take the recursive call as a parameter. *)
(* for k, w := range v { if w == struct{}{} { delete(v, k) } else { v[k] = deleteEmpty(w) } } *)
Fixpoint de_obj_loop (rec : val -> prog val) (a : addr) (v : val) (ks : list key) : prog val :=
  match ks with
  | [] => Ret v
  | k :: r =>
      Get a (fun c => match c with
        | CMap m =>
            match map_get k m with
            | Some VEmpty => Put a (CMap (map_del k m)) (de_obj_loop rec a v r)
            | Some w =>
                w' <- rec w ;;
                Get a (fun c => match c with
                  | CMap m => Put a (CMap (map_set k w' m)) (de_obj_loop rec a v r)
                  | _ => Fail end)
            | None => de_obj_loop rec a v r
            end
        | _ => Fail end)
  end.
(* for _, w := range v { if w != struct{}{} { v[j] = deleteEmpty(w); j++ } }
   for i := j; i < len(v); i++ { v[i] = nil }; return v[:j]        (n = elements still to visit) *)
Fixpoint de_arr_loop (rec : val -> prog val) (a off len cap : nat) (n i j : nat) : prog val :=
  match n with
  | O =>
      if j <? len then
        Get a (fun c => match c with
          | CArr cells => Put a (CArr (splice cells (off + j) (repeat VNull (len - j)))) (Ret (VArr a off j cap))
          | _ => Fail end)
      else Ret (VArr a off j cap)
  | S n' =>
      Get a (fun c => match c with
        | CArr cells =>
            match nth_error cells (off + i) with
            | Some VEmpty => de_arr_loop rec a off len cap n' (S i) j
            | Some w =>
                w' <- rec w ;;
                Get a (fun c => match c with
                  | CArr cells => Put a (CArr (set_nth (off + j) w' cells)) (de_arr_loop rec a off len cap n' (S i) (S j))
                  | _ => Fail end)
            | None => Fail
            end
        | _ => Fail end)
  end.
Fixpoint delete_empty (owned_only : bool) (alloc : list addr) (fuel : nat) (v : val) : prog val :=
  match fuel with
  | O => Fail
  | S f =>
      match v with
      | VEmpty => Ret VNull
      | VObj a =>
          if owned_only && negb (allocated alloc v) then Ret v else
          Get a (fun c => match c with
            | CMap m0 => de_obj_loop (delete_empty owned_only alloc f) a v (map fst m0)
            | _ => Fail end)
      | VArr a off len cap =>
          if owned_only && negb (allocated alloc v) then Ret v else
          de_arr_loop (delete_empty owned_only alloc f) a off len cap len 0 0
      | _ => Ret v
      end
  end.

Fixpoint upd_all (u : val) (ps : list val) (alloc : list addr) : prog (val * list addr) :=
  match ps with
  | [] => Ret (u, alloc)
  | p :: r => ua <- upd1 u p alloc ;; upd_all (fst ua) r (snd ua)
  end.
(* func.go delpaths (funcDelpaths passes a fresh allocator) *)
Definition delpaths1 (owned_only : bool) (v : val) (ps : list val) : prog val :=
  match ps with
  | [] => Ret v
  | _ => ua <- upd_all v ps [] ;; delete_empty owned_only (snd ua) depth_fuel (fst ua)
  end.

End Natives.
