(* C05/C06 — a small heap model of gojq's JSON containers (definitions only).

   A heap is a list of cells indexed by address; a cell is the backing array of some slices or a Go map.
   Values refer to containers by address: a slice is (address, offset, length, capacity) — several slices
   can share one backing array, and an in-place append writes beyond [length] into the shared array.
   Model natives are programs of a free monad over three heap operations (allocate, read, overwrite a
   cell).  The interpreter LOGS every overwrite (write set [wr]) and every allocation ([al]): every model
   native therefore returns its result, the new heap, the addresses it wrote and the addresses it
   allocated.  Allocation only ever appends to the heap. *)
From Coq Require Import List NArith ZArith Bool Arith Lia.
Import ListNotations.

Definition addr := nat.
Definition key := list N.          (* a Go string: bytes *)

Inductive val :=
| VNull | VBool (b : bool) | VNum (z : Z) | VStr (s : list N)
| VArr (a : addr) (off len cap : nat)    (* []any: backing array a, elements [off, off+len), capacity window [off, off+cap) *)
| VObj (a : addr)                        (* map[string]any *)
| VEmpty.                                (* the struct{}{} marker delpaths writes before deleteEmpty sweeps *)

Inductive cell :=
| CArr (xs : list val)                   (* a backing array; its size never changes *)
| CMap (kvs : list (key * val)).         (* a map: association list sorted by key, keys unique *)

Definition heap := list cell.

(* ---- keys and sorted association lists ---- *)
Fixpoint key_cmp (a b : key) : comparison :=
  match a, b with
  | [], [] => Eq
  | [], _ => Lt
  | _, [] => Gt
  | x :: a', y :: b' => match N.compare x y with Eq => key_cmp a' b' | c => c end
  end.
Definition key_eqb (a b : key) : bool := match key_cmp a b with Eq => true | _ => false end.

Fixpoint map_get {V} (k : key) (m : list (key * V)) : option V :=
  match m with
  | [] => None
  | (k', v) :: r => if key_eqb k k' then Some v else map_get k r
  end.
(* v[k] = x: an existing entry is overwritten in place, a new key is inserted in key order *)
Fixpoint map_repl {V} (k : key) (v : V) (m : list (key * V)) : list (key * V) :=
  match m with
  | [] => []
  | (k', v') :: r => if key_eqb k k' then (k', v) :: r else (k', v') :: map_repl k v r
  end.
Fixpoint map_ins {V} (k : key) (v : V) (m : list (key * V)) : list (key * V) :=
  match m with
  | [] => [(k, v)]
  | (k', v') :: r => match key_cmp k k' with
                     | Gt => (k', v') :: map_ins k v r
                     | _ => (k, v) :: m
                     end
  end.
Definition map_set {V} (k : key) (v : V) (m : list (key * V)) : list (key * V) :=
  match map_get k m with Some _ => map_repl k v m | None => map_ins k v m end.
Fixpoint map_del {V} (k : key) (m : list (key * V)) : list (key * V) :=
  match m with
  | [] => []
  | (k', v') :: r => if key_eqb k k' then r else (k', v') :: map_del k r
  end.
(* maps.Copy(dst, src) *)
Definition map_copy {V} (dst src : list (key * V)) : list (key * V) :=
  fold_left (fun m kv => map_set (fst kv) (snd kv) m) src dst.

(* ---- list helpers ---- *)
Fixpoint set_nth {A} (n : nat) (x : A) (l : list A) : list A :=
  match l, n with
  | [], _ => []
  | _ :: r, O => x :: r
  | y :: r, S n' => y :: set_nth n' x r
  end.
(* overwrite l[i .. i+|xs|) with xs (truncated at the end of l) *)
Fixpoint splice {A} (l : list A) (i : nat) (xs : list A) : list A :=
  match xs with
  | [] => l
  | x :: r => splice (set_nth i x l) (S i) r
  end.
Definition window {A} (off len : nat) (l : list A) : list A := firstn len (skipn off l).

(* ---- state, programs, interpreter ---- *)
Record st := mkst { hp : heap; wr : list addr; al : list addr }.

Inductive prog (A : Type) : Type :=
| Ret (a : A)
| Fail                                              (* a jq error (type error ...) or a malformed heap *)
| NewCell (c : cell) (k : addr -> prog A)           (* make(...) / map or slice literal *)
| Get (a : addr) (k : cell -> prog A)               (* read a container *)
| Put (a : addr) (c : cell) (k : prog A).           (* v[i] = x, v[k] = x, delete(v, k), append in place *)
Arguments Ret {A} a.
Arguments Fail {A}.
Arguments NewCell {A} c k.
Arguments Get {A} a k.
Arguments Put {A} a c k.

Fixpoint bind {A B} (p : prog A) (f : A -> prog B) : prog B :=
  match p with
  | Ret a => f a
  | Fail => Fail
  | NewCell c k => NewCell c (fun a => bind (k a) f)
  | Get a k => Get a (fun c => bind (k c) f)
  | Put a c k => Put a c (bind k f)
  end.
Notation "x <- p ;; q" := (bind p (fun x => q)) (at level 61, p at next level, right associativity).

Fixpoint run {A} (p : prog A) (s : st) : option (A * st) :=
  match p with
  | Ret a => Some (a, s)
  | Fail => None
  | NewCell c k => run (k (length (hp s))) (mkst (hp s ++ [c]) (wr s) (length (hp s) :: al s))
  | Get a k => match nth_error (hp s) a with Some c => run (k c) s | None => None end
  | Put a c k => if a <? length (hp s) then run k (mkst (set_nth a c (hp s)) (a :: wr s) (al s)) else None
  end.

(* a call starts with an empty write log; [owned] are the addresses the caller hands over as owned by
   the call (the allocator of an update, an accumulator): they count as allocated by the call *)
Definition start (h : heap) (owned : list addr) : st := mkst h [] owned.

(* THE discipline: everything written so far was allocated by (or handed over to) this call *)
Definition safe (s : st) : Prop := forall x, In x (wr s) -> In x (al s).
Definition safeb (s : st) : bool := forallb (fun x => existsb (Nat.eqb x) (al s)) (wr s).

(* ---- abstraction: the JSON value a heap value stands for ---- *)
Inductive jv :=
| JNull | JBool (b : bool) | JNum (z : Z) | JStr (s : list N)
| JArr (l : list jv) | JObj (l : list (key * jv)) | JEmpty | JBad.

Fixpoint abs (n : nat) (h : heap) (v : val) : jv :=
  match n with
  | O => JBad
  | S n =>
      match v with
      | VNull => JNull | VBool b => JBool b | VNum z => JNum z | VStr s => JStr s | VEmpty => JEmpty
      | VArr a off len cap =>
          if len =? 0 then JArr [] else
          match nth_error h a with
          | Some (CArr xs) => JArr (map (abs n h) (window off len xs))
          | _ => JBad
          end
      | VObj a =>
          match nth_error h a with
          | Some (CMap kvs) => JObj (map (fun kv => (fst kv, abs n h (snd kv))) kvs)
          | _ => JBad
          end
      end
  end.

(* ---- regions: which addresses a value / a cell mentions ---- *)
Definition vaddr (v : val) : option addr :=
  match v with
  | VArr a _ len _ => if len =? 0 then None else Some a
  | VObj a => Some a
  | _ => None
  end.
Definition vin (R : addr -> Prop) (v : val) : Prop := match vaddr v with Some a => R a | None => True end.
Definition cell_vals (c : cell) : list val := match c with CArr xs => xs | CMap kvs => map snd kvs end.
(* R is closed in h: cells of R only mention containers of R *)
Definition closed (R : addr -> Prop) (h : heap) : Prop :=
  forall a c, R a -> nth_error h a = Some c -> Forall (vin R) (cell_vals c).
Definition agree (R : addr -> Prop) (h h' : heap) : Prop :=
  forall a, R a -> nth_error h' a = nth_error h a.
Definition below (n : nat) : addr -> Prop := fun a => a < n.
