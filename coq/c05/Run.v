(* C05 correspondence: one harness line -> verdict.  Line form (harness/c05/nat.go):
     (nat <name> (heap <cell>...) (args <arg>...) <res> (post <cell>...))
   cell: (arr v...) | (map (<hexkey> v)...)          the containers the arguments are made of; cell k
                                                      only mentions cells < k
   v:    null true false (i z) (s hex) (r a off len) (m a)     (r ...) = slice of backing array a,
                                                      capacity up to the end of a; (m a) = map a
   arg:  v | (p v) one-step path (delpaths) | none
   res:  err | the implementation's result with its SHARING SIGNATURE: containers that are (part of) an
         argument container print as (r a off len) / (m a) (found by pointer), fresh ones as
         (na v...) / (no (k v)...); zero-length arrays always print as (na)
   post: the argument cells after the call, same syntax.
   Verdict: ok | (bad value <expected>) | (bad sharing <expected>) | (bad post <k>) | (bad err <expected>).
   Also: (sites) -> the sites of GenMapSites that are not reviewed / reviewed sites that disappeared. *)
From Coq Require Import List ZArith NArith Bool String Arith.
From Verif Require Import common.Sexp c05.Heap c05.Natives c05.Sites gen.GenMapSites.
Import ListNotations.
Open Scope nat_scope.
Local Notation length := List.length.

Definition grow_model (c n : nat) : nat := Nat.max n (2 * c).

(* ---- decoding ---- *)
Definition dec_nat (e : sexp) : option nat := match e with Atom a => option_map N.to_nat (parse_N a) | _ => None end.
Definition dec_val (e : sexp) : option val :=
  match e with
  | Atom _ => if atom_is "null" e then Some VNull else if atom_is "true" e then Some (VBool true)
              else if atom_is "false" e then Some (VBool false) else None
  | SList [t] => if atom_is "na" t then Some (VArr 0 0 0 0) else None
  | SList [t; Atom x] =>
      if atom_is "i" t then option_map VNum (parse_Z x)
      else if atom_is "s" t then option_map VStr (parse_hexs x)
      else if atom_is "m" t then option_map (fun n => VObj (N.to_nat n)) (parse_N x)
      else None
  | SList [t; a; o; l] =>
      if atom_is "r" t then
        match dec_nat a, dec_nat o, dec_nat l with
        | Some a, Some o, Some l => Some (VArr a o l 0)      (* capacity fixed up below *)
        | _, _, _ => None
        end
      else None
  | _ => None
  end.
Fixpoint dec_vals (l : list sexp) : option (list val) :=
  match l with
  | [] => Some []
  | e :: r => match dec_val e, dec_vals r with Some v, Some vs => Some (v :: vs) | _, _ => None end
  end.
Fixpoint dec_kvs (l : list sexp) : option (list (key * val)) :=
  match l with
  | [] => Some []
  | SList [Atom k; e] :: r =>
      match parse_hexs k, dec_val e, dec_kvs r with
      | Some k, Some v, Some m => Some (map_set k v m)
      | _, _, _ => None
      end
  | _ => None
  end.
Definition dec_cell (e : sexp) : option cell :=
  match e with
  | SList (t :: r) =>
      if atom_is "arr" t then option_map CArr (dec_vals r)
      else if atom_is "map" t then option_map CMap (dec_kvs r)
      else None
  | _ => None
  end.
Fixpoint dec_cells (l : list sexp) : option (list cell) :=
  match l with
  | [] => Some []
  | e :: r => match dec_cell e, dec_cells r with Some c, Some cs => Some (c :: cs) | _, _ => None end
  end.
(* capacities: a slice (r a off len) extends to the end of backing array a *)
Definition size_of (h : heap) (a : addr) : nat := match nth_error h a with Some (CArr xs) => length xs | _ => 0 end.
Definition fix_val (sizes : addr -> nat) (v : val) : val :=
  match v with VArr a off len _ => VArr a off len (sizes a - off) | _ => v end.
Definition fix_cell (sizes : addr -> nat) (c : cell) : cell :=
  match c with
  | CArr xs => CArr (map (fix_val sizes) xs)
  | CMap m => CMap (map (fun kv => (fst kv, fix_val sizes (snd kv))) m)
  end.
Definition fix_heap (h : heap) : heap := map (fix_cell (size_of h)) h.

Inductive arg := AV (v : val) | AP (v : val) | ANone.
Definition dec_arg (sizes : addr -> nat) (e : sexp) : option arg :=
  if atom_is "none" e then Some ANone else
  match e with
  | SList [t; x] => if atom_is "p" t then option_map AP (dec_val x) else option_map (fun v => AV (fix_val sizes v)) (dec_val e)
  | _ => option_map (fun v => AV (fix_val sizes v)) (dec_val e)
  end.
Fixpoint dec_args (sizes : addr -> nat) (l : list sexp) : option (list arg) :=
  match l with
  | [] => Some []
  | e :: r => match dec_arg sizes e, dec_args sizes r with Some a, Some l' => Some (a :: l') | _, _ => None end
  end.

(* ---- printing with the sharing signature relative to the first n0 cells ---- *)
Definition pnat (n : nat) : sexp := Atom (print_N (N.of_nat n)).
Fixpoint desc (fuel : nat) (n0 : nat) (h : heap) (v : val) : sexp :=
  match fuel with
  | O => A "toodeep"
  | S f =>
      match v with
      | VNull => A "null" | VBool true => A "true" | VBool false => A "false"
      | VNum z => SList [A "i"; Atom (print_Z z)]
      | VStr s => SList [A "s"; Atom (print_hexs s)]
      | VEmpty => A "marker"
      | VArr a off len cap =>
          if len =? 0 then SList [A "na"]
          else if a <? n0 then SList [A "r"; pnat a; pnat off; pnat len]
          else match nth_error h a with
               | Some (CArr xs) => SList (A "na" :: map (desc f n0 h) (window off len xs))
               | _ => A "dangling"
               end
      | VObj a =>
          if a <? n0 then SList [A "m"; pnat a]
          else match nth_error h a with
               | Some (CMap m) => SList (A "no" :: map (fun kv => SList [Atom (print_hexs (fst kv)); desc f n0 h (snd kv)]) m)
               | _ => A "dangling"
               end
      end
  end.
Definition desc_cell (n0 : nat) (h : heap) (c : cell) : sexp :=
  match c with
  | CArr xs => SList (A "arr" :: map (desc 64 n0 h) xs)
  | CMap m => SList (A "map" :: map (fun kv => SList [Atom (print_hexs (fst kv)); desc 64 n0 h (snd kv)]) m)
  end.

(* a description with every reference expanded (sharing forgotten): the plain value *)
Fixpoint sexp_eqb (a b : sexp) : bool :=
  match a, b with
  | Atom x, Atom y => list_N_eqb x y
  | SList la, SList lb =>
      (fix go (la lb : list sexp) : bool :=
         match la, lb with
         | [], [] => true
         | x :: la', y :: lb' => sexp_eqb x y && go la' lb'
         | _, _ => false
         end) la lb
  | _, _ => false
  end.
Fixpoint expand (fuel : nat) (h : heap) (d : sexp) : sexp :=
  match fuel with
  | O => A "toodeep"
  | S f =>
      match d with
      | SList (t :: r) =>
          if atom_is "r" t then
            match r with
            | [a; o; l] =>
                match dec_nat a, dec_nat o, dec_nat l with
                | Some a, Some o, Some l =>
                    match nth_error h a with
                    | Some (CArr xs) => SList (A "na" :: map (fun v => expand f h (desc 1 (length h) h v)) (window o l xs))
                    | _ => A "dangling"
                    end
                | _, _, _ => A "undecodable"
                end
            | _ => A "undecodable"
            end
          else if atom_is "m" t then
            match r with
            | [a] =>
                match dec_nat a with
                | Some a =>
                    match nth_error h a with
                    | Some (CMap m) => SList (A "no" :: map (fun kv => SList [Atom (print_hexs (fst kv)); expand f h (desc 1 (length h) h (snd kv))]) m)
                    | _ => A "dangling"
                    end
                | None => A "undecodable"
                end
            | _ => A "undecodable"
            end
          else if atom_is "na" t then SList (t :: map (expand f h) r)
          else if atom_is "no" t then
            SList (t :: map (fun kv => match kv with SList [k; v] => SList [k; expand f h v] | _ => kv end) r)
          else d
      | _ => d
      end
  end.

(* ---- dispatch ---- *)
Definition owned_variant : bool := delete_empty_owned.

Definition native (name : sexp) (args : list arg) : option (prog val) :=
  let is s := atom_is s name in
  if is "delpaths" then
    match args with
    | AV a :: ps =>
        match fold_right (fun x acc => match x, acc with AP p, Some l => Some (p :: l) | _, _ => None end) (Some []) ps with
        | Some ps => Some (delpaths1 owned_variant a ps)
        | None => None
        end
    | _ => None
    end
  else
  match args with
  | [AV a] =>
      if is "add" then Some (func_add grow_model a)
      else if is "sort" then Some (func_sort a)
      else if is "unique" then Some (unique_by grow_model a a)
      else if is "reverse" then Some (func_reverse a)
      else if is "flatten" then Some (func_flatten grow_model a None)
      else if is "transpose" then Some (func_transpose a)
      else if is "construct" then Some (bind (values a) (arr_construct grow_model))
      else if is "min" then Some (min_max_by true a a)
      else if is "max" then Some (min_max_by false a a)
      else None
  | [AV a; AV b] =>
      if is "opadd" then Some (op_add a b)
      else if is "opmul" then Some (match a, b with VObj x, VObj y => deep_merge 64 x y | _, _ => Fail end)
      else if is "sort_by" then Some (sort_by a b)
      else if is "group_by" then Some (group_by grow_model a b)
      else if is "unique_by" then Some (unique_by grow_model a b)
      else if is "min_by" then Some (min_max_by true a b)
      else if is "max_by" then Some (min_max_by false a b)
      else if is "flatten" then Some (match b with VNum d => func_flatten grow_model a (Some d) | _ => Fail end)
      else if is "object" then Some (op_object [(codes "a", a); (codes "b", b)])
      else if is "object_dup" then Some (op_object [(codes "a", a); (codes "a", b)])
      else None
  | [AV a; AV e; AV s] => if is "slice" then Some (func_slice a e s) else None
  | _ => None
  end.

Definition judge (name : sexp) (hs args res post : list sexp) (res1 : sexp) : sexp :=
  match dec_cells hs with
  | None => A "undecodable-heap"
  | Some h0 =>
      let h := fix_heap h0 in
      let n0 := length h in
      match dec_args (size_of h) args with
      | None => A "undecodable-args"
      | Some args =>
          match native name args with
          | None => A "unknown-native"
          | Some p =>
              match run p (start h []) with
              | None => if atom_is "err" res1 then A "ok" else SList [A "bad"; A "err"; A "err"]
              | Some (r, s') =>
                  let exp := desc 64 n0 (hp s') r in
                  (* arguments untouched, hidden capacity included *)
                  let posts := map (desc_cell n0 (hp s')) (firstn n0 (hp s')) in
                  let badpost := (fix go (k : nat) (a b : list sexp) : option nat :=
                                    match a, b with
                                    | [], [] => None
                                    | x :: a', y :: b' => if sexp_eqb x y then go (S k) a' b' else Some k
                                    | _, _ => Some k
                                    end) 0 posts post in
                  match badpost with
                  | Some k => SList [A "bad"; A "post"; pnat k]
                  | None =>
                      if atom_is "err" res1 then SList [A "bad"; A "value"; exp]
                      else if sexp_eqb exp res1 then A "ok"
                      else if sexp_eqb (expand 64 h exp) (expand 64 h res1) then SList [A "bad"; A "sharing"; exp]
                      else SList [A "bad"; A "value"; exp]
                  end
              end
          end
      end
  end.

Definition str_sexp (s : string) : sexp := Atom (print_hexs (codes s)).
Definition site_sexp (x : string * string * string * string) : sexp :=
  match x with (f, fn, k, e) => SList [str_sexp f; str_sexp fn; str_sexp k; str_sexp e] end.

Definition run_sexp (e : sexp) : sexp :=
  match e with
  | SList [k; name; SList (th :: hs); SList (ta :: args); res; SList (tp :: post)] =>
      if atom_is "nat" k then judge name hs args [res] post res else A "undecodable"
  | SList [k] =>
      if atom_is "sites" k then
        SList [SList (A "unreviewed" :: map site_sexp (sites_new gen_sites));
               SList (A "vanished" :: map site_sexp (sites_gone gen_sites))]
      else A "undecodable"
  | _ => A "undecodable"
  end.

Definition run_line (l : list N) : list N :=
  match parse l with
  | Some e => print (run_sexp e)
  | None => codes "unparsable"
  end.
