(* C05 — deleteEmpty / delpaths (one-step paths).
   1. the function as it is in /repo today (owned_only = false) WRITES into containers the call does
      not own: concrete witnesses [de_witness], [delpaths_witness] (D6 of DESIGN.md);
   2. all those writes store the value that was already there: every cell of a marker-free region that
      is closed under reachability is left exactly as it was ([de_cells_unchanged],
      [delpaths1_cells_unchanged]);
   3. the repaired function (owned_only = true: return at once on a container the allocator does not
      own) keeps the discipline ([delpaths1_owned_psafe]). *)
From Coq Require Import List NArith ZArith Bool Arith Lia.
From Verif Require Import c05.Heap c05.HeapProofs c05.Natives c05.NativeProofs.
Import ListNotations.
Open Scope nat_scope.

(* ---- 1. witnesses ---- *)
(* {a: <marker>, b: [1]}: the array [1] is cell 0 (not owned), the object is cell 1 (owned: it is the
   copy made by the update).  deleteEmpty writes cell 0, with the value it already had. *)
Definition wit_heap : heap := [CArr [VNum 1]; CMap [([97%N], VEmpty); ([98%N], VArr 0 0 1 1)]].

Lemma de_witness :
  exists r s', run (delete_empty false [1] 8 (VObj 1)) (start wit_heap [1]) = Some (r, s')
               /\ In 0 (wr s') /\ ~ In 0 (al s') /\ safeb s' = false
               /\ nth_error (hp s') 0 = nth_error wit_heap 0.
Proof.
  vm_compute. do 2 eexists. split; [reflexivity|].
  split; [cbn; auto|]. split; [cbn; intuition discriminate|]. split; reflexivity.
Qed.
Lemma de_witness_repaired :
  exists r s', run (delete_empty true [1] 8 (VObj 1)) (start wit_heap [1]) = Some (r, s') /\ wr s' = [1; 1] /\ safeb s' = true.
Proof. vm_compute. do 2 eexists. split; [reflexivity|]. split; reflexivity. Qed.

(* the whole native: {"a": 1, "b": [1]} | delpaths([["a"]]) with NOTHING owned at the start: the input
   object (cell 1) is copied, the untouched sibling array (cell 0) is written *)
Definition wit_heap2 : heap := [CArr [VNum 1]; CMap [([97%N], VNum 1); ([98%N], VArr 0 0 1 1)]].
Lemma delpaths_witness :
  exists r s', run (delpaths1 false (VObj 1) [VStr [97%N]]) (start wit_heap2 []) = Some (r, s')
               /\ In 0 (wr s') /\ ~ In 0 (al s') /\ safeb s' = false
               /\ firstn 2 (hp s') = wit_heap2.
Proof.
  vm_compute. do 2 eexists. split; [reflexivity|].
  split; [cbn; auto|]. split; [cbn; intuition discriminate|]. split; reflexivity.
Qed.
Lemma delpaths_witness_repaired :
  exists r s', run (delpaths1 true (VObj 1) [VStr [97%N]]) (start wit_heap2 []) = Some (r, s') /\ safeb s' = true.
Proof. vm_compute. do 2 eexists. split; reflexivity. Qed.

(* ---- 3. the repaired variant keeps the discipline ---- *)
Definition inv (alloc : list addr) (s : st) : Prop := safe s /\ forall x, In x alloc -> owned x s.
Definition pres (alloc : list addr) {A} (p : prog A) : Prop :=
  forall s r s', inv alloc s -> run p s = Some (r, s') -> inv alloc s'.

Lemma pres_ret : forall alloc A (a : A), pres alloc (Ret a).
Proof. intros alloc A a s r s' I E. cbn in E; inversion E; subst; auto. Qed.
Lemma pres_fail : forall alloc A, pres alloc (@Fail A).
Proof. intros alloc A s r s' I E. discriminate. Qed.
Lemma pres_bind : forall alloc A B (p : prog A) (f : A -> prog B), pres alloc p -> (forall a, pres alloc (f a)) -> pres alloc (bind p f).
Proof.
  intros alloc A B p f Hp Hf s r s' I E. rewrite run_bind in E. destruct (run p s) as [[a s1]|] eqn:E1; try discriminate.
  eapply Hf; [|eauto]. eapply Hp; eauto.
Qed.
Lemma pres_get : forall alloc A a (k : cell -> prog A), (forall c, pres alloc (k c)) -> pres alloc (Get a k).
Proof. intros alloc A a k H s r s' I E. cbn [run] in E. destruct (nth_error (hp s) a); try discriminate. eapply H; eauto. Qed.
Lemma pres_put : forall alloc A a c (k : prog A), In a alloc -> pres alloc k -> pres alloc (Put a c k).
Proof.
  intros alloc A a c k Ha H s r s' [S O] E. cbn [run] in E. destruct (a <? length (hp s)); try discriminate.
  eapply H; [|eauto]. split. apply safe_put; auto. intros x Hx. apply O in Hx. exact Hx.
Qed.

Lemma de_obj_loop_pres : forall alloc rec a v ks, In a alloc -> (forall w, pres alloc (rec w)) -> pres alloc (de_obj_loop rec a v ks).
Proof.
  intros alloc rec a v ks Ha Hr. induction ks; cbn [de_obj_loop]. apply pres_ret.
  apply pres_get. intros c. destruct c; try apply pres_fail.
  destruct (map_get a0 kvs) as [w|]; auto.
  assert (pres alloc (w' <- rec w ;; Get a (fun c => match c with CMap m => Put a (CMap (map_set a0 w' m)) (de_obj_loop rec a v ks) | CArr _ => Fail end))) as G.
  { apply pres_bind; auto. intros w'. apply pres_get. intros c. destruct c; try apply pres_fail. apply pres_put; auto. }
  destruct w; auto. apply pres_put; auto.
Qed.

Lemma de_arr_loop_pres : forall alloc rec a off len cap n i j, In a alloc -> (forall w, pres alloc (rec w)) ->
  pres alloc (de_arr_loop rec a off len cap n i j).
Proof.
  intros alloc rec a off len cap n i j Ha Hr. revert i j. induction n; intros i j; cbn [de_arr_loop].
  - destruct (j <? len); try apply pres_ret. apply pres_get. intros c. destruct c; try apply pres_fail.
    apply pres_put; auto. apply pres_ret.
  - apply pres_get. intros c. destruct c; try apply pres_fail.
    destruct (nth_error xs (off + i)) as [w|]; try apply pres_fail.
    assert (pres alloc (w' <- rec w ;; Get a (fun c => match c with CArr cells => Put a (CArr (set_nth (off + j) w' cells)) (de_arr_loop rec a off len cap n (S i) (S j)) | CMap _ => Fail end))) as G.
    { apply pres_bind; auto. intros w'. apply pres_get. intros c. destruct c; try apply pres_fail. apply pres_put; auto. }
    destruct w; auto.
Qed.

Lemma allocated_in : forall alloc v, allocated alloc v = true -> exists a, In a alloc /\
  (v = VObj a \/ exists o l c, v = VArr a o l c).
Proof.
  intros alloc v A. destruct v; cbn in A; try discriminate.
  - apply andb_prop in A. destruct A as [A _]. apply existsb_exists in A. destruct A as [x [Hx E]].
    apply Nat.eqb_eq in E. subst x. exists a. split; auto. right. eauto.
  - apply existsb_exists in A. destruct A as [x [Hx E]]. apply Nat.eqb_eq in E. subst x. exists a. auto.
Qed.

Lemma delete_empty_owned_pres : forall alloc fuel v, pres alloc (delete_empty true alloc fuel v).
Proof.
  intros alloc. induction fuel; intros v; cbn [delete_empty]. apply pres_fail.
  destruct v; try apply pres_ret.
  - destruct (allocated alloc (VArr a off len cap)) eqn:Al; cbn [andb negb]; try apply pres_ret.
    apply allocated_in in Al. destruct Al as (a' & Ha & [E|(o & l & c & E)]); inversion E; subst.
    apply de_arr_loop_pres; auto.
  - destruct (allocated alloc (VObj a)) eqn:Al; cbn [andb negb]; try apply pres_ret.
    apply allocated_in in Al. destruct Al as (a' & Ha & [E|(o & l & c & E)]); inversion E; subst.
    apply pres_get. intros c. destruct c; try apply pres_fail. apply de_obj_loop_pres; auto.
Qed.

(* update of one step with the marker: writes only into containers of the allocator, registers what it creates *)
Lemma upd1_spec : forall u p alloc s r s',
  inv alloc s -> run (upd1 u p alloc) s = Some (r, s') -> inv (snd r) s'.
Proof.
  intros u p alloc s r s' [S O] E. unfold upd1 in E.
  destruct p; try discriminate.
  - (* number *)
    destruct u; try discriminate; try (cbn in E; inversion E; subst; split; auto; fail).
    destruct (clamp z (-1) (Z.of_nat len) <? 0)%Z; try (cbn in E; inversion E; subst; split; auto; fail).
    destruct (clamp z (-1) (Z.of_nat len) <? Z.of_nat len)%Z; try (cbn in E; inversion E; subst; split; auto; fail).
    cbn [run] in E. destruct (nth_error (hp s) a) as [[cells|]|]; try discriminate.
    destruct (allocated alloc (VArr a off len cap)) eqn:Al.
    + cbn [run] in E. destruct (a <? length (hp s)); try discriminate. cbn [run] in E. inversion E; subst; clear E.
      apply allocated_in in Al. destruct Al as (a' & Ha & [E|(o & l & c & E)]); inversion E; subst.
      split. apply safe_put; auto. cbn. auto.
    + cbn [run] in E. inversion E; subst; clear E. cbn [snd].
      split. apply safe_new; auto. intros x [Hx|Hx]. subst. left; auto. right. apply O; auto.
  - (* string *)
    destruct u; try discriminate; try (cbn in E; inversion E; subst; split; auto; fail).
    cbn [run] in E. destruct (nth_error (hp s) a) as [[|m]|]; try discriminate.
    destruct (map_get s0 m); try (cbn in E; inversion E; subst; split; auto; fail).
    destruct (allocated alloc (VObj a)) eqn:Al.
    + cbn [run] in E. destruct (a <? length (hp s)); try discriminate. cbn [run] in E. inversion E; subst; clear E.
      apply allocated_in in Al. destruct Al as (a' & Ha & [E|(o & l & c & E)]); inversion E; subst.
      split. apply safe_put; auto. cbn. auto.
    + cbn [run] in E. inversion E; subst; clear E. cbn [snd].
      split. apply safe_new; auto. intros x [Hx|Hx]. subst. left; auto. right. apply O; auto.
Qed.

Lemma upd_all_spec : forall ps u alloc s r s',
  inv alloc s -> run (upd_all u ps alloc) s = Some (r, s') -> inv (snd r) s'.
Proof.
  induction ps; intros u alloc s r s' I E; cbn [upd_all] in E.
  - cbn in E; inversion E; subst; auto.
  - rewrite run_bind in E. destruct (run (upd1 u a alloc) s) as [[ua s1]|] eqn:E1; try discriminate.
    apply upd1_spec in E1; auto. eapply IHps; eauto.
Qed.

Theorem delpaths1_owned_psafe : forall v ps, psafe (delpaths1 true v ps).
Proof.
  intros v ps s r s' S E. unfold delpaths1 in E. destruct ps. cbn in E; inversion E; subst; auto.
  rewrite run_bind in E. destruct (run (upd_all v (v0 :: ps) []) s) as [[ua s1]|] eqn:E1; try discriminate.
  apply upd_all_spec in E1. 2:{ split; auto. intros x []. }
  apply delete_empty_owned_pres in E; auto. apply E.
Qed.

(* the updates alone keep the discipline in both variants *)
Lemma upd_all_psafe : forall ps u, psafe (upd_all u ps []).
Proof. intros ps u s r s' S E. apply upd_all_spec in E. apply E. split; auto. intros x []. Qed.

(* ---- 2. value level: the current deleteEmpty rewrites what was there ---- *)
Section Clean.
Variable R : addr -> Prop.

(* cells of R hold no marker and only mention containers of R *)
Definition clean (h : heap) : Prop :=
  forall a c, R a -> nth_error h a = Some c -> Forall (fun v => v <> VEmpty /\ vin R v) (cell_vals c).

Lemma clean_closed : forall h, clean h -> closed R h.
Proof.
  intros h C a c Ra E. specialize (C a c Ra E). rewrite Forall_forall in *. intros x Hx. apply C; auto.
Qed.
Lemma agree_refl : forall h, agree R h h.
Proof. intros h a _. auto. Qed.
Lemma agree_trans : forall h1 h2 h3, agree R h1 h2 -> agree R h2 h3 -> agree R h1 h3.
Proof. intros h1 h2 h3 A B a Ra. rewrite B, A; auto. Qed.
Lemma clean_agree : forall h h', clean h -> agree R h h' -> clean h'.
Proof. intros h h' C A a c Ra E. rewrite A in E; auto. eapply C; eauto. Qed.

Lemma map_get_in : forall (k : key) (m : list (key * val)) w, map_get k m = Some w -> In w (map snd m).
Proof.
  induction m as [|[k' v'] m IH]; cbn; intros w E; try discriminate.
  destruct (key_eqb k k'). inversion E; auto. right; auto.
Qed.
Lemma map_repl_same : forall (k : key) (m : list (key * val)) w, map_get k m = Some w -> map_repl k w m = m.
Proof.
  induction m as [|[k' v'] m IH]; cbn; intros w E; auto.
  destruct (key_eqb k k'). inversion E; auto. f_equal; auto.
Qed.
Lemma map_set_same : forall (k : key) (m : list (key * val)) w, map_get k m = Some w -> map_set k w m = m.
Proof. intros k m w E. unfold map_set. rewrite E. apply map_repl_same; auto. Qed.

Lemma agree_put_other : forall h a c, ~ R a -> agree R h (set_nth a c h).
Proof. intros h a c N x Rx. apply nth_error_set_nth_other. intro; subst; auto. Qed.

Definition good (rec : val -> prog val) : Prop :=
  forall w s r s', clean (hp s) -> run (rec w) s = Some (r, s') ->
    agree R (hp s) (hp s') /\ (w <> VEmpty -> vin R w -> r = w).

Lemma agree_put : forall s a c,
  (R a -> nth_error (hp s) a = Some c) -> a < length (hp s) -> agree R (hp s) (set_nth a c (hp s)).
Proof.
  intros s a c H L x Rx. destruct (Nat.eq_dec x a).
  - subst. rewrite nth_error_set_nth_same; auto. symmetry; auto.
  - apply nth_error_set_nth_other; auto.
Qed.

Lemma de_obj_loop_clean : forall rec a v, good rec -> forall ks s r s',
  clean (hp s) -> run (de_obj_loop rec a v ks) s = Some (r, s') -> agree R (hp s) (hp s') /\ r = v.
Proof.
  intros rec a v G. induction ks; intros s r s' C E; cbn [de_obj_loop] in E.
  - cbn in E; inversion E; subst. split; auto using agree_refl.
  - cbn [run] in E. destruct (nth_error (hp s) a) as [[|m]|] eqn:Ea; try discriminate.
    destruct (map_get a0 m) as [w|] eqn:Eg; [|apply IHks; auto].
    assert (R a -> w <> VEmpty /\ vin R w) as Hw.
    { intros Ra. specialize (C a _ Ra Ea). cbn in C. rewrite Forall_forall in C. apply C. eapply map_get_in; eauto. }
    assert (run (w' <- rec w ;; Get a (fun c => match c with CMap m => Put a (CMap (map_set a0 w' m)) (de_obj_loop rec a v ks) | CArr _ => Fail end)) s = Some (r, s')
            -> agree R (hp s) (hp s') /\ r = v) as Gen.
    { clear E. intros E. rewrite run_bind in E. destruct (run (rec w) s) as [[w' s1]|] eqn:E1; try discriminate.
      destruct (G _ _ _ _ C E1) as [A1 W1]. cbn [run] in E.
      destruct (nth_error (hp s1) a) as [[|m1]|] eqn:Ea1; try discriminate. cbn [run] in E.
      destruct (a <? length (hp s1)) eqn:La; try discriminate. apply Nat.ltb_lt in La.
      assert (agree R (hp s1) (set_nth a (CMap (map_set a0 w' m1)) (hp s1))) as A2.
      { apply agree_put; auto. intros Ra. destruct (Hw Ra) as [Hn Hv]. rewrite (W1 Hn Hv).
        rewrite (A1 a Ra) in Ea1. rewrite Ea in Ea1. inversion Ea1; subst. rewrite map_set_same; auto.
        rewrite (A1 a Ra). auto. }
      apply IHks in E. 2:{ cbn [hp]. eapply clean_agree; [|exact A2]. eapply clean_agree; eauto. }
      cbn [hp] in E. destruct E as [A3 Er]. split; auto. eapply agree_trans; [exact A1|]. eapply agree_trans; eauto. }
    destruct w; try (apply Gen; exact E).
    (* a marker entry: impossible inside R *)
    cbn [run] in E. destruct (a <? length (hp s)) eqn:La; try discriminate. apply Nat.ltb_lt in La.
    assert (agree R (hp s) (set_nth a (CMap (map_del a0 m)) (hp s))) as A2.
    { apply agree_put; auto. intros Ra. destruct (Hw Ra) as [Hn _]. congruence. }
    apply IHks in E. 2:{ cbn [hp]. eapply clean_agree; eauto. }
    cbn [hp] in E. destruct E as [A3 Er]. split; auto. eapply agree_trans; eauto.
Qed.

Lemma nth_error_in : forall A (l : list A) n x, nth_error l n = Some x -> In x l.
Proof. intros. eapply nth_error_In; eauto. Qed.

Lemma de_arr_loop_clean : forall rec a off len cap, good rec -> forall n i j s r s',
  clean (hp s) -> (R a -> i = j /\ i + n = len) ->
  run (de_arr_loop rec a off len cap n i j) s = Some (r, s') ->
  agree R (hp s) (hp s') /\ (R a \/ len = 0 -> i = j -> i + n = len -> r = VArr a off len cap).
Proof.
  intros rec a off len cap G. induction n; intros i j s r s' C Inv E; cbn [de_arr_loop] in E.
  - destruct (j <? len) eqn:Lj.
    + apply Nat.ltb_lt in Lj. cbn [run] in E. destruct (nth_error (hp s) a) as [[cells|]|] eqn:Ea; try discriminate.
      cbn [run] in E. destruct (a <? length (hp s)) eqn:La; try discriminate. apply Nat.ltb_lt in La.
      cbn [run] in E. inversion E; subst; clear E. cbn [hp]. split.
      * apply agree_put; auto. intros Ra. destruct (Inv Ra). lia.
      * intros H Hij Hn. destruct H as [Ra|H0]. destruct (Inv Ra). lia. lia.
    + apply Nat.ltb_ge in Lj. cbn in E. inversion E; subst. split; auto using agree_refl.
      intros H Hij Hn. f_equal. destruct H as [Ra|H0]; lia.
  - cbn [run] in E. destruct (nth_error (hp s) a) as [[cells|]|] eqn:Ea; try discriminate.
    destruct (nth_error cells (off + i)) as [w|] eqn:Ew; try discriminate.
    assert (R a -> w <> VEmpty /\ vin R w) as Hw.
    { intros Ra. specialize (C a _ Ra Ea). cbn in C. rewrite Forall_forall in C. apply C. eapply nth_error_in; eauto. }
    assert (run (w' <- rec w ;; Get a (fun c => match c with CArr cells => Put a (CArr (set_nth (off + j) w' cells)) (de_arr_loop rec a off len cap n (S i) (S j)) | CMap _ => Fail end)) s = Some (r, s')
            -> agree R (hp s) (hp s') /\ (R a \/ len = 0 -> i = j -> i + S n = len -> r = VArr a off len cap)) as Gen.
    { clear E. intros E. rewrite run_bind in E. destruct (run (rec w) s) as [[w' s1]|] eqn:E1; try discriminate.
      destruct (G _ _ _ _ C E1) as [A1 W1]. cbn [run] in E.
      destruct (nth_error (hp s1) a) as [[cells1|]|] eqn:Ea1; try discriminate. cbn [run] in E.
      destruct (a <? length (hp s1)) eqn:La; try discriminate. apply Nat.ltb_lt in La.
      assert (agree R (hp s1) (set_nth a (CArr (set_nth (off + j) w' cells1)) (hp s1))) as A2.
      { apply agree_put; auto. intros Ra. destruct (Hw Ra) as [Hn Hv]. rewrite (W1 Hn Hv).
        rewrite (A1 a Ra) in Ea1. rewrite Ea in Ea1. inversion Ea1; subst. destruct (Inv Ra) as [Hij _]. subst j.
        rewrite set_nth_same; auto. rewrite (A1 a Ra). auto. }
      apply IHn in E.
      2:{ cbn [hp]. eapply clean_agree; [|exact A2]. eapply clean_agree; eauto. }
      2:{ intros Ra. destruct (Inv Ra). lia. }
      cbn [hp] in E. destruct E as [A3 Er]. split.
      - eapply agree_trans; [exact A1|]. eapply agree_trans; eauto.
      - intros H Hij Hn. apply Er; auto; lia. }
    destruct w; try (apply Gen; exact E).
    (* a marker element: impossible inside R *)
    apply IHn in E; auto.
    + destruct E as [A Er]. split; auto. intros H Hij Hn. destruct H as [Ra|H0].
      destruct (Hw Ra) as [Hn' _]. congruence. lia.
    + intros Ra. destruct (Hw Ra) as [Hn' _]. congruence.
Qed.

Lemma delete_empty_good : forall alloc fuel, good (delete_empty false alloc fuel).
Proof.
  intros alloc. induction fuel; intros v s r s' C E; cbn [delete_empty] in E. discriminate.
  destruct v; try (cbn in E; inversion E; subst; split; auto using agree_refl; fail).
  - cbn [andb] in E.
    destruct (de_arr_loop_clean _ a off len cap IHfuel len 0 0 s r s' C (fun _ => conj eq_refl eq_refl) E) as [A Er].
    split; auto. intros _ V. apply Er; auto. unfold vin, vaddr in V.
    destruct (len =? 0) eqn:L0. right. apply Nat.eqb_eq; auto. left; auto.
  - cbn [andb] in E. cbn [run] in E. destruct (nth_error (hp s) a) as [[|m0]|]; try discriminate.
    destruct (de_obj_loop_clean _ a (VObj a) IHfuel _ _ _ _ C E) as [A Er]. split; auto.
  - cbn in E; inversion E; subst. split; auto using agree_refl. intros H; congruence.
Qed.

(* every cell of R is EXACTLY what it was, although deleteEmpty wrote into it *)
Theorem de_cells_unchanged : forall alloc fuel v s r s',
  clean (hp s) -> run (delete_empty false alloc fuel v) s = Some (r, s') -> agree R (hp s) (hp s').
Proof. intros. eapply delete_empty_good; eauto. Qed.

End Clean.

(* the native: no cell that existed before the call changes, provided the arguments hold no marker
   (markers never leave delpaths) and are closed *)
Theorem delpaths1_cells_unchanged : forall v ps h r s',
  clean (below (length h)) h ->
  run (delpaths1 false v ps) (start h []) = Some (r, s') ->
  forall a, a < length h -> nth_error (hp s') a = nth_error h a.
Proof.
  intros v ps h r s' C E a La. unfold delpaths1 in E. destruct ps. cbn in E; inversion E; subst; auto.
  rewrite run_bind in E. destruct (run (upd_all v (v0 :: ps) []) (start h [])) as [[ua s1]|] eqn:E1; try discriminate.
  assert (safe s1) as S1. { eapply upd_all_psafe; eauto. intros x []. }
  assert (agree (below (length h)) h (hp s1)) as A1.
  { intros x Hx. eapply safe_unchanged; eauto. }
  apply de_cells_unchanged with (R := below (length h)) in E.
  - rewrite (E a La). apply A1; auto.
  - eapply clean_agree; eauto.
Qed.

Theorem delpaths1_values_unchanged : forall v ps h r s' n x,
  clean (below (length h)) h ->
  run (delpaths1 false v ps) (start h []) = Some (r, s') ->
  vin (below (length h)) x -> abs n (hp s') x = abs n h x.
Proof.
  intros. eapply abs_frame; eauto using clean_closed.
  intros a Ha. eapply delpaths1_cells_unchanged; eauto.
Qed.
