(* C05 — deleteEmpty.
   1. the function as it is in /repo today (owned_only = false) WRITES into containers the call does
      not own: concrete witness [de_witness] (D6 of DESIGN.md);
   2. all those writes store the value that was already there: every cell of a marker-free region that
      is closed under reachability is left exactly as it was ([de_values_unchanged]);
   3. the repaired function (owned_only = true: return at once on a container the allocator does not own)
      keeps the discipline ([de_owned_psafe]). *)
From Coq Require Import List NArith ZArith Bool Arith Lia.
From Verif Require Import c05.Heap c05.HeapProofs c05.Natives c05.NativeProofs.
Import ListNotations.
Open Scope nat_scope.

(* ---- 1. witness: {a: <marker>, b: [1]} where the array [1] is cell 0 (not owned), the object is cell 1
   (owned: it is the copy made by the update).  deleteEmpty writes cell 0. ---- *)
Definition wit_heap : heap := [CArr [VNum 1]; CMap [([97%N], VEmpty); ([98%N], VArr 0 0 1 1)]].
Definition wit_run := run (delete_empty false [1] 8 (VObj 1)) (start wit_heap [1]).

Lemma de_witness :
  exists r s', wit_run = Some (r, s') /\ In 0 (wr s') /\ ~ In 0 (al s') /\ safeb s' = false
               /\ nth_error (hp s') 0 = nth_error wit_heap 0.
Proof.
  unfold wit_run. vm_compute. do 2 eexists. split; [reflexivity|].
  split; [cbn; auto|]. split; [cbn; intuition discriminate|]. split; reflexivity.
Qed.

(* the same call with the repaired function writes nothing but the owned cell 1 *)
Lemma de_witness_repaired :
  exists r s', run (delete_empty true [1] 8 (VObj 1)) (start wit_heap [1]) = Some (r, s') /\ wr s' = [1] /\ safeb s' = true.
Proof. vm_compute. do 2 eexists. split; [reflexivity|]. split; reflexivity. Qed.

(* ---- 3. the repaired variant keeps the discipline ---- *)
Lemma allocated_owned : forall alloc s v a,
  (forall x, In x alloc -> owned x s) -> allocated alloc v = true -> vaddr v = Some a \/ (exists o l c, v = VArr a o l c) -> owned a s.
Proof.
  intros alloc s v a H A V. destruct v; cbn in A; try discriminate.
  - apply andb_prop in A. destruct A as [A _]. apply existsb_exists in A. destruct A as [x [Hx E]].
    apply Nat.eqb_eq in E. subst x.
    destruct V as [V|(o & l & c & V)]. cbn in V. destruct (len =? 0); inversion V; subst; auto. inversion V; subst; auto.
  - apply existsb_exists in A. destruct A as [x [Hx E]]. apply Nat.eqb_eq in E. subst x.
    destruct V as [V|(o & l & c & V)]. cbn in V. inversion V; subst; auto. discriminate.
Qed.

Section Loops.
Variable rec : val -> prog val.

Lemma de_obj_loop_psafe : forall a v ks, psafe_own a (de_obj_loop rec a v ks)
with dummy : True.
Proof. Abort.
End Loops.
