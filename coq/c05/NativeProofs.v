(* C05 — proofs about the model natives of Natives.v: every write goes to memory allocated by the call
   (or handed to it as its accumulator), for every native except the current deleteEmpty. *)
From Coq Require Import List NArith ZArith Bool Arith Lia.
From Verif Require Import c05.Heap c05.HeapProofs c05.Natives.
Import ListNotations.
Open Scope nat_scope.

(* a program that keeps the discipline whenever it is started in a state that keeps it *)
Definition psafe {A} (p : prog A) : Prop := forall s r s', safe s -> run p s = Some (r, s') -> safe s'.
(* a program that does not change the state at all *)
Definition ro {A} (p : prog A) : Prop := forall s r s', run p s = Some (r, s') -> s' = s.

Lemma psafe_ret : forall A (a : A), psafe (Ret a).
Proof. intros A a s r s' S E. cbn in E. inversion E; subst; auto. Qed.
Lemma psafe_fail : forall A, psafe (@Fail A).
Proof. intros A s r s' S E. discriminate. Qed.
Lemma psafe_bind : forall A B (p : prog A) (f : A -> prog B), psafe p -> (forall a, psafe (f a)) -> psafe (bind p f).
Proof.
  intros A B p f Hp Hf s r s' S E. rewrite run_bind in E. destruct (run p s) as [[a s1]|] eqn:E1; try discriminate.
  eapply Hf; [|eauto]. eapply Hp; eauto.
Qed.
Lemma psafe_new : forall A c (k : addr -> prog A), (forall a, psafe (k a)) -> psafe (NewCell c k).
Proof. intros A c k H s r s' S E. cbn [run] in E. eapply H; [|eauto]. apply safe_new; auto. Qed.
Lemma psafe_get : forall A a (k : cell -> prog A), (forall c, psafe (k c)) -> psafe (Get a k).
Proof. intros A a k H s r s' S E. cbn [run] in E. destruct (nth_error (hp s) a); try discriminate. eapply H; eauto. Qed.
Lemma ro_psafe : forall A (p : prog A), ro p -> psafe p.
Proof. intros A p H s r s' S E. apply H in E. subst; auto. Qed.

Lemma ro_ret : forall A (a : A), ro (Ret a).
Proof. intros A a s r s' E. cbn in E. inversion E; auto. Qed.
Lemma ro_fail : forall A, ro (@Fail A).
Proof. intros A s r s' E. discriminate. Qed.
Lemma ro_bind : forall A B (p : prog A) (f : A -> prog B), ro p -> (forall a, ro (f a)) -> ro (bind p f).
Proof.
  intros A B p f Hp Hf s r s' E. rewrite run_bind in E. destruct (run p s) as [[a s1]|] eqn:E1; try discriminate.
  apply Hp in E1. subst. eapply Hf; eauto.
Qed.
Lemma ro_get : forall A a (k : cell -> prog A), (forall c, ro (k c)) -> ro (Get a k).
Proof. intros A a k H s r s' E. cbn [run] in E. destruct (nth_error (hp s) a); try discriminate. eapply H; eauto. Qed.

Ltac ro_tac :=
  repeat first [ apply ro_ret | apply ro_fail | apply ro_bind | apply ro_get
               | match goal with |- forall _, _ => intro end
               | match goal with |- ro (match ?x with _ => _ end) => destruct x end
               | match goal with |- ro (if ?x then _ else _) => destruct x end ].
Ltac psafe_tac :=
  repeat first [ apply psafe_ret | apply psafe_fail | apply psafe_bind | apply psafe_get | apply psafe_new
               | match goal with |- forall _, _ => intro end
               | match goal with |- psafe (match ?x with _ => _ end) => destruct x end
               | match goal with |- psafe (if ?x then _ else _) => destruct x end ].

Section Proofs.
Variable grow : nat -> nat -> nat.

Lemma elems_ro : forall v, ro (elems v).
Proof. intros v. unfold elems. ro_tac. Qed.
Lemma values_ro : forall v, ro (values v).
Proof. intros v. unfold values. destruct v; try apply ro_fail. apply elems_ro. ro_tac. Qed.

Lemma absp_ro : forall n v, ro (absp n v).
Proof.
  induction n; intros v; cbn [absp]. apply ro_fail.
  destruct v; try apply ro_ret.
  - destruct (len =? 0). apply ro_ret. apply ro_get. intros c. destruct c; try apply ro_fail.
    apply ro_bind; [|intros; apply ro_ret].
    generalize (window off len xs). induction l; ro_tac; auto.
  - apply ro_get. intros c. destruct c; try apply ro_fail.
    apply ro_bind; [|intros; apply ro_ret].
    induction kvs as [|[k x] kvs IH]; ro_tac; auto.
Qed.
Lemma absp_list_ro : forall n l, ro (absp_list n l).
Proof. induction l; cbn [absp_list]; ro_tac; auto using absp_ro. Qed.

Lemma sorted_items_ro : forall v x, ro (sorted_items v x).
Proof.
  intros v x. unfold sorted_items. destruct v; try apply ro_fail. destruct x; try apply ro_fail.
  apply ro_bind. apply elems_ro. intros vs. apply ro_bind. apply elems_ro. intros xs.
  destruct (length vs =? length xs); try apply ro_fail. apply ro_bind. apply absp_list_ro. intros; apply ro_ret.
Qed.

(* ---- natives that only read and allocate ---- *)
Lemma mk_arr_psafe : forall xs, psafe (mk_arr xs).
Proof. intros; unfold mk_arr; psafe_tac. Qed.
Lemma mk_obj_psafe : forall m, psafe (mk_obj m).
Proof. intros; unfold mk_obj; psafe_tac. Qed.
Hint Resolve mk_arr_psafe mk_obj_psafe : psafe.

Lemma op_object_psafe : forall kvs, psafe (op_object kvs).
Proof. intros; apply mk_obj_psafe. Qed.

Lemma op_add_psafe : forall l r, psafe (op_add l r).
Proof.
  intros l r. unfold op_add.
  destruct l; destruct r; try apply psafe_ret; try apply psafe_fail.
  - destruct (len =? 0). apply psafe_ret. destruct (len0 =? 0). apply psafe_ret.
    apply psafe_bind. apply ro_psafe, elems_ro. intros. apply psafe_bind. apply ro_psafe, elems_ro. intros. apply mk_arr_psafe.
  - psafe_tac; try apply mk_obj_psafe.
Qed.

Lemma deep_merge_psafe : forall fuel a b, psafe (deep_merge fuel a b).
Proof.
  induction fuel; intros; cbn [deep_merge]. apply psafe_fail.
  apply psafe_get; intros ca. apply psafe_get; intros cb.
  destruct ca; try apply psafe_fail. destruct cb; try apply psafe_fail.
  generalize (map_copy [] kvs). induction kvs0 as [|[k v] r IH]; intros m.
  - apply mk_obj_psafe.
  - destruct (map_get k m) as [[]|]; try apply IH.
    destruct v; try apply IH. apply psafe_bind; auto; try (intros; apply IH).
Qed.

Lemma sort_by_psafe : forall v x, psafe (sort_by v x).
Proof. intros. unfold sort_by. apply psafe_bind. apply ro_psafe, sorted_items_ro. intros; apply mk_arr_psafe. Qed.
Lemma func_sort_psafe : forall v, psafe (func_sort v).
Proof. intros; apply sort_by_psafe. Qed.

Lemma min_max_by_psafe : forall b v x, psafe (min_max_by b v x).
Proof.
  intros. apply ro_psafe. unfold min_max_by. destruct v; try apply ro_fail. destruct x; try apply ro_fail.
  apply ro_bind. apply elems_ro. intros vs. apply ro_bind. apply elems_ro. intros xs.
  destruct (length vs =? length xs); try apply ro_fail. apply ro_bind. apply absp_list_ro. intros ks.
  destruct (combine vs ks); apply ro_ret.
Qed.

Lemma func_reverse_psafe : forall v, psafe (func_reverse v).
Proof.
  intros; unfold func_reverse. destruct v; try apply psafe_fail.
  apply psafe_bind. apply ro_psafe, elems_ro. intros; apply mk_arr_psafe.
Qed.

(* slicing does not touch the heap at all *)
Lemma func_slice_ro : forall v e s, ro (func_slice v e s).
Proof. intros. unfold func_slice. ro_tac. Qed.

Lemma rows_of_ro : forall vss, ro (rows_of vss).
Proof. induction vss; cbn [rows_of]. apply ro_ret. destruct a; try apply ro_fail. apply ro_bind. apply elems_ro. intros. apply ro_bind; auto. intros; apply ro_ret. Qed.
Lemma mk_rows_psafe : forall rows l i, psafe (mk_rows rows l i).
Proof. induction l; intros; cbn [mk_rows]. apply psafe_ret. apply psafe_bind. apply mk_arr_psafe. intros. apply psafe_bind; auto. intros; apply psafe_ret. Qed.
Lemma func_transpose_psafe : forall v, psafe (func_transpose v).
Proof.
  intros; unfold func_transpose. destruct v; try apply psafe_fail.
  apply psafe_bind. apply ro_psafe, elems_ro. intros vss. destruct vss. apply psafe_ret.
  apply psafe_bind. apply ro_psafe, rows_of_ro. intros. apply psafe_bind. apply mk_rows_psafe. intros; apply mk_arr_psafe.
Qed.

(* ---- accumulators: in-place writes into memory the call owns ---- *)
Definition acc_ok (s : st) (v : val) : Prop :=
  match v with VArr a _ _ cap => cap = 0 \/ owned a s | _ => False end.
Definition acc_owned (s : st) (v : val) : Prop :=
  match v with VArr a _ _ _ => owned a s | _ => False end.

Lemma acc_ok_frame : forall s s' v, incl (al s) (al s') -> acc_ok s v -> acc_ok s' v.
Proof. intros s s' v I. destruct v; cbn; auto. intros [H|H]; auto. right. apply I; auto. Qed.
Lemma acc_owned_frame : forall s s' v, incl (al s) (al s') -> acc_owned s v -> acc_owned s' v.
Proof. intros s s' v I. destruct v; cbn; auto. intros H. apply I; auto. Qed.
Lemma acc_owned_ok : forall s v, acc_owned s v -> acc_ok s v.
Proof. intros s v. destruct v; cbn; auto. Qed.

Lemma empty_arr_ok : forall s, acc_ok s empty_arr.
Proof. intros; cbn; auto. Qed.

(* the specification of Go's append on an accumulator the call owns (or the zero-capacity constant):
   the discipline is kept and the result is again such an accumulator *)
Lemma go_append_spec : forall v xs s r s',
  safe s -> acc_ok s v -> run (go_append grow v xs) s = Some (r, s') ->
  safe s' /\ acc_ok s' r /\ (xs <> [] -> acc_owned s' r) /\ incl (al s) (al s').
Proof.
  intros v xs s r s' S O E. unfold go_append in E. destruct v; try discriminate.
  destruct (length xs =? 0) eqn:N0.
  - cbn in E. inversion E; subst. split; [auto|split; [auto|split; [|apply incl_refl]]].
    intros H. destruct xs; [congruence|discriminate].
  - destruct (len + length xs <=? cap) eqn:Fit.
    + cbn [run] in E. destruct (nth_error (hp s) a) as [[cells|]|] eqn:Ea; try discriminate.
      cbn [run] in E. destruct (a <? length (hp s)) eqn:La; try discriminate. cbn [run] in E. inversion E; subst; clear E.
      assert (owned a s) as Oa.
      { cbn in O. destruct O as [O|O]; auto. apply Nat.leb_le in Fit. apply Nat.eqb_neq in N0. lia. }
      split; [apply safe_put; auto|split; [cbn; auto|split; [cbn; auto|cbn; apply incl_refl]]].
    + rewrite run_bind in E. destruct (run (elems (VArr a off len cap)) s) as [[old s1]|] eqn:E1; try discriminate.
      apply elems_ro in E1. subst s1. cbn [run] in E. inversion E; subst; clear E.
      split; [apply safe_new; auto|split; [cbn; right; left; auto|split; [intros _; cbn; left; auto|cbn; apply incl_tl, incl_refl]]].
Qed.

Lemma arr_construct_from_spec : forall xs acc s r s',
  safe s -> acc_ok s acc -> run (arr_construct_from grow acc xs) s = Some (r, s') ->
  safe s' /\ acc_ok s' r /\ incl (al s) (al s').
Proof.
  induction xs; intros acc s r s' S O E; cbn [arr_construct_from] in E.
  - cbn in E. inversion E; subst. auto using incl_refl.
  - rewrite run_bind in E. destruct (run (op_append grow acc a) s) as [[acc' s1]|] eqn:E1; try discriminate.
    apply go_append_spec in E1; auto. destruct E1 as (S1 & O1 & _ & I1).
    apply IHxs in E; auto. destruct E as (S2 & O2 & I2). eauto using incl_tran.
Qed.

Theorem arr_construct_psafe : forall xs, psafe (arr_construct grow xs).
Proof. intros xs s r s' S E. apply arr_construct_from_spec in E; auto using empty_arr_ok. tauto. Qed.

Lemma unique_by_psafe : forall v x, psafe (unique_by grow v x).
Proof. intros. unfold unique_by. apply psafe_bind. apply ro_psafe, sorted_items_ro. intros; apply arr_construct_psafe. Qed.

(* add *)
Definition accst_ok (s : st) (ac : acc) : Prop :=
  match ac with AArr v => acc_ok s v | AObj a => owned a s | _ => True end.

Lemma add_step_spec : forall ac x s r s',
  safe s -> accst_ok s ac -> run (add_step grow ac x) s = Some (r, s') -> safe s' /\ accst_ok s' r.
Proof.
  intros ac x s r s' S O E. unfold add_step in E.
  destruct x;
    try (destruct ac as [| | | |v0]; try destruct v0; cbn in E; try discriminate; inversion E; subst; cbn; auto; fail).
  - (* arr *) destruct ac as [| |v|b|v0]; try (cbn in E; discriminate); try (destruct v0; cbn in E; discriminate).
    + rewrite run_bind in E. destruct (run (elems (VArr a off len cap)) s) as [[xs s1]|] eqn:E1; try discriminate.
      apply elems_ro in E1; subst s1. rewrite run_bind in E. cbn [mk_arr run] in E. inversion E; subst; clear E.
      split. apply safe_new; auto. cbn. right; left; auto.
    + rewrite run_bind in E. destruct (run (elems (VArr a off len cap)) s) as [[xs s1]|] eqn:E1; try discriminate.
      apply elems_ro in E1; subst s1. rewrite run_bind in E.
      destruct (run (go_append grow v xs) s) as [[w s2]|] eqn:E2; try discriminate.
      apply go_append_spec in E2; auto. cbn in E; inversion E; subst. cbn. tauto.
  - (* obj *) destruct ac as [| |v|a0|v0]; try (cbn in E; discriminate); try (destruct v0; cbn in E; discriminate).
    + cbn [run] in E. destruct (nth_error (hp s) a) as [[|m]|]; try discriminate. cbn [run] in E. inversion E; subst; clear E.
      split. apply safe_new; auto. cbn. left; auto.
    + cbn [run] in E. destruct (nth_error (hp s) a) as [[|mb]|]; try discriminate. cbn [run] in E.
      destruct (nth_error (hp s) a0) as [[|ma]|]; try discriminate. cbn [run] in E.
      destruct (a0 <? length (hp s)); try discriminate. cbn [run] in E. inversion E; subst; clear E.
      split. apply safe_put; auto. cbn. auto.
Qed.

Lemma add_loop_spec : forall xs ac s r s',
  safe s -> accst_ok s ac -> run (add_loop grow ac xs) s = Some (r, s') -> safe s' /\ accst_ok s' r.
Proof.
  induction xs; intros ac s r s' S O E; cbn [add_loop] in E.
  - cbn in E; inversion E; subst; auto.
  - rewrite run_bind in E. destruct (run (add_step grow ac a) s) as [[ac' s1]|] eqn:E1; try discriminate.
    apply add_step_spec in E1; auto. destruct E1. eapply IHxs; eauto.
Qed.

Theorem func_add_psafe : forall v, psafe (func_add grow v).
Proof.
  intros v s r s' S E. unfold func_add in E. rewrite run_bind in E.
  destruct (run (values v) s) as [[vs s1]|] eqn:E1; try discriminate. apply values_ro in E1; subst s1.
  rewrite run_bind in E. destruct (run (add_loop grow ANil vs) s) as [[ac s2]|] eqn:E2; try discriminate.
  apply add_loop_spec in E2; cbn; auto. cbn in E; inversion E; subst; tauto.
Qed.

(* group_by *)
Lemma group_loop_spec : forall items rs cur last s r s',
  safe s -> acc_ok s rs -> acc_ok s cur -> (last <> None -> acc_owned s rs) ->
  run (group_loop grow items rs cur last) s = Some (r, s') -> safe s'.
Proof.
  induction items as [|[v k] items IH]; intros rs cur last s r s' S Ors Ocur Hl E; cbn [group_loop] in E.
  - cbn in E; inversion E; subst; auto.
  - destruct (match last with Some k0 => match jcmp k0 k with Eq => true | _ => false end | None => false end) eqn:Same.
    + assert (last <> None) as Hn by (destruct last; [discriminate|discriminate]).
      specialize (Hl Hn).
      rewrite run_bind in E. destruct (run (go_append grow cur [v]) s) as [[cur' s1]|] eqn:E1; try discriminate.
      apply go_append_spec in E1; auto. destruct E1 as (S1 & O1 & _ & I1).
      destruct rs; try discriminate. cbn [run] in E.
      destruct (nth_error (hp s1) a) as [[cells|]|]; try discriminate. cbn [run] in E.
      destruct (a <? length (hp s1)) eqn:La; try discriminate.
      cbn in Hl. assert (owned a s1) as Oa by (apply I1; auto).
      eapply IH; [| | | |exact E].
      * apply safe_put; auto.
      * cbn. right. auto.
      * eapply acc_ok_frame; [|exact O1]. cbn. apply incl_refl.
      * intros _. cbn. auto.
    + rewrite run_bind in E. cbn [mk_arr run] in E.
      set (s1 := mkst (hp s ++ [CArr [v]]) (wr s) (length (hp s) :: al s)) in *.
      assert (safe s1) as S1 by (apply safe_new; auto).
      rewrite run_bind in E.
      destruct (run (go_append grow rs [VArr (length (hp s)) 0 (length [v]) (length [v])]) s1) as [[rs' s2]|] eqn:E2; try discriminate.
      apply go_append_spec in E2; auto.
      2:{ eapply acc_ok_frame; [|exact Ors]. cbn. apply incl_tl, incl_refl. }
      destruct E2 as (S2 & O2 & Own2 & I2).
      eapply IH; [| | | |exact E]; auto.
      * cbn. right. apply I2. cbn. left; auto.
      * intros _. apply Own2. discriminate.
Qed.

Theorem group_by_psafe : forall v x, psafe (group_by grow v x).
Proof.
  intros v x s r s' S E. unfold group_by in E. rewrite run_bind in E.
  destruct (run (sorted_items v x) s) as [[items s1]|] eqn:E1; try discriminate. apply sorted_items_ro in E1; subst s1.
  eapply group_loop_spec; [| | | |exact E]; auto using empty_arr_ok. congruence.
Qed.

(* flatten *)
Lemma flatten_go_spec : forall fuel vs xs depth s r s',
  safe s -> acc_ok s xs -> run (flatten_go grow fuel xs vs depth) s = Some (r, s') ->
  safe s' /\ acc_ok s' r /\ incl (al s) (al s').
Proof.
  induction fuel; intros vs xs depth s r s' S O E. discriminate.
  cbn [flatten_go] in E. revert xs s S O E.
  induction vs as [|v vs IHvs]; intros xs s S O E.
  - cbn in E; inversion E; subst. auto using incl_refl.
  - assert (forall w, run (xs' <- go_append grow xs [w] ;;
                        (fix loop (vs : list val) (xs : val) : prog val :=
                           match vs with
                           | [] => Ret xs
                           | v :: r =>
                               match v with
                               | VArr _ _ _ _ =>
                                   if (depth =? 0)%Z then xs' <- go_append grow xs [v] ;; loop r xs'
                                   else sub <- elems v ;; xs' <- flatten_go grow fuel xs sub (depth - 1)%Z ;; loop r xs'
                               | _ => xs' <- go_append grow xs [v] ;; loop r xs'
                               end
                           end) vs xs') s = Some (r, s') -> safe s' /\ acc_ok s' r /\ incl (al s) (al s')) as App.
    { intros w E'. rewrite run_bind in E'. destruct (run (go_append grow xs [w]) s) as [[xs' s1]|] eqn:E1; try discriminate.
      apply go_append_spec in E1; auto. destruct E1 as (S1 & O1 & _ & I1).
      apply IHvs in E'; auto. destruct E' as (S2 & O2 & I2). eauto using incl_tran. }
    destruct v as [| | | |a off len cap| |]; try (eapply App; exact E).
    destruct (depth =? 0)%Z; try (eapply App; exact E).
    rewrite run_bind in E. destruct (run (elems (VArr a off len cap)) s) as [[sub s1]|] eqn:E1; try discriminate.
    apply elems_ro in E1; subst s1. rewrite run_bind in E.
    destruct (run (flatten_go grow fuel xs sub (depth - 1)%Z) s) as [[xs' s2]|] eqn:E2; try discriminate.
    apply IHfuel in E2; auto. destruct E2 as (S2 & O2 & I2).
    apply IHvs in E; auto. destruct E as (S3 & O3 & I3). eauto using incl_tran.
Qed.

Theorem func_flatten_psafe : forall v d, psafe (func_flatten grow v d).
Proof.
  intros v d s r s' S E. unfold func_flatten in E. rewrite run_bind in E.
  destruct (run (values v) s) as [[vs s1]|] eqn:E1; try discriminate. apply values_ro in E1; subst s1.
  destruct d as [d|].
  - destruct (d <? 0)%Z; try discriminate. apply flatten_go_spec in E; auto using empty_arr_ok. tauto.
  - apply flatten_go_spec in E; auto using empty_arr_ok. tauto.
Qed.

End Proofs.
