From Coq Require Import Extraction ExtrOcamlBasic.
From Verif Require Import c10.Run.
Extraction Language OCaml.
Extraction "c10model.ml" run_line.
