From Coq Require Import Extraction ExtrOcamlBasic.
From Verif Require Import c10.SpecRun.
Extraction Language OCaml.
Definition run_line := spec_line.
Extraction "c10spec.ml" run_line.
