From Coq Require Import Extraction ExtrOcamlBasic.
From Verif Require Import c11.Run.
Extraction Language OCaml.
Extraction "c11model.ml" run_line.
