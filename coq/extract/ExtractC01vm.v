From Coq Require Import Extraction ExtrOcamlBasic.
From Verif Require Import c01vm.Run.
Extraction Language OCaml.
Extraction "c01vmmodel.ml" run_line.
