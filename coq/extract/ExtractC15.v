From Coq Require Import Extraction ExtrOcamlBasic.
From Verif Require Import c15.Run.
Extraction Language OCaml.
Extraction "c15model.ml" run_line.
