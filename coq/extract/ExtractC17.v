From Coq Require Import Extraction ExtrOcamlBasic.
From Verif Require Import c17.Run.
Extraction Language OCaml.
Extraction "c17model.ml" run_line.
