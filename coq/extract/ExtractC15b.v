From Coq Require Import Extraction ExtrOcamlBasic.
From Verif Require Import c15.MainRun.
Extraction Language OCaml.
Extraction "c15bmodel.ml" run_line.
