From Coq Require Import Extraction ExtrOcamlBasic.
From Verif Require Import c13.Run.
Extraction Language OCaml.
Extraction "c13model.ml" run_line.
