From Coq Require Import Extraction ExtrOcamlBasic.
From Verif Require Import c18.Run.
Extraction Language OCaml.
Extraction "c18model.ml" run_line.
