From Coq Require Import Extraction ExtrOcamlBasic.
From Verif Require Import c07.Run.
Extraction Language OCaml.
Extraction "c07model.ml" run_line.
