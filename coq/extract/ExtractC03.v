From Coq Require Import Extraction ExtrOcamlBasic.
From Verif Require Import c03.Run.
Extraction Language OCaml.
Extraction "c03model.ml" run_line.
