From Coq Require Import Extraction ExtrOcamlBasic.
From Verif Require Import c16.Run.
Extraction Language OCaml.
Extraction "c16model.ml" run_line.
