From Coq Require Import Extraction ExtrOcamlBasic.
From Verif Require Import c09.Run.
Extraction Language OCaml.
Extraction "c09model.ml" run_line.
