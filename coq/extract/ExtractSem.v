From Coq Require Import Extraction ExtrOcamlBasic.
From Verif Require Import sem.Run.
Extraction Language OCaml.
Extraction "semmodel.ml" run_line.
