From Coq Require Import Extraction ExtrOcamlBasic.
From Verif Require Import c12.Run.
Extraction Language OCaml.
Extraction "c12model.ml" run_line.
