From Coq Require Import Extraction ExtrOcamlBasic.
From Verif Require Import c19.Run.
Extraction Language OCaml.
Extraction "c19model.ml" run_line.
