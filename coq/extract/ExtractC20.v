From Coq Require Import Extraction ExtrOcamlBasic.
From Verif Require Import c20.Run.
Extraction Language OCaml.
Extraction "c20model.ml" run_line.
