From Coq Require Import Extraction ExtrOcamlBasic.
From Verif Require Import integ.CliTotalRun.
Extraction Language OCaml.
Extraction "c08cmdmodel.ml" run_line.
