From Coq Require Import Extraction ExtrOcamlBasic.
From Verif Require Import c09.RunFull.
Extraction Language OCaml.
Extraction "c09cmodel.ml" run_line.
