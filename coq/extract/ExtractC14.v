From Coq Require Import Extraction ExtrOcamlBasic.
From Verif Require Import c14.Run.
Extraction Language OCaml.
Extraction "c14model.ml" run_line.
