From Coq Require Import Extraction ExtrOcamlBasic.
From Verif Require Import c01vm2.Run.
Extraction Language OCaml.
Extraction "c01vm2model.ml" run_line.
