From Coq Require Import Extraction ExtrOcamlBasic.
From Verif Require Import c08.Run.
Extraction Language OCaml.
Extraction "c08model.ml" run_line.
