From Coq Require Import Extraction ExtrOcamlBasic.
From Verif Require Import c05.Run.
Extraction Language OCaml.
Extraction "c05model.ml" run_line.
