From Coq Require Import Extraction ExtrOcamlBasic.
From Verif Require Import c02.Run.
Extraction Language OCaml.
Extraction "c02model.ml" run_line.
