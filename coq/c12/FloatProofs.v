(* C12: the bit-pattern model of encodeFloat64's tests (Encode.is_nan, clamp, fmt_is_e) IS the binary64
   semantics of the Go code, for every double: bridge to Flocq (IEEE754.Binary / Bits).
     math.IsNaN(f)                                  = is_nan bits
     min(max(f, -math.MaxFloat64), math.MaxFloat64) has the bits  clamp bits          (f not NaN)
     x := math.Abs(f); x != 0 && x < 1e-6 || x >= 1e21   = fmt_is_e bits               (f not NaN)
   Go's float comparisons are IEEE comparisons ([Bcompare]: unordered = false for <, >=; true for !=),
   math.Abs clears the sign, the builtin min/max on non-NaN operands return an operand (the smaller / larger;
   equal operands are the same value unless both are zeros, where the sign is chosen).
   Flocq brings in the axioms of Coq's Reals (shown by Print Assumptions). *)
From Coq Require Import ZArith NArith Bool Lia ZifyN ZifyBool Floats.SpecFloat.
From Flocq Require Import Core.Zaux IEEE754.Binary IEEE754.Bits.
From Flocq Require IEEE754.BinarySingleNaN.
From Verif Require Import c12.Encode.
Ltac Zify.zify_post_hook ::= Z.div_mod_to_equations.

Definition F (b : N) : binary64 := b64_of_bits (Z.of_N b).

(* ---------- Go's operations on binary64 ---------- *)
Definition go_lt (x y : binary64) : bool := match Binary.Bcompare 53 1024 x y with Some Lt => true | _ => false end.
Definition go_ge (x y : binary64) : bool := match Binary.Bcompare 53 1024 x y with Some Gt | Some Eq => true | _ => false end.
Definition go_ne (x y : binary64) : bool := match Binary.Bcompare 53 1024 x y with Some Eq => false | _ => true end.
(* math.Abs: clears the sign bit *)
Definition go_abs (x : binary64) : binary64 :=
  match x with
  | B754_zero _ _ _ => B754_zero 53 1024 false
  | B754_infinity _ _ _ => B754_infinity 53 1024 false
  | B754_finite _ _ _ m e H => B754_finite 53 1024 false m e H
  | B754_nan _ _ _ _ _ => x
  end.
Definition both_zero (x y : binary64) : option (bool * bool) :=
  match x, y with B754_zero _ _ sx, B754_zero _ _ sy => Some (sx, sy) | _, _ => None end.
(* the builtins max and min on float64 *)
Definition go_max (x y : binary64) : binary64 :=
  match Binary.Bcompare 53 1024 x y with
  | Some Lt => y
  | Some Gt => x
  | Some Eq => match both_zero x y with Some (sx, sy) => B754_zero 53 1024 (sx && sy) | None => x end
  | None => if Binary.is_nan 53 1024 x then x else y
  end.
Definition go_min (x y : binary64) : binary64 :=
  match Binary.Bcompare 53 1024 x y with
  | Some Lt => x
  | Some Gt => y
  | Some Eq => match both_zero x y with Some (sx, sy) => B754_zero 53 1024 (sx || sy) | None => x end
  | None => if Binary.is_nan 53 1024 x then x else y
  end.

Definition f_zero : binary64 := B754_zero 53 1024 false.
Definition f_1em6 : binary64 := F bits_1em6.       (* the constant 1e-6 converted to float64 *)
Definition f_1e21 : binary64 := F bits_1e21.       (* 1e21 *)
Definition f_max : binary64 := F max_bits.         (* math.MaxFloat64 *)
Definition f_negmax : binary64 := F (two63 + max_bits).   (* -math.MaxFloat64 *)

(* the Go code of encodeFloat64 up to the call of strconv *)
Definition go_isnan (f : binary64) : bool := Binary.is_nan 53 1024 f.
Definition go_clamp (f : binary64) : binary64 := go_min (go_max f f_negmax) f_max.
Definition go_format_e (f : binary64) : bool :=
  let x := go_abs f in (go_ne x f_zero && go_lt x f_1em6) || go_ge x f_1e21.

(* ---------- decoding bits ---------- *)
Open Scope Z_scope.
Definition SFz (z : Z) : spec_float := FF2SF (binary_float_of_bits_aux 52 11 z).
Lemma B2SF_bits z : B2SF 53 1024 (b64_of_bits z) = SFz z.
Proof. unfold b64_of_bits, binary_float_of_bits. apply B2SF_FF2B. Qed.
Lemma Bcompare_SF x y : Binary.Bcompare 53 1024 x y = SFcompare (B2SF 53 1024 x) (B2SF 53 1024 y).
Proof. unfold Binary.Bcompare, BinarySingleNaN.Bcompare. rewrite !B2SF_B2BSN. reflexivity. Qed.

Definition sgn (z : Z) : bool := 2 ^ 63 <=? z.
Definition mant (z : Z) : Z := z mod 2 ^ 52.
Definition expo (z : Z) : Z := (z / 2 ^ 52) mod 2 ^ 11.

Lemma SFz_unfold z : SFz z =
  if Zeq_bool (expo z) 0 then
    match mant z with
    | 0 => S754_zero (sgn z)
    | Z.pos p => S754_finite (sgn z) p (-1074)
    | Z.neg _ => S754_nan
    end
  else if Zeq_bool (expo z) 2047 then
    match mant z with
    | 0 => S754_infinity (sgn z)
    | _ => S754_nan
    end
  else
    match mant z + 2 ^ 52 with
    | Z.pos p => S754_finite (sgn z) p (expo z - 1075)
    | _ => S754_nan
    end.
Proof.
  unfold SFz, binary_float_of_bits_aux, split_bits, sgn, mant, expo.
  change (2 ^ 52 * 2 ^ 11) with (2 ^ 63). change (2 ^ 11 - 1) with 2047. change (emin (52 + 1) (2 ^ (11 - 1))) with (-1074).
  destruct (Zeq_bool ((z / 2 ^ 52) mod 2 ^ 11) 0).
  - destruct (z mod 2 ^ 52); reflexivity.
  - destruct (Zeq_bool ((z / 2 ^ 52) mod 2 ^ 11) 2047).
    + destruct (z mod 2 ^ 52); reflexivity.
    + destruct (z mod 2 ^ 52 + 2 ^ 52); try reflexivity. cbn [FF2SF]. f_equal. lia.
Qed.

(* the classification of a bit pattern *)
Inductive fclass (z : Z) : spec_float -> Prop :=
| c_zero : expo z = 0 -> mant z = 0 -> fclass z (S754_zero (sgn z))
| c_sub p : expo z = 0 -> mant z = Z.pos p -> fclass z (S754_finite (sgn z) p (-1074))
| c_inf : expo z = 2047 -> mant z = 0 -> fclass z (S754_infinity (sgn z))
| c_nan : expo z = 2047 -> mant z <> 0 -> fclass z S754_nan
| c_norm p : 0 < expo z < 2047 -> Z.pos p = mant z + 2 ^ 52 -> fclass z (S754_finite (sgn z) p (expo z - 1075)).

Lemma SFz_class z : 0 <= z -> fclass z (SFz z).
Proof.
  intros Hz. rewrite SFz_unfold.
  assert (Hm : 0 <= mant z < 2 ^ 52) by (unfold mant; apply Z.mod_pos_bound; lia).
  assert (He : 0 <= expo z < 2 ^ 11) by (unfold expo; apply Z.mod_pos_bound; lia).
  destruct (Zeq_bool (expo z) 0) eqn:E0.
  - apply Zeq_bool_eq in E0. destruct (mant z) eqn:Em; [constructor; assumption|constructor; assumption|lia].
  - apply Zeq_bool_neq in E0. destruct (Zeq_bool (expo z) 2047) eqn:E1.
    + apply Zeq_bool_eq in E1. destruct (mant z) eqn:Em; [constructor; assumption|apply c_nan; [assumption|lia]|lia].
    + apply Zeq_bool_neq in E1. destruct (mant z + 2 ^ 52) eqn:Em; try lia. apply c_norm; [change (2 ^ 11) with 2048 in He; lia|lia].
Qed.

(* bits of |x|, and the fields *)
Lemma fields z : 0 <= z < 2 ^ 64 -> z mod 2 ^ 63 = expo z * 2 ^ 52 + mant z /\ 0 <= mant z < 2 ^ 52 /\ 0 <= expo z < 2048.
Proof. intros Hz. unfold mant, expo. change (2 ^ 63) with 9223372036854775808. change (2 ^ 52) with 4503599627370496. change (2 ^ 11) with 2048. lia. Qed.

Definition SFabs (x : spec_float) : spec_float :=
  match x with
  | S754_zero _ => S754_zero false
  | S754_infinity _ => S754_infinity false
  | S754_finite _ m e => S754_finite false m e
  | S754_nan => S754_nan
  end.
Lemma B2SF_abs x : B2SF 53 1024 (go_abs x) = SFabs (B2SF 53 1024 x).
Proof. destruct x; reflexivity. Qed.

(* go_abs is Flocq's Babs on everything but NaN (whatever payload function Babs is given) *)
Lemma go_abs_Babs abs_nan x : Binary.is_nan 53 1024 x = false -> go_abs x = Binary.Babs 53 1024 abs_nan x.
Proof. destruct x; try reflexivity. discriminate. Qed.

Lemma pos_cmp p q : Pos.compare_cont Eq p q = (Z.pos p ?= Z.pos q).
Proof. reflexivity. Qed.

(* ---------- the three theorems ---------- *)
Open Scope N_scope.

Theorem is_nan_flocq b : b < 2 ^ 64 -> go_isnan (F b) = is_nan b.
Proof.
  intros Hb. unfold go_isnan, F.
  assert (Hz : (0 <= Z.of_N b < 2 ^ 64)%Z) by lia.
  assert (E : Binary.is_nan 53 1024 (b64_of_bits (Z.of_N b)) = match SFz (Z.of_N b) with S754_nan => true | _ => false end).
  { rewrite <- B2SF_bits. destruct (b64_of_bits (Z.of_N b)); reflexivity. }
  rewrite E. destruct (fields _ Hz) as (Hf & Hm & He).
  assert (Hfa : Z.of_N (fabs b) = (expo (Z.of_N b) * 2 ^ 52 + mant (Z.of_N b))%Z).
  { rewrite <- Hf. unfold fabs, two63. rewrite N2Z.inj_mod. reflexivity. }
  unfold is_nan, inf_bits.
  destruct (SFz_class (Z.of_N b) (proj1 Hz)) as [H1 H2|p H1 H2|H1 H2|H1 H2|p H1 H2];
    change (2 ^ 52)%Z with 4503599627370496%Z in *; lia.
Qed.

Theorem format_flocq b : b < 2 ^ 64 -> is_nan b = false -> go_format_e (F b) = fmt_is_e b.
Proof.
  intros Hb Hn. pose proof (is_nan_flocq b Hb) as Hnan. rewrite Hn in Hnan.
  assert (Hz : (0 <= Z.of_N b < 2 ^ 64)%Z) by lia.
  destruct (fields _ Hz) as (Hf & Hm & He).
  assert (Hfa : Z.of_N (fabs b) = (expo (Z.of_N b) * 2 ^ 52 + mant (Z.of_N b))%Z).
  { rewrite <- Hf. unfold fabs, two63. rewrite N2Z.inj_mod. reflexivity. }
  unfold go_format_e, go_ne, go_lt, go_ge. cbv zeta. rewrite !Bcompare_SF, !B2SF_abs.
  unfold F at 1 2 3. rewrite !B2SF_bits.
  change (B2SF 53 1024 f_zero) with (S754_zero false).
  replace (B2SF 53 1024 f_1em6) with (S754_finite false 4722366482869645 (-72)) by (unfold f_1em6, F; rewrite B2SF_bits; vm_compute; reflexivity).
  replace (B2SF 53 1024 f_1e21) with (S754_finite false 7629394531250000 17) by (unfold f_1e21, F; rewrite B2SF_bits; vm_compute; reflexivity).
  unfold fmt_is_e, bits_1em6, bits_1e21. cbv zeta.
  unfold is_nan, inf_bits in Hn.
  destruct (SFz_class (Z.of_N b) (proj1 Hz)) as [H1 H2|p H1 H2|H1 H2|H1 H2|p H1 H2]; cbn [SFabs SFcompare].
  - (* zero *) change (2 ^ 52)%Z with 4503599627370496%Z in *. lia.
  - (* subnormal *) cbn. change (2 ^ 52)%Z with 4503599627370496%Z in *. lia.
  - (* infinity *) change (2 ^ 52)%Z with 4503599627370496%Z in *. lia.
  - (* NaN: excluded *) change (2 ^ 52)%Z with 4503599627370496%Z in *. lia.
  - (* normal *)
    rewrite !pos_cmp. change (2 ^ 52)%Z with 4503599627370496%Z in *.
    destruct (Z.compare_spec (expo (Z.of_N b) - 1075) (-72)), (Z.compare_spec (expo (Z.of_N b) - 1075) 17);
      try lia;
      try (destruct (Z.compare_spec (Z.pos p) 4722366482869645); lia);
      try (destruct (Z.compare_spec (Z.pos p) 7629394531250000); lia).
Qed.

(* ---------- the clamp ---------- *)
Lemma both_zero_none x y : (forall s, B2SF 53 1024 x <> S754_zero s) -> both_zero x y = None.
Proof. intros H. destruct x; try reflexivity. exfalso. eapply H. reflexivity. Qed.

Lemma bits_F b : b < 2 ^ 64 -> bits_of_b64 (F b) = Z.of_N b.
Proof. intros Hb. unfold bits_of_b64, F, b64_of_bits. apply bits_of_binary_float_of_bits. change (2 ^ (52 + 11 + 1))%Z with (2 ^ 64)%Z. lia. Qed.

Lemma SF_negmax : B2SF 53 1024 f_negmax = S754_finite true 9007199254740991 971.
Proof. unfold f_negmax, F. rewrite B2SF_bits. vm_compute. reflexivity. Qed.
Lemma SF_max : B2SF 53 1024 f_max = S754_finite false 9007199254740991 971.
Proof. unfold f_max, F. rewrite B2SF_bits. vm_compute. reflexivity. Qed.

Theorem clamp_flocq b : b < 2 ^ 64 -> is_nan b = false -> bits_of_b64 (go_clamp (F b)) = Z.of_N (clamp b).
Proof.
  intros Hb Hn.
  assert (Hz : (0 <= Z.of_N b < 2 ^ 64)%Z) by lia.
  destruct (fields _ Hz) as (Hf & Hm & He).
  assert (Hfa : Z.of_N (fabs b) = (expo (Z.of_N b) * 2 ^ 52 + mant (Z.of_N b))%Z).
  { rewrite <- Hf. unfold fabs, two63. rewrite N2Z.inj_mod. reflexivity. }
  assert (Hsg : Z.of_N b = ((if sgn (Z.of_N b) then 2 ^ 63 else 0) + Z.of_N (fabs b))%Z).
  { unfold sgn, fabs, two63. rewrite N2Z.inj_mod. change (Z.of_N 9223372036854775808) with (2 ^ 63)%Z.
    change (2 ^ 63)%Z with 9223372036854775808%Z. destruct (9223372036854775808 <=? Z.of_N b)%Z eqn:E; lia. }
  pose proof (B2SF_bits (Z.of_N b)) as HSF. fold (F b) in HSF.
  unfold is_nan, inf_bits in Hn. unfold clamp, inf_bits, max_bits.
  change (2 ^ 52)%Z with 4503599627370496%Z in *. change (2 ^ 63)%Z with 9223372036854775808%Z in *.
  pose proof (bits_F b Hb) as HbF.
  assert (HbM : bits_of_b64 f_max = 9218868437227405311%Z) by (unfold f_max; rewrite bits_F by (vm_compute; reflexivity); reflexivity).
  assert (HbN : bits_of_b64 f_negmax = 18442240474082181119%Z) by (unfold f_negmax; rewrite bits_F by (vm_compute; reflexivity); reflexivity).
  assert (Hnm : go_min f_negmax f_max = f_negmax).
  { unfold go_min. rewrite Bcompare_SF, SF_negmax, SF_max. reflexivity. }
  unfold go_clamp.
  destruct (SFz_class (Z.of_N b) (proj1 Hz)) as [H1 H2|p H1 H2|H1 H2|H1 H2|p H1 H2].
  - (* zero *)
    assert (E1 : go_max (F b) f_negmax = F b).
    { unfold go_max. rewrite Bcompare_SF, SF_negmax, HSF. reflexivity. }
    assert (E2 : go_min (F b) f_max = F b).
    { unfold go_min. rewrite Bcompare_SF, SF_max, HSF. reflexivity. }
    rewrite E1, E2, HbF. destruct (fabs b =? 9218868437227405312) eqn:E; lia.
  - (* subnormal *)
    assert (E1 : go_max (F b) f_negmax = F b).
    { unfold go_max. rewrite Bcompare_SF, SF_negmax, HSF. cbn. destruct (sgn (Z.of_N b)); reflexivity. }
    assert (E2 : go_min (F b) f_max = F b).
    { unfold go_min. rewrite Bcompare_SF, SF_max, HSF. cbn. destruct (sgn (Z.of_N b)); reflexivity. }
    rewrite E1, E2, HbF. destruct (fabs b =? 9218868437227405312) eqn:E; lia.
  - (* infinity *)
    assert (Efa : (fabs b =? 9218868437227405312) = true) by lia. rewrite Efa.
    destruct (sgn (Z.of_N b)) eqn:Es.
    + assert (E1 : go_max (F b) f_negmax = f_negmax).
      { unfold go_max. rewrite Bcompare_SF, SF_negmax, HSF. reflexivity. }
      rewrite E1, Hnm, HbN. lia.
    + assert (E1 : go_max (F b) f_negmax = F b).
      { unfold go_max. rewrite Bcompare_SF, SF_negmax, HSF. reflexivity. }
      assert (E2 : go_min (F b) f_max = f_max).
      { unfold go_min. rewrite Bcompare_SF, SF_max, HSF. reflexivity. }
      rewrite E1, E2, HbM. lia.
  - (* NaN: excluded *) lia.
  - (* normal *)
    assert (Hnz : forall s, B2SF 53 1024 (F b) <> S754_zero s) by (intros s; rewrite HSF; discriminate).
    assert (Hp : (Z.pos p <= 9007199254740991)%Z) by lia.
    assert (E1 : go_max (F b) f_negmax = F b).
    { unfold go_max. rewrite Bcompare_SF, SF_negmax, HSF, (both_zero_none _ _ Hnz). cbn [SFcompare]. rewrite pos_cmp.
      destruct (sgn (Z.of_N b)); [|reflexivity].
      destruct (Z.compare_spec (expo (Z.of_N b) - 1075) 971); try lia; try reflexivity.
      destruct (Z.compare_spec (Z.pos p) 9007199254740991); try lia; reflexivity. }
    assert (E2 : go_min (F b) f_max = F b).
    { unfold go_min. rewrite Bcompare_SF, SF_max, HSF, (both_zero_none _ _ Hnz). cbn [SFcompare]. rewrite pos_cmp.
      destruct (sgn (Z.of_N b)); [reflexivity|].
      destruct (Z.compare_spec (expo (Z.of_N b) - 1075) 971); try lia; try reflexivity.
      destruct (Z.compare_spec (Z.pos p) 9007199254740991); try lia; reflexivity. }
    rewrite E1, E2, HbF. destruct (fabs b =? 9218868437227405312) eqn:E; lia.
Qed.

(* the constants are the doubles nearest to the decimal constants of the source text: with the value
   m * 2^e of the double, |m * 2^e - c| is at most half a unit in the last place (exact integer arithmetic) *)
Lemma const_1em6 : (2 * Z.abs (4722366482869645 * 10 ^ 6 - 2 ^ 72) <= 10 ^ 6)%Z.        (* 1e-6 = m * 2^-72 *)
Proof. vm_compute. discriminate. Qed.
Lemma const_1e21 : (7629394531250000 * 2 ^ 17 = 10 ^ 21)%Z.                            (* 1e21 is exact *)
Proof. reflexivity. Qed.
Lemma const_max : (9007199254740991 = 2 ^ 53 - 1 /\ 971 = 1024 - 53)%Z.                (* MaxFloat64 = (2^53-1) * 2^971 *)
Proof. split; reflexivity. Qed.
