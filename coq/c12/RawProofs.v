(* C12: the whole-command layer of the model (CliEncode.cli_print = createMarshaler + rawMarshaler + the
   terminator of printValues + GOJQ_COLORS): raw output modes, terminators, colour tables. *)
From Coq Require Import List NArith ZArith Bool Lia ZifyN ZifyNat ZifyBool.
From Verif Require Import common.Sexp c12.Utf8 c12.JsonRef c12.Encode c12.CliEncode c12.CliPure
  c12.Utf8Proofs c12.StrProofs c12.NumProofs c12.ValueProofs c12.IndentProofs c12.DecodeProofs.
Import ListNotations.
Open Scope N_scope.

(* what printValues writes after each value *)
Definition terminator (f : flags) : list N := if f_raw0 f then [0] else if f_join f then [] else [10].
Definition rawmode (f : flags) : bool := f_raw f || f_raw0 f || f_join f.
(* the colour table in force: GOJQ_COLORS is read only when colour is on and the variable is not empty *)
Definition table_of (f : flags) : option ctable :=
  if f_color f then
    match f_colors f with
    | Some [] => Some default_colors
    | Some s => set_colors s
    | None => Some default_colors
    end
  else Some default_colors.
(* the encoder options: the raw flags do not take part *)
Definition opts_of (f : flags) (tbl : ctable) : copts :=
  {| o_tab := f_tab f; o_indent := resolve_indent f; o_nocolor := negb (f_color f); o_colors := tbl |}.

Lemma cli_print_eq fmt f v :
  cli_print fmt f v =
  match table_of f with
  | None => Err
  | Some tbl =>
    match v with
    | VStr s =>
      if rawmode f then (if f_raw0 f && contains_nul s then Err else Out (s ++ terminator f))
      else Out (cli_marshal fmt (opts_of f tbl) v ++ terminator f)
    | _ => Out (cli_marshal fmt (opts_of f tbl) v ++ terminator f)
    end
  end.
Proof.
  unfold cli_print, table_of, rawmode, terminator, opts_of.
  destruct (f_color f); [destruct (f_colors f) as [[|c cs]|]|]; cbn [negb];
    try (destruct (set_colors (c :: cs)); [|reflexivity]);
    (destruct v as [| | | | | |str| |]; try reflexivity;
     destruct (f_raw f || f_raw0 f || f_join f); try reflexivity;
     destruct (f_raw0 f && contains_nul str); reflexivity).
Qed.

(* -r / -j / --raw-output0 on a string: exactly the bytes of the string (no quoting, no sanitizing, no
   colour), then the terminator: newline for -r, nothing for -j, NUL for --raw-output0 *)
Theorem raw_string fmt f s tbl : table_of f = Some tbl -> rawmode f = true ->
  f_raw0 f && contains_nul s = false ->
  cli_print fmt f (VStr s) = Out (s ++ terminator f).
Proof. intros Ht Hr Hn. rewrite cli_print_eq, Ht, Hr, Hn. reflexivity. Qed.

(* --raw-output0 refuses a string that contains NUL: nothing is written for it *)
Theorem raw0_nul fmt f s tbl : table_of f = Some tbl -> f_raw0 f = true -> contains_nul s = true ->
  cli_print fmt f (VStr s) = Err.
Proof.
  intros Ht Hr Hn. rewrite cli_print_eq, Ht. unfold rawmode. rewrite Hr, Hn, orb_true_r. reflexivity.
Qed.

(* every other case (a non-string under any flags, a string without raw flags): the encoder's text under the
   options that ignore the raw flags, then the terminator *)
Theorem nonraw_value fmt f v tbl : table_of f = Some tbl ->
  (rawmode f = false \/ forall s, v <> VStr s) ->
  cli_print fmt f v = Out (cli_marshal fmt (opts_of f tbl) v ++ terminator f).
Proof.
  intros Ht H. rewrite cli_print_eq, Ht. destruct v; try reflexivity.
  destruct H as [->|H]; [reflexivity|]. exfalso. exact (H s eq_refl).
Qed.

Theorem terminator_cases f :
  terminator f = (if f_raw0 f then [0] else if f_join f then [] else [10]) /\
  (f_raw0 f = false -> f_join f = false -> terminator f = [10]).
Proof. split; [reflexivity|]. intros H1 H2. unfold terminator. rewrite H1, H2. reflexivity. Qed.

(* an invalid GOJQ_COLORS (with colour on) is an error of the command: nothing is printed *)
Theorem bad_colors fmt f v : table_of f = None -> cli_print fmt f v = Err.
Proof. intros H. rewrite cli_print_eq, H. reflexivity. Qed.

(* ---------- setColors ---------- *)
Lemma valid_color_param : forall x num, valid_color_aux num x = true -> forallb sgr_param x = true.
Proof.
  induction x as [|c x IH]; intros num H; [reflexivity|]. cbn [valid_color_aux] in H. cbn [forallb].
  destruct ((48 <=? c) && (c <=? 57)) eqn:E1.
  - rewrite (IH _ H). unfold sgr_param, is_digit. rewrite E1. reflexivity.
  - destruct ((c =? 59) && num) eqn:E2; [|discriminate]. rewrite (IH _ H).
    unfold sgr_param. apply andb_true_iff in E2. destruct E2 as [-> _]. rewrite orb_true_r. reflexivity.
Qed.

Lemma next_color_wf s c r : next_color s = Some (c, r) -> wf_color c.
Proof.
  unfold next_color. destruct (cut_colon s) as [color rest]. destruct color as [|x color].
  - intros E. inversion E; subst. exact I.
  - destruct (valid_color (x :: color)) eqn:V; [|discriminate]. intros E. inversion E; subst.
    exists (x :: color). split; [reflexivity|]. eapply valid_color_param. exact V.
Qed.

(* every table setColors can install is a table of SGR sequences (or nil entries) *)
Theorem set_colors_wf s t : set_colors s = Some t -> wf_colors t.
Proof.
  unfold set_colors.
  destruct (next_color s) as [[c1 s1]|] eqn:E1; [|discriminate].
  destruct (next_color s1) as [[c2 s2]|] eqn:E2; [|discriminate].
  destruct (next_color s2) as [[c3 s3]|] eqn:E3; [|discriminate].
  destruct (next_color s3) as [[c4 s4]|] eqn:E4; [|discriminate].
  destruct (next_color s4) as [[c5 s5]|] eqn:E5; [|discriminate].
  destruct (next_color s5) as [[c6 s6]|] eqn:E6; [|discriminate].
  destruct (next_color s6) as [[c7 s7]|] eqn:E7; [|discriminate].
  destruct (next_color s7) as [[c8 s8]|] eqn:E8; [|discriminate].
  intros E. inversion E; subst. unfold wf_colors. cbn.
  repeat split; eapply next_color_wf; eassumption.
Qed.

Lemma default_colors_wf : wf_colors default_colors.
Proof. repeat split; try exact I; eexists; (split; [reflexivity|reflexivity]). Qed.

Theorem table_of_wf f t : table_of f = Some t -> wf_colors t.
Proof.
  unfold table_of. destruct (f_color f); [destruct (f_colors f) as [[|c s]|]|]; intros E;
    try (inversion E; subst; apply default_colors_wf). eapply set_colors_wf. exact E.
Qed.

(* a field that is not a colour makes the whole assignment fail (the command stops with an error), whatever
   the other fields are; fields that are absent or empty give nil entries, not the defaults *)
Theorem set_colors_error_first s : (let (c, _) := cut_colon s in c <> [] /\ valid_color c = false) -> set_colors s = None.
Proof.
  unfold set_colors, next_color. destruct (cut_colon s) as [c r]. intros [H1 H2].
  destruct c; [congruence|]. rewrite H2. reflexivity.
Qed.
Theorem set_colors_one : set_colors [51; 49] =
  Some {| k_null := Some (new_color [51; 49]); k_false := None; k_true := None; k_number := None;
          k_string := None; k_objkey := None; k_array := None; k_object := None |}.
Proof. reflexivity. Qed.

(* ---------- the whole command: what a printed value is ---------- *)
Section Whole.
Variable fmt_float : N -> bool -> fnum.
Hypothesis fmt_shape : forall f e, finite f -> fnum_shape e (fmt_float f e) = true.

Theorem cli_print_sound f v b : wfv v -> cli_print fmt_float f v = Out b ->
  (exists s, v = VStr s /\ rawmode f = true /\ b = s ++ terminator f) \/
  (exists body, b = body ++ terminator f /\
     strip_ws (strip_sgr body) = encode fmt_float v /\
     json_decode (strip_sgr body) = Some (norm fmt_float v)).
Proof.
  intros Hwf. rewrite cli_print_eq. destruct (table_of f) as [tbl|] eqn:Ht; [|discriminate].
  pose proof (table_of_wf f tbl Ht) as Hc.
  assert (Hgen : forall b', Out (cli_marshal fmt_float (opts_of f tbl) v ++ terminator f) = Out b' ->
    exists body, b' = body ++ terminator f /\
      strip_ws (strip_sgr body) = encode fmt_float v /\ json_decode (strip_sgr body) = Some (norm fmt_float v)).
  { intros b' E. inversion E; subst. eexists. split; [reflexivity|]. split.
    - apply modes_agree; assumption.
    - apply decode_cli; assumption. }
  destruct v; try (intros E; right; apply Hgen, E).
  destruct (rawmode f) eqn:Hr; [|intros E; right; apply Hgen, E].
  destruct (f_raw0 f && contains_nul s); [discriminate|]. intros E. inversion E; subst.
  left. exists s. auto.
Qed.
End Whole.
