(* C12 correspondence: one harness line -> verdict.  Line forms (see harness/c12/main.go):
     (lib <mode> <value> <out-hex> <oracle>)      mode: marshal | tojson | atjson | attext | tostring
     (cli <tab> <indent> <nocolor> <colors> <value> <out-hex> <oracle>)   cli encoder called directly
     (run <flags> <value> <outcome> <oracle>)     whole command; outcome: (out <hex>) | err
     (consts <bits 1e-6> <bits 1e21> <bits MaxFloat64>)
     (dec <text-hex> <value-as-read-by-fromjson | err>)
   <oracle> = ((<bits> <hex of AppendFloat(f,'e',-1,64)> <hex of AppendFloat(f,'f',-1,64)>) ...) for the
   non-NaN floats of the value after clamping: the digits are strconv's business, the model only checks
   their shape and does gojq's part (format choice, clean-up, clamping, NaN).
   Verdict "ok" or (bad ...).  (spec <line>) judges the implementation's bytes by the reference reader
   (JsonRef) only, independently of the encoder models. *)
From Coq Require Import List ZArith NArith Bool String.
From Verif Require Import common.Sexp c12.FastSexp c12.Utf8 c12.JsonRef c12.Encode c12.CliEncode.
Import ListNotations.
Open Scope N_scope.

(* ---------- decoding transport values ---------- *)
Fixpoint dec_value (e : sexp) : option value :=
  match e with
  | Atom _ =>
    if atom_is "null" e then Some VNull else if atom_is "true" e then Some (VBool true)
    else if atom_is "false" e then Some (VBool false) else None
  | SList (t :: args) =>
    if atom_is "i" t then match args with [Atom v] => option_map VInt (parse_Z v) | _ => None end
    else if atom_is "b" t then match args with [Atom v] => option_map VBig (parse_Z v) | _ => None end
    else if atom_is "f" t then match args with [Atom v] => option_map VFloat (parse_N v) | _ => None end
    else if atom_is "l" t then match args with [Atom v] => option_map VLit (fparse_hexs v) | _ => None end
    else if atom_is "s" t then match args with [Atom v] => option_map VStr (fparse_hexs v) | _ => None end
    else if atom_is "a" t then
      option_map VArr
        ((fix go (l : list sexp) : option (list value) :=
            match l with
            | [] => Some []
            | x :: r => match dec_value x, go r with Some v, Some vs => Some (v :: vs) | _, _ => None end
            end) args)
    else if atom_is "o" t then
      option_map VObj
        ((fix go (l : list sexp) : option (list (list N * value)) :=
            match l with
            | [] => Some []
            | SList [Atom k; x] :: r =>
              match fparse_hexs k, dec_value x, go r with
              | Some k, Some v, Some vs => Some ((k, v) :: vs)
              | _, _, _ => None
              end
            | _ => None
            end) args)
    else None
  | _ => None
  end.

(* ---------- the float oracle ---------- *)
Definition parse_fnum (t : list N) : fnum :=
  let (neg, t1) := match t with c :: r => if c =? 45 then (true, r) else (false, t) | [] => (false, t) end in
  let (ip, t2) := span_digits t1 in
  let (fp, t3) :=
    match t2 with
    | c :: r => if c =? 46 then span_digits r else ([], t2)
    | [] => ([], t2)
    end in
  let ex :=
    match t3 with
    | c :: s :: r => if c =? 101 then Some (s =? 45, r) else None
    | _ => None
    end in
  {| fneg := neg; fint := ip; ffrac := fp; fexp := ex |}.

Fixpoint dec_oracle (l : list sexp) : list (N * (list N * list N)) :=
  match l with
  | SList [Atom b; Atom e; Atom f] :: r =>
    match parse_N b, fparse_hexs e, fparse_hexs f with
    | Some b, Some e, Some f => (b, (e, f)) :: dec_oracle r
    | _, _, _ => dec_oracle r
    end
  | _ :: r => dec_oracle r
  | [] => []
  end.
Definition bad_fnum : fnum := {| fneg := false; fint := []; ffrac := []; fexp := None |}.
Fixpoint lookup (tbl : list (N * (list N * list N))) (b : N) : option (list N * list N) :=
  match tbl with
  | [] => None
  | (k, v) :: r => if k =? b then Some v else lookup r b
  end.
Definition mk_fmt (tbl : list (N * (list N * list N))) (bits : N) (e : bool) : fnum :=
  match lookup tbl bits with
  | Some (te, tf) => parse_fnum (if e then te else tf)
  | None => bad_fnum
  end.
(* every oracle entry has the assumed shape and prints back to the text given *)
Definition oracle_ok (tbl : list (N * (list N * list N))) : bool :=
  forallb (fun en => match en with (_, (te, tf)) =>
    list_N_eqb (fnum_text (parse_fnum te)) te && fnum_shape true (parse_fnum te)
    && list_N_eqb (fnum_text (parse_fnum tf)) tf && fnum_shape false (parse_fnum tf) end) tbl.
(* every non-NaN float of the value has an entry (after clamping) *)
Fixpoint floats_covered (tbl : list (N * (list N * list N))) (v : value) : bool :=
  match v with
  | VFloat b => is_nan b || match lookup tbl (clamp b) with Some _ => true | None => false end
  | VArr l => forallb (floats_covered tbl) l
  | VObj m => forallb (fun kv => floats_covered tbl (snd kv)) m
  | _ => true
  end.

(* ---------- verdicts ---------- *)
Definition cmp_bytes (expected : list N) (impl : list N) : sexp :=
  if list_N_eqb expected impl then A "ok" else SList [A "bad"; Atom (print_hexs expected)].

Definition dec_bool (e : sexp) : option bool :=
  if atom_is "1" e then Some true else if atom_is "0" e then Some false else None.

Definition dec_flag (f : flags) (e : sexp) : option flags :=
  let upd c t i col r r0 j cs :=
    Some {| f_compact := c; f_tab := t; f_indent := i; f_color := col; f_raw := r; f_raw0 := r0; f_join := j; f_colors := cs |} in
  match f with
  | {| f_compact := c; f_tab := t; f_indent := i; f_color := col; f_raw := r; f_raw0 := r0; f_join := j; f_colors := cs |} =>
    if atom_is "c" e then upd true t i col r r0 j cs
    else if atom_is "tab" e then upd c true i col r r0 j cs
    else if atom_is "C" e then upd c t i true r r0 j cs
    else if atom_is "M" e then upd c t i false r r0 j cs
    else if atom_is "r" e then upd c t i col true r0 j cs
    else if atom_is "raw0" e then upd c t i col r true j cs
    else if atom_is "j" e then upd c t i col r r0 true cs
    else match e with
         | SList [k; Atom v] =>
           if atom_is "indent" k then match parse_Z v with Some z => upd c t (Some z) col r r0 j cs | None => None end
           else if atom_is "colors" k then match fparse_hexs v with Some s => upd c t i col r r0 j (Some s) | None => None end
           else None
         | _ => None
         end
  end.
Definition no_flags : flags :=
  {| f_compact := false; f_tab := false; f_indent := None; f_color := false;
     f_raw := false; f_raw0 := false; f_join := false; f_colors := None |}.
Fixpoint dec_flags (f : flags) (l : list sexp) : option flags :=
  match l with
  | [] => Some f
  | e :: r => match dec_flag f e with Some f' => dec_flags f' r | None => None end
  end.

Definition dec_colors (e : sexp) : option (option ctable) :=
  if atom_is "default" e then Some (Some default_colors)
  else match e with Atom h => match fparse_hexs h with Some s => Some (set_colors s) | None => None end | _ => None end.

Definition with_oracle (orc : sexp) (v : value) (k : (N -> bool -> fnum) -> sexp) : sexp :=
  match orc with
  | SList l =>
    let tbl := dec_oracle l in
    if negb (oracle_ok tbl) then SList [A "bad"; A "oracle-shape"]
    else if negb (floats_covered tbl v) then SList [A "bad"; A "oracle-missing"]
    else k (mk_fmt tbl)
  | _ => A "undecodable"
  end.

(* jv of a transport value as fromjson returns it (numbers are json.Number literals) *)
Fixpoint value_jv (v : value) : option jv :=
  match v with
  | VNull => Some JNull | VBool b => Some (JBool b) | VLit t => Some (JNum t) | VStr s => Some (JStr s)
  | VArr l =>
    option_map JArr ((fix go (l : list value) : option (list jv) :=
      match l with [] => Some [] | x :: r => match value_jv x, go r with Some a, Some b => Some (a :: b) | _, _ => None end end) l)
  | VObj m =>
    option_map JObj ((fix go (l : list (list N * value)) : option (list (list N * jv)) :=
      match l with [] => Some [] | (k, x) :: r => match value_jv x, go r with Some a, Some b => Some ((k, a) :: b) | _, _ => None end end) m)
  | _ => None
  end.
Fixpoint jv_eqb (a b : jv) : bool :=
  match a, b with
  | JNull, JNull => true
  | JBool x, JBool y => Bool.eqb x y
  | JNum x, JNum y => list_N_eqb x y
  | JStr x, JStr y => list_N_eqb x y
  | JArr x, JArr y =>
    (fix go (x y : list jv) : bool :=
       match x, y with [], [] => true | p :: x', q :: y' => jv_eqb p q && go x' y' | _, _ => false end) x y
  | JObj x, JObj y =>
    (fix go (x y : list (list N * jv)) : bool :=
       match x, y with
       | [], [] => true
       | (k, p) :: x', (k', q) :: y' => list_N_eqb k k' && jv_eqb p q && go x' y'
       | _, _ => false end) x y
  | _, _ => false
  end.
(* objects compared as key-sorted lists (fromjson returns a map) *)
Fixpoint jv_sort (a : jv) : jv :=
  match a with
  | JArr l => JArr (map jv_sort l)
  | JObj m => JObj (sort_kvs (map (fun kv => (fst kv, jv_sort (snd kv))) m))
  | _ => a
  end.

Definition run_sexp (e : sexp) : sexp :=
  match e with
  | SList [k; mode; v; outc; orc] =>
    if atom_is "lib" k then
      match dec_value v, outc with
      | Some v, Atom out =>
        match fparse_hexs out with
        | Some out =>
          with_oracle orc v (fun fmt =>
            if atom_is "marshal" mode || atom_is "tojson" mode || atom_is "atjson" mode then cmp_bytes (encode fmt v) out
            else if atom_is "tostring" mode || atom_is "attext" mode then cmp_bytes (tostring fmt v) out
            else A "undecodable")
        | None => A "undecodable"
        end
      | _, _ => A "undecodable"
      end
    else if atom_is "run" k then
      match mode, dec_value v with
      | SList fl, Some v =>
        match dec_flags no_flags fl with
        | Some f =>
          with_oracle orc v (fun fmt =>
            match cli_print fmt f v, outc with
            | Err, Atom _ => if atom_is "err" outc then A "ok" else SList [A "bad"; A "err"]
            | Out b, SList [t; Atom h] =>
              match fparse_hexs h with
              | Some out => if atom_is "out" t then cmp_bytes b out else A "undecodable"
              | None => A "undecodable"
              end
            | Out b, _ => SList [A "bad"; SList [A "out"; Atom (print_hexs b)]]
            | Err, _ => SList [A "bad"; A "err"]
            end)
        | None => A "undecodable"
        end
      | _, _ => A "undecodable"
      end
    else A "undecodable"
  | SList [k; tab; Atom ind; noc; cols; v; Atom out; orc] =>
    if atom_is "cli" k then
      match dec_bool tab, parse_Z ind, dec_bool noc, dec_colors cols, dec_value v, fparse_hexs out with
      | Some tab, Some ind, Some noc, Some (Some tbl), Some v, Some out =>
        with_oracle orc v (fun fmt =>
          cmp_bytes (cli_marshal fmt {| o_tab := tab; o_indent := ind; o_nocolor := noc; o_colors := tbl |} v) out)
      | _, _, _, _, _, _ => A "undecodable"
      end
    else A "undecodable"
  | SList [k; Atom a; Atom b; Atom c] =>
    if atom_is "consts" k then
      match parse_N a, parse_N b, parse_N c with
      | Some a, Some b, Some c =>
        if (a =? bits_1em6) && (b =? bits_1e21) && (c =? max_bits) then A "ok" else SList [A "bad"; A "consts"]
      | _, _, _ => A "undecodable"
      end
    else A "undecodable"
  | SList [k; Atom t; iv] =>
    if atom_is "dec" k then
      match fparse_hexs t with
      | Some t =>
        match json_decode t with
        | Some j =>
          match dec_value iv with
          | Some v => match value_jv v with
                      | Some j' => if jv_eqb (jv_sort j) (jv_sort j') then A "ok" else SList [A "bad"; A "value"]
                      | None => A "undecodable" end
          | None => SList [A "bad"; A "accepts"]
          end
        | None => if atom_is "err" iv then A "ok" else SList [A "bad"; A "rejects"]
        end
      | None => A "undecodable"
      end
    else A "undecodable"
  | _ => A "undecodable"
  end.

(* ---------- property oracle on the implementation's bytes (no encoder model involved) ---------- *)
(* valid UTF-8, by Table 3-7 *)
Fixpoint utf8_check (fuel : nat) (s : list N) : bool :=
  match fuel with
  | O => match s with [] => true | _ => false end
  | S f =>
    match s with
    | [] => true
    | _ :: _ => match utf8_step s with Some (_, n) => utf8_check f (skipn n s) | None => false end
    end
  end.

(* does the value read from the output equal the emitted value (up to the documented normalisations)? *)
Fixpoint reads_as (j : jv) (v : value) : bool :=
  match v, j with
  | VNull, JNull => true
  | VBool b, JBool b' => Bool.eqb b b'
  | VInt z, JNum lit | VBig z, JNum lit =>
    match num_denote lit with Some (m, e) => (m =? z)%Z && (e =? 0)%Z | None => false end
  | VFloat b, JNull => is_nan b
  | VFloat b, JNum lit => negb (is_nan b) && json_number lit
  | VLit t, JNum lit => list_N_eqb t lit
  | VStr s, JStr s' => list_N_eqb (sanitize s) s'
  | VArr l, JArr l' =>
    (fix go (l : list value) (l' : list jv) : bool :=
       match l, l' with [], [] => true | x :: r, y :: r' => reads_as y x && go r r' | _, _ => false end) l l'
  | VObj m, JObj m' =>
    (fix go (m : list (list N * (jv -> bool))) (m' : list (list N * jv)) : bool :=
       match m, m' with
       | [], [] => true
       | (k, f) :: r, (k', y) :: r' => list_N_eqb (sanitize k) k' && f y && go r r'
       | _, _ => false
       end) (sort_kvs (map (fun kv => (fst kv, fun y => reads_as y (snd kv))) m)) m'
  | _, _ => false
  end.

Definition spec_json (ind : option (N * Z)) (v : value) (out : list N) : sexp :=
  let plain := strip_sgr out in
  if negb (utf8_check (List.length out) out) then SList [A "bad"; A "not-utf8"]
  else if negb (forallb (fun b => (32 <=? b) && negb (b =? 127)) (strip_ws plain)) then SList [A "bad"; A "raw-control-byte"]
  else match json_decode plain with
  | None => SList [A "bad"; A "not-json"]
  | Some j =>
    if negb (reads_as j v) then SList [A "bad"; A "reads-back-different"]
    else match ind with
    | Some (unit, i) =>
      if (0 <=? i)%Z && negb (indent_ok unit (Z.to_nat i) plain) then SList [A "bad"; A "indentation"]
      else A "ok"
    | None => A "ok"
    end
  end.

Definition spec_sexp (e : sexp) : sexp :=
  match e with
  | SList [k; mode; v; Atom out; orc] =>
    if atom_is "lib" k then
      match dec_value v, fparse_hexs out with
      | Some v, Some out =>
        match v with
        | VStr s => if atom_is "tostring" mode || atom_is "attext" mode
                    then cmp_bytes s out else spec_json None v out
        | _ => spec_json None v out
        end
      | _, _ => A "undecodable"
      end
    else A "ok"
  | SList [k; SList fl; v; SList [t; Atom h]; orc] =>
    if atom_is "run" k && atom_is "out" t then
      match dec_flags no_flags fl, dec_value v, fparse_hexs h with
      | Some f, Some v, Some out =>
        let raw := f_raw f || f_raw0 f || f_join f in
        let body := if f_raw0 f || negb (f_join f) then removelast out else out in
        match v with
        | VStr s => if raw then cmp_bytes s body
                    else spec_json (Some (if f_tab f then 9 else 32, resolve_indent f)) v body
        | _ => spec_json (Some (if f_tab f then 9 else 32, resolve_indent f)) v body
        end
      | _, _, _ => A "undecodable"
      end
    else A "ok"
  | SList [k; tab; Atom ind; noc; cols; v; Atom out; orc] =>
    if atom_is "cli" k then
      match dec_bool tab, parse_Z ind, dec_value v, fparse_hexs out with
      | Some tab, Some ind, Some v, Some out => spec_json (Some (if tab then 9 else 32, ind)) v out
      | _, _, _, _ => A "undecodable"
      end
    else A "undecodable"
  | _ => A "ok"
  end.

Definition run_line (l : list N) : list N :=
  match fparse l with
  | Some (SList [k; e]) => if atom_is "spec" k then print (spec_sexp e) else print (run_sexp (SList [k; e]))
  | Some e => print (run_sexp e)
  | None => codes "unparsable"
  end.
