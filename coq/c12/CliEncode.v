(* C12 model of the command's encoder /repo/cli/encoder.go (+ color.go, marshaler.go rawMarshaler, and the
   option resolution of cli.go createMarshaler / printValues).  Definitions only.
   The encoder state is (bytes already handed to the io.Writer, the bytes.Buffer e.w, e.depth); the
   8 KiB flush and the self-copying indent writer are modelled on that state.  encodeString/encodeFloat64
   are textually the same code as in /repo/encoder.go: the model shares es_loop / encode_float with
   Encode.v and the correspondence check ties both Go copies to it. *)
From Coq Require Import List NArith ZArith Bool.
From Verif Require Import common.Sexp c12.Utf8 c12.Encode.
Import ListNotations.
Open Scope N_scope.

(* ---------- color.go ---------- *)
Definition new_color (c : list N) : list N := 27 :: 91 :: c ++ [109].       (* "\x1b[" + c + "m" *)
Definition reset_color : list N := new_color [48].

Record ctable := {
  k_null : option (list N); k_false : option (list N); k_true : option (list N); k_number : option (list N);
  k_string : option (list N); k_objkey : option (list N); k_array : option (list N); k_object : option (list N) }.

Definition default_colors : ctable := {|
  k_null := Some (new_color [57; 48]);      (* 90 *)
  k_false := Some (new_color [51; 51]);     (* 33 *)
  k_true := Some (new_color [51; 51]);
  k_number := Some (new_color [51; 54]);    (* 36 *)
  k_string := Some (new_color [51; 50]);    (* 32 *)
  k_objkey := Some (new_color [51; 52; 59; 49]);  (* 34;1 *)
  k_array := None; k_object := None |}.

(* validColor *)
Fixpoint valid_color_aux (num : bool) (x : list N) : bool :=
  match x with
  | [] => num
  | c :: r =>
    if (48 <=? c) && (c <=? 57) then valid_color_aux true r
    else if (c =? 59) && num then valid_color_aux false r
    else false
  end.
Definition valid_color (x : list N) : bool := valid_color_aux false x.

(* strings.Cut(s, ":") *)
Fixpoint cut_colon (s : list N) : list N * list N :=
  match s with
  | [] => ([], [])
  | c :: r => if c =? 58 then ([], r) else let (a, b) := cut_colon r in (c :: a, b)
  end.
(* one step of the loop in setColors: None = error *)
Definition next_color (s : list N) : option (option (list N) * list N) :=
  let (color, rest) := cut_colon s in
  match color with
  | [] => Some (None, rest)
  | _ => if valid_color color then Some (Some (new_color color), rest) else None
  end.
(* setColors(colors): all eight targets are assigned, in this order *)
Definition set_colors (s : list N) : option ctable :=
  match next_color s with None => None | Some (c1, s) =>
  match next_color s with None => None | Some (c2, s) =>
  match next_color s with None => None | Some (c3, s) =>
  match next_color s with None => None | Some (c4, s) =>
  match next_color s with None => None | Some (c5, s) =>
  match next_color s with None => None | Some (c6, s) =>
  match next_color s with None => None | Some (c7, s) =>
  match next_color s with None => None | Some (c8, s) =>
    Some {| k_null := c1; k_false := c2; k_true := c3; k_number := c4;
            k_string := c5; k_objkey := c6; k_array := c7; k_object := c8 |}
  end end end end end end end end.

(* ---------- encoder state ---------- *)
Record copts := { o_tab : bool; o_indent : Z; o_nocolor : bool; o_colors : ctable }.
Record cstate := { c_out : list N; c_buf : list N; c_depth : Z }.

Definition w_bytes (st : cstate) (bs : list N) : cstate :=
  {| c_out := c_out st; c_buf := c_buf st ++ bs; c_depth := c_depth st |}.
Definition add_depth (st : cstate) (d : Z) : cstate :=
  {| c_out := c_out st; c_buf := c_buf st; c_depth := (c_depth st + d)%Z |}.
(* e.out.Write(e.w.Bytes()); e.w.Reset() -- the writer is assumed not to fail *)
Definition flush (st : cstate) : cstate :=
  {| c_out := c_out st ++ c_buf st; c_buf := []; c_depth := c_depth st |}.

Section WithOpts.
Variable fmt_float : N -> bool -> fnum.
Variable o : copts.

Definition set_color (st : cstate) (c : list N) : cstate := if o_nocolor o then st else w_bytes st c.

(* e.write / e.writeByte *)
Definition write (bs : list N) (color : option (list N)) (st : cstate) : cstate :=
  match color with
  | None => w_bytes st bs
  | Some c => set_color (w_bytes (set_color st c) bs) reset_color
  end.

Definition c_encode_string (s : list N) (color : option (list N)) (st : cstate) : cstate :=
  let st := match color with Some c => set_color st c | None => st end in
  let st := w_bytes st (encode_string s) in
  match color with Some _ => set_color st reset_color | None => st end.

Definition c_encode_float (bits : N) (st : cstate) : cstate :=
  if is_nan bits then write txt_null (k_null (o_colors o)) st
  else write (encode_float fmt_float bits) (k_number (o_colors o)) st.

(* writeIndentInternal: for n -= l; n > 0; n, l = n-l, l*2 { if n < l { l = n }; w.Write(w.Bytes()[w.Len()-l:]) } *)
Definition lastn (l : nat) (b : list N) : list N := skipn (length b - l) b.
Fixpoint wii_loop (fuel n l : nat) (st : cstate) : cstate :=
  match fuel with
  | O => st
  | S f =>
    if (0 <? n)%nat then
      let l := if (n <? l)%nat then n else l in
      wii_loop f (n - l) (l * 2) (w_bytes st (lastn l (c_buf st)))
    else st
  end.
Definition write_indent_internal (n : nat) (spaces : list N) (st : cstate) : cstate :=
  let l := length spaces in
  if (n <=? l)%nat then w_bytes st (firstn n spaces)
  else wii_loop n (n - l) l (w_bytes st spaces).

Definition tabs16 : list N := repeat 9 16.
Definition spaces32 : list N := repeat 32 32.

Definition write_indent (st : cstate) : cstate :=
  let st := w_bytes st [10] in
  if (0 <? c_depth st)%Z then
    write_indent_internal (Z.to_nat (c_depth st)) (if o_tab o then tabs16 else spaces32) st
  else st.

Definition indenting : bool := (0 <=? o_indent o)%Z.

(* encodeArray / encodeObject loops over already-prepared element encoders *)
Fixpoint arr_loop (first : bool) (fs : list (cstate -> cstate)) (st : cstate) : cstate :=
  match fs with
  | [] => st
  | f :: r =>
    let st := if first then st else write [44] (k_array (o_colors o)) st in
    let st := if indenting then write_indent st else st in
    arr_loop false r (f st)
  end.
Fixpoint obj_loop (first : bool) (fs : list (list N * (cstate -> cstate))) (st : cstate) : cstate :=
  match fs with
  | [] => st
  | (k, f) :: r =>
    let st := if first then st else write [44] (k_object (o_colors o)) st in
    let st := if indenting then write_indent st else st in
    let st := c_encode_string k (k_objkey (o_colors o)) st in
    let st := write [58] (k_object (o_colors o)) st in
    let st := if indenting then w_bytes st [32] else st in
    obj_loop false r (f st)
  end.

Definition maybe_flush (st : cstate) : cstate :=
  if (8192 <? length (c_buf st))%nat then flush st else st.

Fixpoint c_encode (v : value) (st : cstate) : cstate :=
  maybe_flush
  (match v with
  | VNull => write txt_null (k_null (o_colors o)) st
  | VBool b => if b then write txt_true (k_true (o_colors o)) st else write txt_false (k_false (o_colors o)) st
  | VInt z => write (print_Z z) (k_number (o_colors o)) st
  | VBig z => write (print_Z z) (k_number (o_colors o)) st
  | VFloat f => c_encode_float f st
  | VLit t => write t (k_number (o_colors o)) st
  | VStr s => c_encode_string s (k_string (o_colors o)) st
  | VArr l =>
    let st := write [91] (k_array (o_colors o)) st in
    let st := add_depth st (o_indent o) in
    let st := arr_loop true (map c_encode l) st in
    let st := add_depth st (- o_indent o) in
    let st := match l with [] => st | _ => if indenting then write_indent st else st end in
    write [93] (k_array (o_colors o)) st
  | VObj m =>
    let st := write [123] (k_object (o_colors o)) st in
    let st := add_depth st (o_indent o) in
    let st := obj_loop true (sort_kvs (map (fun kv => (fst kv, c_encode (snd kv))) m)) st in
    let st := add_depth st (- o_indent o) in
    let st := match m with [] => st | _ => if indenting then write_indent st else st end in
    write [125] (k_object (o_colors o)) st
  end).

(* marshal: encode then flush *)
Definition init_state : cstate := {| c_out := []; c_buf := []; c_depth := 0 |}.
Definition cli_marshal (v : value) : list N := c_out (flush (c_encode v init_state)).
End WithOpts.

(* ---------- cli.go: createMarshaler / printValues (JSON output) ---------- *)
Record flags := {
  f_compact : bool; f_tab : bool; f_indent : option Z; f_color : bool;
  f_raw : bool; f_raw0 : bool; f_join : bool; f_colors : option (list N) }.   (* f_colors = GOJQ_COLORS *)

Definition resolve_indent (f : flags) : Z :=
  if f_compact f then (-1)%Z else if f_tab f then 1%Z
  else match f_indent f with Some i => i | None => 2%Z end.

Inductive outcome := Out (bytes : list N) | Err.

Definition contains_nul (s : list N) : bool := existsb (N.eqb 0) s.

(* one value printed by printValues; Err = the command reports an error instead *)
Definition cli_print (fmt_float : N -> bool -> fnum) (f : flags) (v : value) : outcome :=
  let colors :=
    if f_color f then
      match f_colors f with
      | Some s => match s with [] => Some default_colors | _ => set_colors s end
      | None => Some default_colors
      end
    else Some default_colors in
  match colors with
  | None => Err
  | Some tbl =>
    let o := {| o_tab := f_tab f; o_indent := resolve_indent f; o_nocolor := negb (f_color f); o_colors := tbl |} in
    let raw := f_raw f || f_raw0 f || f_join f in
    let body :=
      match v with
      | VStr s => if raw then (if f_raw0 f && contains_nul s then Err else Out s) else Out (cli_marshal fmt_float o v)
      | _ => Out (cli_marshal fmt_float o v)
      end in
    match body with
    | Err => Err
    | Out b => Out (b ++ (if f_raw0 f then [0] else if f_join f then [] else [10]))
    end
  end.
