(* C12 reference side (specification vocabulary), independent of the encoder models:
   - UTF-8 per RFC 3629 / Unicode Table 3-7 (encoder of scalar values, one-step well-formedness, sanitize)
   - an RFC 8259 JSON reader (strings with escapes incl. surrogate pairs, numbers as literals, containers)
   - number literal denotation (mantissa, exponent)
   - removal of SGR colour sequences and of insignificant whitespace (outside strings)
   - a one-pass checker of "every line starts with exactly depth * indent unit bytes".
   Definitions only. *)
From Coq Require Import List NArith ZArith Bool.
Import ListNotations.
Open Scope N_scope.

Definition bytes (s : list N) : Prop := Forall (fun b => b < 256) s.

(* ---------- UTF-8 (RFC 3629) ---------- *)
Definition scalarb (cp : N) : bool := (cp <? 0xD800) || ((0xE000 <=? cp) && (cp <? 0x110000)).
Definition scalar (cp : N) : Prop := scalarb cp = true.

Definition utf8_enc (cp : N) : list N :=
  if cp <? 0x80 then [cp]
  else if cp <? 0x800 then [0xC0 + cp / 64; 0x80 + cp mod 64]
  else if cp <? 0x10000 then [0xE0 + cp / 4096; 0x80 + (cp / 64) mod 64; 0x80 + cp mod 64]
  else [0xF0 + cp / 262144; 0x80 + (cp / 4096) mod 64; 0x80 + (cp / 64) mod 64; 0x80 + cp mod 64].

(* s is the UTF-8 encoding of a sequence of Unicode scalar values *)
Definition utf8_valid (s : list N) : Prop :=
  exists cps, Forall scalar cps /\ s = flat_map utf8_enc cps.

Definition fffd : list N := [0xEF; 0xBF; 0xBD].   (* utf8_enc 0xFFFD *)

Definition inr (lo hi b : N) : bool := (lo <=? b) && (b <=? hi).
Definition cont (b : N) : bool := inr 0x80 0xBF b.

(* Well-formed byte sequence at the head of s (Unicode Table 3-7): code point and length *)
Definition utf8_step (s : list N) : option (N * nat) :=
  match s with
  | [] => None
  | b0 :: r =>
    if b0 <? 0x80 then Some (b0, 1%nat)
    else
      let two :=
        match r with
        | b1 :: _ => if cont b1 then Some ((b0 - 0xC0) * 64 + (b1 - 0x80), 2%nat) else None
        | _ => None
        end in
      let three lo hi :=
        match r with
        | b1 :: b2 :: _ =>
          if inr lo hi b1 && cont b2
          then Some ((b0 - 0xE0) * 4096 + (b1 - 0x80) * 64 + (b2 - 0x80), 3%nat) else None
        | _ => None
        end in
      let four lo hi :=
        match r with
        | b1 :: b2 :: b3 :: _ =>
          if inr lo hi b1 && cont b2 && cont b3
          then Some ((b0 - 0xF0) * 262144 + (b1 - 0x80) * 4096 + (b2 - 0x80) * 64 + (b3 - 0x80), 4%nat)
          else None
        | _ => None
        end in
      if inr 0xC2 0xDF b0 then two
      else if b0 =? 0xE0 then three 0xA0 0xBF
      else if inr 0xE1 0xEC b0 then three 0x80 0xBF
      else if b0 =? 0xED then three 0x80 0x9F
      else if inr 0xEE 0xEF b0 then three 0x80 0xBF
      else if b0 =? 0xF0 then four 0x90 0xBF
      else if inr 0xF1 0xF3 b0 then four 0x80 0xBF
      else if b0 =? 0xF4 then four 0x80 0x8F
      else None
  end.

(* s with each byte that does not begin a well-formed sequence replaced by U+FFFD *)
Fixpoint sanitize_aux (fuel : nat) (s : list N) : list N :=
  match fuel with
  | O => []
  | S f =>
    match s with
    | [] => []
    | _ :: r =>
      match utf8_step s with
      | Some (_, n) => firstn n s ++ sanitize_aux f (skipn n s)
      | None => fffd ++ sanitize_aux f r
      end
    end
  end.
Definition sanitize (s : list N) : list N := sanitize_aux (length s) s.

(* ---------- JSON numbers (RFC 8259 section 6) ---------- *)
Definition is_digit (c : N) : bool := (48 <=? c) && (c <=? 57).
Fixpoint span_digits (l : list N) : list N * list N :=
  match l with
  | c :: r => if is_digit c then let (d, r') := span_digits r in (c :: d, r') else ([], l)
  | [] => ([], [])
  end.

Definition scan_int (l : list N) : option (list N * list N) :=
  match l with
  | c :: r =>
    if c =? 48 then Some ([48], r)
    else if is_digit c then let (d, r') := span_digits r in Some (c :: d, r')
    else None
  | [] => None
  end.
Definition scan_frac (l : list N) : option (list N * list N) :=
  match l with
  | c :: r =>
    if c =? 46 then
      match span_digits r with
      | ([], _) => None
      | (ds, r') => Some (46 :: ds, r')
      end
    else Some ([], l)
  | [] => Some ([], [])
  end.
Definition scan_exp (l : list N) : option (list N * list N) :=
  match l with
  | c :: r =>
    if (c =? 101) || (c =? 69) then
      let (sg, r1) :=
        match r with
        | s :: r1 => if (s =? 43) || (s =? 45) then ([s], r1) else ([], r)
        | [] => ([], r)
        end in
      match span_digits r1 with
      | ([], _) => None
      | (ds, r') => Some (c :: sg ++ ds, r')
      end
    else Some ([], l)
  | [] => Some ([], [])
  end.
(* number = [ minus ] int [ frac ] [ exp ]; returns (literal, rest) *)
Definition scan_number (l : list N) : option (list N * list N) :=
  let (sg, l1) := match l with c :: r => if c =? 45 then ([45], r) else ([], l) | [] => ([], l) end in
  match scan_int l1 with
  | None => None
  | Some (ip, l2) =>
    match scan_frac l2 with
    | None => None
    | Some (fp, l3) =>
      match scan_exp l3 with
      | None => None
      | Some (ep, l4) => Some (sg ++ ip ++ fp ++ ep, l4)
      end
    end
  end.
Definition json_number (lit : list N) : bool :=
  match scan_number lit with Some (_, []) => true | _ => false end.

(* denotation of a literal: (m, e) stands for m * 10^e *)
Definition dec_val (l : list N) : N := fold_left (fun a c => a * 10 + (c - 48)) l 0.
Definition num_denote (lit : list N) : option (Z * Z) :=
  let (neg, l1) := match lit with c :: r => if c =? 45 then (true, r) else (false, lit) | [] => (false, lit) end in
  match scan_int l1 with
  | None => None
  | Some (ip, l2) =>
    match scan_frac l2 with
    | None => None
    | Some (fp, l3) =>
      match scan_exp l3 with
      | Some (ep, []) =>
        let fd := tl fp in
        let m := Z.of_N (dec_val (ip ++ fd)) in
        let ex :=
          match ep with
          | _ :: s :: ds =>
            if s =? 45 then (- Z.of_N (dec_val ds))%Z
            else if s =? 43 then Z.of_N (dec_val ds) else Z.of_N (dec_val (s :: ds))
          | _ => 0%Z
          end in
        Some ((if neg then - m else m)%Z, (ex - Z.of_nat (length fd))%Z)
      | _ => None
      end
    end
  end.

(* ---------- JSON values and reader ---------- *)
Inductive jv :=
| JNull | JBool (b : bool) | JNum (lit : list N) | JStr (s : list N)
| JArr (l : list jv) | JObj (m : list (list N * jv)).

Definition hexv (c : N) : option N :=
  if (48 <=? c) && (c <=? 57) then Some (c - 48)
  else if (97 <=? c) && (c <=? 102) then Some (c - 87)
  else if (65 <=? c) && (c <=? 70) then Some (c - 55)
  else None.
Definition hex4 (a b c d : N) : option N :=
  match hexv a, hexv b, hexv c, hexv d with
  | Some w, Some x, Some y, Some z => Some (((w * 16 + x) * 16 + y) * 16 + z)
  | _, _, _, _ => None
  end.
Definition is_high (u : N) : bool := inr 0xD800 0xDBFF u.
Definition is_low (u : N) : bool := inr 0xDC00 0xDFFF u.
Definition simple_escape (c : N) : option N :=
  if c =? 34 then Some 34 else if c =? 92 then Some 92 else if c =? 47 then Some 47
  else if c =? 98 then Some 8 else if c =? 102 then Some 12 else if c =? 110 then Some 10
  else if c =? 114 then Some 13 else if c =? 116 then Some 9 else None.
Definition pre (bs : list N) (x : option (list N * list N)) : option (list N * list N) :=
  match x with Some (s, r) => Some (bs ++ s, r) | None => None end.

(* after the opening quote: (decoded bytes, rest after the closing quote).  Raw bytes >= 0x20 are copied
   (that the text is UTF-8 is a separate requirement: [utf8_valid]); a lone surrogate escape reads as U+FFFD
   (RFC 8259 section 8.2 leaves it open; this is what encoding/json does). *)
Fixpoint str_body (l : list N) : option (list N * list N) :=
  match l with
  | [] => None
  | b :: r =>
    if b =? 34 then Some ([], r)
    else if b =? 92 then
      match r with
      | [] => None
      | c :: r1 =>
        if c =? 117 then
          match r1 with
          | h1 :: h2 :: h3 :: h4 :: r2 =>
            match hex4 h1 h2 h3 h4 with
            | None => None
            | Some u =>
              if is_high u then
                match r2 with
                | b1 :: b2 :: g1 :: g2 :: g3 :: g4 :: r3 =>
                  if (b1 =? 92) && (b2 =? 117) then
                    match hex4 g1 g2 g3 g4 with
                    | Some u2 =>
                      if is_low u2
                      then pre (utf8_enc (0x10000 + (u - 0xD800) * 1024 + (u2 - 0xDC00))) (str_body r3)
                      else pre fffd (str_body r2)
                    | None => pre fffd (str_body r2)
                    end
                  else pre fffd (str_body r2)
                | _ => pre fffd (str_body r2)
                end
              else if is_low u then pre fffd (str_body r2)
              else pre (utf8_enc u) (str_body r2)
            end
          | _ => None
          end
        else
          match simple_escape c with
          | Some x => pre [x] (str_body r1)
          | None => None
          end
      end
    else if b <? 32 then None
    else pre [b] (str_body r)
  end.

(* RFC 8259 section 7, the characters between the quotation marks:
   char = unescaped / escape ( %x22 / %x5C / %x2F / b / f / n / r / t / uXXXX ) *)
Definition is_hex (c : N) : bool := match hexv c with Some _ => true | None => false end.
Inductive str_chars : list N -> Prop :=
| sc_nil : str_chars []
| sc_plain b l : 0x20 <= b -> b <> 0x22 -> b <> 0x5C -> str_chars l -> str_chars (b :: l)
| sc_esc c l : In c [34; 92; 47; 98; 102; 110; 114; 116] -> str_chars l -> str_chars (92 :: c :: l)
| sc_u a b c d l : is_hex a = true -> is_hex b = true -> is_hex c = true -> is_hex d = true ->
    str_chars l -> str_chars (92 :: 117 :: a :: b :: c :: d :: l).
(* a JSON string literal *)
Definition string_literal (t : list N) : Prop := exists body, t = 34 :: body ++ [34] /\ str_chars body.

(* string literal at the head of l *)
Definition read_string (l : list N) : option (list N * list N) :=
  match l with
  | c :: r => if c =? 34 then str_body r else None
  | [] => None
  end.

Definition is_ws (c : N) : bool := (c =? 32) || (c =? 9) || (c =? 10) || (c =? 13).
Fixpoint skip_ws (l : list N) : list N :=
  match l with
  | c :: r => if is_ws c then skip_ws r else l
  | [] => []
  end.
Definition expect (lit : list N) (l : list N) : option (list N) :=
  (fix go (a b : list N) : option (list N) :=
     match a with
     | [] => Some b
     | x :: a' => match b with y :: b' => if x =? y then go a' b' else None | [] => None end
     end) lit l.

Definition lit_null : list N := [110; 117; 108; 108].
Definition lit_true : list N := [116; 114; 117; 101].
Definition lit_false : list N := [102; 97; 108; 115; 101].

(* value = ws value-body ; the caller skips trailing whitespace *)
Fixpoint pval (fuel : nat) (l : list N) : option (jv * list N) :=
  match fuel with
  | O => None
  | S f =>
    match skip_ws l with
    | [] => None
    | c :: r =>
      if c =? 34 then
        match str_body r with Some (s, r') => Some (JStr s, r') | None => None end
      else if c =? 91 then
        match skip_ws r with
        | d :: r' => if d =? 93 then Some (JArr [], r') else pelems f (d :: r') []
        | [] => None
        end
      else if c =? 123 then
        match skip_ws r with
        | d :: r' => if d =? 125 then Some (JObj [], r') else pmembers f (d :: r') []
        | [] => None
        end
      else if c =? 110 then match expect lit_null (c :: r) with Some r' => Some (JNull, r') | None => None end
      else if c =? 116 then match expect lit_true (c :: r) with Some r' => Some (JBool true, r') | None => None end
      else if c =? 102 then match expect lit_false (c :: r) with Some r' => Some (JBool false, r') | None => None end
      else match scan_number (c :: r) with Some (lit, r') => Some (JNum lit, r') | None => None end
    end
  end
with pelems (fuel : nat) (l : list N) (acc : list jv) : option (jv * list N) :=
  match fuel with
  | O => None
  | S f =>
    match pval f l with
    | None => None
    | Some (v, r) =>
      match skip_ws r with
      | c :: r' =>
        if c =? 44 then pelems f r' (v :: acc)
        else if c =? 93 then Some (JArr (rev (v :: acc)), r')
        else None
      | [] => None
      end
    end
  end
with pmembers (fuel : nat) (l : list N) (acc : list (list N * jv)) : option (jv * list N) :=
  match fuel with
  | O => None
  | S f =>
    match read_string (skip_ws l) with
    | None => None
    | Some (k, r0) =>
      match skip_ws r0 with
      | c0 :: r1 =>
        if c0 =? 58 then
          match pval f r1 with
          | None => None
          | Some (v, r) =>
            match skip_ws r with
            | c :: r' =>
              if c =? 44 then pmembers f r' ((k, v) :: acc)
              else if c =? 125 then Some (JObj (rev ((k, v) :: acc)), r')
              else None
            | [] => None
            end
          end
        else None
      | [] => None
      end
    end
  end.

(* JSON-text = ws value ws *)
Definition json_decode (l : list N) : option jv :=
  match pval (S (length l)) l with
  | Some (v, r) => match skip_ws r with [] => Some v | _ => None end
  | None => None
  end.

(* ---------- stripping colour and insignificant whitespace ---------- *)
(* SGR sequence: ESC [ parameters m *)
Fixpoint strip_sgr_st (ins : bool) (l : list N) : list N :=
  match l with
  | [] => []
  | c :: r =>
    if ins then (if c =? 109 then strip_sgr_st false r else strip_sgr_st true r)
    else if (c =? 27) && (match r with d :: _ => d =? 91 | [] => false end) then strip_sgr_st true r
    else c :: strip_sgr_st false r
  end.
Definition strip_sgr := strip_sgr_st false.

Inductive wstate := WOut | WStr | WEsc.
Fixpoint strip_ws_st (st : wstate) (l : list N) : list N :=
  match l with
  | [] => []
  | c :: r =>
    match st with
    | WOut => if is_ws c then strip_ws_st WOut r
              else c :: strip_ws_st (if c =? 34 then WStr else WOut) r
    | WStr => c :: strip_ws_st (if c =? 34 then WOut else if c =? 92 then WEsc else WStr) r
    | WEsc => c :: strip_ws_st WStr r
    end
  end.
Definition strip_ws := strip_ws_st WOut.

(* ---------- indentation checker ---------- *)
(* One pass over an indented JSON text.  depth = number of open brackets (outside strings).  At every
   line start it counts the leading [unit] bytes and, at the first other byte c, requires the count to be
   exactly d * ind where d = depth, or depth - 1 when c closes a bracket. Lines may not be empty. *)
Inductive sstate := SNorm | SStr | SEsc | SBol (k : nat).
Definition is_open (c : N) : bool := (c =? 91) || (c =? 123).
Definition is_close (c : N) : bool := (c =? 93) || (c =? 125).
Fixpoint indent_scan (unit : N) (ind : nat) (depth : nat) (st : sstate) (l : list N) : bool :=
  let norm c r :=
    if c =? 34 then indent_scan unit ind depth SStr r
    else if is_open c then indent_scan unit ind (S depth) SNorm r
    else if is_close c then
      match depth with O => false | S d => indent_scan unit ind d SNorm r end
    else if c =? 10 then indent_scan unit ind depth (SBol 0) r
    else indent_scan unit ind depth SNorm r in
  match l with
  | [] => match st with SNorm => true | _ => false end
  | c :: r =>
    match st with
    | SNorm => norm c r
    | SStr => indent_scan unit ind depth (if c =? 34 then SNorm else if c =? 92 then SEsc else SStr) r
    | SEsc => indent_scan unit ind depth SStr r
    | SBol k =>
      if c =? unit then indent_scan unit ind depth (SBol (S k)) r
      else if c =? 10 then false
      else
        let d := if is_close c then pred depth else depth in
        (k =? d * ind)%nat && norm c r
    end
  end.
Definition indent_ok (unit : N) (ind : nat) (l : list N) : bool := indent_scan unit ind 0 SNorm l.
