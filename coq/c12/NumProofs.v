(* C12 proofs about numbers: the decimal printer, the RFC 8259 number scanner on printed integers and on
   strconv-shaped float texts, the e-09 clean-up, and denotations. *)
From Coq Require Import List NArith ZArith Bool Lia ZifyN ZifyNat ZifyBool.
From Verif Require Import common.Sexp c12.JsonRef c12.Encode.
Import ListNotations.
Open Scope N_scope.
Ltac Zify.zify_post_hook ::= Z.div_mod_to_equations.

Lemma is_dig_digit c : is_dig c = is_digit c.
Proof. reflexivity. Qed.

(* the next byte cannot continue a number *)
Definition num_end (rest : list N) : bool :=
  match rest with
  | [] => true
  | c :: _ => negb (is_digit c) && negb (c =? 46) && negb (c =? 101) && negb (c =? 69)
  end.

Lemma span_digits_app ds rest : all_digits ds = true ->
  (match rest with [] => true | c :: _ => negb (is_digit c) end) = true ->
  span_digits (ds ++ rest) = (ds, rest).
Proof.
  intros Hd Hr. induction ds as [|c ds IH]; cbn [app].
  - destruct rest as [|c r]; [reflexivity|]. cbn [span_digits]. destruct (is_digit c); [discriminate|reflexivity].
  - cbn in Hd. apply andb_true_iff in Hd. destruct Hd as [Hc Hd]. cbn [span_digits].
    rewrite is_dig_digit in Hc. rewrite Hc, IH by assumption. reflexivity.
Qed.

Lemma num_end_nodigit rest : num_end rest = true -> (match rest with [] => true | c :: _ => negb (is_digit c) end) = true.
Proof. destruct rest as [|c r]; [reflexivity|]. unfold num_end. intros H. destruct (is_digit c); [discriminate|reflexivity]. Qed.

Lemma scan_int_app ds rest : canon_int ds = true ->
  (match rest with [] => true | c :: _ => negb (is_digit c) end) = true ->
  scan_int (ds ++ rest) = Some (ds, rest).
Proof.
  unfold canon_int. intros H Hr. apply andb_true_iff in H. destruct H as [Hd Hc].
  destruct ds as [|c ds]; [discriminate|]. cbn [app scan_int].
  cbn in Hd. apply andb_true_iff in Hd. destruct Hd as [Hc0 Hd]. rewrite is_dig_digit in Hc0.
  destruct (N.eqb_spec c 48).
  - subst c. destruct ds; [reflexivity|discriminate].
  - rewrite Hc0. rewrite span_digits_app by assumption. reflexivity.
Qed.

Lemma scan_frac_end rest : num_end rest = true -> scan_frac rest = Some ([], rest).
Proof.
  destruct rest as [|c r]; [reflexivity|]. unfold num_end, scan_frac. intros H.
  destruct (c =? 46); [|reflexivity]. rewrite !andb_true_iff in H. cbn in H. intuition discriminate.
Qed.
Lemma scan_exp_end rest : num_end rest = true -> scan_exp rest = Some ([], rest).
Proof.
  destruct rest as [|c r]; [reflexivity|]. unfold num_end, scan_exp. intros H.
  rewrite !andb_true_iff, !negb_true_iff in H. destruct H as [[[_ _] H1] H2]. rewrite H1, H2. reflexivity.
Qed.

(* ---------- the decimal printer of common/Sexp.v ---------- *)
Lemma dec_val_snoc ds x : dec_val (ds ++ [x]) = dec_val ds * 10 + (x - 48).
Proof. unfold dec_val. rewrite fold_left_app. reflexivity. Qed.

Lemma all_digits_app a b : all_digits (a ++ b) = all_digits a && all_digits b.
Proof. unfold all_digits. apply forallb_app. Qed.

Lemma print_N_aux_spec : forall fuel n acc, fuel <> 0%nat -> n < 10 ^ N.of_nat fuel ->
  exists ds, print_N_aux fuel n acc = ds ++ acc /\ all_digits ds = true /\ ds <> [] /\ dec_val ds = n
             /\ (n <> 0 -> hd 0 ds <> 48) /\ (n = 0 -> ds = [48]).
Proof.
  induction fuel as [|f IH]; intros n acc Hf Hn; [congruence|]. cbn [print_N_aux].
  destruct (N.eqb_spec (n / 10) 0) as [E|E].
  - exists [48 + n mod 10]. assert (n < 10) by lia.
    replace (n mod 10) with n by lia.
    split; [reflexivity|]. split; [unfold all_digits, is_dig; cbn [forallb]; lia|]. split; [congruence|].
    split; [unfold dec_val; cbn [fold_left]; lia|].
    split; [cbn [hd]; lia|]. intros ->. reflexivity.
  - assert (Hf' : f <> 0%nat).
    { intros ->. cbn in Hn. lia. }
    assert (Hq : n / 10 < 10 ^ N.of_nat f).
    { apply N.div_lt_upper_bound; [lia|]. rewrite <- N.pow_succ_r'. replace (N.succ (N.of_nat f)) with (N.of_nat (S f)) by lia. exact Hn. }
    destruct (IH (n / 10) ((48 + n mod 10) :: acc) Hf' Hq) as (ds & E1 & E2 & E3 & E4 & E5 & E6).
    exists (ds ++ [48 + n mod 10]). repeat split.
    + rewrite E1, <- app_assoc. reflexivity.
    + rewrite all_digits_app, E2. unfold all_digits, is_dig; cbn [forallb]. lia.
    + destruct ds; discriminate.
    + rewrite dec_val_snoc, E4. lia.
    + intros _. destruct ds as [|d ds]; [congruence|]. cbn. apply E5. exact E.
    + intros ->. cbn in E. congruence.
Qed.

Lemma print_N_spec n : exists ds, print_N n = ds /\ all_digits ds = true /\ ds <> [] /\ dec_val ds = n
                                  /\ (n <> 0 -> hd 0 ds <> 48) /\ (n = 0 -> ds = [48]).
Proof.
  unfold print_N.
  destruct (print_N_aux_spec (S (N.to_nat (N.size n))) n []) as (ds & E & H); [lia| |].
  - replace (N.of_nat (S (N.to_nat (N.size n)))) with (N.succ (N.size n)) by lia.
    pose proof (N.size_gt n). eapply N.lt_le_trans; [exact H|].
    rewrite N.pow_succ_r'. transitivity (2 ^ N.size n * 1); [lia|].
    transitivity (10 ^ N.size n * 1); [|lia]. apply N.mul_le_mono_r. apply N.pow_le_mono_l. lia.
  - exists ds. rewrite app_nil_r in E. split; [exact E|exact H].
Qed.

Lemma print_N_canon n : canon_int (print_N n) = true.
Proof.
  destruct (print_N_spec n) as (ds & -> & H1 & H2 & H3 & H4 & H5). unfold canon_int. rewrite H1. cbn [andb].
  destruct ds as [|c [|d ds]]; [congruence|reflexivity|].
  destruct (N.eqb_spec n 0) as [->|Hn]; [specialize (H5 eq_refl); discriminate|].
  specialize (H4 Hn). cbn in H4. apply negb_true_iff, N.eqb_neq. exact H4.
Qed.

(* ---------- the RFC 8259 number grammar, generatively: [-] int [. digits+] [(e|E) [+|-] digits+] ---------- *)
Record numparts := { np_neg : bool; np_int : list N; np_frac : list N; np_exp : option (N * list N * list N) }.

Definition sign_t (neg : bool) : list N := if neg then [45] else [].
Definition frac_t (ds : list N) : list N := match ds with [] => [] | _ => 46 :: ds end.
Definition exp_t (e : option (N * list N * list N)) : list N :=
  match e with None => [] | Some (c, sg, ds) => c :: sg ++ ds end.
Definition np_text (p : numparts) : list N := sign_t (np_neg p) ++ np_int p ++ frac_t (np_frac p) ++ exp_t (np_exp p).

Definition exp_ok (e : option (N * list N * list N)) : bool :=
  match e with
  | None => true
  | Some (c, sg, ds) =>
    ((c =? 101) || (c =? 69)) && (match sg with [] => true | [s] => (s =? 43) || (s =? 45) | _ => false end)
    && all_digits ds && negb (match ds with [] => true | _ => false end)
  end.
Definition np_ok (p : numparts) : bool := canon_int (np_int p) && all_digits (np_frac p) && exp_ok (np_exp p).

(* t is a JSON number literal *)
Definition number_literal (t : list N) : Prop := exists p, np_ok p = true /\ t = np_text p.

Definition nodig (rest : list N) : bool := match rest with [] => true | c :: _ => negb (is_digit c) end.

Lemma scan_frac_t ds rest : all_digits ds = true -> nodig rest = true ->
  (match rest with c :: _ => negb (c =? 46) | [] => true end) = true ->
  scan_frac (frac_t ds ++ rest) = Some (frac_t ds, rest).
Proof.
  intros Hd Hn Hdot. destruct ds as [|d ds]; cbn [frac_t app].
  - destruct rest as [|c r]; [reflexivity|]. unfold scan_frac. destruct (c =? 46); [discriminate|reflexivity].
  - unfold scan_frac. cbn [N.eqb Pos.eqb]. change (d :: ds ++ rest) with ((d :: ds) ++ rest).
    rewrite span_digits_app by assumption. reflexivity.
Qed.

Lemma scan_exp_t e rest : exp_ok e = true -> num_end rest = true -> scan_exp (exp_t e ++ rest) = Some (exp_t e, rest).
Proof.
  intros He Hr. destruct e as [[[c sg] ds]|]; cbn [exp_t app]; [|apply scan_exp_end, Hr].
  unfold exp_ok in He. rewrite !andb_true_iff in He. destruct He as [[[Hc Hsg] Hd] Hne].
  unfold scan_exp. rewrite Hc.
  destruct ds as [|d ds]; [discriminate|].
  assert (Hd0 : is_digit d = true) by (cbn in Hd; apply andb_true_iff in Hd; apply Hd).
  destruct sg as [|s [|s' sg]]; [| |discriminate]; cbn [app].
  - assert (E : (d =? 43) || (d =? 45) = false) by (unfold is_digit in Hd0; lia). rewrite E.
    change (d :: ds ++ rest) with ((d :: ds) ++ rest).
    rewrite span_digits_app by (auto using num_end_nodigit). reflexivity.
  - rewrite Hsg. change (d :: ds ++ rest) with ((d :: ds) ++ rest).
    rewrite span_digits_app by (auto using num_end_nodigit). reflexivity.
Qed.

Lemma exp_t_head e rest : exp_ok e = true -> num_end rest = true ->
  nodig (exp_t e ++ rest) = true /\ (match exp_t e ++ rest with c :: _ => negb (c =? 46) | [] => true end) = true.
Proof.
  intros He Hr. destruct e as [[[c sg] ds]|]; cbn [exp_t app].
  - unfold exp_ok in He. rewrite !andb_true_iff in He. destruct He as [[[Hc _] _] _]. cbn [nodig]. unfold is_digit. lia.
  - destruct rest as [|c r]; [split; reflexivity|]. unfold num_end in Hr. cbn [nodig].
    rewrite !andb_true_iff in Hr. destruct Hr as [[[H1 H2] _] _]. split; assumption.
Qed.

Lemma canon_head ds : canon_int ds = true -> exists c r, ds = c :: r /\ is_digit c = true.
Proof.
  unfold canon_int. intros H. apply andb_true_iff in H. destruct H as [Hd Hc].
  destruct ds as [|c r]; [discriminate|]. exists c, r. split; [reflexivity|].
  cbn in Hd. apply andb_true_iff in Hd. destruct Hd as [Hd _]. exact Hd.
Qed.

Lemma np_ok_parts p : np_ok p = true ->
  canon_int (np_int p) = true /\ all_digits (np_frac p) = true /\ exp_ok (np_exp p) = true.
Proof. unfold np_ok. rewrite !andb_true_iff. tauto. Qed.

(* the reference scanner takes exactly the literal, whatever delimiter follows *)
Lemma scan_number_np p rest : np_ok p = true -> num_end rest = true ->
  scan_number (np_text p ++ rest) = Some (np_text p, rest).
Proof.
  intros Hok Hr. destruct (np_ok_parts p Hok) as (Hi & Hf & He).
  destruct (exp_t_head (np_exp p) rest He Hr) as [Hn1 Hn2].
  assert (Hfe : nodig (frac_t (np_frac p) ++ exp_t (np_exp p) ++ rest) = true).
  { destruct (np_frac p); [exact Hn1|reflexivity]. }
  pose proof (scan_int_app (np_int p) _ Hi Hfe) as Hscan.
  pose proof (scan_frac_t (np_frac p) _ Hf Hn1 Hn2) as Hsf.
  pose proof (scan_exp_t (np_exp p) rest He Hr) as Hse.
  unfold np_text. rewrite <- !app_assoc. unfold scan_number.
  destruct (canon_head _ Hi) as (c & r & Ec & Hc).
  assert (Hm : (c =? 45) = false) by (unfold is_digit in Hc; lia).
  destruct (np_neg p); cbn [sign_t app].
  - cbn [N.eqb Pos.eqb]. rewrite Hscan, Hsf, Hse. reflexivity.
  - rewrite Ec in *. cbn [app] in *. rewrite Hm, Hscan, Hsf, Hse. reflexivity.
Qed.

Lemma number_literal_json t : number_literal t -> json_number t = true.
Proof.
  intros (p & Hok & ->). unfold json_number.
  pose proof (scan_number_np p [] Hok eq_refl) as H. rewrite app_nil_r in H. rewrite H. reflexivity.
Qed.

(* denotation of a literal given by its parts *)
Definition np_den (p : numparts) : Z * Z :=
  let m := Z.of_N (dec_val (np_int p ++ np_frac p)) in
  let e := match np_exp p with
           | None => 0%Z
           | Some (_, sg, ds) => match sg with [45] => (- Z.of_N (dec_val ds))%Z | _ => Z.of_N (dec_val ds) end
           end in
  ((if np_neg p then - m else m)%Z, (e - Z.of_nat (length (np_frac p)))%Z).

Lemma num_denote_np p : np_ok p = true -> num_denote (np_text p) = Some (np_den p).
Proof.
  intros Hok. destruct (np_ok_parts p Hok) as (Hi & Hf & He).
  destruct (exp_t_head (np_exp p) [] He eq_refl) as [Hn1 Hn2]. rewrite app_nil_r in Hn1, Hn2.
  assert (Hfe : nodig (frac_t (np_frac p) ++ exp_t (np_exp p)) = true).
  { destruct (np_frac p); [exact Hn1|reflexivity]. }
  pose proof (scan_int_app (np_int p) _ Hi Hfe) as Hscan.
  pose proof (scan_frac_t (np_frac p) (exp_t (np_exp p)) Hf Hn1 Hn2) as Hsf.
  pose proof (scan_exp_t (np_exp p) [] He eq_refl) as Hse. rewrite app_nil_r in Hse.
  unfold np_text, num_denote.
  destruct (canon_head _ Hi) as (c & r & Ec & Hc).
  assert (Hm : (c =? 45) = false) by (unfold is_digit in Hc; lia).
  assert (Htl : tl (frac_t (np_frac p)) = np_frac p) by (destruct (np_frac p); reflexivity).
  assert (Hex : match exp_t (np_exp p) with
                | _ :: s :: ds => if s =? 45 then (- Z.of_N (dec_val ds))%Z else if s =? 43 then Z.of_N (dec_val ds) else Z.of_N (dec_val (s :: ds))
                | _ => 0%Z end
                = match np_exp p with
                  | None => 0%Z
                  | Some (_, sg, ds) => match sg with [45] => (- Z.of_N (dec_val ds))%Z | _ => Z.of_N (dec_val ds) end
                  end).
  { destruct (np_exp p) as [[[c0 sg] ds]|]; [|reflexivity]. unfold exp_ok in He.
    rewrite !andb_true_iff in He. destruct He as [[[_ Hsg] Hd] Hne].
    destruct ds as [|d ds]; [discriminate|].
    assert (Hd0 : is_digit d = true) by (cbn in Hd; apply andb_true_iff in Hd; apply Hd).
    destruct sg as [|s [|s' sg]]; [| |discriminate]; cbn [exp_t app].
    - assert (E1 : (d =? 45) = false) by (unfold is_digit in Hd0; lia).
      assert (E2 : (d =? 43) = false) by (unfold is_digit in Hd0; lia). rewrite E1, E2. reflexivity.
    - destruct (N.eqb_spec s 45) as [->|Hs]; [reflexivity|].
      assert (s = 43) by lia. subst s. reflexivity. }
  unfold np_den. destruct (np_neg p); cbn [sign_t app].
  - cbn [N.eqb Pos.eqb]. rewrite Hscan, Hsf, Hse, Htl, Hex. reflexivity.
  - rewrite Ec in *. cbn [app] in *. rewrite Hm, Hscan, Hsf, Hse, Htl, Hex. reflexivity.
Qed.

(* ---------- strconv-shaped texts and integers are literals ---------- *)
Definition fnum_ok (x : fnum) : bool :=
  canon_int (fint x) && all_digits (ffrac x)
  && match fexp x with None => true | Some (_, ds) => all_digits ds && negb (match ds with [] => true | _ => false end) end.
Definition of_fnum (x : fnum) : numparts :=
  {| np_neg := fneg x; np_int := fint x; np_frac := ffrac x;
     np_exp := match fexp x with None => None | Some (neg, ds) => Some (101, [if neg then 45 else 43], ds) end |}.
Lemma fnum_text_np x : fnum_text x = np_text (of_fnum x).
Proof. unfold fnum_text, np_text, of_fnum, sign_t, frac_t, exp_t. cbn [np_neg np_int np_frac np_exp].
  destruct (ffrac x); destruct (fexp x) as [[neg ds]|]; reflexivity. Qed.
Lemma of_fnum_ok x : fnum_ok x = true -> np_ok (of_fnum x) = true.
Proof.
  unfold fnum_ok, np_ok, of_fnum. cbn [np_neg np_int np_frac np_exp]. rewrite !andb_true_iff.
  intros [[H1 H2] H3]. repeat split; try assumption.
  destruct (fexp x) as [[neg ds]|]; [|reflexivity]. cbn [exp_ok]. apply andb_true_iff in H3. destruct H3 as [H3 H4].
  rewrite H3, H4. destruct neg; reflexivity.
Qed.
Lemma fnum_literal x : fnum_ok x = true -> number_literal (fnum_text x).
Proof. intros H. exists (of_fnum x). split; [apply of_fnum_ok, H|apply fnum_text_np]. Qed.

Definition int_fnum (z : Z) : fnum :=
  {| fneg := match z with Zneg _ => true | _ => false end; fint := print_N (Z.abs_N z); ffrac := []; fexp := None |}.
Lemma print_Z_fnum z : print_Z z = fnum_text (int_fnum z).
Proof. destruct z; cbn; rewrite ?app_nil_r; reflexivity. Qed.
Lemma int_fnum_ok z : fnum_ok (int_fnum z) = true.
Proof. unfold fnum_ok, int_fnum. cbn [fint ffrac fexp]. rewrite print_N_canon. reflexivity. Qed.
Lemma int_literal z : number_literal (print_Z z).
Proof. rewrite print_Z_fnum. apply fnum_literal, int_fnum_ok. Qed.

Lemma num_denote_int z : num_denote (print_Z z) = Some (z, 0%Z).
Proof.
  rewrite print_Z_fnum, fnum_text_np, num_denote_np by apply of_fnum_ok, int_fnum_ok.
  unfold np_den, of_fnum, int_fnum. cbn [np_neg np_int np_frac np_exp fint ffrac fexp fneg length]. rewrite app_nil_r.
  destruct (print_N_spec (Z.abs_N z)) as (ds & -> & _ & _ & -> & _).
  destruct z; f_equal; f_equal; lia.
Qed.

Definition sign_text (z : Z) : list N := match z with Zneg _ => [45] | _ => [] end.
Lemma print_Z_split z : print_Z z = sign_text z ++ print_N (Z.abs_N z).
Proof. destruct z; reflexivity. Qed.

(* number characters *)
Definition numc (c : N) : bool := is_digit c || (c =? 45) || (c =? 43) || (c =? 46) || (c =? 101) || (c =? 69).
Lemma digits_numc ds : all_digits ds = true -> forallb numc ds = true.
Proof.
  induction ds as [|c ds IH]; [reflexivity|]. cbn. intros H. apply andb_true_iff in H. destruct H as [H1 H2].
  rewrite IH by assumption. unfold numc. rewrite <- is_dig_digit, H1. reflexivity.
Qed.
Lemma print_Z_numc z : forallb numc (print_Z z) = true.
Proof.
  rewrite print_Z_split, forallb_app. destruct (print_N_spec (Z.abs_N z)) as (ds & -> & H1 & _).
  rewrite (digits_numc _ H1). destruct z; reflexivity.
Qed.

(* ---------- encodeFloat64: the e-09 clean-up ---------- *)
Lemma cleanup_last4 P a b c d :
  cleanup (P ++ [a; b; c; d]) = if (a =? 101) && (b =? 45) && (c =? 48) then P ++ [a; b; d] else P ++ [a; b; c; d].
Proof.
  unfold cleanup. rewrite app_length. cbn [length].
  replace (4 <=? length P + 4)%nat with true by (symmetry; apply Nat.leb_le; lia). cbn [andb].
  replace (length P + 4 - 4)%nat with (length P + 0)%nat by lia.
  replace (length P + 4 - 3)%nat with (length P + 1)%nat by lia.
  replace (length P + 4 - 2)%nat with (length P + 2)%nat by lia.
  replace (length P + 4 - 1)%nat with (length P + 3)%nat by lia.
  rewrite !app_nth2_plus. cbn [nth].
  destruct ((a =? 101) && (b =? 45) && (c =? 48)); [|reflexivity].
  rewrite firstn_app_2. cbn [firstn]. rewrite <- app_assoc. reflexivity.
Qed.

Lemma list_last4 {A} (l : list A) : (4 <= length l)%nat -> exists P a b c d, l = P ++ [a; b; c; d].
Proof.
  intros H. rewrite <- (rev_involutive l). rewrite <- rev_length in H.
  destruct (rev l) as [|d [|c [|b [|a r]]]]; cbn [length] in H; try lia.
  exists (rev r), a, b, c, d. cbn [rev]. rewrite <- !app_assoc. reflexivity.
Qed.

(* what the clean-up does to a strconv 'e' text, on the structured form *)
Definition cleanup_fnum (x : fnum) : fnum :=
  match fexp x with
  | Some (true, [z; d]) =>
    if z =? 48 then {| fneg := fneg x; fint := fint x; ffrac := ffrac x; fexp := Some (true, [d]) |} else x
  | _ => x
  end.

Lemma all_digits_in ds c : all_digits ds = true -> In c ds -> is_dig c = true.
Proof. unfold all_digits. rewrite forallb_forall. auto. Qed.

Lemma cleanup_fnum_text x : fnum_shape true x = true -> cleanup (fnum_text x) = fnum_text (cleanup_fnum x).
Proof.
  unfold fnum_shape. rewrite !andb_true_iff. intros [[Hi Hf] He].
  destruct (fexp x) as [[neg ds]|] eqn:E; [|discriminate]. rewrite !andb_true_iff in He. destruct He as [[Hd Hl] _].
  apply Nat.leb_le in Hl.
  unfold cleanup_fnum. rewrite E.
  set (M := (if fneg x then [45] else []) ++ fint x ++ match ffrac x with [] => [] | _ :: _ => 46 :: ffrac x end).
  assert (Ht : forall e, fnum_text {| fneg := fneg x; fint := fint x; ffrac := ffrac x; fexp := e |}
                         = M ++ match e with None => [] | Some (n, ds) => 101 :: (if n then 45 else 43) :: ds end).
  { intros e. unfold fnum_text, M. cbn [fneg fint ffrac fexp]. rewrite <- !app_assoc. destruct (ffrac x); reflexivity. }
  assert (Hx : fnum_text x = M ++ 101 :: (if neg then 45 else 43) :: ds).
  { rewrite <- (Ht (Some (neg, ds))). rewrite <- E. destruct x; reflexivity. }
  rewrite Hx.
  destruct ds as [|y [|z [|w ds']]]; cbn [length] in Hl; try lia.
  - (* two exponent digits *)
    rewrite (cleanup_last4 M 101 (if neg then 45 else 43) y z). cbn [N.eqb Pos.eqb andb].
    destruct neg; cbn [N.eqb Pos.eqb andb].
    + destruct (y =? 48); [rewrite Ht; reflexivity|rewrite Hx; reflexivity].
    + rewrite Hx. reflexivity.
  - (* three or more exponent digits: the byte at n-4 is the sign or a digit *)
    destruct (list_last4 ((if neg then 45 else 43) :: y :: z :: w :: ds')) as (P & a & b & c & d & EP); [cbn [length]; lia|].
    assert (Ha : (a =? 101) = false).
    { assert (Hin : In a ((if neg then 45 else 43) :: y :: z :: w :: ds')).
      { rewrite EP. apply in_or_app. right. left. reflexivity. }
      destruct Hin as [<-|Hin]; [destruct neg; reflexivity|].
      pose proof (all_digits_in _ a Hd Hin) as Hdig. unfold is_dig in Hdig. lia. }
    replace (M ++ 101 :: (if neg then 45 else 43) :: y :: z :: w :: ds')
      with ((M ++ 101 :: P) ++ [a; b; c; d])
      by (rewrite <- app_assoc; cbn [app]; rewrite <- EP; reflexivity).
    rewrite cleanup_last4, Ha. cbn [andb].
    rewrite <- app_assoc. cbn [app]. rewrite <- EP.
    destruct neg; rewrite Hx; reflexivity.
Qed.

Lemma shape_ok e x : fnum_shape e x = true -> fnum_ok x = true.
Proof.
  unfold fnum_shape, fnum_ok. rewrite !andb_true_iff. intros [[Hi Hf] He]. repeat split; try assumption.
  destruct e; destruct (fexp x) as [[neg ds]|]; try discriminate; try reflexivity.
  rewrite !andb_true_iff in He. destruct He as [[Hd Hl] _]. rewrite Hd. destruct ds; [discriminate|reflexivity].
Qed.

Lemma cleanup_fnum_ok x : fnum_ok x = true -> fnum_ok (cleanup_fnum x) = true.
Proof.
  unfold cleanup_fnum. intros H. destruct (fexp x) as [[[] [|z [|d [|]]]]|] eqn:E; try exact H.
  destruct (z =? 48); [|exact H]. unfold fnum_ok in *. cbn [fint ffrac fexp]. rewrite E in H.
  rewrite !andb_true_iff in *. destruct H as [[Hi Hf] [Hd _]]. repeat split; try assumption.
  cbn in Hd. rewrite !andb_true_iff in Hd. cbn. rewrite andb_true_r. apply Hd.
Qed.

Definition fnum_den (x : fnum) : Z * Z := np_den (of_fnum x).

Lemma cleanup_fnum_den x : fnum_den (cleanup_fnum x) = fnum_den x.
Proof.
  unfold cleanup_fnum. destruct (fexp x) as [[[] [|z [|d [|]]]]|] eqn:E; try reflexivity.
  destruct (N.eqb_spec z 48) as [->|]; [|reflexivity].
  unfold fnum_den, np_den, of_fnum. cbn [np_neg np_int np_frac np_exp fneg fint ffrac fexp]. rewrite E.
  reflexivity.
Qed.

Lemma num_denote_fnum x : fnum_ok x = true -> num_denote (fnum_text x) = Some (fnum_den x).
Proof. intros H. rewrite fnum_text_np. apply num_denote_np, of_fnum_ok, H. Qed.

(* floats as bit patterns *)
Definition finite (bits : N) : Prop := fabs bits < inf_bits.
Lemma clamp_finite b : is_nan b = false -> finite (clamp b).
Proof.
  unfold is_nan, finite, clamp, fabs, inf_bits, max_bits, two63. intros H.
  destruct (N.eqb_spec (b mod 9223372036854775808) 9218868437227405312); lia.
Qed.

Section Float.
Variable fmt_float : N -> bool -> fnum.
(* what is assumed of strconv.AppendFloat for finite floats *)
Hypothesis fmt_shape : forall f e, finite f -> fnum_shape e (fmt_float f e) = true.

Definition float_fnum (bits : N) : fnum :=
  let f := clamp bits in
  if fmt_is_e f then cleanup_fnum (fmt_float f true) else fmt_float f false.

Lemma encode_float_text b : is_nan b = false -> encode_float fmt_float b = fnum_text (float_fnum b).
Proof.
  intros H. unfold encode_float, float_fnum. rewrite H. cbn zeta.
  destruct (fmt_is_e (clamp b)); [|reflexivity].
  apply cleanup_fnum_text, fmt_shape, clamp_finite, H.
Qed.

Lemma float_fnum_ok b : is_nan b = false -> fnum_ok (float_fnum b) = true.
Proof.
  intros H. unfold float_fnum. cbn zeta. pose proof (clamp_finite b H) as Hf.
  destruct (fmt_is_e (clamp b)).
  - apply cleanup_fnum_ok. eapply shape_ok, fmt_shape, Hf.
  - eapply shape_ok, fmt_shape, Hf.
Qed.

(* the clean-up does not change the denoted number: the literal denotes what strconv printed *)
Lemma float_fnum_den b : fnum_den (float_fnum b) = fnum_den (fmt_float (clamp b) (fmt_is_e (clamp b))).
Proof. unfold float_fnum. cbn zeta. destruct (fmt_is_e (clamp b)); [apply cleanup_fnum_den|reflexivity]. Qed.

Lemma encode_float_literal b : is_nan b = false -> number_literal (encode_float fmt_float b).
Proof. intros H. rewrite encode_float_text by assumption. apply fnum_literal, float_fnum_ok, H. Qed.

Lemma encode_float_denote b : is_nan b = false ->
  num_denote (encode_float fmt_float b) = Some (fnum_den (fmt_float (clamp b) (fmt_is_e (clamp b)))).
Proof.
  intros H. rewrite encode_float_text by assumption. rewrite num_denote_fnum by (apply float_fnum_ok, H).
  rewrite float_fnum_den. reflexivity.
Qed.

(* value clause: if the digits strconv prints parse back (correctly rounded) to the float they were printed
   from, so does gojq's text, for the clamped float *)
Variable parse_float : Z * Z -> N.
Hypothesis fmt_round : forall f e, finite f -> parse_float (fnum_den (fmt_float f e)) = f.
Lemma encode_float_round b : is_nan b = false ->
  option_map parse_float (num_denote (encode_float fmt_float b)) = Some (clamp b).
Proof.
  intros H. rewrite encode_float_denote by assumption. cbn [option_map]. f_equal. apply fmt_round, clamp_finite, H.
Qed.
End Float.

(* literal characters: no whitespace, quote, bracket, comma, colon, ESC *)
Lemma np_text_numc p : np_ok p = true -> forallb numc (np_text p) = true.
Proof.
  intros Hok. destruct (np_ok_parts p Hok) as (Hi & Hf & He). unfold np_text. rewrite !forallb_app.
  unfold canon_int in Hi. apply andb_true_iff in Hi. destruct Hi as [Hi _].
  rewrite (digits_numc _ Hi).
  assert (H1 : forallb numc (sign_t (np_neg p)) = true) by (destruct (np_neg p); reflexivity).
  assert (H2 : forallb numc (frac_t (np_frac p)) = true).
  { destruct (np_frac p) as [|d ds] eqn:E; [reflexivity|]. cbn [frac_t].
    change (forallb numc (46 :: d :: ds)) with (numc 46 && forallb numc (d :: ds)). rewrite (digits_numc _ Hf). reflexivity. }
  assert (H3 : forallb numc (exp_t (np_exp p)) = true).
  { destruct (np_exp p) as [[[c sg] ds]|]; [|reflexivity]. unfold exp_ok in He. rewrite !andb_true_iff in He.
    destruct He as [[[Hc Hsg] Hd] _]. cbn [exp_t].
    change (forallb numc (c :: sg ++ ds)) with (numc c && forallb numc (sg ++ ds)). rewrite forallb_app, (digits_numc _ Hd).
    assert (numc c = true) by (unfold numc; lia). rewrite H.
    destruct sg as [|s [|]]; [reflexivity| |discriminate]. cbn. unfold numc. lia. }
  rewrite H1, H2, H3. reflexivity.
Qed.
Lemma literal_numc t : number_literal t -> forallb numc t = true.
Proof. intros (p & Hok & ->). apply np_text_numc, Hok. Qed.
Lemma literal_nonempty t : number_literal t -> exists c r, t = c :: r /\ (is_digit c = true \/ c = 45).
Proof.
  intros (p & Hok & ->). destruct (np_ok_parts p Hok) as (Hi & _). destruct (canon_head _ Hi) as (c & r & E & Hc).
  unfold np_text. destruct (np_neg p); cbn [sign_t app].
  - eexists _, _. split; [reflexivity|right; reflexivity].
  - rewrite E. cbn [app]. eexists _, _. split; [reflexivity|left; exact Hc].
Qed.
