(* C12: the command's encoder as a pure function.  [pp] is the text the stateful model c_encode appends
   (whatever the buffer / flush history), with the indent writer replaced by [repeat]:
   - wii_spec: writeIndentInternal n appends exactly n copies of the unit, for EVERY n (the doubling loop);
   - c_encode_pp: out ++ buf after c_encode = out ++ buf before ++ pp, depth restored (so the 8 KiB
     flushes do not change the concatenation). *)
From Coq Require Import List NArith ZArith Bool Lia ZifyN ZifyNat ZifyBool.
From Verif Require Import common.Sexp c12.Utf8 c12.Encode c12.CliEncode.
Import ListNotations.
Open Scope N_scope.

(* induction principle for the nested type *)
Section ValueInd.
Variable P : value -> Prop.
Hypothesis Hnull : P VNull.
Hypothesis Hbool : forall b, P (VBool b).
Hypothesis Hint : forall z, P (VInt z).
Hypothesis Hbig : forall z, P (VBig z).
Hypothesis Hfloat : forall f, P (VFloat f).
Hypothesis Hlit : forall t, P (VLit t).
Hypothesis Hstr : forall s, P (VStr s).
Hypothesis Harr : forall l, Forall P l -> P (VArr l).
Hypothesis Hobj : forall m, Forall (fun kv => P (snd kv)) m -> P (VObj m).
Fixpoint value_ind' (v : value) : P v :=
  match v with
  | VNull => Hnull | VBool b => Hbool b | VInt z => Hint z | VBig z => Hbig z | VFloat f => Hfloat f
  | VLit t => Hlit t | VStr s => Hstr s
  | VArr l => Harr l ((fix go (l : list value) : Forall P l :=
                         match l with [] => Forall_nil _ | x :: r => Forall_cons _ (value_ind' x) (go r) end) l)
  | VObj m => Hobj m ((fix go (m : list (list N * value)) : Forall (fun kv => P (snd kv)) m :=
                         match m with [] => Forall_nil _ | kv :: r => Forall_cons _ (value_ind' (snd kv)) (go r) end) m)
  end.
End ValueInd.

(* ---------- writeIndentInternal: n copies for every n ---------- *)
Lemma repeat_app_n {A} (x : A) a b : repeat x (a + b) = repeat x a ++ repeat x b.
Proof. induction a; cbn; [reflexivity|f_equal; assumption]. Qed.

Lemma lastn_repeat u (pre : list N) k l : (l <= k)%nat -> lastn l (pre ++ repeat u k) = repeat u l.
Proof.
  intros H. unfold lastn. rewrite app_length, repeat_length.
  replace k with ((k - l) + l)%nat at 2 by lia. rewrite repeat_app_n, app_assoc.
  replace (length pre + k - l)%nat with (length (pre ++ repeat u (k - l)) + 0)%nat
    by (rewrite app_length, repeat_length; lia).
  rewrite skipn_app. rewrite skipn_all2 by lia. cbn [app].
  replace (_ + 0 - _)%nat with 0%nat by lia. reflexivity.
Qed.

Lemma wii_loop_spec u : forall fuel n l st pre k,
  c_buf st = pre ++ repeat u k -> (n <= fuel)%nat -> (n = 0%nat \/ (0 < l <= k)%nat) ->
  let st' := wii_loop fuel n l st in
  c_buf st' = c_buf st ++ repeat u n /\ c_out st' = c_out st /\ c_depth st' = c_depth st.
Proof.
  induction fuel as [|f IH]; intros n l st pre k Hb Hn Hl; cbn zeta.
  - assert (n = 0%nat) by lia. subst n. cbn. rewrite app_nil_r. auto.
  - cbn [wii_loop]. destruct (0 <? n)%nat eqn:E.
    2:{ assert (n = 0%nat) by lia. subst n. cbn. rewrite app_nil_r. auto. }
    destruct Hl as [Hl|Hl]; [lia|].
    set (l' := if (n <? l)%nat then n else l).
    assert (Hl' : (0 < l' <= k /\ l' <= n /\ (n - l' = 0 \/ l' = l))%nat) by (subst l'; destruct (n <? l)%nat eqn:E2; lia).
    set (st1 := w_bytes st (lastn l' (c_buf st))).
    assert (Hb1 : c_buf st1 = pre ++ repeat u (k + l')).
    { subst st1. cbn [c_buf w_bytes]. rewrite !Hb. rewrite lastn_repeat by lia.
      rewrite <- app_assoc, <- repeat_app_n. reflexivity. }
    specialize (IH (n - l')%nat (l' * 2)%nat st1 pre (k + l')%nat Hb1).
    cbn zeta in IH. destruct IH as (I1 & I2 & I3); [lia|lia|].
    rewrite I1, I2, I3. subst st1. cbn [c_buf c_out c_depth w_bytes]. rewrite !Hb. rewrite lastn_repeat by lia.
    rewrite <- !app_assoc, <- repeat_app_n. replace (l' + (n - l'))%nat with n by lia. auto.
Qed.

(* (c.1) for EVERY n: exactly n copies of the unit are appended, nothing else changes *)
Lemma wii_spec u blk n st : (0 < blk)%nat ->
  let st' := write_indent_internal n (repeat u blk) st in
  c_buf st' = c_buf st ++ repeat u n /\ c_out st' = c_out st /\ c_depth st' = c_depth st.
Proof.
  intros Hblk. cbn zeta. unfold write_indent_internal. rewrite repeat_length.
  destruct (n <=? blk)%nat eqn:E.
  - cbn [c_buf c_out c_depth w_bytes]. split; [|auto]. f_equal.
    replace blk with (n + (blk - n))%nat by lia. generalize (blk - n)%nat. clear.
    intros m. induction n; cbn; [reflexivity|f_equal; assumption].
  - pose proof (wii_loop_spec u n (n - blk)%nat blk (w_bytes st (repeat u blk)) (c_buf st) blk) as H.
    cbn zeta in H. destruct H as (H1 & H2 & H3); [reflexivity|lia|right; lia|].
    rewrite H1, H2, H3. cbn [c_buf c_out c_depth w_bytes]. rewrite <- app_assoc, <- repeat_app_n.
    replace (blk + (n - blk))%nat with n by lia. auto.
Qed.


Section Pure.
Variable fmt_float : N -> bool -> fnum.
Variable o : copts.

Definition unit_byte : N := if o_tab o then 9 else 32.
Definition col (c : option (list N)) (bs : list N) : list N :=
  match c with
  | None => bs
  | Some c => if o_nocolor o then bs else c ++ bs ++ reset_color
  end.
Definition nl (d : Z) : list N := if indenting o then 10 :: repeat unit_byte (Z.to_nat d) else [].
Definition sp : list N := if indenting o then [32] else [].

Fixpoint pp_items (sep pre : list N) (first : bool) (items : list (list N)) : list N :=
  match items with
  | [] => []
  | x :: r => (if first then [] else sep) ++ pre ++ x ++ pp_items sep pre false r
  end.

Definition member (kb : list N * list N) : list N :=
  col (k_objkey (o_colors o)) (encode_string (fst kb)) ++ col (k_object (o_colors o)) [58] ++ sp ++ snd kb.

Fixpoint pp (d : Z) (v : value) : list N :=
  let ct := o_colors o in
  let i := o_indent o in
  match v with
  | VNull => col (k_null ct) txt_null
  | VBool b => if b then col (k_true ct) txt_true else col (k_false ct) txt_false
  | VInt z => col (k_number ct) (print_Z z)
  | VBig z => col (k_number ct) (print_Z z)
  | VFloat f => if is_nan f then col (k_null ct) txt_null else col (k_number ct) (encode_float fmt_float f)
  | VLit t => col (k_number ct) t
  | VStr s => col (k_string ct) (encode_string s)
  | VArr l =>
    col (k_array ct) [91]
    ++ pp_items (col (k_array ct) [44]) (nl (d + i)) true (map (pp (d + i)) l)
    ++ (match l with [] => [] | _ => nl d end) ++ col (k_array ct) [93]
  | VObj m =>
    col (k_object ct) [123]
    ++ pp_items (col (k_object ct) [44]) (nl (d + i)) true
         (map member (sort_kvs (map (fun kv => (fst kv, pp (d + i) (snd kv))) m)))
    ++ (match m with [] => [] | _ => nl d end) ++ col (k_object ct) [125]
  end.

(* ---------- state lemmas ---------- *)
Definition total (st : cstate) : list N := c_out st ++ c_buf st.

(* st' extends st by bs and keeps the depth *)
Definition ext (st st' : cstate) (bs : list N) : Prop :=
  total st' = total st ++ bs /\ c_depth st' = c_depth st.

Lemma ext_refl st : ext st st [].
Proof. split; [rewrite app_nil_r|]; reflexivity. Qed.
Lemma ext_trans a b c x y : ext a b x -> ext b c y -> ext a c (x ++ y).
Proof. intros [H1 H2] [H3 H4]. split; [rewrite H3, H1, app_assoc; reflexivity|congruence]. Qed.
Lemma ext_w st bs : ext st (w_bytes st bs) bs.
Proof. split; [unfold total; cbn; rewrite app_assoc; reflexivity|reflexivity]. Qed.
Lemma ext_flush st : ext st (flush st) [].
Proof. split; [unfold total; cbn; rewrite !app_nil_r; reflexivity|reflexivity]. Qed.
Lemma ext_maybe_flush st : ext st (maybe_flush st) [].
Proof. unfold maybe_flush. destruct (_ <? _)%nat; [apply ext_flush|apply ext_refl]. Qed.
Lemma ext_eq a b x y : ext a b x -> x = y -> ext a b y.
Proof. intros H <-. exact H. Qed.

Lemma ext_set_color st c : ext st (set_color o st c) (if o_nocolor o then [] else c).
Proof. unfold set_color. destruct (o_nocolor o); [apply ext_refl|apply ext_w]. Qed.

Lemma ext_write st bs c : ext st (write o bs c st) (col c bs).
Proof.
  unfold write, col. destruct c as [c|]; [|apply ext_w].
  eapply ext_eq.
  - eapply ext_trans; [eapply ext_trans; [apply ext_set_color|apply ext_w]|apply ext_set_color].
  - destruct (o_nocolor o); cbn [app]; rewrite ?app_nil_r, <- ?app_assoc; reflexivity.
Qed.

Lemma ext_string st s c : ext st (c_encode_string o s c st) (col c (encode_string s)).
Proof.
  unfold c_encode_string, col. destruct c as [c|]; [|apply ext_w].
  eapply ext_eq.
  - eapply ext_trans; [eapply ext_trans; [apply ext_set_color|apply ext_w]|apply ext_set_color].
  - destruct (o_nocolor o); cbn [app]; rewrite ?app_nil_r, <- ?app_assoc; reflexivity.
Qed.

Lemma ext_float st f :
  ext st (c_encode_float fmt_float o f st)
      (if is_nan f then col (k_null (o_colors o)) txt_null else col (k_number (o_colors o)) (encode_float fmt_float f)).
Proof. unfold c_encode_float. destruct (is_nan f); apply ext_write. Qed.

Lemma ext_write_indent st : ext st (write_indent o st) (10 :: repeat unit_byte (Z.to_nat (c_depth st))).
Proof.
  unfold write_indent. cbn [c_depth w_bytes].
  destruct (0 <? c_depth st)%Z eqn:E.
  - pose proof (wii_spec unit_byte (if o_tab o then 16 else 32)%nat (Z.to_nat (c_depth st)) (w_bytes st [10])) as H.
    cbn zeta in H. destruct H as (H1 & H2 & H3); [destruct (o_tab o); lia|].
    replace (if o_tab o then tabs16 else spaces32) with (repeat unit_byte (if o_tab o then 16 else 32)%nat)
      by (unfold unit_byte, tabs16, spaces32; destruct (o_tab o); reflexivity).
    split; [|rewrite H3; reflexivity]. unfold total. rewrite H1, H2. cbn [c_buf c_out w_bytes].
    rewrite <- !app_assoc. reflexivity.
  - replace (Z.to_nat (c_depth st)) with 0%nat by lia. apply ext_w.
Qed.

Lemma ext_nl st : ext st (if indenting o then write_indent o st else st) (nl (c_depth st)).
Proof. unfold nl. destruct (indenting o); [apply ext_write_indent|apply ext_refl]. Qed.

(* depth-changing steps *)
Definition extd (dd : Z) (st st' : cstate) (bs : list N) : Prop :=
  total st' = total st ++ bs /\ c_depth st' = (c_depth st + dd)%Z.
Lemma ext_extd st st' bs : ext st st' bs -> extd 0 st st' bs.
Proof. intros [H1 H2]. split; [assumption|lia]. Qed.
Lemma extd_ext st st' bs : extd 0 st st' bs -> ext st st' bs.
Proof. intros [H1 H2]. split; [assumption|lia]. Qed.
Lemma extd_trans a b c x y p q : extd p a b x -> extd q b c y -> extd (p + q) a c (x ++ y).
Proof. intros [H1 H2] [H3 H4]. split; [rewrite H3, H1, app_assoc; reflexivity|lia]. Qed.
Lemma extd_depth st d : extd d st (add_depth st d) [].
Proof. split; [unfold total; cbn; rewrite app_nil_r; reflexivity|reflexivity]. Qed.
Lemma extd_eq p q a b x y : extd p a b x -> p = q -> x = y -> extd q a b y.
Proof. intros H <- <-. exact H. Qed.

Definition enc_ok (v : value) : Prop := forall st, ext st (c_encode fmt_float o v st) (pp (c_depth st) v).

Lemma arr_loop_ext : forall l, Forall enc_ok l -> forall first st,
  ext st (arr_loop o first (map (c_encode fmt_float o) l) st)
      (pp_items (col (k_array (o_colors o)) [44]) (nl (c_depth st)) first (map (pp (c_depth st)) l)).
Proof.
  induction 1 as [|v l Hv Hl IH]; intros first st; [apply ext_refl|].
  cbn [map arr_loop pp_items].
  set (st1 := if first then st else write o [44] (k_array (o_colors o)) st).
  assert (E1 : ext st st1 (if first then [] else col (k_array (o_colors o)) [44])).
  { subst st1. destruct first; [apply ext_refl|apply ext_write]. }
  set (st2 := if indenting o then write_indent o st1 else st1).
  assert (E2 : ext st1 st2 (nl (c_depth st))).
  { subst st2. replace (c_depth st) with (c_depth st1) by apply E1. apply ext_nl. }
  assert (E3 : ext st2 (c_encode fmt_float o v st2) (pp (c_depth st) v)).
  { replace (c_depth st) with (c_depth st2) by (destruct E1, E2; congruence). apply Hv. }
  specialize (IH false (c_encode fmt_float o v st2)).
  replace (c_depth (c_encode fmt_float o v st2)) with (c_depth st) in IH by (destruct E1, E2, E3; congruence).
  eapply ext_eq; [eapply ext_trans; [eapply ext_trans; [eapply ext_trans; [exact E1|exact E2]|exact E3]|exact IH]|].
  rewrite <- !app_assoc. reflexivity.
Qed.

Definition kenc_ok (kf : list N * value) : Prop := enc_ok (snd kf).

Lemma obj_loop_ext : forall m, Forall kenc_ok m -> forall first st,
  ext st (obj_loop o first (map (fun kv => (fst kv, c_encode fmt_float o (snd kv))) m) st)
      (pp_items (col (k_object (o_colors o)) [44]) (nl (c_depth st)) first
                (map member (map (fun kv => (fst kv, pp (c_depth st) (snd kv))) m))).
Proof.
  induction 1 as [|[k v] m Hv Hm IH]; intros first st; [apply ext_refl|].
  cbn [map obj_loop pp_items fst snd]. unfold kenc_ok in Hv. cbn [snd] in Hv.
  set (st1 := if first then st else write o [44] (k_object (o_colors o)) st).
  assert (E1 : ext st st1 (if first then [] else col (k_object (o_colors o)) [44])).
  { subst st1. destruct first; [apply ext_refl|apply ext_write]. }
  set (st2 := if indenting o then write_indent o st1 else st1).
  assert (E2 : ext st1 st2 (nl (c_depth st))).
  { subst st2. replace (c_depth st) with (c_depth st1) by apply E1. apply ext_nl. }
  set (st3 := c_encode_string o k (k_objkey (o_colors o)) st2).
  assert (E3 : ext st2 st3 (col (k_objkey (o_colors o)) (encode_string k))) by apply ext_string.
  set (st4 := write o [58] (k_object (o_colors o)) st3).
  assert (E4 : ext st3 st4 (col (k_object (o_colors o)) [58])) by apply ext_write.
  set (st5 := if indenting o then w_bytes st4 [32] else st4).
  assert (E5 : ext st4 st5 sp).
  { subst st5. unfold sp. destruct (indenting o); [apply ext_w|apply ext_refl]. }
  assert (E6 : ext st5 (c_encode fmt_float o v st5) (pp (c_depth st) v)).
  { replace (c_depth st) with (c_depth st5) by (destruct E1, E2, E3, E4, E5; congruence). apply Hv. }
  specialize (IH false (c_encode fmt_float o v st5)).
  replace (c_depth (c_encode fmt_float o v st5)) with (c_depth st) in IH
    by (destruct E1, E2, E3, E4, E5, E6; congruence).
  eapply ext_eq.
  - eapply ext_trans; [|exact IH].
    eapply ext_trans; [|exact E6]. eapply ext_trans; [|exact E5]. eapply ext_trans; [|exact E4].
    eapply ext_trans; [|exact E3]. eapply ext_trans; [exact E1|exact E2].
  - unfold member. cbn [fst snd]. rewrite <- !app_assoc. reflexivity.
Qed.

(* sorting looks at keys only *)
Lemma insert_map_snd {A B} (f : A -> B) k x l :
  insert_kv k (f x) (map (fun kv => (fst kv, f (snd kv))) l) = map (fun kv => (fst kv, f (snd kv))) (insert_kv k x l).
Proof.
  induction l as [|[k' y] l IH]; [reflexivity|]. cbn [map insert_kv fst snd].
  destruct (bytes_ltb k k'); [reflexivity|]. cbn [map fst snd]. rewrite IH. reflexivity.
Qed.
Lemma sort_map_snd {A B} (f : A -> B) m :
  sort_kvs (map (fun kv => (fst kv, f (snd kv))) m) = map (fun kv => (fst kv, f (snd kv))) (sort_kvs m).
Proof.
  induction m as [|[k x] m IH]; [reflexivity|]. unfold sort_kvs in *. cbn [map fold_right fst snd].
  rewrite IH. apply insert_map_snd.
Qed.
Lemma insert_in {A} k (x : A) l kv : In kv (insert_kv k x l) -> kv = (k, x) \/ In kv l.
Proof.
  induction l as [|[k' y] l IH]; cbn [insert_kv].
  - intros [<-|[]]. auto.
  - destruct (bytes_ltb k k').
    + intros [<-|H]; auto.
    + intros [<-|H]; [right; left; reflexivity|]. destruct (IH H); [auto|right; right; assumption].
Qed.
Lemma sort_in {A} (m : list (list N * A)) kv : In kv (sort_kvs m) -> In kv m.
Proof.
  induction m as [|[k x] m IH]; [intros []|]. unfold sort_kvs in *. cbn [fold_right fst snd].
  intros H. apply insert_in in H. destruct H as [->|H]; [left; reflexivity|right; auto].
Qed.
Lemma sort_forall {A} (P : list N * A -> Prop) m : Forall P m -> Forall P (sort_kvs m).
Proof. rewrite !Forall_forall. intros H kv Hin. apply H, sort_in, Hin. Qed.

Lemma arr_case st l : Forall enc_ok l ->
  ext st
    (write o [93] (k_array (o_colors o))
       (let st4 := add_depth (arr_loop o true (map (c_encode fmt_float o) l)
                                (add_depth (write o [91] (k_array (o_colors o)) st) (o_indent o))) (- o_indent o) in
        match l with [] => st4 | _ :: _ => if indenting o then write_indent o st4 else st4 end))
    (pp (c_depth st) (VArr l)).
Proof.
  intros H. cbn zeta.
  pose proof (ext_write st [91] (k_array (o_colors o))) as [T1 D1].
  set (st1 := write o [91] (k_array (o_colors o)) st) in *.
  set (st2 := add_depth st1 (o_indent o)).
  assert (T2 : total st2 = total st1) by reflexivity.
  assert (D2 : c_depth st2 = (c_depth st + o_indent o)%Z) by (subst st2; cbn [c_depth add_depth]; rewrite D1; reflexivity).
  pose proof (arr_loop_ext l H true st2) as [T3 D3].
  set (st3 := arr_loop o true (map (c_encode fmt_float o) l) st2) in *.
  set (st4 := add_depth st3 (- o_indent o)).
  assert (T4 : total st4 = total st3) by reflexivity.
  assert (D4 : c_depth st4 = c_depth st) by (subst st4; cbn [c_depth add_depth]; rewrite D3, D2; lia).
  set (st5 := match l with [] => st4 | _ :: _ => if indenting o then write_indent o st4 else st4 end).
  assert (E5 : ext st4 st5 (match l with [] => [] | _ :: _ => nl (c_depth st4) end))
    by (subst st5; destruct l; [apply ext_refl|apply ext_nl]).
  destruct E5 as [T5 D5].
  pose proof (ext_write st5 [93] (k_array (o_colors o))) as [T6 D6].
  split.
  - rewrite T6, T5, T4, T3, T2, T1, D4, D2. cbn [pp]. rewrite <- !app_assoc. destruct l; reflexivity.
  - rewrite D6, D5, D4. reflexivity.
Qed.

Lemma obj_case st m : Forall kenc_ok m ->
  ext st
    (write o [125] (k_object (o_colors o))
       (let st4 := add_depth (obj_loop o true (sort_kvs (map (fun kv => (fst kv, c_encode fmt_float o (snd kv))) m))
                                (add_depth (write o [123] (k_object (o_colors o)) st) (o_indent o))) (- o_indent o) in
        match m with [] => st4 | _ :: _ => if indenting o then write_indent o st4 else st4 end))
    (pp (c_depth st) (VObj m)).
Proof.
  intros H. cbn zeta. rewrite sort_map_snd.
  pose proof (ext_write st [123] (k_object (o_colors o))) as [T1 D1].
  set (st1 := write o [123] (k_object (o_colors o)) st) in *.
  set (st2 := add_depth st1 (o_indent o)).
  assert (T2 : total st2 = total st1) by reflexivity.
  assert (D2 : c_depth st2 = (c_depth st + o_indent o)%Z) by (subst st2; cbn [c_depth add_depth]; rewrite D1; reflexivity).
  pose proof (obj_loop_ext (sort_kvs m) (sort_forall _ _ H) true st2) as [T3 D3].
  set (st3 := obj_loop o true (map (fun kv => (fst kv, c_encode fmt_float o (snd kv))) (sort_kvs m)) st2) in *.
  set (st4 := add_depth st3 (- o_indent o)).
  assert (T4 : total st4 = total st3) by reflexivity.
  assert (D4 : c_depth st4 = c_depth st) by (subst st4; cbn [c_depth add_depth]; rewrite D3, D2; lia).
  set (st5 := match m with [] => st4 | _ :: _ => if indenting o then write_indent o st4 else st4 end).
  assert (E5 : ext st4 st5 (match m with [] => [] | _ :: _ => nl (c_depth st4) end))
    by (subst st5; destruct m; [apply ext_refl|apply ext_nl]).
  destruct E5 as [T5 D5].
  pose proof (ext_write st5 [125] (k_object (o_colors o))) as [T6 D6].
  split.
  - rewrite T6, T5, T4, T3, T2, T1, D4, D2. cbn [pp]. rewrite sort_map_snd. rewrite <- !app_assoc. destruct m; reflexivity.
  - rewrite D6, D5, D4. reflexivity.
Qed.

(* The stateful encoder appends exactly [pp] and restores the depth, whatever was flushed on the way. *)
Theorem c_encode_pp : forall v st, ext st (c_encode fmt_float o v st) (pp (c_depth st) v).
Proof.
  induction v using value_ind'; intros st; cbn [c_encode];
    (eapply ext_eq; [eapply ext_trans; [|apply ext_maybe_flush]|rewrite app_nil_r; reflexivity]).
  - apply ext_write.
  - destruct b; apply ext_write.
  - apply ext_write.
  - apply ext_write.
  - apply ext_float.
  - apply ext_write.
  - apply ext_string.
  - apply arr_case. exact H.
  - apply obj_case. exact H.
Qed.

(* (c.2)/(d) are stated on [pp]: this is what marshal writes *)
Corollary cli_marshal_pp v : cli_marshal fmt_float o v = pp 0 v.
Proof.
  unfold cli_marshal. destruct (c_encode_pp v init_state) as [H _].
  cbn [c_out flush]. unfold total in H. rewrite H. reflexivity.
Qed.
End Pure.
