(* C12: the escaping policy of encodeString, as theorems (a change of policy is a broken obligation):
   - a byte below 0x80 is written verbatim iff it is in 0x20..0x7E and is neither the quote nor the backslash
     (so '<', '>', '&', '/' and the apostrophe are NOT escaped, DEL and every control byte are);
   - the short escapes are exactly those of the quote, the backslash and BS FF LF CR TAB (b f n r t), every other escaped byte is \u00XX with lower-case hex;
   - no character outside ASCII is ever escaped: valid UTF-8 made of verbatim ASCII bytes and multi-byte
     characters (U+2028, U+2029 included) is copied as it is between the quotes. *)
From Coq Require Import String.
From Coq Require Import List NArith ZArith Bool Lia ZifyN ZifyNat ZifyBool.
From Verif Require Import common.Sexp c12.Utf8 c12.JsonRef c12.Encode c12.Utf8Proofs c12.StrProofs.
Import ListNotations.
Open Scope N_scope.

Lemma verbatim_iff b : verbatim b = true <-> (0x20 <= b <= 0x7E /\ b <> 0x22 /\ b <> 0x5C).
Proof. unfold verbatim. lia. Qed.

Lemma encode_one_ascii b : b < 0x80 ->
  encode_string [b] = quote :: (if verbatim b then [b] else escape b) ++ [quote].
Proof.
  intros Hb. rewrite encode_string_chunks by (repeat constructor; lia).
  cbn [length chunks]. replace (b <? 0x80) with true by (symmetry; apply N.ltb_lt; exact Hb).
  cbn [flat_map enc_chunk]. rewrite app_nil_r. reflexivity.
Qed.

(* the escape table *)
Lemma escape_table :
  escape 0x22 = [92; 34] /\ escape 0x5C = [92; 92] /\ escape 8 = [92; 98] /\ escape 12 = [92; 102] /\
  escape 10 = [92; 110] /\ escape 13 = [92; 114] /\ escape 9 = [92; 116] /\
  escape 0 = codes "\u0000"%string /\ escape 0x1F = codes "\u001f"%string /\ escape 0x7F = codes "\u007f"%string /\ escape 0x0B = codes "\u000b"%string.
Proof. repeat split; reflexivity. Qed.

Lemma escape_long b : b < 0x80 -> verbatim b = false -> ~ In b [0x22; 0x5C; 8; 12; 10; 13; 9] ->
  escape b = [92; 117; 48; 48; hexdig (b / 16); hexdig (b mod 16)].
Proof.
  intros Hb Hv Hn. unfold escape. cbn [In] in Hn.
  repeat match goal with |- context [if ?b =? ?k then _ else _] =>
    replace (b =? k) with false by (symmetry; apply N.eqb_neq; intros ->; apply Hn; tauto) end.
  rewrite N.shiftr_div_pow2. change (2 ^ 4) with 16. change 0xF with (N.ones 4). rewrite N.land_ones. reflexivity.
Qed.

(* valid UTF-8 without bytes of the escaped class is copied *)
Lemma chunks_copy : forall cps, Forall scalar cps -> Forall (fun cp => cp < 0x80 -> verbatim cp = true) cps ->
  forall fuel, (length (flat_map utf8_enc cps) <= fuel)%nat ->
  flat_map enc_chunk (chunks fuel (flat_map utf8_enc cps)) = flat_map utf8_enc cps.
Proof.
  induction 1 as [|cp cps Hc Hcs IH]; intros Hv fuel Hl; [destruct fuel; reflexivity|].
  inversion Hv as [|? ? Hv1 Hv2]; subst. cbn [flat_map] in *. rewrite app_length in Hl. pose proof (enc_len cp) as Hlen.
  destruct fuel as [|f]; [lia|]. cbn [chunks].
  destruct (utf8_enc cp ++ flat_map utf8_enc cps) as [|b r] eqn:E.
  { apply (f_equal (@length N)) in E. rewrite app_length in E. cbn in E. lia. }
  destruct (N.ltb_spec cp 0x80) as [Hlt|Hge].
  - assert (Eb : utf8_enc cp = [cp]) by (unfold utf8_enc; replace (cp <? 0x80) with true by lia; reflexivity).
    rewrite Eb in E. cbn in E. inversion E; subst b r.
    replace (cp <? 0x80) with true by lia. cbn [flat_map enc_chunk]. rewrite (Hv1 Hlt). cbn [app].
    f_equal. apply IH; [assumption|rewrite Eb in Hl; cbn in Hl; lia].
  - assert (Hb : (b <? 0x80) = false).
    { pose proof (enc_bytes_high cp Hc Hge) as Hh. destruct (utf8_enc cp) as [|b0 t] eqn:Eb; [cbn in Hlen; lia|].
      cbn in E. inversion E; subst. inversion Hh; subst. lia. }
    rewrite Hb, <- E, step_complete by assumption.
    rewrite firstn_len_app, skipn_len_app. cbn [flat_map enc_chunk]. f_equal. apply IH; [assumption|lia].
Qed.

Theorem encode_string_copies s : utf8_valid s -> Forall (fun b => b < 0x80 -> verbatim b = true) s ->
  encode_string s = quote :: s ++ [quote].
Proof.
  intros (cps & Hs & ->) Hv.
  assert (Hb : bytes (flat_map utf8_enc cps)).
  { clear Hv. induction Hs as [|cp cps Hc Hcs IH]; [constructor|]. cbn [flat_map]. apply Forall_app. split; [|exact IH].
    destruct (N.ltb_spec cp 0x80).
    - unfold utf8_enc. replace (cp <? 0x80) with true by lia. repeat constructor. lia.
    - eapply Forall_impl; [|apply enc_bytes_high; assumption]. cbn beta. intros; lia. }
  rewrite encode_string_chunks by exact Hb. f_equal. f_equal. apply chunks_copy; [exact Hs| |lia].
  (* the condition on code points below 0x80 follows from the condition on bytes *)
  clear Hb. induction Hs as [|cp cps Hc Hcs IH]; [constructor|]. cbn [flat_map] in Hv. apply Forall_app in Hv. destruct Hv as [H1 H2].
  constructor; [|apply IH, H2]. intros Hlt. unfold utf8_enc in H1. replace (cp <? 0x80) with true in H1 by lia.
  inversion H1; subst. auto.
Qed.

(* the instances the property names *)
Corollary policy_examples :
  encode_string (codes "<>&/'"%string) = codes """<>&/'"""%string /\
  encode_string [0xE2; 0x80; 0xA8] = quote :: [0xE2; 0x80; 0xA8] ++ [quote] /\       (* U+2028 *)
  encode_string [0xE2; 0x80; 0xA9] = quote :: [0xE2; 0x80; 0xA9] ++ [quote] /\       (* U+2029 *)
  encode_string [0x7F] = codes """\u007f"""%string /\
  encode_string [0x1F; 0x20] = codes """\u001f """%string.
Proof. repeat split; vm_compute; reflexivity. Qed.
