(* C12 (c) — the raw output modes of the command, stated exactly (over the read-only model c12/CliEncode.v
   [cli_print] = cli.go createMarshaler + marshaler.go rawMarshaler.marshal + the terminator of printValues).

   marshaler.go rawMarshaler.marshal:  if s, ok := v.(string); ok { if m.checkNul && strings.ContainsRune(s, '\x00') { return
   fmt.Errorf(...) }; _, err := w.Write([]byte(s)); return err }; return m.m.marshal(v, w)
   — the bytes of the Go string are written AS THEY ARE: no quoting, no escaping, no colour, and NO invalid-UTF-8 handling
   (the U+FFFD replacement of encodeString is not applied: an invalid byte sequence reaches stdout unchanged).
   checkNul is cli.outputRaw0; the string test comes before anything else, so -r / -j / --raw-output0 are equivalent for
   the body and differ only in the terminator (NUL beats nothing beats newline). *)
From Coq Require Import List NArith ZArith Bool Lia.
From Verif Require Import common.Sexp c12.Utf8 c12.JsonRef c12.Encode c12.CliEncode c12.CliPure
  c12.NumProofs c12.ValueProofs c12.IndentProofs c12.DecodeProofs c12.RawProofs.
Import ListNotations.
Open Scope N_scope.

(* the command refuses to print a value  iff  it is a string containing a NUL byte and --raw-output0 is on
   (given that the colour table could be set up at all: an invalid GOJQ_COLORS stops the command before any value) *)
Theorem raw0_rejects_exactly fmt f v tbl : table_of f = Some tbl ->
  (cli_print fmt f v = Err <-> exists s, v = VStr s /\ f_raw0 f = true /\ contains_nul s = true).
Proof.
  intros Ht. rewrite cli_print_eq, Ht. split.
  - destruct v; try discriminate. unfold rawmode. destruct (f_raw0 f) eqn:R0.
    + rewrite orb_true_r. cbn [orb andb]. destruct (contains_nul s) eqn:Hn; [|discriminate].
      intros _. exists s. auto.
    + rewrite andb_false_l. destruct (f_raw f || false || f_join f); discriminate.
  - intros (s & -> & R0 & Hn). unfold rawmode. rewrite R0, Hn, orb_true_r. reflexivity.
Qed.

(* [contains_nul] is "some byte of the string is 0" *)
Lemma contains_nul_spec s : contains_nul s = true <-> In 0 s.
Proof.
  unfold contains_nul. rewrite existsb_exists. split.
  - intros (x & Hin & Hx). apply N.eqb_eq in Hx. subst x. exact Hin.
  - intros H. exists 0. split; [exact H|reflexivity].
Qed.

(* a string under any of the raw flags: EXACTLY its bytes — for every list of bytes, valid UTF-8 or not — then the
   terminator; the encoder options (-c, --tab, --indent, colour) take no part *)
Theorem raw_string_verbatim fmt f s tbl : table_of f = Some tbl -> rawmode f = true ->
  (f_raw0 f = true -> ~ In 0 s) ->
  cli_print fmt f (VStr s) = Out (s ++ (if f_raw0 f then [0] else if f_join f then [] else [10])).
Proof.
  intros Ht Hr Hn. eapply raw_string; eauto.
  destruct (f_raw0 f); [|reflexivity]. cbn [andb].
  destruct (contains_nul s) eqn:E; [|reflexivity]. exfalso. apply (Hn eq_refl). apply contains_nul_spec. exact E.
Qed.

(* the three flags select the same body; only the terminator differs *)
Theorem raw_flags_same_body fmt f g s tf tg : table_of f = Some tf -> table_of g = Some tg ->
  rawmode f = true -> rawmode g = true -> ~ In 0 s ->
  exists tail_f tail_g, cli_print fmt f (VStr s) = Out (s ++ tail_f) /\ cli_print fmt g (VStr s) = Out (s ++ tail_g).
Proof.
  intros Hf Hg Rf Rg Hn. do 2 eexists. split; eapply raw_string_verbatim; eauto.
Qed.

(* without a raw flag the same string goes through encodeString: quoted, escaped, invalid UTF-8 replaced *)
Theorem nonraw_string_is_encoded fmt f s tbl : table_of f = Some tbl -> rawmode f = false ->
  cli_print fmt f (VStr s) = Out (cli_marshal fmt (opts_of f tbl) (VStr s) ++ terminator f).
Proof. intros Ht Hr. eapply nonraw_value; eauto. Qed.

(* a NON-string under the raw flags is printed exactly as without them: the JSON encoding in the selected layout
   (compact / tab / indent n, colour), then the terminator the raw flags select *)
Theorem raw_nonstring fmt f v tbl : table_of f = Some tbl -> (forall s, v <> VStr s) ->
  cli_print fmt f v = Out (cli_marshal fmt (opts_of f tbl) v ++ terminator f) /\
  forall f', table_of f' = Some tbl -> f_tab f' = f_tab f -> resolve_indent f' = resolve_indent f -> f_color f' = f_color f ->
             exists b, cli_print fmt f v = Out (b ++ terminator f) /\ cli_print fmt f' v = Out (b ++ terminator f').
Proof.
  intros Ht Hv. split; [eapply nonraw_value; eauto|].
  intros f' Ht' E1 E2 E3. exists (cli_marshal fmt (opts_of f tbl) v). split; [eapply nonraw_value; eauto|].
  rewrite (nonraw_value fmt f' v tbl Ht' (or_intror Hv)). unfold opts_of. rewrite E1, E2, E3. reflexivity.
Qed.

(* ... and that text is valid JSON denoting the value, whatever the raw flags (from cli_print_sound) *)
Theorem raw_nonstring_is_json fmt_float : (forall f e, finite f -> fnum_shape e (fmt_float f e) = true) ->
  forall f v b, wfv v -> (forall s, v <> VStr s) -> cli_print fmt_float f v = Out b ->
  exists body, b = body ++ terminator f /\
    strip_ws (strip_sgr body) = encode fmt_float v /\ json_decode (strip_sgr body) = Some (norm fmt_float v).
Proof.
  intros Hs f v b Hwf Hv E. destruct (cli_print_sound fmt_float Hs f v b Hwf E) as [(s & -> & _)|H]; [|exact H].
  exfalso. exact (Hv s eq_refl).
Qed.

(* non-vacuity: the lone byte 0xC3 (invalid UTF-8) under -r is written as it is, without -r it becomes the six characters \ufffd in quotes;
   "a\x00b" is refused by --raw-output0 and printed by -r and -j *)
Definition fl (raw raw0 join : bool) : flags :=
  {| f_compact := false; f_tab := false; f_indent := None; f_color := false; f_raw := raw; f_raw0 := raw0; f_join := join; f_colors := None |}.
Lemma raw_examples fmt :
  cli_print fmt (fl true false false) (VStr [0xC3]) = Out [0xC3; 10] /\
  cli_print fmt (fl false false false) (VStr [0xC3]) = Out [34; 92; 117; 102; 102; 102; 100; 34; 10] /\
  cli_print fmt (fl false true false) (VStr [97; 0; 98]) = Err /\
  cli_print fmt (fl true false false) (VStr [97; 0; 98]) = Out [97; 0; 98; 10] /\
  cli_print fmt (fl false false true) (VStr [97; 0; 98]) = Out [97; 0; 98] /\
  cli_print fmt (fl true true true) (VStr [97]) = Out [97; 0] /\
  cli_print fmt (fl false true false) (VArr [VStr [0]]) = Out [91; 10; 32; 32; 34; 92; 117; 48; 48; 48; 48; 34; 10; 93; 0].
Proof. repeat split; vm_compute; reflexivity. Qed.
