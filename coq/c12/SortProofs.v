(* C12: encodeObject's sort (model: insertion sort on keys, bytewise order) yields the members in ascending
   key order and is a permutation. *)
From Coq Require Import List NArith Bool Lia Sorted Permutation.
From Verif Require Import c12.Encode.
Import ListNotations.
Open Scope N_scope.

Lemma bytes_ltb_asym : forall a b, bytes_ltb a b = true -> bytes_ltb b a = false.
Proof.
  induction a as [|x a IH]; destruct b as [|y b]; cbn [bytes_ltb]; try congruence.
  destruct (N.ltb_spec x y), (N.ltb_spec y x); try congruence; try lia. apply IH.
Qed.

(* kv1 may precede kv2 *)
Definition key_le {A} (kv1 kv2 : list N * A) : Prop := bytes_ltb (fst kv2) (fst kv1) = false.

Lemma insert_sorted {A} k (x : A) l : Sorted key_le l -> Sorted key_le (insert_kv k x l).
Proof.
  induction l as [|[k' y] l IH]; intros H; cbn [insert_kv]; [repeat constructor|].
  destruct (bytes_ltb k k') eqn:E.
  - constructor; [exact H|]. constructor. unfold key_le. cbn [fst]. apply bytes_ltb_asym, E.
  - inversion H as [|? ? Hs Hh]; subst. constructor; [apply IH, Hs|].
    destruct l as [|[k'' z] l]; cbn [insert_kv].
    + constructor. exact E.
    + destruct (bytes_ltb k k''); constructor; [exact E|]. inversion Hh; subst. assumption.
Qed.

Theorem sort_sorted {A} (m : list (list N * A)) : Sorted key_le (sort_kvs m).
Proof. induction m as [|[k x] m IH]; [constructor|]. unfold sort_kvs in *. cbn [fold_right fst snd]. apply insert_sorted, IH. Qed.

Lemma insert_perm {A} k (x : A) l : Permutation (insert_kv k x l) ((k, x) :: l).
Proof.
  induction l as [|[k' y] l IH]; cbn [insert_kv]; [apply Permutation_refl|].
  destruct (bytes_ltb k k'); [apply Permutation_refl|].
  eapply Permutation_trans; [apply perm_skip, IH|apply perm_swap].
Qed.

Theorem sort_perm {A} (m : list (list N * A)) : Permutation (sort_kvs m) m.
Proof.
  induction m as [|[k x] m IH]; [constructor|]. unfold sort_kvs in *. cbn [fold_right fst snd].
  eapply Permutation_trans; [apply insert_perm|apply perm_skip, IH].
Qed.
