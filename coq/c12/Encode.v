(* C12 model of the library encoder /repo/encoder.go (encode, encodeFloat64, encodeString, encodeArray,
   encodeObject).  Definitions only.
   strconv.AppendFloat is not gojq's code: it is the parameter [fmt_float] (structured digits, see fnum);
   strconv.AppendInt / big.Int.Append print the canonical decimal ([print_Z], as in C10). *)
From Coq Require Import List NArith ZArith Bool.
From Verif Require Import common.Sexp c12.Utf8.
Import ListNotations.
Open Scope N_scope.

Inductive value :=
| VNull | VBool (b : bool)
| VInt (z : Z)            (* int *)
| VBig (z : Z)            (* *big.Int *)
| VFloat (bits : N)       (* float64, IEEE-754 bit pattern *)
| VLit (t : list N)       (* json.Number: literal text *)
| VStr (s : list N)
| VArr (l : list value)
| VObj (m : list (list N * value)).   (* map[string]any: distinct keys, order irrelevant *)

(* ---------- encodeString ---------- *)
Definition quote : N := 34.
Definition backslash : N := 92.
Definition hexdigits : list N := [48;49;50;51;52;53;54;55;56;57;97;98;99;100;101;102]. (* "0123456789abcdef" *)
Definition hexdig (n : N) : N := nth (N.to_nat n) hexdigits 0.

(* the switch b { ... } for a byte b < 0x80 that is not copied verbatim *)
Definition escape (b : N) : list N :=
  if b =? 34 then [92; 34]
  else if b =? 92 then [92; 92]
  else if b =? 8 then [92; 98]
  else if b =? 12 then [92; 102]
  else if b =? 10 then [92; 110]
  else if b =? 13 then [92; 114]
  else if b =? 9 then [92; 116]
  else [92; 117; 48; 48; hexdig (N.shiftr b 4); hexdig (N.land b 0xF)].

Definition esc_fffd : list N := [92; 117; 102; 102; 102; 100].   (* backslash ufffd *)

(* space <= b && b <= tilde && b != quote && b != backslash *)
Definition verbatim (b : N) : bool := (32 <=? b) && (b <=? 126) && negb (b =? 34) && negb (b =? 92).

(* the for loop: [pend] = s[start:i] (not yet written), [rest] = s[i:]; result = bytes written from here on,
   including the closing quote.  fuel only bounds the recursion (S (length s) suffices). *)
Fixpoint es_loop (fuel : nat) (pend rest : list N) : list N :=
  match fuel with
  | O => []
  | S f =>
    match rest with
    | [] => pend ++ [quote]
    | b :: r =>
      if b <? rune_self then
        if verbatim b then es_loop f (pend ++ [b]) r
        else pend ++ escape b ++ es_loop f [] r
      else
        let (c, size) := decode_rune rest in
        if (c =? rune_error) && (size =? 1)%nat then pend ++ esc_fffd ++ es_loop f [] (skipn size rest)
        else es_loop f (pend ++ firstn size rest) (skipn size rest)
    end
  end.
Definition encode_string (s : list N) : list N := quote :: es_loop (S (length s)) [] s.

(* ---------- encodeFloat64 ---------- *)
(* What strconv.AppendFloat(buf, f, fmt, -1, 64) prints, structured: [-]int[.frac][e(+|-)exp] *)
Record fnum := { fneg : bool; fint : list N; ffrac : list N; fexp : option (bool * list N) }.
Definition fnum_text (x : fnum) : list N :=
  (if fneg x then [45] else []) ++ fint x
  ++ (match ffrac x with [] => [] | ds => 46 :: ds end)
  ++ (match fexp x with None => [] | Some (neg, ds) => 101 :: (if neg then 45 else 43) :: ds end).

(* The shape assumed of strconv.AppendFloat(f, fmt, -1, 64) for finite f:
   'e': [-]d[.d+]e(+|-)dd+ (at least two exponent digits), 'f': [-]d+[.d+]; no superfluous leading zero. *)
Definition is_dig (c : N) : bool := (48 <=? c) && (c <=? 57).
Definition all_digits (l : list N) : bool := forallb is_dig l.
Definition canon_int (l : list N) : bool :=
  all_digits l && (match l with [] => false | [_] => true | c :: _ => negb (c =? 48) end).
Definition fnum_shape (e : bool) (x : fnum) : bool :=
  canon_int (fint x) && all_digits (ffrac x)
  && (if e then match fexp x with
                | Some (_, ds) => all_digits ds && (2 <=? length ds)%nat && (length (fint x) =? 1)%nat
                | None => false end
      else match fexp x with None => true | Some _ => false end).

Definition two63 : N := 0x8000000000000000.
Definition inf_bits : N := 0x7FF0000000000000.
Definition max_bits : N := 0x7FEFFFFFFFFFFFFF.   (* math.MaxFloat64 *)
Definition bits_1em6 : N := 0x3EB0C6F7A0B5ED8D.  (* float64(1e-6) *)
Definition bits_1e21 : N := 0x444B1AE4D6E2EF50.  (* float64(1e21) *)
Definition fabs (bits : N) : N := bits mod two63.               (* math.Abs *)
Definition is_nan (bits : N) : bool := inf_bits <? fabs bits.   (* math.IsNaN *)
(* min(max(f, -MaxFloat64), MaxFloat64) for a non-NaN f *)
Definition clamp (bits : N) : N := if fabs bits =? inf_bits then bits - inf_bits + max_bits else bits.
(* x := math.Abs(f); x != 0 && x < 1e-6 || x >= 1e21.  Non-negative floats are ordered like their bit patterns. *)
Definition fmt_is_e (bits : N) : bool :=
  let x := fabs bits in (negb (x =? 0) && (x <? bits_1em6)) || (bits_1e21 <=? x).

(* clean up e-09 to e-9 *)
Definition cleanup (buf : list N) : list N :=
  let n := length buf in
  if (4 <=? n)%nat && (nth (n - 4) buf 0 =? 101) && (nth (n - 3) buf 0 =? 45) && (nth (n - 2) buf 0 =? 48)
  then firstn (n - 2) buf ++ [nth (n - 1) buf 0]
  else buf.

Definition txt_null : list N := [110; 117; 108; 108].
Definition txt_true : list N := [116; 114; 117; 101].
Definition txt_false : list N := [102; 97; 108; 115; 101].

Section WithFmt.
Variable fmt_float : N -> bool -> fnum.   (* bits, true = 'e' / false = 'f' *)

Definition encode_float (bits : N) : list N :=
  if is_nan bits then txt_null
  else
    let f := clamp bits in
    let e := fmt_is_e f in
    let buf := fnum_text (fmt_float f e) in
    if e then cleanup buf else buf.

(* ---------- objects: sort.Slice by key, bytewise ---------- *)
Fixpoint bytes_ltb (a b : list N) : bool :=
  match a, b with
  | [], [] => false
  | [], _ :: _ => true
  | _ :: _, [] => false
  | x :: a', y :: b' => if x <? y then true else if y <? x then false else bytes_ltb a' b'
  end.
Fixpoint insert_kv {A} (k : list N) (x : A) (l : list (list N * A)) : list (list N * A) :=
  match l with
  | [] => [(k, x)]
  | (k', y) :: r => if bytes_ltb k k' then (k, x) :: l else (k', y) :: insert_kv k x r
  end.
Definition sort_kvs {A} (m : list (list N * A)) : list (list N * A) :=
  fold_right (fun kv acc => insert_kv (fst kv) (snd kv) acc) [] m.

Fixpoint join_comma (l : list (list N)) : list N :=
  match l with
  | [] => []
  | [x] => x
  | x :: r => x ++ 44 :: join_comma r
  end.

(* encode.  For objects the members' values are encoded in place and the (key, bytes) pairs are then
   sorted by key: sorting looks at keys only, so this is the output of sorting first (as the Go code does). *)
Fixpoint encode (v : value) : list N :=
  match v with
  | VNull => txt_null
  | VBool b => if b then txt_true else txt_false
  | VInt z => print_Z z
  | VBig z => print_Z z
  | VFloat f => encode_float f
  | VLit t => t
  | VStr s => encode_string s
  | VArr l => 91 :: join_comma (map encode l) ++ [93]
  | VObj m =>
    123 :: join_comma (map (fun kv => encode_string (fst kv) ++ 58 :: snd kv)
                           (sort_kvs (map (fun kv => (fst kv, encode (snd kv))) m))) ++ [125]
  end.

(* funcToJSON = jsonMarshal; funcToString (tostring, @text): strings are returned as they are *)
Definition tojson (v : value) : list N := encode v.
Definition tostring (v : value) : list N := match v with VStr s => s | _ => encode v end.
End WithFmt.
