(* C12 (b): the reference reader (JsonRef.pval / json_decode) reads every encoder text back as [norm v],
   for the library encoder and for every plain layout of the command's encoder. *)
From Coq Require Import List NArith ZArith Bool Lia ZifyN ZifyNat ZifyBool.
From Verif Require Import common.Sexp c12.Utf8 c12.JsonRef c12.Encode c12.CliEncode c12.CliPure
  c12.Utf8Proofs c12.StrProofs c12.NumProofs c12.ValueProofs c12.IndentProofs.
Import ListNotations.
Open Scope N_scope.

(* unfolding equations of the mutual reader *)
Lemma pval_eq f l : pval (S f) l =
  match skip_ws l with
  | [] => None
  | c :: r =>
    if c =? 34 then match str_body r with Some (s, r') => Some (JStr s, r') | None => None end
    else if c =? 91 then
      match skip_ws r with
      | d :: r' => if d =? 93 then Some (JArr [], r') else pelems f (d :: r') []
      | [] => None
      end
    else if c =? 123 then
      match skip_ws r with
      | d :: r' => if d =? 125 then Some (JObj [], r') else pmembers f (d :: r') []
      | [] => None
      end
    else if c =? 110 then match expect JsonRef.lit_null (c :: r) with Some r' => Some (JNull, r') | None => None end
    else if c =? 116 then match expect JsonRef.lit_true (c :: r) with Some r' => Some (JBool true, r') | None => None end
    else if c =? 102 then match expect JsonRef.lit_false (c :: r) with Some r' => Some (JBool false, r') | None => None end
    else match scan_number (c :: r) with Some (lit, r') => Some (JNum lit, r') | None => None end
  end.
Proof. reflexivity. Qed.

Lemma pelems_eq f l acc : pelems (S f) l acc =
  match pval f l with
  | None => None
  | Some (v, r) =>
    match skip_ws r with
    | c :: r' =>
      if c =? 44 then pelems f r' (v :: acc)
      else if c =? 93 then Some (JArr (rev (v :: acc)), r')
      else None
    | [] => None
    end
  end.
Proof. reflexivity. Qed.

Lemma pmembers_eq f l acc : pmembers (S f) l acc =
  match read_string (skip_ws l) with
  | None => None
  | Some (k, r0) =>
    match skip_ws r0 with
    | c0 :: r1 =>
      if c0 =? 58 then
        match pval f r1 with
        | None => None
        | Some (v, r) =>
          match skip_ws r with
          | c :: r' =>
            if c =? 44 then pmembers f r' ((k, v) :: acc)
            else if c =? 125 then Some (JObj (rev ((k, v) :: acc)), r')
            else None
          | [] => None
          end
        end
      else None
    | [] => None
    end
  end.
Proof. reflexivity. Qed.

Lemma skip_ws_app W l : forallb is_ws W = true -> skip_ws (W ++ l) = skip_ws l.
Proof.
  induction W as [|c W IH]; [reflexivity|]. cbn [forallb app skip_ws]. intros H. apply andb_true_iff in H.
  destruct H as [-> H]. apply IH, H.
Qed.
Lemma skip_ws_head c r : is_ws c = false -> skip_ws (c :: r) = c :: r.
Proof. intros H. cbn [skip_ws]. rewrite H. reflexivity. Qed.

Lemma pval_skip W l fuel : forallb is_ws W = true -> pval fuel (W ++ l) = pval fuel l.
Proof. intros H. destruct fuel; [reflexivity|]. rewrite !pval_eq, skip_ws_app by assumption. reflexivity. Qed.

Lemma pval_literal t rest f : number_literal t -> num_end rest = true -> pval (S f) (t ++ rest) = Some (JNum t, rest).
Proof.
  intros Hl Hr. destruct (literal_nonempty t Hl) as (c & r & E & Hc).
  destruct Hl as (p & Hok & Et). pose proof (scan_number_np p rest Hok Hr) as Hs. rewrite <- Et in Hs.
  rewrite pval_eq. rewrite E in *. cbn [app] in *. rewrite skip_ws_head by (unfold is_ws, is_digit in *; lia).
  replace (c =? 34) with false by (unfold is_digit in *; lia).
  replace (c =? 91) with false by (unfold is_digit in *; lia).
  replace (c =? 123) with false by (unfold is_digit in *; lia).
  replace (c =? 110) with false by (unfold is_digit in *; lia).
  replace (c =? 116) with false by (unfold is_digit in *; lia).
  replace (c =? 102) with false by (unfold is_digit in *; lia).
  rewrite Hs. reflexivity.
Qed.

Lemma pval_string s rest f : bytes s -> pval (S f) (encode_string s ++ rest) = Some (JStr (sanitize s), rest).
Proof.
  intros Hb. pose proof (read_encode_string s rest Hb) as H. rewrite pval_eq.
  unfold encode_string in *. cbn [app] in *. rewrite skip_ws_head by reflexivity.
  cbn [N.eqb Pos.eqb]. unfold read_string in H. cbn [N.eqb Pos.eqb quote] in H. rewrite H. reflexivity.
Qed.

Section Values.
Variable fmt_float : N -> bool -> fnum.
Hypothesis fmt_shape : forall f e, finite f -> fnum_shape e (fmt_float f e) = true.

(* what the text reads back as: NaN -> null, strings and keys sanitized, members in key order,
   numbers as their literals (their denotations: NumProofs.num_denote_int / encode_float_denote) *)
Fixpoint norm (v : value) : jv :=
  match v with
  | VNull => JNull
  | VBool b => JBool b
  | VInt z => JNum (print_Z z)
  | VBig z => JNum (print_Z z)
  | VFloat f => if is_nan f then JNull else JNum (encode_float fmt_float f)
  | VLit t => JNum t
  | VStr s => JStr (sanitize s)
  | VArr l => JArr (map norm l)
  | VObj m => JObj (map (fun kv => (sanitize (fst kv), snd kv)) (sort_kvs (map (fun kv => (fst kv, norm (snd kv))) m)))
  end.

Fixpoint vsize (v : value) : nat :=
  match v with
  | VArr l => S (fold_right (fun x a => S (vsize x + a)) 0%nat l)
  | VObj m => S (fold_right (fun kv a => S (vsize (snd kv) + a)) 0%nat m)
  | _ => 1%nat
  end.

Variable o : copts.
Notation ppp := (pp fmt_float (plain_opts o)).
Notation nlp := (nl (plain_opts o)).

Definition reads (v : value) : Prop :=
  forall d rest fuel, num_end rest = true -> (vsize v <= fuel)%nat -> pval fuel (ppp d v ++ rest) = Some (norm v, rest).

Lemma nlp_ws d : forallb is_ws (nlp d) = true.
Proof. apply nl_ws. Qed.

Lemma num_end_nl d cl rest : is_close cl = true -> num_end (nlp d ++ cl :: rest) = true.
Proof.
  intros H. unfold nl. destruct (indenting _); cbn [app]; [reflexivity|].
  unfold num_end, is_close, is_digit in *. lia.
Qed.

Lemma skip_nl_close d cl rest : is_close cl = true -> skip_ws (nlp d ++ cl :: rest) = cl :: rest.
Proof.
  intros H. rewrite skip_ws_app by apply nlp_ws. apply skip_ws_head. unfold is_close, is_ws in *. lia.
Qed.

Definition szs (xs : list value) : nat := fold_right (fun x a => S (vsize x + a)) 0%nat xs.

Lemma pelems_items d d' rest : forall xs, Forall reads xs -> Forall wfv xs -> forall x W acc fuel,
  reads x -> wfv x -> forallb is_ws W = true -> (szs (x :: xs) <= fuel)%nat -> num_end rest = true ->
  pelems fuel (W ++ ppp d' x ++ items_tail [44] (nlp d') (nlp d ++ 93 :: rest) (map (ppp d') xs)) acc
  = Some (JArr (rev acc ++ norm x :: map norm xs), rest).
Proof.
  induction xs as [|y ys IH]; intros Hr Hw x W acc fuel Hx Hwx HW Hf Hrest;
    (destruct fuel as [|f]; [cbn in Hf; lia|]); cbn [szs fold_right] in Hf; rewrite pelems_eq, pval_skip by assumption.
  - cbn [map items_tail]. rewrite Hx; [|apply num_end_nl; reflexivity|lia].
    rewrite skip_nl_close by reflexivity. cbn [N.eqb Pos.eqb rev map]. reflexivity.
  - cbn [map items_tail]. inversion Hr; subst. inversion Hw; subst.
    rewrite Hx; [|reflexivity|lia]. cbn [app]. rewrite skip_ws_head by reflexivity. cbn [N.eqb Pos.eqb].
    rewrite IH; try assumption; [|apply nlp_ws|cbn [szs fold_right]; lia].
    cbn [rev map]. rewrite <- app_assoc. reflexivity.
Qed.

Definition memberp (kv : list N * value) (d' : Z) : list N := member (plain_opts o) (fst kv, ppp d' (snd kv)).
Definition mszs (ms : list (list N * value)) : nat := fold_right (fun kv a => S (vsize (snd kv) + a)) 0%nat ms.
Definition normkv (kv : list N * value) : list N * jv := (sanitize (fst kv), norm (snd kv)).

Lemma sp_ws : forallb is_ws (sp (plain_opts o)) = true.
Proof. unfold sp. destruct (indenting _); reflexivity. Qed.

Lemma memberp_eq kv d' : memberp kv d' = encode_string (fst kv) ++ 58 :: sp (plain_opts o) ++ ppp d' (snd kv).
Proof. unfold memberp, member. cbn [fst snd]. rewrite !col_plain. reflexivity. Qed.

Lemma skip_ws_string s R : skip_ws (encode_string s ++ R) = encode_string s ++ R.
Proof. unfold encode_string. cbn [app]. apply skip_ws_head. reflexivity. Qed.

Lemma pmembers_step kv d' T f acc W : reads (snd kv) -> wfkv kv -> forallb is_ws W = true ->
  num_end T = true -> (vsize (snd kv) <= f)%nat ->
  pmembers (S f) (W ++ memberp kv d' ++ T) acc =
  match skip_ws T with
  | c :: r' =>
    if c =? 44 then pmembers f r' (normkv kv :: acc)
    else if c =? 125 then Some (JObj (rev (normkv kv :: acc)), r')
    else None
  | [] => None
  end.
Proof.
  intros Hx [Hk Hv] HW HT Hf. rewrite pmembers_eq, skip_ws_app by assumption.
  rewrite memberp_eq, <- app_assoc. cbn [app]. rewrite skip_ws_string, read_encode_string by assumption.
  rewrite skip_ws_head by reflexivity. cbn [N.eqb Pos.eqb]. rewrite <- app_assoc.
  rewrite pval_skip by apply sp_ws. rewrite Hx by assumption. reflexivity.
Qed.

Lemma pmembers_items d d' rest : forall ms, Forall (fun kv => reads (snd kv)) ms -> Forall wfkv ms -> forall kv W acc fuel,
  reads (snd kv) -> wfkv kv -> forallb is_ws W = true -> (mszs (kv :: ms) <= fuel)%nat -> num_end rest = true ->
  pmembers fuel (W ++ memberp kv d' ++ items_tail [44] (nlp d') (nlp d ++ 125 :: rest) (map (fun kv => memberp kv d') ms)) acc
  = Some (JObj (rev acc ++ normkv kv :: map normkv ms), rest).
Proof.
  induction ms as [|y ys IH]; intros Hr Hw kv W acc fuel Hx Hkv HW Hf Hrest;
    (destruct fuel as [|f]; [cbn in Hf; lia|]); cbn [mszs fold_right] in Hf; cbn [map items_tail].
  - rewrite pmembers_step; try assumption; [|apply num_end_nl; reflexivity|lia].
    rewrite skip_nl_close by reflexivity. cbn [N.eqb Pos.eqb rev map]. reflexivity.
  - inversion Hr; subst. inversion Hw; subst.
    rewrite pmembers_step; try assumption; [|reflexivity|lia].
    cbn [app]. rewrite skip_ws_head by reflexivity. cbn [N.eqb Pos.eqb].
    rewrite IH; try assumption; [|apply nlp_ws|cbn [mszs fold_right]; lia].
    cbn [rev map]. rewrite <- app_assoc. reflexivity.
Qed.

Lemma mszs_insert k x l : mszs (insert_kv k x l) = (S (vsize x) + mszs l)%nat.
Proof.
  induction l as [|[k' y] l IH]; cbn [insert_kv]; [reflexivity|].
  destruct (bytes_ltb k k'); [reflexivity|]. unfold mszs in *. cbn [fold_right snd]. rewrite IH. lia.
Qed.
Lemma mszs_sort m : mszs (sort_kvs m) = mszs m.
Proof.
  induction m as [|[k x] m IH]; [reflexivity|]. unfold sort_kvs in *. cbn [fold_right fst snd].
  rewrite mszs_insert, IH. reflexivity.
Qed.

Lemma obj_dispatch f W Y : forallb is_ws W = true -> (exists r, Y = 34 :: r) ->
  match skip_ws (W ++ Y) with
  | d :: r' => if d =? 125 then Some (JObj [], r') else pmembers f (d :: r') []
  | [] => None
  end = pmembers f Y [].
Proof. intros HW (r & ->). rewrite skip_ws_app by assumption. rewrite skip_ws_head by reflexivity. reflexivity. Qed.

Lemma sort_nonempty {A} (kv : list N * A) m : sort_kvs (kv :: m) <> [].
Proof.
  unfold sort_kvs. cbn [fold_right]. destruct (fold_right _ _ m) as [|[k' y'] t]; cbn [insert_kv]; [discriminate|].
  destruct (bytes_ltb (fst kv) k'); discriminate.
Qed.

(* (b) core: any plain layout reads back as [norm v], whatever delimiter follows *)
Theorem reads_value : forall v, wfv v -> reads v.
Proof.
  induction v using value_ind'; intros Hwf d rest fuel Hrest Hf;
    (destruct fuel as [|fu]; [cbn in Hf; lia|]); cbn [pp norm]; rewrite ?col_plain.
  - rewrite pval_eq. reflexivity.
  - destruct b; rewrite ?col_plain, pval_eq; reflexivity.
  - apply pval_literal; [apply int_literal|assumption].
  - apply pval_literal; [apply int_literal|assumption].
  - destruct (is_nan f) eqn:E; rewrite ?col_plain.
    + rewrite pval_eq. reflexivity.
    + apply pval_literal; [apply encode_float_literal; assumption|assumption].
  - inversion Hwf; subst. apply pval_literal; assumption.
  - inversion Hwf; subst. apply pval_string. assumption.
  - inversion Hwf as [| | | | | | |l' Hl|]; subst. cbn [vsize] in Hf.
    rewrite pval_eq. cbn [app]. rewrite skip_ws_head by reflexivity. cbn [N.eqb Pos.eqb].
    destruct l as [|x xs].
    + cbn [map pp_items app]. rewrite skip_ws_head by reflexivity. reflexivity.
    + inversion H; subst. inversion Hl; subst. cbn [map].
      rewrite <- !app_assoc.
      replace (pp_items [44] (nlp (d + o_indent (plain_opts o))) true (ppp (d + o_indent (plain_opts o)) x :: map (ppp (d + o_indent (plain_opts o))) xs)
               ++ nlp d ++ [93] ++ rest)
        with (nlp (d + o_indent (plain_opts o)) ++ ppp (d + o_indent (plain_opts o)) x
              ++ items_tail [44] (nlp (d + o_indent (plain_opts o))) (nlp d ++ 93 :: rest) (map (ppp (d + o_indent (plain_opts o))) xs))
        by (rewrite <- pp_items_true; reflexivity).
      rewrite skip_ws_app by apply nlp_ws.
      destruct (pp_head fmt_float fmt_shape o x (d + o_indent (plain_opts o))%Z H4) as (c & r & E & Hws & Hcl).
      rewrite E. cbn [app]. rewrite skip_ws_head by assumption.
      replace (c =? 93) with false by (unfold is_close in Hcl; lia).
      change (c :: r ++ ?T) with ((c :: r) ++ T). rewrite <- E.
      pose proof (pelems_items d (d + o_indent (plain_opts o))%Z rest xs) as P.
      specialize (P ltac:(rewrite Forall_forall in *; intros y Hy; apply H3; [exact Hy|apply H5, Hy]) H5 x [] [] fu).
      cbn [app rev] in P. apply P; try assumption.
      * apply H2. exact H4.
      * reflexivity.
      * cbn [szs fold_right] in *. lia.
  - inversion Hwf as [| | | | | | | |m' Hm]; subst. cbn [vsize] in Hf.
    rewrite pval_eq. cbn [app]. rewrite skip_ws_head by reflexivity. cbn [N.eqb Pos.eqb].
    rewrite !sort_map_snd, !map_map.
    assert (Hms : Forall (fun kv => reads (snd kv)) (sort_kvs m) /\ Forall wfkv (sort_kvs m)).
    { split; apply sort_forall; [|exact Hm]. rewrite Forall_forall in *. intros kv Hkv. apply H; [exact Hkv|apply Hm, Hkv]. }
    pose proof (mszs_sort m) as Hsz.
    destruct Hms as [Hr Hw].
    destruct m as [|kv0 m0].
    + cbn [map pp_items app sort_kvs fold_right]. rewrite skip_ws_head by reflexivity. reflexivity.
    + destruct (sort_kvs (kv0 :: m0)) as [|kv ms] eqn:Es; [exfalso; exact (sort_nonempty _ _ Es)|].
      inversion Hr as [|? ? Hr1 Hr2]; subst. inversion Hw as [|? ? Hw1 Hw2]; subst. cbn [map].
      rewrite <- !app_assoc.
      change (fun x => member (plain_opts o) (fst x, ppp (d + o_indent (plain_opts o)) (snd x)))
        with (fun kv => memberp kv (d + o_indent (plain_opts o))).
      change (member (plain_opts o) (fst kv, ppp (d + o_indent (plain_opts o)) (snd kv)))
        with (memberp kv (d + o_indent (plain_opts o))).
      replace (pp_items [44] (nlp (d + o_indent (plain_opts o))) true
                 (memberp kv (d + o_indent (plain_opts o)) :: map (fun kv => memberp kv (d + o_indent (plain_opts o))) ms)
               ++ nlp d ++ [125] ++ rest)
        with (nlp (d + o_indent (plain_opts o)) ++ memberp kv (d + o_indent (plain_opts o))
              ++ items_tail [44] (nlp (d + o_indent (plain_opts o))) (nlp d ++ 125 :: rest)
                   (map (fun kv => memberp kv (d + o_indent (plain_opts o))) ms))
        by (rewrite <- pp_items_true; reflexivity).
      rewrite obj_dispatch; [|apply nlp_ws|rewrite memberp_eq; unfold encode_string; cbn [app]; eexists; reflexivity].
      pose proof (pmembers_items d (d + o_indent (plain_opts o))%Z rest ms Hr2 Hw2 kv [] [] fu) as P.
      cbn [app rev] in P. rewrite P; try assumption; [|reflexivity|rewrite Hsz in *; cbn [mszs fold_right] in *; lia].
      reflexivity.
Qed.

(* ---------- fuel: the reader's fuel S (length text) is enough ---------- *)
Lemma items_len {X} (f : X -> list N) (sz : X -> nat) pre : forall (l : list X) first,
  Forall (fun x => (sz x <= length (f x))%nat) l ->
  (fold_right (fun x a => S (sz x + a)) 0 l <= length (pp_items [44%N] pre first (map f l)) + (if first then 1 else 0))%nat.
Proof.
  induction l as [|x r IH]; intros first H; [cbn; lia|]. inversion H; subst.
  cbn [fold_right map pp_items]. rewrite !app_length. specialize (IH false H3).
  cbv iota in IH. destruct first; cbn [length]; lia.
Qed.

Lemma vsize_len : forall v, wfv v -> forall d, (vsize v <= length (ppp d v))%nat.
Proof.
  induction v using value_ind'; intros Hwf d;
    try (destruct (pp_head fmt_float fmt_shape o _ d Hwf) as (c & r & E & _); rewrite E; cbn [vsize length]; lia).
  - inversion Hwf as [| | | | | | |l' Hl|]; subst. cbn [vsize pp]. rewrite ?col_plain, !app_length. cbn [length].
    pose proof (items_len (ppp (d + o_indent (plain_opts o))) vsize (nlp (d + o_indent (plain_opts o))) l true) as P.
    specialize (P ltac:(rewrite Forall_forall in *; intros x Hx; apply H; [exact Hx|apply Hl, Hx])).
    cbv iota in P. lia.
  - inversion Hwf as [| | | | | | | |m' Hm]; subst. cbn [vsize pp]. rewrite ?col_plain, !app_length. cbn [length].
    rewrite sort_map_snd, map_map.
    pose proof (items_len (fun kv => memberp kv (d + o_indent (plain_opts o))) (fun kv => vsize (snd kv))
                  (nlp (d + o_indent (plain_opts o))) (sort_kvs m) true) as P.
    fold (mszs (sort_kvs m)) in P. rewrite mszs_sort in P. unfold mszs in P.
    specialize (P ltac:(apply sort_forall; rewrite Forall_forall in *; intros kv Hkv; rewrite memberp_eq, !app_length;
                        cbn [length]; rewrite app_length; specialize (H kv Hkv (proj2 (Hm kv Hkv)) (d + o_indent (plain_opts o))%Z); lia)).
    unfold memberp in P. cbv iota in P. lia.
Qed.

(* (b) the reference reader, with its own fuel, reads any plain layout back as [norm v] *)
Theorem decode_pp v d : wfv v -> json_decode (ppp d v) = Some (norm v).
Proof.
  intros Hwf. unfold json_decode.
  pose proof (reads_value v Hwf d [] (S (length (ppp d v))) eq_refl) as H. rewrite app_nil_r in H.
  rewrite H; [reflexivity|]. pose proof (vsize_len v Hwf d). lia.
Qed.
End Values.

(* the library encoder is the compact plain layout *)
Section Compact.
Variable fmt_float : N -> bool -> fnum.
Definition compact_opts : copts := {| o_tab := false; o_indent := -1; o_nocolor := true; o_colors := default_colors |}.

Lemma pp_compact : forall v d, pp fmt_float compact_opts d v = encode fmt_float v.
Proof.
  induction v using value_ind'; intros d; cbn [pp encode].
  - reflexivity.
  - destruct b; reflexivity.
  - reflexivity.
  - reflexivity.
  - destruct (is_nan f) eqn:E; [unfold encode_float; rewrite E|]; reflexivity.
  - reflexivity.
  - reflexivity.
  - cbn [app col compact_opts o_nocolor o_colors default_colors k_array]. f_equal. rewrite join_comma_items.
    change (nl compact_opts ?x) with (@nil N).
    replace (match l with [] => [] | _ :: _ => [] end) with (@nil N) by (destruct l; reflexivity). cbn [app].
    f_equal. f_equal. apply map_ext_in. intros x Hx. rewrite Forall_forall in H. apply H, Hx.
  - cbn [app col compact_opts o_nocolor o_colors default_colors k_object]. f_equal. rewrite join_comma_items.
    change (nl compact_opts ?x) with (@nil N).
    replace (match m with [] => [] | _ :: _ => [] end) with (@nil N) by (destruct m; reflexivity). cbn [app].
    f_equal. f_equal. f_equal. f_equal. apply map_ext_in. intros kv Hkv. rewrite Forall_forall in H. rewrite (H kv Hkv). reflexivity.
Qed.
End Compact.

Section Final.
Variable fmt_float : N -> bool -> fnum.
Hypothesis fmt_shape : forall f e, finite f -> fnum_shape e (fmt_float f e) = true.

(* (b) library encoder *)
Theorem decode_encode v : wfv v -> json_decode (encode fmt_float v) = Some (norm fmt_float v).
Proof.
  intros Hwf. rewrite <- (pp_compact fmt_float v 0%Z).
  change compact_opts with (plain_opts compact_opts). apply decode_pp; assumption.
Qed.

(* (b) every mode of the command, colour removed *)
Theorem decode_cli o v : wf_colors (o_colors o) -> wfv v ->
  json_decode (strip_sgr (cli_marshal fmt_float o v)) = Some (norm fmt_float v).
Proof.
  intros Hc Hwf. rewrite cli_marshal_pp.
  pose proof (pp_strip_sgr fmt_float fmt_shape o Hc v Hwf 0%Z []) as H. rewrite !app_nil_r in H. rewrite H.
  apply decode_pp; assumption.
Qed.
End Final.
