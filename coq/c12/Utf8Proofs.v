(* C12 proofs about UTF-8: Go's DecodeRuneInString model agrees with Unicode Table 3-7 ([utf8_step]),
   and [utf8_step] is sound and complete for [utf8_enc] of scalar values. *)
From Coq Require Import List NArith ZArith Bool Lia ZifyN ZifyNat ZifyBool.
From Verif Require Import c12.Utf8 c12.JsonRef.
Import ListNotations.
Open Scope N_scope.
Ltac Zify.zify_post_hook ::= Z.div_mod_to_equations.

Definition cls (b : N) : N :=
  if b <? 0x80 then as_ else if b <? 0xC2 then xx else if b <? 0xE0 then s1 else if b =? 0xE0 then s2
  else if b <? 0xED then s3 else if b =? 0xED then s4 else if b <? 0xF0 then s3 else if b =? 0xF0 then s5
  else if b <? 0xF4 then s6 else if b =? 0xF4 then s7 else xx.

Lemma below_256_in b : b < 256 -> In b (map N.of_nat (seq 0 256)).
Proof. intros. apply in_map_iff. exists (N.to_nat b). split. lia. apply in_seq. lia. Qed.

Lemma forall_byte (f : N -> bool) :
  forallb f (map N.of_nat (seq 0 256)) = true -> forall b, b < 256 -> f b = true.
Proof. intros H b Hb. rewrite forallb_forall in H. apply H, below_256_in, Hb. Qed.

Lemma first_cls b : b < 256 -> first b = cls b.
Proof.
  intros. apply N.eqb_eq. revert b H. apply forall_byte. vm_compute. reflexivity.
Qed.

(* destruct the condition of an [if] (comparisons on N, possibly under && / ||), simplify, prune by lia *)
Ltac dcond c :=
  match c with
  | andb ?x ?y => dcond x
  | orb ?x ?y => dcond x
  | negb ?x => dcond x
  | N.ltb ?a ?b => destruct (N.ltb_spec a b)
  | N.leb ?a ?b => destruct (N.leb_spec a b)
  | N.eqb ?a ?b => destruct (N.eqb_spec a b)
  end.
Ltac dif1 :=
  match goal with
  | |- context [if ?c then _ else _] => dcond c; cbn [andb orb negb]; cbv iota; try (exfalso; lia)
  end.
Ltac dif := repeat dif1.

(* the decision taken by encodeString after DecodeRuneInString *)
Definition go_bad (s : list N) : bool :=
  let (c, size) := decode_rune s in (c =? rune_error) && (size =? 1)%nat.

Ltac comp_consts :=
  repeat match goal with
  | |- context [N.to_nat (N.land ?x 7)] =>
      let t := eval vm_compute in (N.to_nat (N.land x 7)) in change (N.to_nat (N.land x 7)) with t
  | |- context [accept_lo (N.shiftr ?x 4)] =>
      let t := eval vm_compute in (accept_lo (N.shiftr x 4)) in change (accept_lo (N.shiftr x 4)) with t
  | |- context [accept_hi (N.shiftr ?x 4)] =>
      let t := eval vm_compute in (accept_hi (N.shiftr x 4)) in change (accept_hi (N.shiftr x 4)) with t
  | |- context [as_ <=? ?x] =>
      let t := eval vm_compute in (as_ <=? x) in change (as_ <=? x) with t
  | |- context [N.odd ?x] =>
      let t := eval vm_compute in (N.odd x) in change (N.odd x) with t
  end.

Lemma cls_cases b : 0x80 <= b -> b < 256 ->
  (b < 0xC2 /\ cls b = xx) \/ (0xC2 <= b <= 0xDF /\ cls b = s1) \/ (b = 0xE0 /\ cls b = s2)
  \/ ((0xE1 <= b <= 0xEC \/ 0xEE <= b <= 0xEF) /\ cls b = s3) \/ (b = 0xED /\ cls b = s4)
  \/ (b = 0xF0 /\ cls b = s5) \/ (0xF1 <= b <= 0xF3 /\ cls b = s6) \/ (b = 0xF4 /\ cls b = s7)
  \/ (0xF5 <= b /\ cls b = xx).
Proof.
  intros. unfold cls. dif; intuition lia.
Qed.

Lemma decode_agree b r : 0x80 <= b -> b < 256 ->
  match utf8_step (b :: r) with
  | None => decode_rune (b :: r) = rerr
  | Some (cp, n) => snd (decode_rune (b :: r)) = n /\ (2 <= n)%nat /\ (n <= length (b :: r))%nat
  end.
Proof.
  intros Hlo Hhi. unfold decode_rune. rewrite (first_cls b Hhi).
  unfold utf8_step, cont, inr, locb, hicb, rerr.
  destruct (cls_cases b Hlo Hhi) as [[H E]|[[H E]|[[H E]|[[H E]|[[H E]|[[H E]|[[H E]|[[H E]|[H E]]]]]]]]];
    rewrite E; comp_consts; cbv iota beta zeta.
  all: try (destruct r as [|b1 [|b2 [|b3 r]]]).
  all: cbn [length Nat.ltb Nat.leb].
  all: dif.
  all: cbn [snd length]; try reflexivity; try (repeat split; lia).
Qed.
Lemma go_bad_spec b r : 0x80 <= b -> b < 256 ->
  match utf8_step (b :: r) with
  | None => go_bad (b :: r) = true /\ snd (decode_rune (b :: r)) = 1%nat
  | Some (cp, n) => go_bad (b :: r) = false /\ snd (decode_rune (b :: r)) = n /\ (2 <= n)%nat /\ (n <= length (b :: r))%nat
  end.
Proof.
  intros Hlo Hhi. pose proof (decode_agree b r Hlo Hhi) as H. unfold go_bad.
  destruct (utf8_step (b :: r)) as [[cp n]|].
  - destruct (decode_rune (b :: r)) as [c size]. cbn [snd] in *. destruct H as (-> & H2 & H3).
    split; [|auto]. destruct n as [|[|n]]; lia.
  - rewrite H. split; reflexivity.
Qed.

(* ---------- utf8_step against utf8_enc ---------- *)
Ltac inv_some :=
  match goal with
  | H : Some _ = Some _ |- _ => inversion H; subst; clear H
  | H : None = Some _ |- _ => discriminate H
  end.

Lemma step_sound s cp n : utf8_step s = Some (cp, n) ->
  scalar cp /\ firstn n s = utf8_enc cp /\ n = length (utf8_enc cp).
Proof.
  unfold utf8_step, cont, inr. destruct s as [|b0 r]; [discriminate|].
  destruct (N.ltb_spec b0 0x80).
  { intros E; inv_some. unfold scalar, scalarb, utf8_enc.
    replace (cp <? 128) with true by (symmetry; apply N.ltb_lt; lia).
    replace (cp <? 0xD800) with true by (symmetry; apply N.ltb_lt; lia). auto. }
  destruct r as [|b1 [|b2 [|b3 r]]]; dif; intros E; try inv_some.
  all: unfold scalar, scalarb, utf8_enc; dif; cbn [firstn length].
  all: try (exfalso; lia).
  all: split; [lia|split; [|reflexivity]].
  all: repeat (f_equal; try lia).
Qed.

Lemma step_complete cp r : scalar cp -> utf8_step (utf8_enc cp ++ r) = Some (cp, length (utf8_enc cp)).
Proof.
  unfold scalar, scalarb, utf8_enc. intros Hs.
  assert (Hc : cp < 0xD800 \/ (0xE000 <= cp /\ cp < 0x110000)) by lia. clear Hs.
  dif; cbn [app length]; unfold utf8_step, cont, inr.
  - dif. reflexivity.
  - dif. all: try (exfalso; lia). all: do 2 f_equal; lia.
  - dif. all: try (exfalso; lia). all: do 2 f_equal; lia.
  - dif. all: try (exfalso; lia). all: do 2 f_equal; lia.
Qed.
