(* Linear-time reader for the transport s-expressions (same [sexp] type and same language as
   common/Sexp.v [parse]/[parse_hexs]; common/Sexp.v reverses the current atom at every character with the
   quadratic List.rev, which is cubic on the long hex atoms of C12 lines).  No proofs. *)
From Coq Require Import List NArith Bool.
From Verif Require Import common.Sexp.
Import ListNotations.
Open Scope N_scope.

Definition push_atom (cur : list N) (acc : list tok) : list tok :=
  match cur with [] => acc | _ => TA (rev' cur) :: acc end.

(* acc: tokens so far, reversed; cur: current atom, reversed *)
Fixpoint ftok (acc : list tok) (cur : list N) (l : list N) : list tok :=
  match l with
  | [] => rev' (push_atom cur acc)
  | c :: r =>
    if is_space c then ftok (push_atom cur acc) [] r
    else if c =? lparen then ftok (TL :: push_atom cur acc) [] r
    else if c =? rparen then ftok (TR :: push_atom cur acc) [] r
    else ftok acc (c :: cur) r
  end.

Fixpoint fparse_toks (ts : list tok) (stack : list (list sexp)) : option sexp :=
  match ts with
  | [] => match stack with [[x]] => Some x | _ => None end
  | TA s :: r => match stack with
                 | top :: st => fparse_toks r ((Atom s :: top) :: st)
                 | [] => None end
  | TL :: r => fparse_toks r ([] :: stack)
  | TR :: r => match stack with
               | top :: nxt :: st => fparse_toks r ((SList (rev' top) :: nxt) :: st)
               | _ => None end
  end.
Definition fparse (l : list N) : option sexp := fparse_toks (ftok [] [] l) [[]].

Fixpoint fparse_hex (acc : list N) (l : list N) : option (list N) :=
  match l with
  | [] => Some (rev' acc)
  | a :: b :: r =>
      match hex_val a, hex_val b with
      | Some x, Some y => fparse_hex (x * 16 + y :: acc) r
      | _, _ => None
      end
  | _ => None
  end.
Definition fparse_hexs (l : list N) : option (list N) := match l with [45] => Some [] | _ => fparse_hex [] l end.
