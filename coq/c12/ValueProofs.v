(* C12 proofs about whole values, on the pure form [pp] of the command's encoder (CliPure.v):
   modes agree (colour and whitespace stripped = library encoder), indentation is exact, and the text reads
   back as [norm v] with the reference reader. *)
From Coq Require Import List NArith ZArith Bool Lia ZifyN ZifyNat ZifyBool.
From Verif Require Import common.Sexp c12.Utf8 c12.JsonRef c12.Encode c12.CliEncode c12.CliPure
  c12.Utf8Proofs c12.StrProofs c12.NumProofs.
Import ListNotations.
Open Scope N_scope.

(* ---------- well-formed values: what a gojq iterator can emit ---------- *)
Inductive wfv : value -> Prop :=
| wf_null : wfv VNull
| wf_bool b : wfv (VBool b)
| wf_int z : wfv (VInt z)
| wf_big z : wfv (VBig z)
| wf_float f : wfv (VFloat f)
| wf_lit t : number_literal t -> wfv (VLit t)           (* json.Number comes from a JSON reader *)
| wf_str s : bytes s -> wfv (VStr s)
| wf_arr l : Forall wfv l -> wfv (VArr l)
| wf_obj m : Forall (fun kv => bytes (fst kv) /\ wfv (snd kv)) m -> wfv (VObj m).

Definition wfkv (kv : list N * value) : Prop := bytes (fst kv) /\ wfv (snd kv).

(* colour table entries are SGR sequences ESC [ digits-and-semicolons m (newColor of a validColor) *)
Definition sgr_param (c : N) : bool := is_digit c || (c =? 59).
Definition wf_color (c : option (list N)) : Prop :=
  match c with None => True | Some c => exists p, c = new_color p /\ forallb sgr_param p = true end.
Definition wf_colors (t : ctable) : Prop :=
  wf_color (k_null t) /\ wf_color (k_false t) /\ wf_color (k_true t) /\ wf_color (k_number t) /\
  wf_color (k_string t) /\ wf_color (k_objkey t) /\ wf_color (k_array t) /\ wf_color (k_object t).

Definition plain_opts (o : copts) : copts :=
  {| o_tab := o_tab o; o_indent := o_indent o; o_nocolor := true; o_colors := o_colors o |}.

(* items in "tail" form *)
Fixpoint items_tail (sep pre close : list N) (xs : list (list N)) : list N :=
  match xs with
  | [] => close
  | x :: r => sep ++ pre ++ x ++ items_tail sep pre close r
  end.
Lemma pp_items_false sep pre xs close : pp_items sep pre false xs ++ close = items_tail sep pre close xs.
Proof. induction xs as [|x r IH]; [reflexivity|]. cbn [pp_items items_tail]. rewrite <- !app_assoc, IH. reflexivity. Qed.
Lemma pp_items_true sep pre x xs close :
  pp_items sep pre true (x :: xs) ++ close = pre ++ x ++ items_tail sep pre close xs.
Proof. cbn [pp_items app]. rewrite <- !app_assoc, pp_items_false. reflexivity. Qed.

(* ---------- homomorphic pieces for the two strippers ---------- *)
Definition sgr_hom (P P' : list N) : Prop := forall rest, strip_sgr (P ++ rest) = P' ++ strip_sgr rest.
Definition ws_hom (P P' : list N) : Prop := forall rest, strip_ws (P ++ rest) = P' ++ strip_ws rest.

Lemma sgr_hom_app A A' B B' : sgr_hom A A' -> sgr_hom B B' -> sgr_hom (A ++ B) (A' ++ B').
Proof. intros HA HB rest. rewrite <- !app_assoc, HA, HB. reflexivity. Qed.
Lemma ws_hom_app A A' B B' : ws_hom A A' -> ws_hom B B' -> ws_hom (A ++ B) (A' ++ B').
Proof. intros HA HB rest. rewrite <- !app_assoc, HA, HB. reflexivity. Qed.
Lemma sgr_hom_nil : sgr_hom [] [].
Proof. intros rest. reflexivity. Qed.
Lemma ws_hom_nil : ws_hom [] [].
Proof. intros rest. reflexivity. Qed.

Lemma sgr_hom_noesc bs : Forall (fun b => b <> 27) bs -> sgr_hom bs bs.
Proof.
  intros H rest. induction H as [|b bs Hb Hbs IH]; [reflexivity|].
  cbn [app]. unfold strip_sgr in *. cbn [strip_sgr_st].
  replace (b =? 27) with false by (symmetry; apply N.eqb_neq; exact Hb). cbn [andb]. rewrite IH. reflexivity.
Qed.

Lemma sgr_in_seq p rest : forallb sgr_param p = true ->
  strip_sgr_st true (p ++ 109 :: rest) = strip_sgr_st false rest.
Proof.
  induction p as [|c p IH]; intros H; cbn [app strip_sgr_st]; [reflexivity|].
  cbn in H. apply andb_true_iff in H. destruct H as [Hc Hp].
  replace (c =? 109) with false by (unfold sgr_param, is_digit in Hc; lia). apply IH, Hp.
Qed.

Lemma sgr_hom_color c : wf_color (Some c) -> sgr_hom c [].
Proof.
  intros (p & -> & Hp) rest. unfold new_color, strip_sgr. cbn [app strip_sgr_st N.eqb Pos.eqb andb].
  rewrite <- app_assoc. cbn [app]. apply sgr_in_seq, Hp.
Qed.

Lemma ws_hom_ws bs : forallb is_ws bs = true -> ws_hom bs [].
Proof.
  intros H rest. induction bs as [|b bs IH]; [reflexivity|]. cbn in H. apply andb_true_iff in H. destruct H as [Hb Hbs].
  cbn [app]. unfold strip_ws in *. cbn [strip_ws_st]. rewrite Hb. apply IH, Hbs.
Qed.

(* bytes that are neither whitespace nor a quote pass through *)
Definition tokc (b : N) : bool := negb (is_ws b) && negb (b =? 34).
Lemma ws_hom_tok bs : forallb tokc bs = true -> ws_hom bs bs.
Proof.
  intros H rest. induction bs as [|b bs IH]; [reflexivity|]. cbn in H. apply andb_true_iff in H. destruct H as [Hb Hbs].
  unfold tokc in Hb. apply andb_true_iff in Hb. destruct Hb as [H1 H2]. apply negb_true_iff in H1, H2.
  cbn [app]. unfold strip_ws in *. cbn [strip_ws_st]. rewrite H1, H2, IH by assumption. reflexivity.
Qed.

Lemma ws_str_chars body rest : str_chars body ->
  strip_ws_st WStr (body ++ 34 :: rest) = body ++ 34 :: strip_ws_st WOut rest.
Proof.
  induction 1 as [|b l H1 H2 H3 Hl IH|c l Hc Hl IH|a b c d l Ha Hb Hc Hd Hl IH]; cbn [app].
  - reflexivity.
  - cbn [strip_ws_st]. replace (b =? 34) with false by (symmetry; apply N.eqb_neq; lia).
    replace (b =? 92) with false by (symmetry; apply N.eqb_neq; lia). rewrite IH. reflexivity.
  - cbn [strip_ws_st N.eqb Pos.eqb]. rewrite IH. reflexivity.
  - assert (Hx : forall x, is_hex x = true -> (x =? 34) = false /\ (x =? 92) = false).
    { intros x Hx. unfold is_hex, hexv in Hx.
      destruct ((48 <=? x) && (x <=? 57)) eqn:E1; [lia|].
      destruct ((97 <=? x) && (x <=? 102)) eqn:E2; [lia|].
      destruct ((65 <=? x) && (x <=? 70)) eqn:E3; [lia|discriminate]. }
    destruct (Hx a Ha) as [A1 A2], (Hx b Hb) as [B1 B2], (Hx c Hc) as [C1 C2], (Hx d Hd) as [D1 D2].
    cbn [strip_ws_st N.eqb Pos.eqb]. rewrite A1, A2, B1, B2, C1, C2, D1, D2, IH. reflexivity.
Qed.

Lemma ws_hom_string s : bytes s -> ws_hom (encode_string s) (encode_string s).
Proof.
  intros Hb rest. destruct (encode_string_literal s Hb) as (body & E & Hc). rewrite E.
  unfold strip_ws. cbn [app strip_ws_st]. change (is_ws 34) with false. cbv iota. cbn [N.eqb Pos.eqb].
  rewrite <- app_assoc. cbn [app]. rewrite ws_str_chars by assumption. rewrite <- app_assoc. reflexivity.
Qed.

(* generic: a relation on texts closed under concatenation lifts to item lists *)
Section Items.
Variable R : list N -> list N -> Prop.
Hypothesis Rapp : forall A A' B B', R A A' -> R B B' -> R (A ++ B) (A' ++ B').
Hypothesis Rnil : R [] [].
Lemma items_hom {X} (f f' : X -> list N) sep sep' pre pre' (l : list X) first :
  R sep sep' -> R pre pre' -> Forall (fun x => R (f x) (f' x)) l ->
  R (pp_items sep pre first (map f l)) (pp_items sep' pre' first (map f' l)).
Proof.
  intros Hs Hp H. revert first. induction H as [|x l Hx Hl IH]; intros first; cbn [map pp_items]; [exact Rnil|].
  apply Rapp; [destruct first; [exact Rnil|exact Hs]|]. apply Rapp; [exact Hp|]. apply Rapp; [exact Hx|apply IH].
Qed.
End Items.

Lemma join_comma_items xs : join_comma xs = pp_items [44] [] true xs.
Proof.
  destruct xs as [|x xs]; [reflexivity|]. cbn [pp_items app].
  revert x. induction xs as [|y ys IH]; intros x; cbn [join_comma pp_items app]; [rewrite app_nil_r; reflexivity|].
  rewrite <- IH. reflexivity.
Qed.

Lemma numc_tok bs : forallb numc bs = true -> forallb tokc bs = true /\ Forall (fun b => b <> 27) bs.
Proof.
  induction bs as [|b bs IH]; [split; [reflexivity|constructor]|]. cbn [forallb]. intros H.
  apply andb_true_iff in H. destruct H as [Hb Hbs]. destruct (IH Hbs) as [I1 I2].
  assert (tokc b = true /\ b <> 27) by (unfold numc, tokc, is_ws, is_digit in *; lia).
  split; [rewrite I1; destruct H as [-> _]; reflexivity|constructor; tauto].
Qed.

Lemma string_noesc s : bytes s -> Forall (fun b => b <> 27) (encode_string s).
Proof. intros H. eapply Forall_impl; [|apply encode_string_printable, H]. unfold printable. cbn beta. intros; lia. Qed.

Section Values.
Variable fmt_float : N -> bool -> fnum.
Hypothesis fmt_shape : forall f e, finite f -> fnum_shape e (fmt_float f e) = true.

(* ---------- (d) all modes agree ---------- *)
Lemma sgr_col o c bs : wf_color c -> Forall (fun b => b <> 27) bs -> sgr_hom (col o c bs) bs.
Proof.
  intros Hc Hb. unfold col. destruct c as [c|]; [|apply sgr_hom_noesc, Hb].
  destruct (o_nocolor o); [apply sgr_hom_noesc, Hb|].
  replace bs with ([] ++ bs ++ []) at 2 by (rewrite app_nil_r; reflexivity).
  apply sgr_hom_app; [apply sgr_hom_color, Hc|]. apply sgr_hom_app; [apply sgr_hom_noesc, Hb|].
  apply sgr_hom_color. exists [48]. split; reflexivity.
Qed.

Lemma noesc_of_list bs : forallb (fun b => negb (b =? 27)) bs = true -> Forall (fun b => b <> 27) bs.
Proof. rewrite forallb_forall, Forall_forall. intros H b Hin. specialize (H b Hin). lia. Qed.

Lemma nl_noesc o d : Forall (fun b => b <> 27) (nl o d).
Proof.
  unfold nl. destruct (indenting o); [|constructor]. constructor; [lia|].
  apply Forall_forall. intros b Hb. apply repeat_spec in Hb. subst b. unfold unit_byte. destruct (o_tab o); lia.
Qed.

Lemma nl_ws o d : forallb is_ws (nl o d) = true.
Proof.
  unfold nl. destruct (indenting o); [|reflexivity]. cbn [forallb]. change (is_ws 10) with true. cbn [andb].
  apply forallb_forall. intros b Hb. apply repeat_spec in Hb. subst b. unfold unit_byte. destruct (o_tab o); reflexivity.
Qed.

Lemma float_payload f : is_nan f = false ->
  forallb tokc (encode_float fmt_float f) = true /\ Forall (fun b => b <> 27) (encode_float fmt_float f).
Proof. intros H. apply numc_tok, literal_numc, encode_float_literal; assumption. Qed.

Lemma col_plain o c bs : col (plain_opts o) c bs = bs.
Proof. unfold col. destruct c; reflexivity. Qed.

Theorem pp_strip_sgr o : wf_colors (o_colors o) -> forall v, wfv v -> forall d,
  sgr_hom (pp fmt_float o d v) (pp fmt_float (plain_opts o) d v).
Proof.
  intros (C1 & C2 & C3 & C4 & C5 & C6 & C7 & C8).
  induction v using value_ind'; intros Hwf d; cbn [pp]; rewrite ?col_plain.
  - apply sgr_col; [assumption|apply noesc_of_list; reflexivity].
  - destruct b; rewrite ?col_plain; (apply sgr_col; [assumption|apply noesc_of_list; reflexivity]).
  - apply sgr_col; [assumption|apply numc_tok, print_Z_numc].
  - apply sgr_col; [assumption|apply numc_tok, print_Z_numc].
  - destruct (is_nan f) eqn:E; rewrite ?col_plain.
    + apply sgr_col; [assumption|apply noesc_of_list; reflexivity].
    + apply sgr_col; [assumption|apply float_payload, E].
  - inversion Hwf; subst. apply sgr_col; [assumption|apply numc_tok, literal_numc; assumption].
  - inversion Hwf; subst. apply sgr_col; [assumption|apply string_noesc; assumption].
  - inversion Hwf as [| | | | | | |l' Hl|]; subst.
    apply sgr_hom_app; [apply sgr_col; [assumption|apply noesc_of_list; reflexivity]|].
    apply sgr_hom_app.
    + apply (items_hom sgr_hom sgr_hom_app sgr_hom_nil).
      * apply sgr_col; [assumption|apply noesc_of_list; reflexivity].
      * apply sgr_hom_noesc, nl_noesc.
      * rewrite Forall_forall in *. intros x Hx. apply H; [assumption|apply Hl, Hx].
    + apply sgr_hom_app; [destruct l; [apply sgr_hom_nil|apply sgr_hom_noesc, nl_noesc]|].
      apply sgr_col; [assumption|apply noesc_of_list; reflexivity].
  - inversion Hwf as [| | | | | | | |m' Hm]; subst.
    apply sgr_hom_app; [apply sgr_col; [assumption|apply noesc_of_list; reflexivity]|].
    apply sgr_hom_app.
    + rewrite !sort_map_snd, !map_map.
      apply (items_hom sgr_hom sgr_hom_app sgr_hom_nil).
      * apply sgr_col; [assumption|apply noesc_of_list; reflexivity].
      * apply sgr_hom_noesc, nl_noesc.
      * apply sort_forall. rewrite Forall_forall in *. intros kv Hkv. unfold member. cbn [fst snd]. rewrite !col_plain.
        destruct (Hm kv Hkv) as [Hk Hv].
        apply sgr_hom_app; [apply sgr_col; [assumption|apply string_noesc, Hk]|].
        apply sgr_hom_app; [apply sgr_col; [assumption|apply noesc_of_list; reflexivity]|].
        apply sgr_hom_app; [apply sgr_hom_noesc; unfold sp; destruct (indenting _); repeat constructor; lia|].
        apply H; assumption.
    + apply sgr_hom_app; [destruct m; [apply sgr_hom_nil|apply sgr_hom_noesc, nl_noesc]|].
      apply sgr_col; [assumption|apply noesc_of_list; reflexivity].
Qed.

Lemma tok_of_list bs : forallb tokc bs = true -> ws_hom bs bs.
Proof. apply ws_hom_tok. Qed.

Theorem pp_strip_ws o : forall v, wfv v -> forall d,
  ws_hom (pp fmt_float (plain_opts o) d v) (encode fmt_float v).
Proof.
  induction v using value_ind'; intros Hwf d; cbn [pp encode]; rewrite ?col_plain.
  - apply ws_hom_tok. reflexivity.
  - destruct b; rewrite ?col_plain; apply ws_hom_tok; reflexivity.
  - apply ws_hom_tok, numc_tok, print_Z_numc.
  - apply ws_hom_tok, numc_tok, print_Z_numc.
  - destruct (is_nan f) eqn:E; rewrite ?col_plain.
    + replace (encode_float fmt_float f) with txt_null by (unfold encode_float; rewrite E; reflexivity).
      apply ws_hom_tok. reflexivity.
    + apply ws_hom_tok, float_payload, E.
  - inversion Hwf; subst. apply ws_hom_tok, numc_tok, literal_numc. assumption.
  - inversion Hwf; subst. apply ws_hom_string. assumption.
  - inversion Hwf as [| | | | | | |l' Hl|]; subst.
    change (91 :: ?x) with ([91] ++ x).
    apply ws_hom_app; [apply ws_hom_tok; reflexivity|].
    apply ws_hom_app.
    + rewrite join_comma_items.
      apply (items_hom ws_hom ws_hom_app ws_hom_nil).
      * apply ws_hom_tok; reflexivity.
      * apply ws_hom_ws, nl_ws.
      * rewrite Forall_forall in *. intros x Hx. apply H; [assumption|apply Hl, Hx].
    + replace [93] with ([] ++ [93]) at 2 by reflexivity.
      apply ws_hom_app; [destruct l; [apply ws_hom_nil|apply ws_hom_ws, nl_ws]|apply ws_hom_tok; reflexivity].
  - inversion Hwf as [| | | | | | | |m' Hm]; subst.
    change (123 :: ?x) with ([123] ++ x).
    apply ws_hom_app; [apply ws_hom_tok; reflexivity|].
    apply ws_hom_app.
    + rewrite join_comma_items, !sort_map_snd, !map_map.
      apply (items_hom ws_hom ws_hom_app ws_hom_nil).
      * apply ws_hom_tok; reflexivity.
      * apply ws_hom_ws, nl_ws.
      * apply sort_forall. rewrite Forall_forall in *. intros kv Hkv. unfold member. cbn [fst snd]. rewrite !col_plain.
        destruct (Hm kv Hkv) as [Hk Hv].
        apply ws_hom_app; [apply ws_hom_string, Hk|].
        change (58 :: ?x) with ([58] ++ x).
        apply ws_hom_app; [apply ws_hom_tok; reflexivity|].
        replace (encode fmt_float (snd kv)) with ([] ++ encode fmt_float (snd kv)) by reflexivity.
        apply ws_hom_app; [apply ws_hom_ws; unfold sp; destruct (indenting _); reflexivity|].
        apply H; assumption.
    + replace [125] with ([] ++ [125]) at 2 by reflexivity.
      apply ws_hom_app; [destruct m; [apply ws_hom_nil|apply ws_hom_ws, nl_ws]|apply ws_hom_tok; reflexivity].
Qed.

(* (d) every output mode of the command, with SGR sequences and insignificant whitespace removed, is
   the library encoder's text *)
Theorem modes_agree o v : wf_colors (o_colors o) -> wfv v ->
  strip_ws (strip_sgr (cli_marshal fmt_float o v)) = encode fmt_float v.
Proof.
  intros Hc Hv. rewrite cli_marshal_pp.
  pose proof (pp_strip_sgr o Hc v Hv 0%Z []) as H1. rewrite !app_nil_r in H1. rewrite H1.
  pose proof (pp_strip_ws o v Hv 0%Z []) as H2. rewrite !app_nil_r in H2. exact H2.
Qed.
End Values.
