(* C12 model: Go's unicode/utf8.DecodeRuneInString (go1.24 src/unicode/utf8/utf8.go), as used by
   encodeString in /repo/encoder.go and /repo/cli/encoder.go.  Definitions only.
   Bytes are N (< 256).  The [first] table and [acceptRanges] are copied entry by entry. *)
From Coq Require Import List NArith Bool.
Import ListNotations.
Open Scope N_scope.

Definition rune_error : N := 0xFFFD.
Definition rune_self : N := 0x80.

Definition maskx : N := 0x3F.
Definition mask2 : N := 0x1F.
Definition mask3 : N := 0x0F.
Definition mask4 : N := 0x07.
Definition locb : N := 0x80.
Definition hicb : N := 0xBF.

Definition xx : N := 0xF1. (* invalid: size 1 *)
Definition as_ : N := 0xF0. (* ASCII: size 1 *)
Definition s1 : N := 0x02. (* accept 0, size 2 *)
Definition s2 : N := 0x13. (* accept 1, size 3 *)
Definition s3 : N := 0x03. (* accept 0, size 3 *)
Definition s4 : N := 0x23. (* accept 2, size 3 *)
Definition s5 : N := 0x34. (* accept 3, size 4 *)
Definition s6 : N := 0x04. (* accept 0, size 4 *)
Definition s7 : N := 0x44. (* accept 4, size 4 *)

Definition first_table : list N := [
  as_; as_; as_; as_; as_; as_; as_; as_; as_; as_; as_; as_; as_; as_; as_; as_; (* 0x00-0x0F *)
  as_; as_; as_; as_; as_; as_; as_; as_; as_; as_; as_; as_; as_; as_; as_; as_; (* 0x10-0x1F *)
  as_; as_; as_; as_; as_; as_; as_; as_; as_; as_; as_; as_; as_; as_; as_; as_; (* 0x20-0x2F *)
  as_; as_; as_; as_; as_; as_; as_; as_; as_; as_; as_; as_; as_; as_; as_; as_; (* 0x30-0x3F *)
  as_; as_; as_; as_; as_; as_; as_; as_; as_; as_; as_; as_; as_; as_; as_; as_; (* 0x40-0x4F *)
  as_; as_; as_; as_; as_; as_; as_; as_; as_; as_; as_; as_; as_; as_; as_; as_; (* 0x50-0x5F *)
  as_; as_; as_; as_; as_; as_; as_; as_; as_; as_; as_; as_; as_; as_; as_; as_; (* 0x60-0x6F *)
  as_; as_; as_; as_; as_; as_; as_; as_; as_; as_; as_; as_; as_; as_; as_; as_; (* 0x70-0x7F *)
  xx; xx; xx; xx; xx; xx; xx; xx; xx; xx; xx; xx; xx; xx; xx; xx; (* 0x80-0x8F *)
  xx; xx; xx; xx; xx; xx; xx; xx; xx; xx; xx; xx; xx; xx; xx; xx; (* 0x90-0x9F *)
  xx; xx; xx; xx; xx; xx; xx; xx; xx; xx; xx; xx; xx; xx; xx; xx; (* 0xA0-0xAF *)
  xx; xx; xx; xx; xx; xx; xx; xx; xx; xx; xx; xx; xx; xx; xx; xx; (* 0xB0-0xBF *)
  xx; xx; s1; s1; s1; s1; s1; s1; s1; s1; s1; s1; s1; s1; s1; s1; (* 0xC0-0xCF *)
  s1; s1; s1; s1; s1; s1; s1; s1; s1; s1; s1; s1; s1; s1; s1; s1; (* 0xD0-0xDF *)
  s2; s3; s3; s3; s3; s3; s3; s3; s3; s3; s3; s3; s3; s4; s3; s3; (* 0xE0-0xEF *)
  s5; s6; s6; s6; s7; xx; xx; xx; xx; xx; xx; xx; xx; xx; xx; xx  (* 0xF0-0xFF *)
].

(* first[s0]; the index is a uint8 in Go, so it is always in range there *)
Definition first (b : N) : N := nth (N.to_nat b) first_table xx.

(* acceptRanges[16]: entries 0..4 are given, the others are the zero value {0,0} *)
Definition accept_lo (i : N) : N :=
  match i with 0 => locb | 1 => 0xA0 | 2 => locb | 3 => 0x90 | 4 => locb | _ => 0 end.
Definition accept_hi (i : N) : N :=
  match i with 0 => hicb | 1 => hicb | 2 => 0x9F | 3 => hicb | 4 => 0x8F | _ => 0 end.

Definition rerr : N * nat := (rune_error, 1%nat).

(* func DecodeRuneInString(s string) (rune, int) *)
Definition decode_rune (s : list N) : N * nat :=
  match s with
  | [] => (rune_error, 0%nat)
  | c0 :: t0 =>
    let x := first c0 in
    if as_ <=? x then
      (* mask := rune(x) << 31 >> 31 : all ones iff x is odd (x = xx) *)
      ((if N.odd x then rune_error else c0), 1%nat)
    else
      let sz := N.to_nat (N.land x 7) in
      let lo := accept_lo (N.shiftr x 4) in
      let hi := accept_hi (N.shiftr x 4) in
      if Nat.ltb (length s) sz then rerr
      else match t0 with
      | [] => rerr
      | c1 :: t1 =>
        if (c1 <? lo) || (hi <? c1) then rerr
        else if Nat.leb sz 2 then
          (N.lor (N.shiftl (N.land c0 mask2) 6) (N.land c1 maskx), 2%nat)
        else match t1 with
        | [] => rerr
        | c2 :: t2 =>
          if (c2 <? locb) || (hicb <? c2) then rerr
          else if Nat.leb sz 3 then
            (N.lor (N.lor (N.shiftl (N.land c0 mask3) 12) (N.shiftl (N.land c1 maskx) 6)) (N.land c2 maskx), 3%nat)
          else match t2 with
          | [] => rerr
          | c3 :: _ =>
            if (c3 <? locb) || (hicb <? c3) then rerr
            else (N.lor (N.lor (N.lor (N.shiftl (N.land c0 mask4) 18) (N.shiftl (N.land c1 maskx) 12))
                               (N.shiftl (N.land c2 maskx) 6)) (N.land c3 maskx), 4%nat)
          end
        end
      end
  end.
