(* C12 (c.2): every line of the indented output starts with exactly depth * indent unit bytes. *)
From Coq Require Import List NArith ZArith Bool Lia ZifyN ZifyNat ZifyBool.
From Verif Require Import common.Sexp c12.Utf8 c12.JsonRef c12.Encode c12.CliEncode c12.CliPure
  c12.Utf8Proofs c12.StrProofs c12.NumProofs c12.ValueProofs.
Import ListNotations.
Open Scope N_scope.

Definition ordc (b : N) : bool := negb (b =? 34) && negb (is_open b) && negb (is_close b) && negb (b =? 10).

Section Scan.
Variables (u : N) (ind : nat).
Notation scan := (indent_scan u ind).

Lemma scan_ord1 lvl b rest : ordc b = true -> scan lvl SNorm (b :: rest) = scan lvl SNorm rest.
Proof.
  unfold ordc. rewrite !andb_true_iff, !negb_true_iff. intros [[[H1 H2] H3] H4].
  cbn [indent_scan]. rewrite H1, H2, H3, H4. reflexivity.
Qed.
Lemma scan_ord lvl bs rest : forallb ordc bs = true -> scan lvl SNorm (bs ++ rest) = scan lvl SNorm rest.
Proof.
  induction bs as [|b bs IH]; [reflexivity|]. cbn [forallb app]. intros H. apply andb_true_iff in H. destruct H as [Hb Hbs].
  rewrite scan_ord1 by assumption. apply IH, Hbs.
Qed.

Lemma scan_str lvl body rest : str_chars body -> scan lvl SStr (body ++ 34 :: rest) = scan lvl SNorm rest.
Proof.
  induction 1 as [|b l H1 H2 H3 Hl IH|c l Hc Hl IH|a b c d l Ha Hb Hc Hd Hl IH]; cbn [app].
  - reflexivity.
  - cbn [indent_scan]. replace (b =? 34) with false by (symmetry; apply N.eqb_neq; lia).
    replace (b =? 92) with false by (symmetry; apply N.eqb_neq; lia). exact IH.
  - cbn [indent_scan N.eqb Pos.eqb]. exact IH.
  - assert (Hx : forall x, is_hex x = true -> (x =? 34) = false /\ (x =? 92) = false).
    { intros x Hx. unfold is_hex, hexv in Hx.
      destruct ((48 <=? x) && (x <=? 57)) eqn:E1; [lia|].
      destruct ((97 <=? x) && (x <=? 102)) eqn:E2; [lia|].
      destruct ((65 <=? x) && (x <=? 70)) eqn:E3; [lia|discriminate]. }
    destruct (Hx a Ha) as [A1 A2], (Hx b Hb) as [B1 B2], (Hx c Hc) as [C1 C2], (Hx d Hd) as [D1 D2].
    cbn [indent_scan N.eqb Pos.eqb]. rewrite A1, A2, B1, B2, C1, C2, D1, D2. exact IH.
Qed.

Lemma scan_string lvl s rest : bytes s -> scan lvl SNorm (encode_string s ++ rest) = scan lvl SNorm rest.
Proof.
  intros Hb. destruct (encode_string_literal s Hb) as (body & E & Hc). rewrite E.
  cbn [app indent_scan N.eqb Pos.eqb]. rewrite <- app_assoc. cbn [app]. apply scan_str, Hc.
Qed.

Lemma scan_units lvl k n X : scan lvl (SBol k) (repeat u n ++ X) = scan lvl (SBol (k + n)) X.
Proof.
  revert k. induction n as [|n IH]; intros k; cbn [repeat app]; [rewrite Nat.add_0_r; reflexivity|].
  cbn [indent_scan]. rewrite N.eqb_refl. rewrite IH. f_equal. f_equal. lia.
Qed.

Lemma scan_first lvl k c r : c <> u -> c <> 10 ->
  scan lvl (SBol k) (c :: r) = (k =? (if is_close c then pred lvl else lvl) * ind)%nat && scan lvl SNorm (c :: r).
Proof.
  intros H1 H2. cbn [indent_scan].
  replace (c =? u) with false by (symmetry; apply N.eqb_neq; assumption).
  replace (c =? 10) with false by (symmetry; apply N.eqb_neq; assumption). reflexivity.
Qed.

(* newline + n units + a line that starts with c *)
Lemma scan_line lvl n c r : c <> u -> c <> 10 ->
  scan lvl SNorm (10 :: repeat u n ++ c :: r)
  = (n =? (if is_close c then pred lvl else lvl) * ind)%nat && scan lvl SNorm (c :: r).
Proof.
  intros H1 H2. cbn [indent_scan N.eqb Pos.eqb is_open is_close orb]. rewrite scan_units, scan_first by assumption. reflexivity.
Qed.
End Scan.

Section Values.
Variable fmt_float : N -> bool -> fnum.
Hypothesis fmt_shape : forall f e, finite f -> fnum_shape e (fmt_float f e) = true.
Variable o : copts.
Hypothesis Hind : indenting o = true.

Notation u := (unit_byte o).
Notation ind := (Z.to_nat (o_indent o)).
Notation scan := (indent_scan (unit_byte o) (Z.to_nat (o_indent o))).
Notation ppp := (pp fmt_float (plain_opts o)).

Definition good_head (y : list N) : Prop := exists c r, y = c :: r /\ is_ws c = false /\ is_close c = false.

Lemma literal_head t : number_literal t -> good_head t.
Proof.
  intros H. destruct (literal_nonempty t H) as (c & r & -> & Hc). exists c, r. split; [reflexivity|].
  unfold is_ws, is_close, is_digit in *. lia.
Qed.

Lemma pp_head v d : wfv v -> good_head (ppp d v).
Proof.
  intros Hwf. destruct v; cbn [pp]; rewrite ?col_plain.
  - eexists _, _. split; [reflexivity|split; reflexivity].
  - destruct b; rewrite ?col_plain; eexists _, _; (split; [reflexivity|split; reflexivity]).
  - apply literal_head, int_literal.
  - apply literal_head, int_literal.
  - destruct (is_nan bits) eqn:E; rewrite ?col_plain.
    + eexists _, _. split; [reflexivity|split; reflexivity].
    + apply literal_head, encode_float_literal; assumption.
  - inversion Hwf; subst. apply literal_head. assumption.
  - eexists _, _. split; [reflexivity|split; reflexivity].
  - eexists _, _. split; [reflexivity|split; reflexivity].
  - eexists _, _. split; [reflexivity|split; reflexivity].
Qed.

Lemma unit_ws : is_ws u = true.
Proof. unfold unit_byte. destruct (o_tab o); reflexivity. Qed.

Lemma numc_ord bs : forallb numc bs = true -> forallb ordc bs = true.
Proof.
  induction bs as [|b bs IH]; [reflexivity|]. cbn [forallb]. intros H. apply andb_true_iff in H. destruct H as [Hb Hbs].
  rewrite IH by assumption. rewrite andb_true_r. unfold numc, ordc, is_open, is_close, is_digit in *. lia.
Qed.

(* an item: starts a line properly and leaves the scanner where it was *)
Definition item_ok (lvl : nat) (y : list N) : Prop :=
  good_head y /\ forall rest, scan lvl SNorm (y ++ rest) = scan lvl SNorm rest.

Lemma nl_eq d : nl (plain_opts o) d = 10 :: repeat u (Z.to_nat d).
Proof. unfold nl. change (indenting (plain_opts o)) with (indenting o). rewrite Hind. reflexivity. Qed.

Lemma scan_item lvl dz y T : Z.to_nat dz = (lvl * ind)%nat -> item_ok lvl y ->
  scan lvl SNorm (nl (plain_opts o) dz ++ y ++ T) = scan lvl SNorm T.
Proof.
  intros Hd [(c & r & -> & Hws & Hcl) Hy]. rewrite nl_eq. cbn [app].
  change (10 :: repeat u (Z.to_nat dz) ++ c :: r ++ T) with (10 :: repeat u (Z.to_nat dz) ++ c :: (r ++ T)).
  rewrite scan_line.
  - rewrite Hcl, Hd, Nat.eqb_refl. cbn [andb]. apply (Hy T).
  - intros ->. rewrite unit_ws in Hws. discriminate.
  - intros ->. discriminate.
Qed.

Lemma scan_items lvl dz cl rest ys : (0 <= dz)%Z -> Z.to_nat dz = (lvl * ind)%nat -> is_close cl = true ->
  Forall (item_ok (S lvl)) ys ->
  scan (S lvl) SNorm (items_tail [44] (nl (plain_opts o) (dz + o_indent o)) (nl (plain_opts o) dz ++ cl :: rest) ys)
  = scan lvl SNorm rest.
Proof.
  intros H0 Hd Hcl H. unfold indenting in Hind.
  assert (Hd' : Z.to_nat (dz + o_indent o) = (S lvl * ind)%nat) by (rewrite Z2Nat.inj_add by lia; lia).
  induction H as [|y ys Hy Hys IH]; cbn [items_tail].
  - rewrite nl_eq. cbn [app]. rewrite scan_line.
    + rewrite Hcl. cbn [pred]. rewrite Hd, Nat.eqb_refl. cbn [andb indent_scan].
      assert (E1 : (cl =? 34) = false) by (unfold is_close in Hcl; lia).
      assert (E2 : is_open cl = false) by (unfold is_close, is_open in *; lia).
      rewrite E1, E2, Hcl. reflexivity.
    + intros ->. pose proof unit_ws as W. unfold is_ws, is_close in *. lia.
    + intros ->. discriminate.
  - cbn [app]. rewrite scan_ord1 by reflexivity. rewrite scan_item by assumption. exact IH.
Qed.

Lemma scan_container lvl dz op cl rest ys : (0 <= dz)%Z -> Z.to_nat dz = (lvl * ind)%nat ->
  is_open op = true -> is_close cl = true -> Forall (item_ok (S lvl)) ys ->
  scan lvl SNorm ([op] ++ pp_items [44] (nl (plain_opts o) (dz + o_indent o)) true ys
                  ++ (match ys with [] => [] | _ => nl (plain_opts o) dz end) ++ [cl] ++ rest)
  = scan lvl SNorm rest.
Proof.
  intros H0 Hd Hop Hcl H. cbn [app indent_scan].
  assert (E1 : (op =? 34) = false) by (unfold is_open in Hop; lia). rewrite E1, Hop.
  destruct ys as [|y ys].
  - cbn [pp_items app indent_scan].
    assert (E2 : (cl =? 34) = false) by (unfold is_close in Hcl; lia).
    assert (E3 : is_open cl = false) by (unfold is_close, is_open in *; lia).
    rewrite E2, E3, Hcl. reflexivity.
  - inversion H; subst.
    replace (pp_items [44] (nl (plain_opts o) (dz + o_indent o)) true (y :: ys) ++ nl (plain_opts o) dz ++ cl :: rest)
      with (nl (plain_opts o) (dz + o_indent o) ++ y ++ items_tail [44] (nl (plain_opts o) (dz + o_indent o)) (nl (plain_opts o) dz ++ cl :: rest) ys)
      by (rewrite <- pp_items_true; reflexivity).
    unfold indenting in Hind.
    rewrite scan_item; [|rewrite Z2Nat.inj_add by lia; lia|assumption].
    apply scan_items; assumption.
Qed.

Lemma tok_ord_null : forallb ordc txt_null = true /\ forallb ordc txt_true = true /\ forallb ordc txt_false = true.
Proof. repeat split; reflexivity. Qed.

Theorem scan_value : forall v, wfv v -> forall lvl dz, (0 <= dz)%Z -> Z.to_nat dz = (lvl * ind)%nat ->
  forall rest, scan lvl SNorm (ppp dz v ++ rest) = scan lvl SNorm rest.
Proof.
  induction v using value_ind'; intros Hwf lvl dz H0 Hd rest; cbn [pp]; rewrite ?col_plain.
  - apply scan_ord. reflexivity.
  - destruct b; rewrite ?col_plain; apply scan_ord; reflexivity.
  - apply scan_ord, numc_ord, print_Z_numc.
  - apply scan_ord, numc_ord, print_Z_numc.
  - destruct (is_nan f) eqn:E; rewrite ?col_plain.
    + apply scan_ord. reflexivity.
    + apply scan_ord, numc_ord, literal_numc, encode_float_literal; assumption.
  - inversion Hwf; subst. apply scan_ord, numc_ord, literal_numc. assumption.
  - inversion Hwf; subst. apply scan_string. assumption.
  - inversion Hwf as [| | | | | | |l' Hl|]; subst.
    rewrite <- !app_assoc.
    replace (match l with [] => [] | _ :: _ => nl (plain_opts o) dz end)
      with (match map (ppp (dz + o_indent o)) l with [] => [] | _ :: _ => nl (plain_opts o) dz end)
      by (destruct l; reflexivity).
    apply scan_container; try assumption; try reflexivity.
    unfold indenting in Hind.
    rewrite Forall_forall in *. intros y Hy. apply in_map_iff in Hy. destruct Hy as (x & <- & Hx).
    split; [apply pp_head, Hl, Hx|]. intros rest'. apply H; [assumption|apply Hl, Hx|lia|].
    rewrite Z2Nat.inj_add by lia. lia.
  - inversion Hwf as [| | | | | | | |m' Hm]; subst.
    rewrite <- !app_assoc.
    replace (match m with [] => [] | _ :: _ => nl (plain_opts o) dz end)
      with (match map (member (plain_opts o)) (sort_kvs (map (fun kv => (fst kv, ppp (dz + o_indent o) (snd kv))) m))
            with [] => [] | _ :: _ => nl (plain_opts o) dz end).
    2:{ rewrite sort_map_snd. destruct m as [|kv m]; [reflexivity|].
        destruct (sort_kvs (kv :: m)) eqn:E; [|reflexivity].
        exfalso. unfold sort_kvs in E. cbn [fold_right] in E.
        destruct (fold_right _ _ m) as [|[k' y'] t] in E; cbn [insert_kv] in E; [discriminate|].
        destruct (bytes_ltb (fst kv) k'); discriminate. }
    apply scan_container; try assumption; try reflexivity.
    unfold indenting in Hind.
    rewrite sort_map_snd, map_map. rewrite Forall_forall. intros y Hy. apply in_map_iff in Hy. destruct Hy as (kv & <- & Hkv).
    apply sort_in in Hkv. rewrite Forall_forall in H, Hm. destruct (Hm kv Hkv) as [Hk Hv].
    unfold member. cbn [fst snd]. rewrite !col_plain. split.
    + eexists _, _. split; [unfold encode_string; reflexivity|split; reflexivity].
    + intros rest'. rewrite <- !app_assoc. rewrite scan_string by assumption.
      cbn [app]. rewrite scan_ord1 by reflexivity.
      unfold sp. change (indenting (plain_opts o)) with (0 <=? o_indent o)%Z. rewrite Hind. cbn [app].
      rewrite scan_ord1 by reflexivity.
      apply H; [assumption|assumption|lia|]. rewrite Z2Nat.inj_add by lia. lia.
Qed.

(* (c.2) every line of the indented output starts with exactly depth * indent unit bytes *)
Theorem indent_exact v : wfv v ->
  indent_ok (unit_byte o) (Z.to_nat (o_indent o)) (pp fmt_float (plain_opts o) 0 v) = true.
Proof.
  intros Hwf. unfold indent_ok. pose proof (scan_value v Hwf 0%nat 0%Z (Z.le_refl 0) eq_refl []) as H.
  rewrite app_nil_r in H. rewrite H. reflexivity.
Qed.
End Values.
