(* C12 proofs about encodeString: the output for EVERY byte string is an RFC 8259 string literal, valid
   UTF-8, without raw control bytes, and reads back as [sanitize s]. *)
From Coq Require Import List NArith ZArith Bool Lia ZifyN ZifyNat ZifyBool.
From Verif Require Import common.Sexp c12.Utf8 c12.JsonRef c12.Encode c12.Utf8Proofs.
Import ListNotations.
Open Scope N_scope.

(* ---------- chunks: the way both encodeString and sanitize walk a byte string ---------- *)
Inductive chunk := CAsc (b : N) | CSeq (bs : list N) | CBad.

Fixpoint chunks (fuel : nat) (s : list N) : list chunk :=
  match fuel with
  | O => []
  | S f =>
    match s with
    | [] => []
    | b :: r =>
      if b <? 0x80 then CAsc b :: chunks f r
      else match utf8_step s with
           | Some (_, n) => CSeq (firstn n s) :: chunks f (skipn n s)
           | None => CBad :: chunks f r
           end
    end
  end.

Definition enc_chunk (c : chunk) : list N :=
  match c with
  | CAsc b => if verbatim b then [b] else escape b
  | CSeq bs => bs
  | CBad => esc_fffd
  end.
Definition san_chunk (c : chunk) : list N :=
  match c with CAsc b => [b] | CSeq bs => bs | CBad => fffd end.

Definition chunk_ok (c : chunk) : Prop :=
  match c with
  | CAsc b => b < 0x80
  | CSeq bs => exists cp, scalar cp /\ 0x80 <= cp /\ bs = utf8_enc cp
  | CBad => True
  end.

Lemma bytes_skipn n s : bytes s -> bytes (skipn n s).
Proof.
  unfold bytes. revert s. induction n; intros s H; [exact H|]. destruct s; [constructor|].
  inversion H; subst. cbn. auto.
Qed.

Lemma enc_len cp : (1 <= length (utf8_enc cp) <= 4)%nat.
Proof. unfold utf8_enc. dif; cbn; lia. Qed.

Lemma step_len s cp n : utf8_step s = Some (cp, n) -> (1 <= n <= length s)%nat.
Proof.
  intros H. destruct (step_sound _ _ _ H) as (_ & Hf & Hn).
  pose proof (enc_len cp). split; [lia|].
  assert (length (firstn n s) = n) by (rewrite Hf; lia).
  rewrite firstn_length in H1. lia.
Qed.

Lemma step_ascii b r : b < 0x80 -> utf8_step (b :: r) = Some (b, 1%nat).
Proof. intros. unfold utf8_step. replace (b <? 0x80) with true by (symmetry; apply N.ltb_lt; lia). reflexivity. Qed.

Lemma es_loop_chunks : forall fuel s pend, bytes s -> (length s < fuel)%nat ->
  es_loop fuel pend s = pend ++ flat_map enc_chunk (chunks fuel s) ++ [quote].
Proof.
  induction fuel as [|f IH]; intros s pend Hb Hl; [lia|].
  destruct s as [|b r]; [reflexivity|].
  cbn [es_loop chunks]. unfold rune_self.
  assert (Hb' : b < 256 /\ bytes r) by (inversion Hb; auto). destruct Hb' as [Hb0 Hr].
  cbn [length] in Hl.
  destruct (N.ltb_spec b 0x80).
  - cbn [flat_map enc_chunk]. destruct (verbatim b).
    + rewrite IH by (auto; lia). rewrite <- !app_assoc. reflexivity.
    + rewrite (IH r []) by (auto; lia). rewrite <- !app_assoc. reflexivity.
  - pose proof (go_bad_spec b r H Hb0) as G. unfold go_bad in G.
    destruct (decode_rune (b :: r)) as [c size] eqn:E. cbn [snd] in G.
    destruct (utf8_step (b :: r)) as [[cp n]|] eqn:U.
    + destruct G as (G1 & -> & G3 & G4). rewrite G1.
      rewrite IH.
      * cbn [flat_map enc_chunk]. rewrite <- !app_assoc. reflexivity.
      * apply bytes_skipn; exact Hb.
      * rewrite skipn_length. cbn [length] in *. lia.
    + destruct G as (G1 & ->). rewrite G1. cbn [skipn flat_map enc_chunk].
      rewrite (IH r []) by (auto; lia). rewrite <- !app_assoc. reflexivity.
Qed.

Lemma sanitize_chunks : forall fuel s, sanitize_aux fuel s = flat_map san_chunk (chunks fuel s).
Proof.
  induction fuel as [|f IH]; intros s; [reflexivity|].
  destruct s as [|b r]; [reflexivity|]. cbn [sanitize_aux chunks].
  destruct (N.ltb_spec b 0x80).
  - rewrite step_ascii by assumption. cbn [firstn skipn flat_map san_chunk app]. rewrite IH. reflexivity.
  - destruct (utf8_step (b :: r)) as [[cp n]|]; cbn [flat_map san_chunk]; rewrite IH; reflexivity.
Qed.

Lemma chunks_fuel : forall f1 f2 s, (length s <= f1)%nat -> (length s <= f2)%nat -> chunks f1 s = chunks f2 s.
Proof.
  induction f1 as [|f1 IH]; intros f2 s H1 H2.
  - destruct s; [|cbn in H1; lia]. destruct f2; reflexivity.
  - destruct s as [|b r]; [destruct f2; reflexivity|].
    destruct f2 as [|f2]; [cbn in H2; lia|]. cbn [chunks]. cbn [length] in *.
    destruct (b <? 0x80); [f_equal; apply IH; lia|].
    destruct (utf8_step (b :: r)) as [[cp n]|] eqn:U.
    + apply step_len in U. cbn [length] in U. f_equal. apply IH; rewrite skipn_length; cbn [length]; lia.
    + f_equal. apply IH; lia.
Qed.

Lemma chunks_ok : forall fuel s, Forall chunk_ok (chunks fuel s).
Proof.
  induction fuel as [|f IH]; intros s; [constructor|].
  destruct s as [|b r]; [constructor|]. cbn [chunks].
  destruct (N.ltb_spec b 0x80); [constructor; [exact H|apply IH]|].
  destruct (utf8_step (b :: r)) as [[cp n]|] eqn:U; constructor; try apply IH; [|exact I].
  destruct (step_sound _ _ _ U) as (Hs & Hf & Hn). exists cp. split; [exact Hs|]. split; [|exact Hf].
  destruct (N.le_gt_cases 0x80 cp) as [|Hlt]; [assumption|]. exfalso.
  unfold utf8_enc in Hf, Hn. replace (cp <? 0x80) with true in * by (symmetry; apply N.ltb_lt; lia).
  cbn in Hn. subst n. cbn in Hf. inversion Hf. lia.
Qed.

(* ---------- reading the literal back ---------- *)
Definition plain (b : N) : Prop := 32 <= b /\ b <> 34 /\ b <> 92.

Lemma pre_pre a b x : pre a (pre b x) = pre (a ++ b) x.
Proof. destruct x as [[s r]|]; cbn; [rewrite app_assoc|]; reflexivity. Qed.
Lemma pre_nil x : pre [] x = x.
Proof. destruct x as [[s r]|]; reflexivity. Qed.

Lemma str_body_plain1 b l : plain b -> str_body (b :: l) = pre [b] (str_body l).
Proof.
  intros (H1 & H2 & H3). cbn [str_body].
  replace (b =? 34) with false by (symmetry; apply N.eqb_neq; lia).
  replace (b =? 92) with false by (symmetry; apply N.eqb_neq; lia).
  replace (b <? 32) with false by (symmetry; apply N.ltb_ge; lia). reflexivity.
Qed.

Lemma str_body_plain bs l : Forall plain bs -> str_body (bs ++ l) = pre bs (str_body l).
Proof.
  induction 1 as [|b bs Hb Hbs IH]; cbn [app]; [rewrite pre_nil; reflexivity|].
  rewrite str_body_plain1 by assumption. rewrite IH, pre_pre. reflexivity.
Qed.

Definition escaped_bytes : list N :=
  [0;1;2;3;4;5;6;7;8;9;10;11;12;13;14;15;16;17;18;19;20;21;22;23;24;25;26;27;28;29;30;31;34;92;127].

Lemma not_verbatim b : b < 0x80 -> verbatim b = false -> In b escaped_bytes.
Proof.
  intros H1 H2.
  assert (H : (verbatim b || negb (b <? 0x80) || existsb (N.eqb b) escaped_bytes) = true).
  { assert (A : forall b, b < 256 -> (verbatim b || negb (b <? 0x80) || existsb (N.eqb b) escaped_bytes) = true).
    { apply forall_byte. vm_compute. reflexivity. }
    apply A. lia. }
  rewrite H2 in H. replace (b <? 0x80) with true in H by (symmetry; apply N.ltb_lt; lia).
  cbn [negb orb] in H. apply existsb_exists in H. destruct H as (x & Hx & E).
  apply N.eqb_eq in E. subst x. exact Hx.
Qed.

Lemma str_body_escape b l : b < 0x80 -> verbatim b = false ->
  str_body (escape b ++ l) = pre [b] (str_body l).
Proof.
  intros H1 H2. pose proof (not_verbatim b H1 H2) as Hin. unfold escaped_bytes in Hin.
  repeat (destruct Hin as [<-|Hin]; [reflexivity|]). destruct Hin.
Qed.

Lemma str_body_fffd l : str_body (esc_fffd ++ l) = pre fffd (str_body l).
Proof. reflexivity. Qed.

Lemma enc_bytes_high cp : scalar cp -> 0x80 <= cp -> Forall (fun b => 0x80 <= b /\ b < 256) (utf8_enc cp).
Proof.
  unfold scalar, scalarb, utf8_enc. intros Hs Hc.
  assert (cp < 0x110000) by lia. clear Hs.
  dif; repeat constructor; lia.
Qed.

Lemma verbatim_plain b : verbatim b = true -> plain b /\ b <= 126.
Proof. unfold verbatim, plain. intros. lia. Qed.

Lemma str_body_chunks cs l : Forall chunk_ok cs ->
  str_body (flat_map enc_chunk cs ++ l) = pre (flat_map san_chunk cs) (str_body l).
Proof.
  induction 1 as [|c cs Hc Hcs IH]; [cbn; rewrite pre_nil; reflexivity|].
  cbn [flat_map]. rewrite <- app_assoc, <- pre_pre, <- IH.
  destruct c as [b|bs|]; cbn [enc_chunk san_chunk chunk_ok] in *.
  - destruct (verbatim b) eqn:V.
    + apply str_body_plain. constructor; [apply verbatim_plain, V|constructor].
    + apply str_body_escape; assumption.
  - destruct Hc as (cp & Hs & Hge & ->). apply str_body_plain.
    eapply Forall_impl; [|apply enc_bytes_high; assumption]. unfold plain. cbn beta. intros; lia.
  - apply str_body_fffd.
Qed.

Lemma encode_string_chunks s : bytes s ->
  encode_string s = quote :: flat_map enc_chunk (chunks (length s) s) ++ [quote].
Proof.
  intros Hb. unfold encode_string. rewrite es_loop_chunks by (auto; lia). cbn [app].
  rewrite (chunks_fuel (S (length s)) (length s)) by lia. reflexivity.
Qed.

Lemma sanitize_eq s : sanitize s = flat_map san_chunk (chunks (length s) s).
Proof. apply sanitize_chunks. Qed.

(* (a.1) the literal reads back as [sanitize s], whatever follows it *)
Lemma read_encode_string s rest : bytes s ->
  read_string (encode_string s ++ rest) = Some (sanitize s, rest).
Proof.
  intros Hb. rewrite encode_string_chunks by assumption. rewrite sanitize_eq.
  cbn [app read_string]. unfold quote. cbn [N.eqb Pos.eqb].
  rewrite <- app_assoc. rewrite str_body_chunks by apply chunks_ok.
  cbn [app str_body N.eqb Pos.eqb pre]. rewrite app_nil_r. reflexivity.
Qed.

(* ---------- (a.2) grammar, no raw control byte ---------- *)
Lemma str_chars_app a b : str_chars a -> str_chars b -> str_chars (a ++ b).
Proof. induction 1; cbn [app]; intros; try (constructor; auto; fail); auto. Qed.

Lemma str_chars_plain bs : Forall plain bs -> str_chars bs.
Proof. induction 1 as [|b bs (H1 & H2 & H3)]; constructor; auto. Qed.

Lemma escape_chars b : b < 0x80 -> verbatim b = false -> str_chars (escape b).
Proof.
  intros H1 H2. pose proof (not_verbatim b H1 H2) as Hin. unfold escaped_bytes in Hin.
  repeat (destruct Hin as [<-|Hin];
    [first [ apply sc_u; try reflexivity; constructor
           | apply sc_esc; [cbn; tauto|constructor] ]|]).
  destruct Hin.
Qed.

Lemma enc_chunk_chars c : chunk_ok c -> str_chars (enc_chunk c).
Proof.
  destruct c as [b|bs|]; cbn [enc_chunk chunk_ok].
  - intros Hb. destruct (verbatim b) eqn:V.
    + apply str_chars_plain. constructor; [apply verbatim_plain, V|constructor].
    + apply escape_chars; assumption.
  - intros (cp & Hs & Hge & ->). apply str_chars_plain.
    eapply Forall_impl; [|apply enc_bytes_high; assumption]. unfold plain. cbn beta. intros; lia.
  - intros _. apply sc_u; try reflexivity. constructor.
Qed.

Lemma chunks_chars cs : Forall chunk_ok cs -> str_chars (flat_map enc_chunk cs).
Proof.
  induction 1; cbn [flat_map]; [constructor|]. apply str_chars_app; [apply enc_chunk_chars|]; assumption.
Qed.

Lemma encode_string_literal s : bytes s -> string_literal (encode_string s).
Proof.
  intros Hb. exists (flat_map enc_chunk (chunks (length s) s)). split.
  - apply encode_string_chunks, Hb.
  - apply chunks_chars, chunks_ok.
Qed.

Definition printable (b : N) : Prop := 0x20 <= b /\ b <> 0x7F /\ b < 256.

Lemma escape_printable b : b < 0x80 -> verbatim b = false -> Forall printable (escape b).
Proof.
  intros H1 H2. pose proof (not_verbatim b H1 H2) as Hin. unfold escaped_bytes in Hin.
  repeat (destruct Hin as [<-|Hin];
    [match goal with |- Forall _ ?e => let e' := eval vm_compute in e in change e with e' end;
     repeat constructor; unfold printable; lia|]).
  destruct Hin.
Qed.

Lemma enc_chunk_printable c : chunk_ok c -> Forall printable (enc_chunk c).
Proof.
  destruct c as [b|bs|]; cbn [enc_chunk chunk_ok].
  - intros Hb. destruct (verbatim b) eqn:V.
    + constructor; [|constructor]. apply verbatim_plain in V. unfold plain, printable in *. lia.
    + apply escape_printable; assumption.
  - intros (cp & Hs & Hge & ->).
    eapply Forall_impl; [|apply enc_bytes_high; assumption]. unfold printable. cbn beta. intros; lia.
  - intros _. repeat constructor; lia.
Qed.

Lemma encode_string_printable s : bytes s -> Forall printable (encode_string s).
Proof.
  intros Hb. rewrite encode_string_chunks by assumption.
  constructor; [unfold printable, quote; lia|]. apply Forall_app. split.
  - pose proof (chunks_ok (length s) s) as H. induction H; cbn [flat_map]; [constructor|].
    apply Forall_app. split; [apply enc_chunk_printable|]; assumption.
  - repeat constructor; unfold quote; lia.
Qed.

(* ---------- (a.3) the literal is valid UTF-8 ---------- *)
Lemma utf8_valid_app a b : utf8_valid a -> utf8_valid b -> utf8_valid (a ++ b).
Proof.
  intros (ca & Ha & ->) (cb & Hb & ->). exists (ca ++ cb). split.
  - apply Forall_app; auto.
  - rewrite flat_map_app. reflexivity.
Qed.

Lemma ascii_valid l : Forall (fun b => b < 0x80) l -> utf8_valid l.
Proof.
  intros H. exists l. split.
  - eapply Forall_impl; [|exact H]. cbn beta. unfold scalar, scalarb. intros; lia.
  - induction H as [|b l Hb Hl IH]; [reflexivity|]. cbn [flat_map]. rewrite <- IH.
    unfold utf8_enc. replace (b <? 0x80) with true by (symmetry; apply N.ltb_lt; lia). reflexivity.
Qed.

Lemma enc_valid cp : scalar cp -> utf8_valid (utf8_enc cp).
Proof. intros. exists [cp]. split; [repeat constructor; assumption|cbn; rewrite app_nil_r; reflexivity]. Qed.

Lemma escape_ascii b : b < 0x80 -> verbatim b = false -> Forall (fun b => b < 0x80) (escape b).
Proof.
  intros H1 H2. pose proof (not_verbatim b H1 H2) as Hin. unfold escaped_bytes in Hin.
  repeat (destruct Hin as [<-|Hin];
    [match goal with |- Forall _ ?e => let e' := eval vm_compute in e in change e with e' end;
     repeat constructor; lia|]).
  destruct Hin.
Qed.

Lemma enc_chunk_valid c : chunk_ok c -> utf8_valid (enc_chunk c).
Proof.
  destruct c as [b|bs|]; cbn [enc_chunk chunk_ok].
  - intros Hb. destruct (verbatim b) eqn:V.
    + apply ascii_valid. repeat constructor. assumption.
    + apply ascii_valid, escape_ascii; assumption.
  - intros (cp & Hs & Hge & ->). apply enc_valid, Hs.
  - intros _. apply ascii_valid. repeat constructor; lia.
Qed.

Lemma encode_string_utf8 s : bytes s -> utf8_valid (encode_string s).
Proof.
  intros Hb. rewrite encode_string_chunks by assumption.
  change (quote :: ?x) with ([quote] ++ x).
  apply (utf8_valid_app [quote]); [apply ascii_valid; repeat constructor; unfold quote; lia|].
  apply utf8_valid_app; [|apply ascii_valid; repeat constructor; unfold quote; lia].
  pose proof (chunks_ok (length s) s) as H. induction H; cbn [flat_map].
  - exists []. split; [constructor|reflexivity].
  - apply utf8_valid_app; [apply enc_chunk_valid|]; assumption.
Qed.

Lemma san_chunk_valid c : chunk_ok c -> utf8_valid (san_chunk c).
Proof.
  destruct c as [b|bs|]; cbn [san_chunk chunk_ok].
  - intros Hb. apply ascii_valid. repeat constructor. assumption.
  - intros (cp & Hs & Hge & ->). apply enc_valid, Hs.
  - intros _. apply (enc_valid 0xFFFD). reflexivity.
Qed.

Lemma sanitize_utf8 s : utf8_valid (sanitize s).
Proof.
  rewrite sanitize_eq. pose proof (chunks_ok (length s) s) as H. induction H; cbn [flat_map].
  - exists []. split; [constructor|reflexivity].
  - apply utf8_valid_app; [apply san_chunk_valid|]; assumption.
Qed.

(* ---------- (a.4) valid UTF-8 is left alone ---------- *)
Lemma firstn_len_app {A} (a b : list A) : firstn (length a) (a ++ b) = a.
Proof. induction a; cbn; [reflexivity|f_equal; assumption]. Qed.
Lemma skipn_len_app {A} (a b : list A) : skipn (length a) (a ++ b) = b.
Proof. induction a; cbn; [reflexivity|assumption]. Qed.

Lemma sanitize_aux_valid : forall cps, Forall scalar cps -> forall fuel,
  (length (flat_map utf8_enc cps) <= fuel)%nat ->
  sanitize_aux fuel (flat_map utf8_enc cps) = flat_map utf8_enc cps.
Proof.
  induction 1 as [|cp cps Hc Hcs IH]; intros fuel Hl; [destruct fuel; reflexivity|].
  cbn [flat_map] in *. rewrite app_length in Hl. pose proof (enc_len cp) as Hlen.
  destruct fuel as [|f]; [lia|]. cbn [sanitize_aux].
  destruct (utf8_enc cp ++ flat_map utf8_enc cps) as [|b r] eqn:E.
  { apply (f_equal (@length N)) in E. rewrite app_length in E. cbn in E. lia. }
  rewrite <- E. rewrite step_complete by assumption.
  rewrite firstn_len_app, skipn_len_app. rewrite IH by lia. reflexivity.
Qed.

Lemma sanitize_valid s : utf8_valid s -> sanitize s = s.
Proof. intros (cps & H & ->). apply sanitize_aux_valid; [assumption|lia]. Qed.
