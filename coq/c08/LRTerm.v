(* C08 / B — TERMINATION of the LR driver, with an explicit fuel bound linear in the input length.

   Measure (all four summands are non-negative under the invariant of LRProofs.v):
       psi c = K * avail c  +  L * (3 - Errflag)  +  C * depth  +  RHO(top state)
     avail c = 2 * (lexer results not yet read) + (1 if a lookahead is held, i.e. yyrcvr.char >= 0)
   * a shift consumes the held lookahead (avail drops; $end is never shifted: finite check), the stack grows by
     one and Errflag may drop by one:                    -K + L + C + R < 0
   * a reduction leaves avail and Errflag alone (reading a lookahead first can only lower avail) and lowers
     C * depth + RHO(top) — that is the ranking certificate [rank_red_ok] checked over the tables: no cyclic
     unit / epsilon reduction chains, and pops pay for the rest
   * error recovery (Errflag 0..2) sets Errflag to 3 and pushes at most one state:     -L + C + R < 0
   * Errflag = 3 discards the held lookahead (avail drops) or returns on $end
   where C = number of states + 1, R = max RHO, L = C + R + 1, K = L + C + R + 1.
   Hence the driver returns (accept or syntax error) within psi(init) + 1 = 2*K*len(input) + 3*L + C + RHO(0) + 1
   rounds. *)
From Coq Require Import ZArith List Bool Lia ZifyBool ZifyNat.
From Verif Require Import c08.LR c08.LRCheck c08.LRProofs.
Import ListNotations.
Open Scope Z_scope.

Lemma nth_bounds : forall (l : list Z) n, forallb (fun r => 0 <=? r) l = true ->
  0 <= nth n l 0 <= fold_right Z.max 0 l.
Proof.
  induction l as [|x l IH]; intros n H; [destruct n; cbn; lia|].
  cbn [forallb] in H. apply andb_prop in H as [Hx H]. cbn [fold_right]. destruct n as [|n]; cbn [nth].
  - specialize (IH 0%nat H). lia.
  - specialize (IH n H). lia.
Qed.

Section Term.
Variable T : tables.
Variable E : list (list Z).
Variable MD : list Z.
Variable AL : list (list Z).
Variable RHO : list Z.
Hypothesis Hclosed : closed T E MD AL = true.
Hypothesis Hterm : term_ok T E RHO = true.

Let C := cC T.
Let R := rho_max RHO.
Let L := C + R + 1.
Let K := L + C + R + 1.

Definition held (c : cfg) : Z := if char c <? 0 then 0 else 1.
Definition avail (c : cfg) : Z := 2 * zlen (inp c) + held c.
Definition top (c : cfg) : Z := hd 0 (stk c).
Definition psi (c : cfg) : Z := K * avail c + L * (3 - errflag c) + C * zlen (stk c) + rho RHO (top c).
(* a lookahead that is not held is $end *)
Definition lexed (c : cfg) : Prop := char c < 0 -> token c = tEofCode T.

Lemma C_pos : 1 <= C. Proof. unfold C, cC. lia. Qed.
Lemma rho_bounds : forall s, 0 <= rho RHO s <= R.
Proof.
  intro s. unfold rho, R, rho_max. apply nth_bounds.
  pose proof Hterm as H. unfold term_ok in H. apply andb_prop in H as [H _]. apply andb_prop in H as [_ H]. exact H.
Qed.
Lemma R_nonneg : 0 <= R. Proof. pose proof (rho_bounds 0). lia. Qed.

Lemma eof_tok : zth (tTok1 T) 0 = Some (tEofCode T) /\ tEofCode T <> 0.
Proof.
  pose proof Hterm as H. unfold term_ok in H. apply andb_prop in H as [H _]. apply andb_prop in H as [H _].
  destruct (zth (tTok1 T) 0) as [e|]; [|discriminate]. apply andb_prop in H as [H1 H2].
  split; [f_equal; lia|lia].
Qed.

Lemma term_node : forall s, In s (nodes E) -> term_node_ok T E RHO s = true.
Proof.
  pose proof Hterm as H. unfold term_ok in H. apply andb_prop in H as [_ H]. apply forallb_forall. exact H.
Qed.

Lemma yylex1_eof : forall ch, ch <= 0 -> yylex1 T ch = Ok (tEofCode T).
Proof.
  intros ch H. destruct eof_tok as [H1 H2]. unfold yylex1. replace (ch <=? 0) with true by lia.
  unfold idx. rewrite H1. cbn [bind]. replace (tEofCode T =? 0) with false by lia. reflexivity.
Qed.

Lemma ensure_la_meas : forall c c1, ensure_la T c = Ok c1 ->
  lexed c1 /\ avail c1 <= avail c /\ stk c1 = stk c /\ errflag c1 = errflag c.
Proof.
  intros c c1 H. unfold ensure_la in H. destruct (char c <? 0) eqn:Ec.
  - destruct (inp c) as [|x r] eqn:Ei; cbn [lexcall] in H.
    + rewrite yylex1_eof in H by lia. cbn [bind] in H. injection H as <-.
      unfold lexed, avail, held. cbn [char token inp stk errflag]. rewrite Ec, Ei. cbn. repeat split; lia.
    + destruct (Z.leb_spec x 0) as [Hx|Hx].
      * rewrite yylex1_eof in H by lia. cbn [bind] in H. injection H as <-.
        unfold lexed, avail, held, zlen. cbn [char token inp stk errflag]. rewrite Ec, Ei. cbn [length].
        repeat split; try lia. destruct (x <? 0); lia.
      * destruct (yylex1 T x) as [t|]; [|discriminate]. cbn [bind] in H. injection H as <-.
        unfold lexed, avail, held, zlen. cbn [char token inp stk errflag]. rewrite Ec, Ei. cbn [length].
        replace (x <? 0) with false by lia. repeat split; lia.
  - injection H as <-. unfold lexed. repeat split; lia.
Qed.

Lemma recover_len : forall s v s' v', recover_stk T s v = Ok (Some (s', v')) -> (length s' <= length s + 1)%nat.
Proof.
  induction s as [|st rest IH]; intros v s' v' H; [discriminate|]. cbn [recover_stk] in H.
  destruct (errshift_of T st) as [[ns|]|]; cbn [bind] in H; [|apply IH in H; cbn [length]; lia|discriminate].
  injection H as <- _. cbn [length]. lia.
Qed.

Lemma reduce_dec : forall c s rest n, Inv T E AL c -> stk c = s :: rest -> rank_red_ok T E RHO s n = true ->
  match reduce T c n with
  | Cont c' => psi c' < psi c
  | _ => True
  end.
Proof.
  intros c s rest n [Hc _] Hs Hr. unfold rank_red_ok in Hr. unfold reduce.
  destruct (idx 30 (tR2 T) n) as [r2|]; [|exact I].
  destruct (idx 32 (tR1 T) n) as [nt|]; [|destruct (r2 <? 0); [exact I|destruct (_ <? 0); exact I]].
  destruct (r2 <? 0) eqn:X1; [exact I|].
  destruct (zlen (stk c) - 1 - r2 + 1 <? 0) eqn:X2; [exact I|].
  destruct (idx 33 (tPgo T) nt); [|exact I].
  destruct (skipn (Z.to_nat r2) (stk c)) as [|base below] eqn:Esk; [exact I|].
  assert (Hl : (Z.to_nat r2 < length (stk c))%nat).
  { apply (f_equal (@length Z)) in Esk. rewrite skipn_length in Esk. cbn [length] in Esk. lia. }
  pose proof (back_sound T E MD AL Hclosed (Z.to_nat r2) (stk c) [s] s rest Hc Hs (or_introl eq_refl) Hl base below Esk) as Hb.
  rewrite forallb_forall in Hr. specialize (Hr base Hb).
  destruct (goto_of T base nt) as [ns|]; [|exact I].
  destruct (match action_of n (tActions T) with Some _ => _ | None => None end); [exact I|].
  destruct (match sem_of n (tSem T) with Some d => d | None => ([], (2, 0)) end) as [asserts o].
  destruct (negb (asserts_hold (vals c) r2 asserts)); [exact I|].
  destruct (stored (vals c) r2 o); [|exact I].
  unfold psi, avail, held, top. cbn [stk char inp errflag hd].
  rewrite Hs. cbn [hd]. rewrite <- Hs.
  assert (Hlen : zlen (ns :: base :: below) = zlen (stk c) - r2 + 1).
  { apply (f_equal (@length Z)) in Esk. rewrite skipn_length in Esk. unfold zlen. cbn [length] in *. lia. }
  rewrite Hlen. fold C in Hr. nia.
Qed.

Lemma on_error_dec : forall c, Inv T E AL c -> lexed c ->
  match on_error T c with
  | Cont c' => psi c' < psi c
  | _ => True
  end.
Proof.
  intros c [Hc [Hty [Ht He]]] Hlex. unfold on_error.
  pose proof C_pos. pose proof R_nonneg.
  assert (Hrec : forall c0, stk c0 = stk c -> vals c0 = vals c -> char c0 = char c -> inp c0 = inp c -> errflag c <= 2 ->
    match (match recover_stk T (stk c0) (vals c0) with
           | Panic s => Crash s
           | Ok None => Reject c0
           | Ok (Some (st', v')) => Cont {| stk := st'; vals := v'; char := char c0; token := token c0; errflag := 3;
                                             inp := inp c0; nlex := nlex c0; errat := errat c0 |}
           end) with Cont c' => psi c' < psi c | _ => True end).
  { intros c0 H1 H2 H3 H4 H5. rewrite H1, H2.
    destruct (recover_stk T (stk c) (vals c)) as [[[s' v']|]|] eqn:Er; [|exact I|exact I].
    pose proof (recover_len _ _ _ _ Er) as Hlen.
    unfold psi, avail, held, top. cbn [stk char inp errflag]. rewrite H3, H4.
    pose proof (rho_bounds (hd 0 s')). pose proof (rho_bounds (hd 0 (stk c))).
    assert (zlen s' <= zlen (stk c) + 1) by (unfold zlen; lia).
    unfold L in *. nia. }
  destruct (errflag c =? 0) eqn:E0.
  - apply Hrec; try reflexivity. lia.
  - destruct ((errflag c =? 1) || (errflag c =? 2)) eqn:E12.
    + apply Hrec; try reflexivity. lia.
    + destruct (errflag c =? 3) eqn:E3; [|
        (* unreachable: Errflag is 0..3 *) exfalso; lia].
      destruct (token c =? tEofCode T) eqn:Et; [exact I|].
      assert (Hh : char c >= 0) by (destruct (Z.ltb_spec (char c) 0) as [Hn|Hn]; [specialize (Hlex Hn); lia|lia]).
      unfold psi, avail, held, top. cbn [stk char inp errflag].
      replace (-1 <? 0) with true by lia. replace (char c <? 0) with false by lia.
      assert (0 < K) by (unfold K, L; lia). nia.
Qed.

Lemma dflt_dec : forall c s rest, Inv T E AL c -> stk c = s :: rest ->
  (simple_state T s = Ok true \/ lexed c) ->
  match dflt T c s with
  | Cont c' => psi c' < psi c
  | _ => True
  end.
Proof.
  intros c s rest HI Hs Hmode. pose proof HI as [Hc [Hty [Ht He]]].
  assert (Hnode : In s (nodes E)) by (rewrite Hs in Hc; eapply chain_top_node; eauto).
  pose proof (term_node s Hnode) as Hn. unfold term_node_ok in Hn. apply andb_prop in Hn as [_ Hn].
  unfold dflt. destruct (simple_state T s) as [simple|] eqn:Esim; [|discriminate].
  destruct (idx 13 (tDef T) s) as [d|]; [|exact I].
  apply andb_prop in Hn as [Hns Hnr].
  destruct (d =? -2) eqn:Ed2.
  - destruct (ensure_la_ok T E MD AL Hclosed c HI) as [c2 [H2 [Hstk [Hvals [Herr HI2]]]]]. rewrite H2.
    destruct (ensure_la_meas c c2 H2) as [Hlex2 [Hav [_ _]]].
    rewrite forallb_forall in Hnr. destruct HI2 as [Hc2 [Hty2 [Ht2 He2]]]. specialize (Hnr (token c2) Ht2).
    destruct (exca_lookup T s (token c2)) as [n|]; [|exact I].
    destruct (n <? 0) eqn:En; [exact I|]. destruct (n =? 0) eqn:En0.
    + pose proof (on_error_dec c2 (conj Hc2 (conj Hty2 (conj Ht2 He2))) Hlex2) as Hd.
      destruct (on_error T c2); try exact I.
      assert (psi c2 <= psi c).
      { unfold psi, top. rewrite Hstk, Herr. assert (0 <= K) by (unfold K, L; pose proof C_pos; pose proof R_nonneg; lia). nia. }
      lia.
    + replace (n <=? 0) with false in Hnr by lia. cbn [orb] in Hnr.
      pose proof (reduce_dec c2 s rest n (conj Hc2 (conj Hty2 (conj Ht2 He2))) ltac:(rewrite Hstk; exact Hs) Hnr) as Hd.
      destruct (reduce T c2 n); try exact I.
      assert (psi c2 <= psi c).
      { unfold psi, top. rewrite Hstk, Herr. assert (0 <= K) by (unfold K, L; pose proof C_pos; pose proof R_nonneg; lia). nia. }
      lia.
  - destruct (d =? 0) eqn:Ed0.
    + apply on_error_dec; [exact HI|].
      destruct Hmode as [Hm|Hm]; [|exact Hm].
      assert (simple = true) by congruence. subst simple. cbn in Hns. discriminate.
    + destruct (d <=? 0) eqn:Edn.
      * (* a negative default other than -2: the reduction indexes yyR2 out of range, no continuation *)
        unfold reduce, idx, zth. replace (d <? 0) with true by lia. exact I.
      * cbn [orb] in Hnr. eapply reduce_dec; eauto.
Qed.

Lemma step_dec : forall c, Inv T E AL c ->
  match step T c with
  | Cont c' => psi c' < psi c
  | _ => True
  end.
Proof.
  intros c HI. pose proof HI as [Hc [Hty [Ht He]]]. unfold step.
  destruct (stk c) as [|s rest] eqn:Hs; [exact I|].
  assert (Hnode : In s (nodes E)) by (eapply chain_top_node; eauto).
  pose proof (term_node s Hnode) as Hn. unfold term_node_ok in Hn. apply andb_prop in Hn as [Hneof _].
  destruct (simple_state T s) as [[|]|] eqn:Esim; [| |exact I].
  - eapply dflt_dec; eauto.
  - destruct (ensure_la_ok T E MD AL Hclosed c HI) as [c1 [H1 [Hstk [Hvals [Herr HI1]]]]]. rewrite H1.
    destruct (ensure_la_meas c c1 H1) as [Hlex1 [Hav [_ _]]].
    destruct (shift_of T s (token c1)) as [[a|]|] eqn:Esh; [| |exact I].
    + (* shift: the lookahead was held *)
      assert (Hh : char c1 >= 0).
      { destruct (Z.ltb_spec (char c1) 0) as [Hn|Hn]; [|lia]. rewrite (Hlex1 Hn) in Esh.
        destruct (shift_of T s (tEofCode T)) as [[x|]|]; discriminate. }
      unfold psi, avail, held, top in *. cbn [stk char inp errflag hd]. rewrite Hstk, Hs. cbn [hd].
      replace (-1 <? 0) with true by lia. replace (char c1 <? 0) with false in Hav by lia.
      pose proof (rho_bounds a). pose proof (rho_bounds s). pose proof C_pos. pose proof R_nonneg.
      assert (Hz : zlen (a :: s :: rest) = zlen (s :: rest) + 1) by (unfold zlen; cbn [length]; lia).
      rewrite Hz. destruct HI1 as [_ [_ [_ He1]]].
      assert (He' : 3 - (if errflag c1 >? 0 then errflag c1 - 1 else errflag c1) <= 3 - errflag c + 1)
        by (destruct (errflag c1 >? 0); lia).
      unfold K, L in *. nia.
    + pose proof (dflt_dec c1 s rest HI1 ltac:(rewrite Hstk; exact Hs) (or_intror Hlex1)) as Hd.
      destruct (dflt T c1 s); try exact I.
      assert (psi c1 <= psi c).
      { unfold psi, top. rewrite Hstk, Herr, Hs. assert (0 <= K) by (unfold K, L; pose proof C_pos; pose proof R_nonneg; lia). nia. }
      lia.
Qed.

Lemma psi_nonneg : forall c, Inv T E AL c -> 0 <= psi c.
Proof.
  intros c [_ [_ [_ He]]]. unfold psi, avail, held, zlen.
  pose proof (rho_bounds (top c)). pose proof C_pos. pose proof R_nonneg.
  assert (0 <= K) by (unfold K, L; lia). assert (0 <= L) by (unfold L; lia).
  destruct (char c <? 0); nia.
Qed.

Lemma run_total : forall fuel c, Inv T E AL c -> psi c < Z.of_nat fuel ->
  exists c', run T fuel c = OAccept c' \/ run T fuel c = OReject c'.
Proof.
  induction fuel as [|f IH]; intros c HI Hf.
  - pose proof (psi_nonneg c HI). lia.
  - cbn [run]. pose proof (step_ok T E MD AL Hclosed c HI) as Hs. pose proof (step_dec c HI) as Hd.
    destruct (step T c) as [c'|c'|c'|e]; [|eauto|eauto|destruct Hs].
    apply IH; [exact Hs|lia].
Qed.

(* psi of the initial configuration *)
Definition fuel_bound (n : nat) : nat := Z.to_nat (2 * K * Z.of_nat n + 3 * L + C + rho RHO 0 + 1).

Theorem driver_total : forall input : list Z,
  exists c', run T (fuel_bound (length input)) (init input) = OAccept c' \/
             run T (fuel_bound (length input)) (init input) = OReject c'.
Proof.
  intro input. apply run_total; [apply (init_inv T E MD AL Hclosed)|].
  unfold fuel_bound, psi, avail, held, top, init, zlen. cbn [stk char inp errflag hd length].
  replace (-1 <? 0) with true by lia.
  pose proof (rho_bounds 0). pose proof C_pos. pose proof R_nonneg.
  assert (0 <= K) by (unfold K, L; lia). assert (0 <= L) by (unfold L; lia).
  rewrite Z2Nat.id by nia. nia.
Qed.

End Term.
