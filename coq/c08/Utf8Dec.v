(* C08 / D — executable models of the two unicode/utf8 functions the encoder and Preview call:
   utf8.DecodeRune(InString) and utf8.DecodeLastRune, reduced to what the callers use: the size and
   whether the result is the (RuneError, 1) of an invalid encoding.  These are EXTERNAL code: the totality
   theorems of Preview.v are stated over arbitrary decoders satisfying a size hypothesis (Section variables);
   the functions here instantiate them so that the model runs, and [Utf8DecProofs] shows they satisfy the
   hypotheses.  Definitions only. *)
From Coq Require Import NArith ZArith List Bool.
Import ListNotations.
Open Scope N_scope.

Definition is_cont (b : N) : bool := (128 <=? b) && (b <=? 191).
Definition in_rng (lo hi b : N) : bool := (lo <=? b) && (b <=? hi).

(* (valid, size): size = 0 only for the empty input; invalid encodings give (false, 1) *)
Definition decode_rune (p : list N) : bool * nat :=
  match p with
  | [] => (false, 0%nat)
  | b0 :: r =>
      if b0 <? 128 then (true, 1%nat)
      else if in_rng 194 223 b0 then
        match r with b1 :: _ => if is_cont b1 then (true, 2%nat) else (false, 1%nat) | _ => (false, 1%nat) end
      else if in_rng 224 239 b0 then
        match r with
        | b1 :: b2 :: _ =>
            let lo := if b0 =? 224 then 160 else 128 in
            let hi := if b0 =? 237 then 159 else 191 in
            if in_rng lo hi b1 && is_cont b2 then (true, 3%nat) else (false, 1%nat)
        | _ => (false, 1%nat)
        end
      else if in_rng 240 244 b0 then
        match r with
        | b1 :: b2 :: b3 :: _ =>
            let lo := if b0 =? 240 then 144 else 128 in
            let hi := if b0 =? 244 then 143 else 191 in
            if in_rng lo hi b1 && is_cont b2 && is_cont b3 then (true, 4%nat) else (false, 1%nat)
        | _ => (false, 1%nat)
        end
      else (false, 1%nat)
  end.

(* utf8.DecodeLastRune: size only.
     end := len(p); if end == 0 { return 0 }; start := end-1; if p[start] < RuneSelf { return 1 }
     lim := max(end-UTFMax, 0); for start--; start >= lim; start-- { if RuneStart(p[start]) { break } }
     if start < 0 { start = 0 }; r, size = DecodeRune(p[start:end]); if start+size != end { return 1 }; return size *)
Definition rune_start (b : N) : bool := negb (is_cont b).
Fixpoint scan_back (fuel : nat) (p : list N) (start lim : Z) : Z :=
  match fuel with
  | O => start
  | S f => if (start <? lim)%Z then start
           else if rune_start (nth (Z.to_nat start) p 0) then start
           else scan_back f p (start - 1)%Z lim
  end.
Definition decode_last_rune (p : list N) : nat :=
  match length p with
  | O => 0%nat
  | S e1 =>
      if nth e1 p 0 <? 128 then 1%nat
      else
        let e := Z.of_nat (S e1) in
        let lim := Z.max (e - 4) 0 in
        let start0 := scan_back 4 p (e - 2)%Z lim in
        let start := if (start0 <? 0)%Z then 0%Z else start0 in
        let '(_, size) := decode_rune (skipn (Z.to_nat start) p) in
        if (start + Z.of_nat size =? e)%Z then size else 1%nat
  end.
