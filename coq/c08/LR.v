(* C08 / B — goyacc's LR driver (yylex1 and yyParserImpl.Parse of /repo/parser.go, "yaccpar") transcribed
   as a Gallina step function over the integer tables.  Only the CONTROL skeleton is modelled: table
   lookups, the state stack, the lookahead and the error-recovery flag.  Semantic actions only build AST
   nodes out of yyDollar entries; what is kept of them is their slicing `yyDollar = yyS[yypt-K : yypt+1]`
   and the literal indices used in `yyDollar[i]` (table yyActions, extracted by the translator).
   The type assertions `yyDollar[i].value.(T)` inside the actions are NOT modelled.

   Every Go index expression of the driver is an explicit [idx site table i]; an out-of-range index is the
   outcome [Panic site].  Loops get fuel; running out of fuel is also a [Panic] (so "never Panic" includes
   "the fuel was enough").  Definitions only — proofs are in LRProofs.v.

   The tables are a record so that the proofs are generic in them; [the_tables] is the record built from
   coq/gen/GenTables.v (regenerated from the current parser.go on every run). *)
From Coq Require Import ZArith List Bool.
From Verif Require Import gen.GenTables.
Import ListNotations.
Open Scope Z_scope.

Record tables := {
  tExca : list Z; tAct : list Z; tPact : list Z; tPgo : list Z; tR1 : list Z; tR2 : list Z;
  tChk : list Z; tDef : list Z; tTok1 : list Z; tTok2 : list Z; tTok3 : list Z;
  tLast : Z; tPrivate : Z; tFlag : Z; tErrCode : Z; tEofCode : Z;
  tActions : list (Z * (Z * (Z * Z)));
  (* per rule: the dynamic type assertions yyDollar[k].value.(T) as (k, type id) and what the action stores in
     yyVAL.value: (0, type id) a value of that static type | (1, k) yyDollar[k].value unchanged |
     (2, _) nothing: goyacc's default $$ = $1 | (3, _) unknown.  Type ids: 0 = nil interface (token slots),
     -1 = unknown, > 0 = a Go type (coq/gen/GenTables.v lists them) *)
  tSem : list (Z * (list (Z * Z) * (Z * Z)))
}.

Definition the_tables : tables := {|
  tExca := yyExca; tAct := yyAct; tPact := yyPact; tPgo := yyPgo; tR1 := yyR1; tR2 := yyR2;
  tChk := yyChk; tDef := yyDef; tTok1 := yyTok1; tTok2 := yyTok2; tTok3 := yyTok3;
  tLast := yyLast; tPrivate := yyPrivate; tFlag := yyFlag; tErrCode := yyErrCode; tEofCode := yyEofCode;
  tActions := yyActions; tSem := yySem |}.

Inductive res (A : Type) : Type := Ok (a : A) | Panic (site : nat).
Arguments Ok {A} a.
Arguments Panic {A} site.

Definition bind {A B} (r : res A) (f : A -> res B) : res B :=
  match r with Ok a => f a | Panic s => Panic s end.
Notation "x <- r ;; k" := (bind r (fun x => k)) (at level 61, r at next level, right associativity).

Definition zlen (l : list Z) : Z := Z.of_nat (length l).
Definition zth (l : list Z) (i : Z) : option Z :=
  if i <? 0 then None else nth_error l (Z.to_nat i).
(* a Go index expression l[i] *)
Definition idx (site : nat) (l : list Z) (i : Z) : res Z :=
  match zth l i with Some v => Ok v | None => Panic site end.

Section Driver.
Variable T : tables.

(* ---- yylex1: char (what Lex returned) -> token number ------------------------------------------- *)
(* for i := 0; i < len(yyTok3); i += 2 { token = yyTok3[i]; if token == char { token = yyTok3[i+1]; goto out } } *)
Fixpoint tok3_scan (fuel : nat) (i token char : Z) : res Z :=
  match fuel with
  | O => Panic 99
  | S f =>
      if i <? zlen (tTok3 T) then
        t <- idx 4 (tTok3 T) i ;;
        if t =? char then idx 5 (tTok3 T) (i + 1) else tok3_scan f (i + 2) t char
      else Ok token
  end.

Definition yylex1 (char : Z) : res Z :=
  token <-
    (if char <=? 0 then idx 1 (tTok1 T) 0
     else if char <? zlen (tTok1 T) then idx 2 (tTok1 T) char
     else if (char >=? tPrivate T) && (char <? tPrivate T + zlen (tTok2 T)) then idx 3 (tTok2 T) (char - tPrivate T)
     else tok3_scan (S (length (tTok3 T))) 0 0 char) ;;
  if token =? 0 then idx 6 (tTok2 T) 1 else Ok token.

(* ---- pure table functions of the driver ---------------------------------------------------------- *)
(* yynewstate: yyn = yyPact[s]; if yyn <= yyFlag goto yydefault; yyn += token;
   if yyn < 0 || yyn >= yyLast goto yydefault; yyn = yyAct[yyn]; if yyChk[yyn] == token -> shift to yyn *)
Definition simple_state (s : Z) : res bool :=
  p <- idx 10 (tPact T) s ;; Ok (p <=? tFlag T).

Definition shift_of (s tok : Z) : res (option Z) :=
  p <- idx 10 (tPact T) s ;;
  let n := p + tok in
  if (n <? 0) || (n >=? tLast T) then Ok None
  else a <- idx 11 (tAct T) n ;;
       k <- idx 12 (tChk T) a ;;
       if k =? tok then Ok (Some a) else Ok None.

(* the exception table: for { if yyExca[xi] == -1 && yyExca[xi+1] == state { break }; xi += 2 } *)
Fixpoint exca_header (fuel : nat) (xi s : Z) : res Z :=
  match fuel with
  | O => Panic 98
  | S f =>
      a <- idx 14 (tExca T) xi ;;
      if a =? -1 then
        b <- idx 15 (tExca T) (xi + 1) ;;
        if b =? s then Ok xi else exca_header f (xi + 2) s
      else exca_header f (xi + 2) s
  end.
(* for xi += 2; ; xi += 2 { yyn = yyExca[xi]; if yyn < 0 || yyn == token { break } }; yyn = yyExca[xi+1] *)
Fixpoint exca_entry (fuel : nat) (xi tok : Z) : res Z :=
  match fuel with
  | O => Panic 97
  | S f =>
      n <- idx 16 (tExca T) xi ;;
      if (n <? 0) || (n =? tok) then idx 17 (tExca T) (xi + 1) else exca_entry f (xi + 2) tok
  end.
Definition exca_lookup (s tok : Z) : res Z :=
  xi <- exca_header (S (length (tExca T))) 0 s ;;
  exca_entry (S (length (tExca T))) (xi + 2) tok.

(* error recovery: yyn = yyPact[st] + yyErrCode; if 0 <= yyn < yyLast { ns = yyAct[yyn]; if yyChk[ns] == yyErrCode -> shift } *)
Definition errshift_of (st : Z) : res (option Z) :=
  p <- idx 20 (tPact T) st ;;
  let n := p + tErrCode T in
  if (0 <=? n) && (n <? tLast T) then
    ns <- idx 21 (tAct T) n ;;
    k <- idx 22 (tChk T) ns ;;
    if k =? tErrCode T then Ok (Some ns) else Ok None
  else Ok None.

(* goto after a reduction to nonterminal nt with state base exposed:
   yyg = yyPgo[nt]; yyj = yyg + base + 1;
   if yyj >= yyLast { st = yyAct[yyg] } else { st = yyAct[yyj]; if yyChk[st] != -nt { st = yyAct[yyg] } } *)
Definition goto_of (base nt : Z) : res Z :=
  g <- idx 33 (tPgo T) nt ;;
  let j := g + base + 1 in
  if j >=? tLast T then idx 36 (tAct T) g
  else a <- idx 37 (tAct T) j ;;
       k <- idx 38 (tChk T) a ;;
       if k =? - nt then Ok a else idx 39 (tAct T) g.

Fixpoint action_of (n : Z) (l : list (Z * (Z * (Z * Z)))) : option (Z * (Z * Z)) :=
  match l with
  | [] => None
  | (m, d) :: r => if m =? n then Some d else action_of n r
  end.

(* ---- configurations ------------------------------------------------------------------------------ *)
(* stk: the states yyS[yyp].yys, yyS[yyp-1].yys, ... yyS[0].yys (top first); char/token: yyrcvr.char and
   yytoken; inp: what the following Lex calls will return (eof = -1 once exhausted);
   nlex: number of Lex calls made; errat: nlex at the last call of yylex.Error (-1: none) *)
(* vals: the dynamic type (id) of yyS[i].value for the same positions as stk *)
Record cfg := { stk : list Z; vals : list Z; char : Z; token : Z; errflag : Z; inp : list Z; nlex : Z; errat : Z }.

Inductive sres := Cont (c : cfg) | Accept (c : cfg) | Reject (c : cfg) | Crash (site : nat).

Definition lexcall (i : list Z) : Z * list Z := match i with [] => (-1, []) | c :: r => (c, r) end.

(* if yyrcvr.char < 0 { yyrcvr.char, yytoken = yylex1(yylex, &yyrcvr.lval) } *)
Definition ensure_la (c : cfg) : res cfg :=
  if char c <? 0 then
    let (ch, r) := lexcall (inp c) in
    tk <- yylex1 ch ;;
    Ok {| stk := stk c; vals := vals c; char := ch; token := tk; errflag := errflag c; inp := r; nlex := nlex c + 1; errat := errat c |}
  else Ok c.

(* for yyp >= 0 { …errshift… ; yyp-- } ; goto ret1        — the pushed slot gets the stale yyVAL: unknown type *)
Fixpoint recover_stk (s : list Z) (v : list Z) : res (option (list Z * list Z)) :=
  match s with
  | [] => Ok None
  | st :: rest =>
      e <- errshift_of st ;;
      match e with
      | Some ns => Ok (Some (ns :: st :: rest, (-1) :: v))
      | None => recover_stk rest (tl v)
      end
  end.

Fixpoint sem_of (n : Z) (l : list (Z * (list (Z * Z) * (Z * Z)))) : option (list (Z * Z) * (Z * Z)) :=
  match l with
  | [] => None
  | (m, d) :: r => if m =? n then Some d else sem_of n r
  end.

(* yyDollar[k].value for 1 <= k <= r2: the slot r2-k below the top *)
Definition slot (v : list Z) (r2 k : Z) : option Z :=
  if (1 <=? k) && (k <=? r2) then nth_error v (Z.to_nat (r2 - k)) else None.

(* every `yyDollar[k].value.(T)` of the action finds exactly the dynamic type T *)
Definition asserts_hold (v : list Z) (r2 : Z) (asserts : list (Z * Z)) : bool :=
  forallb (fun a => match slot v r2 (fst a) with Some ty => ty =? snd a | None => false end) asserts.

(* the dynamic type of the new yyVAL.value *)
Definition stored (v : list Z) (r2 : Z) (o : Z * Z) : res Z :=
  let default := if 1 <=? r2 then match slot v r2 1 with Some ty => Ok ty | None => Panic 72 end else Ok (-1) in
  if fst o =? 0 then Ok (snd o)
  else if fst o =? 1 then match slot v r2 (snd o) with Some ty => Ok ty | None => Panic 71 end
  else if fst o =? 2 then default
  else Ok (-1).

(* reduction by production n (also reached with n = 0 when Errflag is outside 0..3: Go's switch has no default) *)
Definition reduce (c : cfg) (n : Z) : sres :=
  match idx 30 (tR2 T) n with Panic s => Crash s | Ok r2 =>
  let yyp := zlen (stk c) - 1 in                       (* yypt = yyp *)
  let yyp' := yyp - r2 in                               (* yyp -= yyR2[yyn] *)
  if r2 <? 0 then Crash 35                              (* conservative: a negative pop count reads stale slots *)
  else if yyp' + 1 <? 0 then Crash 31                   (* yyVAL = yyS[yyp+1] *)
  else
  match idx 32 (tR1 T) n with Panic s => Crash s | Ok nt =>
  match idx 33 (tPgo T) nt with Panic s => Crash s | Ok _ =>
  match skipn (Z.to_nat r2) (stk c) with
  | [] => Crash 34                                      (* yyS[yyp].yys with yyp < 0 *)
  | base :: below =>
      match goto_of base nt with Panic s => Crash s | Ok ns =>
      let slicing_ok :=
        match action_of n (tActions T) with
        | Some (k, (lo, hi)) =>
            if yyp - k <? 0 then Some 40%nat            (* yyDollar = yyS[yypt-K : yypt+1] *)
            else if (lo <=? hi) && ((lo <? 0) || (hi >? k)) then Some 41%nat   (* yyDollar[i], len(yyDollar) = K+1 *)
            else None
        | None => None
        end in
      match slicing_ok with Some e => Crash e | None =>
      let (asserts, o) := match sem_of n (tSem T) with Some d => d | None => ([], (2, 0)) end in
      if negb (asserts_hold (vals c) r2 asserts) then Crash 70      (* yyDollar[k].value.(T) *)
      else match stored (vals c) r2 o with Panic e => Crash e | Ok ty =>
           Cont {| stk := ns :: base :: below; vals := ty :: skipn (Z.to_nat r2) (vals c);
                   char := char c; token := token c; errflag := errflag c;
                   inp := inp c; nlex := nlex c; errat := errat c |}
           end
      end end
  end end end end.

(* if yyn == 0 { switch Errflag { case 0: Error(); fallthrough; case 1, 2: …; case 3: … } } *)
Definition on_error (c : cfg) : sres :=
  let recover (c : cfg) :=
    match recover_stk (stk c) (vals c) with
    | Panic s => Crash s
    | Ok None => Reject c
    | Ok (Some (st', v')) => Cont {| stk := st'; vals := v'; char := char c; token := token c; errflag := 3; inp := inp c;
                                      nlex := nlex c; errat := errat c |}
    end in
  if errflag c =? 0 then
    recover {| stk := stk c; vals := vals c; char := char c; token := token c; errflag := errflag c; inp := inp c;
               nlex := nlex c; errat := nlex c |}
  else if (errflag c =? 1) || (errflag c =? 2) then recover c
  else if errflag c =? 3 then
    if token c =? tEofCode T then Reject c
    else Cont {| stk := stk c; vals := vals c; char := -1; token := -1; errflag := errflag c; inp := inp c; nlex := nlex c; errat := errat c |}
  else reduce c 0.

(* yydefault *)
Definition dflt (c : cfg) (s : Z) : sres :=
  match idx 13 (tDef T) s with Panic e => Crash e | Ok d =>
  if d =? -2 then
    match ensure_la c with Panic e => Crash e | Ok c2 =>
    match exca_lookup s (token c2) with Panic e => Crash e | Ok n =>
    if n <? 0 then Accept c2
    else if n =? 0 then on_error c2 else reduce c2 n
    end end
  else if d =? 0 then on_error c else reduce c d
  end.

(* one round: from label yynewstate to the next arrival at yynewstate (through yystack) or a return *)
Definition step (c : cfg) : sres :=
  match stk c with
  | [] => Crash 100
  | s :: _ =>
      match simple_state s with Panic e => Crash e | Ok true => dflt c s | Ok false =>
      match ensure_la c with Panic e => Crash e | Ok c1 =>
      match shift_of s (token c1) with Panic e => Crash e
      | Ok (Some a) =>
          (* yyVAL = yyrcvr.lval: the lexer never writes lval.value, the slot holds the nil interface *)
          Cont {| stk := a :: stk c1; vals := 0 :: vals c1; char := -1; token := -1;
                  errflag := (if errflag c1 >? 0 then errflag c1 - 1 else errflag c1);
                  inp := inp c1; nlex := nlex c1; errat := errat c1 |}
      | Ok None => dflt c1 s
      end end end
  end.

Definition init (i : list Z) : cfg :=
  {| stk := [0]; vals := [0]; char := -1; token := -1; errflag := 0; inp := i; nlex := 0; errat := -1 |}.

Inductive outcome := OAccept (c : cfg) | OReject (c : cfg) | OPanic (site : nat) | OFuel (c : cfg).

Fixpoint run (fuel : nat) (c : cfg) : outcome :=
  match fuel with
  | O => OFuel c
  | S f => match step c with
           | Cont c' => run f c'
           | Accept c' => OAccept c'
           | Reject c' => OReject c'
           | Crash s => OPanic s
           end
  end.

End Driver.
