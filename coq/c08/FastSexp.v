(* Linear-time replacement for common/Sexp.parse (whose tokenizer re-reverses the pending atom at every
   character with the quadratic List.rev: cubic in the atom length; C08 lines carry long hex atoms).
   Same language, same result type. *)
From Coq Require Import List NArith Bool.
From Verif Require Import common.Sexp.
Import ListNotations.
Open Scope N_scope.

Definition flush_atom (cur : list N) (acc : list tok) : list tok :=
  match cur with [] => acc | _ => TA (rev_append cur []) :: acc end.

(* tokens in reverse order *)
Fixpoint tokens_rev (cur : list N) (acc : list tok) (l : list N) : list tok :=
  match l with
  | [] => flush_atom cur acc
  | c :: r =>
      if is_space c then tokens_rev [] (flush_atom cur acc) r
      else if c =? lparen then tokens_rev [] (TL :: flush_atom cur acc) r
      else if c =? rparen then tokens_rev [] (TR :: flush_atom cur acc) r
      else tokens_rev (c :: cur) acc r
  end.

Fixpoint parse_fast_toks (ts : list tok) (stack : list (list sexp)) : option sexp :=
  match ts with
  | [] => match stack with [[x]] => Some x | _ => None end
  | TA s :: r => match stack with
                 | top :: st => parse_fast_toks r ((Atom s :: top) :: st)
                 | [] => None end
  | TL :: r => parse_fast_toks r ([] :: stack)
  | TR :: r => match stack with
               | top :: nxt :: st => parse_fast_toks r ((SList (rev_append top []) :: nxt) :: st)
               | _ => None end
  end.

Definition parse_fast (l : list N) : option sexp :=
  parse_fast_toks (rev_append (tokens_rev [] [] l) []) [[]].
