(* C08 / B — executable checkers over the tables (definitions only; proofs in LRProofs.v).

   [all_tokens]   every token number yylex1 can produce (plus the -1 of "no lookahead")
   E              a relation on states, as successor lists indexed by state: (p, q) in E when the driver can
                  push q directly on top of p.  It is COMPUTED from the tables by [edges_fix]: least set closed
                  under shifts, error shifts and the gotos after every reduction possible in a state, where the
                  states a reduction by rule n can expose are found by walking yyR2[n] edges of E backwards.
   MD             for every state a lower bound on the number of entries below it on any stack reachable
                  through E (shortest-path distance from state 0, computed by relaxation: [md_fix]).
   [closed]       the finite check: E is closed under one driver round from every node for every token,
                  every index computed on the way is in range, and every reduction possible in state s pops
                  at most MD(s) entries.  *)
From Coq Require Import ZArith List Bool.
From Verif Require Import c08.LR.
Import ListNotations.
Open Scope Z_scope.

Section Check.
Variable T : tables.

Definition all_tokens : list Z := nodup Z.eq_dec ((-1) :: tTok1 T ++ tTok2 T ++ tTok3 T).

(* a trailing unpaired yyTok3 entry must not be matchable by a char > 0 *)
Fixpoint tok3_ok (l : list Z) : bool :=
  match l with
  | [] => true
  | [a] => a <=? 0
  | _ :: _ :: r => tok3_ok r
  end.
Definition lex_ok : bool := (1 <=? zlen (tTok1 T)) && (2 <=? zlen (tTok2 T)) && tok3_ok (tTok3 T).

(* (i) index safety of every table access, for EVERY state number and every token (reachable or not) *)
Definition is_ok {A} (r : res A) : bool := match r with Ok _ => true | Panic _ => false end.
Definition zseq (n : nat) : list Z := map Z.of_nat (seq 0 n).
Definition nrules : nat := length (tR2 T).
Definition state_index_ok (s : Z) : bool :=
  is_ok (simple_state T s) && is_ok (idx 13 (tDef T) s) && is_ok (errshift_of T s) &&
  forallb (fun t => is_ok (shift_of T s t) &&
                    match idx 13 (tDef T) s with Ok d => if d =? -2 then is_ok (exca_lookup T s t) else true | Panic _ => false end)
          all_tokens.
Definition rule_index_ok (n : Z) : bool :=
  match idx 32 (tR1 T) n, idx 30 (tR2 T) n with
  | Ok nt, Ok r2 => (0 <=? r2) && is_ok (idx 33 (tPgo T) nt) &&
                    forallb (fun base => is_ok (goto_of T base nt)) (zseq (length (tPact T)))
  | _, _ => false
  end.
Definition index_ok : bool :=
  forallb state_index_ok (zseq (length (tPact T))) && forallb rule_index_ok (zseq nrules).

Definition mem (q : Z) (l : list Z) : bool := existsb (Z.eqb q) l.

Section WithE.
Variable E : list (list Z).
Variable MD : list Z.
Variable AL : list (list Z).     (* for every state: the dynamic types its slot's value may have *)

Definition succs (p : Z) : list Z := nth (Z.to_nat p) E [].
Definition inE (p q : Z) : bool := (0 <=? p) && mem q (succs p).
Definition nodes : list Z := nodup Z.eq_dec (0 :: concat E).
Definition states : list Z := map Z.of_nat (seq 0 (length E)).
Definition preds (X : list Z) : list Z := filter (fun p => existsb (fun q => mem q X) (succs p)) states.
Fixpoint back (k : nat) (X : list Z) : list Z :=
  match k with O => X | S k' => back k' (preds X) end.
Definition md (s : Z) : Z := nth (Z.to_nat s) MD (-1).

Definition allowed (q : Z) : list Z := nth (Z.to_nat q) AL [].
Definition al_in (v q : Z) : bool := (0 <=? q) && mem v (allowed q).
(* the states that can hold RHS position k (1-based) when a rule with r2 symbols is reduced in state s *)
Definition pos_states (s r2 k : Z) : list Z := back (Z.to_nat (r2 - k)) [s].
(* every type possible at position k is allowed in state ns *)
Definition flows (s r2 k ns : Z) : bool :=
  (1 <=? k) && (k <=? r2) && forallb (fun q => forallb (fun v => al_in v ns) (allowed q)) (pos_states s r2 k).
Definition sem_ok (s n r2 nt : Z) : bool :=
  let (asserts, o) := match sem_of n (tSem T) with Some d => d | None => ([], (2, 0)) end in
  forallb (fun a => (1 <=? fst a) && (fst a <=? r2) &&
                    forallb (fun q => forallb (Z.eqb (snd a)) (allowed q)) (pos_states s r2 (fst a))) asserts &&
  forallb (fun p => match goto_of T p nt with
                    | Ok ns =>
                        if fst o =? 0 then al_in (snd o) ns
                        else if fst o =? 1 then flows s r2 (snd o) ns
                        else if fst o =? 2 then (if 1 <=? r2 then flows s r2 1 ns else al_in (-1) ns)
                        else al_in (-1) ns
                    | Panic _ => false
                    end) (back (Z.to_nat r2) [s]).

(* reduction by rule n in state s *)
Definition red_ok (s n : Z) : bool :=
  match idx 30 (tR2 T) n, idx 32 (tR1 T) n with
  | Ok r2, Ok nt =>
      (0 <=? r2) && (r2 <=? md s) &&
      match idx 33 (tPgo T) nt with Ok _ => true | Panic _ => false end &&
      forallb (fun p => match goto_of T p nt with Ok ns => inE p ns | Panic _ => false end) (back (Z.to_nat r2) [s]) &&
      match action_of n (tActions T) with
      | Some (k, (lo, hi)) => (k <=? md s) && ((hi <? lo) || ((0 <=? lo) && (hi <=? k)))
      | None => true
      end && sem_ok s n r2 nt
  | _, _ => false
  end.

Definition node_ok (s : Z) : bool :=
  (0 <=? s) &&
  match simple_state T s with Ok _ => true | Panic _ => false end &&
  forallb (fun t => match shift_of T s t with
                    | Ok None => true | Ok (Some a) => inE s a && al_in 0 a | Panic _ => false end) all_tokens &&
  match idx 13 (tDef T) s with
  | Ok d =>
      if d =? -2 then
        forallb (fun t => match exca_lookup T s t with
                          | Ok n => (n <? 0) || (n =? 0) || red_ok s n
                          | Panic _ => false end) all_tokens
      else (d =? 0) || red_ok s d
  | Panic _ => false
  end &&
  match errshift_of T s with Ok None => true | Ok (Some ns) => inE s ns && al_in (-1) ns | Panic _ => false end.

(* MD is a lower bound of the E-distance from state 0 *)
Definition md_ok : bool :=
  (md 0 <=? 0) &&
  forallb (fun p => forallb (fun q => md q <=? md p + 1) (succs p)) states.

Definition closed : bool := lex_ok && md_ok && al_in 0 0 && forallb node_ok nodes.

(* one relaxation round of the distances *)
Fixpoint setnth (n : nat) (v : Z) (l : list Z) : list Z :=
  match l, n with
  | [], _ => []
  | x :: r, O => (if v <? x then v else x) :: r
  | x :: r, S k => x :: setnth k v r
  end.
Definition relax : list Z :=
  fold_left (fun m p => fold_left (fun m' q => if q <? 0 then m' else setnth (Z.to_nat q) (nth (Z.to_nat p) m' 0 + 1) m') (succs p) m)
            states MD.
End WithE.

(* ---- computing E: one growth round ---- *)
Fixpoint upd (n : nat) (q : Z) (l : list (list Z)) : list (list Z) :=
  match l, n with
  | [], _ => []
  | x :: r, O => (if mem q x then x else q :: x) :: r
  | x :: r, S k => x :: upd k q r
  end.
Definition add_edge (p q : Z) (l : list (list Z)) : list (list Z) :=
  if p <? 0 then l else upd (Z.to_nat p) q l.

Definition reds (s : Z) : list Z :=
  match idx 13 (tDef T) s with
  | Ok d =>
      if d =? -2 then
        flat_map (fun t => match exca_lookup T s t with Ok n => if 0 <? n then [n] else [] | Panic _ => [] end) all_tokens
      else if 0 <? d then [d] else []
  | Panic _ => []
  end.

Definition grow_node (acc : list (list Z)) (s : Z) : list (list Z) :=
  let acc1 := fold_left (fun a t => match shift_of T s t with Ok (Some q) => add_edge s q a | _ => a end) all_tokens acc in
  let acc2 := match errshift_of T s with Ok (Some q) => add_edge s q acc1 | _ => acc1 end in
  fold_left (fun a n =>
    match idx 30 (tR2 T) n, idx 32 (tR1 T) n with
    | Ok r2, Ok nt =>
        if r2 <? 0 then a else
        fold_left (fun a' p => match goto_of T p nt with Ok ns => add_edge p ns a' | Panic _ => a' end)
                  (back a (Z.to_nat r2) [s]) a
    | _, _ => a
    end) (reds s) acc2.

(* states are visited in increasing number (goyacc numbers them in discovery order), each as soon as it
   has become a node of the relation built so far: few rounds are needed *)
Definition is_node (l : list (list Z)) (s : Z) : bool := (s =? 0) || existsb (mem s) l.
Definition grow (l : list (list Z)) : list (list Z) :=
  fold_left (fun a s => if is_node a s then grow_node a s else a) (states l) l.


Definition edge_count (l : list (list Z)) : nat := length (concat l).

Fixpoint edges_fix (fuel : nat) (l : list (list Z)) : list (list Z) :=
  match fuel with
  | O => l
  | S f => let l' := grow l in
           if Nat.eqb (edge_count l') (edge_count l) then l else edges_fix f l'
  end.

Definition nstates : nat := length (tPact T).
Definition E0 : list (list Z) := repeat [] nstates.
Definition the_E : list (list Z) := edges_fix (4 * nstates) E0.

Definition big : Z := 1000000.
Fixpoint md_fix (fuel : nat) (l : list (list Z)) (m : list Z) : list Z :=
  match fuel with
  | O => m
  | S f => let m' := relax l m in
           if forallb (fun ab => fst ab =? snd ab) (combine m m') then m else md_fix f l m'
  end.
Definition MD0 : list Z := 0 :: repeat big (nstates - 1).
Definition the_MD (l : list (list Z)) : list Z := md_fix nstates l MD0.

(* ---- computing AL: least assignment closed under the pushes of the driver ---- *)
Definition add_ty (q v : Z) (l : list (list Z)) : list (list Z) := add_edge q v l.
Definition al_node (Ed : list (list Z)) (acc : list (list Z)) (s : Z) : list (list Z) :=
  let acc1 := fold_left (fun a t => match shift_of T s t with Ok (Some q) => add_ty q 0 a | _ => a end) all_tokens acc in
  let acc2 := match errshift_of T s with Ok (Some q) => add_ty q (-1) acc1 | _ => acc1 end in
  fold_left (fun a n =>
    match idx 30 (tR2 T) n, idx 32 (tR1 T) n with
    | Ok r2, Ok nt =>
        if r2 <? 0 then a else
        let o := match sem_of n (tSem T) with Some d => snd d | None => (2, 0) end in
        let from_pos k a' ns := fold_left (fun a2 q => fold_left (fun a3 v => add_ty ns v a3) (nth (Z.to_nat q) a' []) a2)
                                          (back Ed (Z.to_nat (r2 - k)) [s]) a' in
        fold_left (fun a' p => match goto_of T p nt with
                               | Ok ns =>
                                   if fst o =? 0 then add_ty ns (snd o) a'
                                   else if fst o =? 1 then from_pos (snd o) a' ns
                                   else if fst o =? 2 then (if 1 <=? r2 then from_pos 1 a' ns else add_ty ns (-1) a')
                                   else add_ty ns (-1) a'
                               | Panic _ => a'
                               end)
                  (back Ed (Z.to_nat r2) [s]) a
    | _, _ => a
    end) (nodup Z.eq_dec (reds s)) acc2.
Definition al_round (Ed : list (list Z)) (l : list (list Z)) : list (list Z) := fold_left (al_node Ed) (nodes Ed) l.
Fixpoint al_fix (fuel : nat) (Ed : list (list Z)) (l : list (list Z)) : list (list Z) :=
  match fuel with
  | O => l
  | S f => let l' := al_round Ed l in
           if Nat.eqb (edge_count l') (edge_count l) then l else al_fix f Ed l'
  end.
Definition the_AL (Ed : list (list Z)) : list (list Z) := al_fix 40 Ed (add_ty 0 0 E0).

(* ---- termination: a ranking of the states --------------------------------------------------------------
   C = nstates + 1.  RHO(s) >= RHO(s') + 1 + C * (1 - r2) whenever a reduction possible in state s (popping r2
   entries) can lead to state s'.  Then C * depth + RHO(top) strictly decreases at every reduction: chains of
   reductions between two shifts are finite (no cyclic unit / epsilon chains), with an explicit bound. *)
Section WithRho.
Variable Ed : list (list Z).
Variable RHO : list Z.
Definition cC : Z := Z.of_nat nstates + 1.
Definition rho (s : Z) : Z := nth (Z.to_nat s) RHO 0.
Definition rho_max : Z := fold_right Z.max 0 RHO.
Definition rank_red_ok (s n : Z) : bool :=
  match idx 30 (tR2 T) n, idx 32 (tR1 T) n with
  | Ok r2, Ok nt =>
      forallb (fun p => match goto_of T p nt with
                        | Ok s' => rho s' + 1 + cC * (1 - r2) <=? rho s
                        | Panic _ => false end) (back Ed (Z.to_nat r2) [s])
  | _, _ => false
  end.
Definition term_node_ok (s : Z) : bool :=
  (* $end is never shifted *)
  match shift_of T s (tEofCode T) with Ok None => true | _ => false end &&
  (* a state that reads no lookahead does not have "error" as its default action *)
  match simple_state T s, idx 13 (tDef T) s with
  | Ok simple, Ok d =>
      negb (simple && (d =? 0)) &&
      (if d =? -2 then
         forallb (fun t => match exca_lookup T s t with
                           | Ok n => (n <=? 0) || rank_red_ok s n
                           | Panic _ => false end) all_tokens
       else (d <=? 0) || rank_red_ok s d)
  | _, _ => false
  end.
Definition term_ok : bool :=
  match zth (tTok1 T) 0 with Some e => (e =? tEofCode T) && negb (e =? 0) | None => false end &&
  forallb (fun r => 0 <=? r) RHO &&
  forallb term_node_ok (nodes Ed).

(* computing RHO by relaxation over the reduce edges *)
Definition red_edges : list (Z * (Z * Z)) :=
  flat_map (fun s => flat_map (fun n =>
    match idx 30 (tR2 T) n, idx 32 (tR1 T) n with
    | Ok r2, Ok nt => flat_map (fun p => match goto_of T p nt with Ok s' => [(s, (s', r2))] | Panic _ => [] end)
                               (back Ed (Z.to_nat r2) [s])
    | _, _ => []
    end) (nodup Z.eq_dec (reds s))) (nodes Ed).
End WithRho.
Fixpoint setmax (n : nat) (v : Z) (l : list Z) : list Z :=
  match l, n with
  | [], _ => []
  | x :: r, O => (if x <? v then v else x) :: r
  | x :: r, S k => x :: setmax k v r
  end.
Definition rho_relax (edges : list (Z * (Z * Z))) (r : list Z) : list Z :=
  fold_left (fun m e => let '(s, (s', r2)) := e in
                        if s <? 0 then m else setmax (Z.to_nat s) (nth (Z.to_nat s') m 0 + 1 + cC * (1 - r2)) m) edges r.
Fixpoint rho_fix (fuel : nat) (edges : list (Z * (Z * Z))) (r : list Z) : list Z :=
  match fuel with
  | O => r
  | S f => let r' := rho_relax edges r in
           if forallb (fun ab => fst ab =? snd ab) (combine r r') then r else rho_fix f edges r'
  end.
Definition the_RHO (Ed : list (list Z)) : list Z := rho_fix (4 * nstates) (red_edges Ed) (repeat 0 nstates).

End Check.
