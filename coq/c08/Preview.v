(* C08 / D — preview.go and the byte-slicing parts of encoder.go transcribed.
     limitedWriter (Write / WriteByte / WriteString / Bytes) and jsonLimitedMarshal's recover()
     Preview: the truncation loop over utf8.DecodeLastRune
     encoder.encodeString: the start/i slicing loop over utf8.DecodeRuneInString and the hex table
     encoder.encodeFloat64: the exponent clean-up `e-09` -> `e-9`
   Every Go slice / index expression is a partial operation; failure is [Panic site]; loops carry fuel and
   running out of fuel is a Panic too.  The UTF-8 decoders are parameters (external code).
   Definitions only; proofs in PreviewProofs.v. *)
From Coq Require Import ZArith NArith List Bool String.
From Verif Require Import common.Sexp c08.LR c08.Flags.
Import ListNotations.
Open Scope Z_scope.

(* ---- limitedWriter ------------------------------------------------------------------------------- *)
Record lw := { lbuf : bytes; loff : Z }.
Inductive wres := WOk (w : lw) | WFull (w : lw) | WPanic (site : nat).   (* WFull: panic(struct{}{}) *)

(* n := copy(w.buf[w.off:], bs); if w.off += n; w.off == len(w.buf) { panic(struct{}{}) } *)
Definition lw_write (w : lw) (bs : bytes) : wres :=
  match slice (lbuf w) (loff w) (blen (lbuf w)) with
  | None => WPanic 1
  | Some room =>
      let n := Z.min (blen room) (blen bs) in
      let buf' := (firstn (Z.to_nat (loff w)) (lbuf w) ++ firstn (Z.to_nat n) bs ++ skipn (Z.to_nat n) room)%list in
      let w' := {| lbuf := buf'; loff := loff w + n |} in
      if loff w' =? blen (lbuf w) then WFull w' else WOk w'
  end.
(* w.buf[w.off] = b; if w.off++; w.off == len(w.buf) { panic(struct{}{}) } *)
Definition lw_write_byte (w : lw) (b : N) : wres :=
  if (0 <=? loff w) && (loff w <? blen (lbuf w)) then
    let buf' := (firstn (Z.to_nat (loff w)) (lbuf w) ++ b :: skipn (Z.to_nat (loff w + 1)) (lbuf w))%list in
    let w' := {| lbuf := buf'; loff := loff w + 1 |} in
    if loff w' =? blen (lbuf w) then WFull w' else WOk w'
  else WPanic 2.
(* w.buf[:w.off] *)
Definition lw_bytes (w : lw) : res bytes :=
  match slice (lbuf w) 0 (loff w) with Some b => Ok b | None => Panic 3 end.

Inductive wop := OpWrite (bs : bytes) | OpByte (b : N).
Definition flat (ops : list wop) : bytes :=
  flat_map (fun o => match o with OpWrite bs => bs | OpByte b => [b] end) ops.

(* jsonLimitedMarshal: the encoder issues a sequence of writes; the deferred recover() turns the
   panic(struct{}{}) of a full buffer (and any other panic) into "return w.Bytes()" *)
Fixpoint lw_run (w : lw) (ops : list wop) : res bytes :=
  match ops with
  | [] => lw_bytes w
  | o :: r =>
      match (match o with OpWrite bs => lw_write w bs | OpByte b => lw_write_byte w b end) with
      | WOk w' => lw_run w' r
      | WFull w' => lw_bytes w'
      | WPanic s => Panic s
      end
  end.
Definition lw_new (n : nat) : lw := {| lbuf := repeat 0%N n; loff := 0 |}.
Definition limited (n : nat) (ops : list wop) : res bytes := lw_run (lw_new n) ops.

(* ---- Preview ------------------------------------------------------------------------------------- *)
Inductive vty := TString | TArray | TObject | TOther.
Definition trailing (t : vty) : bytes :=
  match t with
  | TString => codes " ...""" | TArray => codes " ...]" | TObject => codes " ...}" | TOther => codes " ..."
  end.

Section WithDecoders.
Variable dlr : bytes -> nat.            (* size returned by utf8.DecodeLastRune *)
Variable dr : bytes -> bool * nat.      (* utf8.DecodeRuneInString: (not (RuneError,1)), size *)

(* for len(bs) > l-len(trailing) { _, size := utf8.DecodeLastRune(bs); bs = bs[:len(bs)-size] } *)
Fixpoint trunc_loop (fuel : nat) (bs : bytes) (limit : Z) : res bytes :=
  match fuel with
  | O => Panic 99
  | S f =>
      if blen bs >? limit then
        match slice bs 0 (blen bs - Z.of_nat (dlr bs)) with
        | Some bs' => trunc_loop f bs' limit
        | None => Panic 30
        end
      else Ok bs
  end.

(* Preview(v) given the writes the encoder issues for v *)
Definition preview (t : vty) (ops : list wop) : res bytes :=
  bs <- limited 32 ops ;;
  if blen bs >? 30 then
    bs' <- trunc_loop (S (List.length bs)) bs (30 - blen (trailing t)) ;;
    Ok (bs' ++ trailing t)%list
  else Ok bs.

(* typeErrorPreview: "null" | TypeOf(v) + " (" + Preview(v) + ")" *)
Definition type_error_preview (isnil : bool) (tyname : bytes) (t : vty) (ops : list wop) : res bytes :=
  if isnil then Ok (codes "null")
  else p <- preview t ops ;; Ok (tyname ++ codes " (" ++ p ++ codes ")")%list.

(* ---- encoder.encodeString ------------------------------------------------------------------------ *)
Definition hexdigits : bytes := codes "0123456789abcdef".
Definition printable (b : N) : bool := ((32 <=? b) && (b <=? 126) && negb (b =? 34) && negb (b =? 92))%N.

(* if start < i { e.w.WriteString(s[start:i]) } *)
Definition flush (s : bytes) (start i : Z) (out : bytes) : res bytes :=
  if start <? i then
    match slice s start i with Some x => Ok (out ++ x)%list | None => Panic 41 end
  else Ok out.

Definition escape (b : N) : res bytes :=
  if (b =? 34)%N then Ok (codes "\""")
  else if (b =? 92)%N then Ok (codes "\\")
  else if (b =? 8)%N then Ok (codes "\b")
  else if (b =? 12)%N then Ok (codes "\f")
  else if (b =? 10)%N then Ok (codes "\n")
  else if (b =? 13)%N then Ok (codes "\r")
  else if (b =? 9)%N then Ok (codes "\t")
  else match byte_at hexdigits (Z.of_N (N.shiftr b 4)), byte_at hexdigits (Z.of_N (N.land b 15)) with
       | Some h, Some l => Ok (codes "\u00" ++ [h; l])%list
       | _, _ => Panic 42                       (* hex[b>>4], hex[b&0xF] *)
       end.

Fixpoint enc_loop (fuel : nat) (s : bytes) (i start : Z) (out : bytes) : res bytes :=
  match fuel with
  | O => Panic 98
  | S f =>
      if i <? blen s then
        match byte_at s i with
        | None => Panic 40
        | Some b =>
            if (b <? 128)%N then
              if printable b then enc_loop f s (i + 1) start out
              else
                o1 <- flush s start i out ;;
                e <- escape b ;;
                enc_loop f s (i + 1) (i + 1) (o1 ++ e)%list
            else
              match slice s i (blen s) with
              | None => Panic 43
              | Some tl =>
                  let '(valid, size) := dr tl in
                  if negb valid && Nat.eqb size 1 then
                    o1 <- flush s start i out ;;
                    enc_loop f s (i + Z.of_nat size) (i + Z.of_nat size) (o1 ++ codes "\ufffd")%list
                  else enc_loop f s (i + Z.of_nat size) start out
              end
        end
      else
        o1 <- (if start <? blen s then
                 match slice s start (blen s) with Some x => Ok (out ++ x)%list | None => Panic 44 end
               else Ok out) ;;
        Ok (o1 ++ [34%N])%list
  end.
Definition enc_string (s : bytes) : res bytes := enc_loop (S (List.length s)) s 0 0 [34%N].
End WithDecoders.

(* ---- encoder.encodeFloat64: exponent clean-up on the bytes strconv.AppendFloat(…, 'e', -1, 64) returned --
   if n := len(buf); n >= 4 && buf[n-4] == 'e' && buf[n-3] == '-' && buf[n-2] == '0' { buf[n-2] = buf[n-1]; buf = buf[:n-1] } *)
Definition clean_exp (buf : bytes) : res bytes :=
  let n := blen buf in
  if n >=? 4 then
    match byte_at buf (n - 4) with None => Panic 60 | Some c4 =>
    if negb (c4 =? 101)%N then Ok buf else
    match byte_at buf (n - 3) with None => Panic 61 | Some c3 =>
    if negb (c3 =? 45)%N then Ok buf else
    match byte_at buf (n - 2) with None => Panic 62 | Some c2 =>
    if negb (c2 =? 48)%N then Ok buf else
    match byte_at buf (n - 1), slice buf 0 (n - 2) with
    | Some c1, Some pre => (* buf[n-2] = buf[n-1]; buf[:n-1] *)
        match slice (pre ++ [c1; c1])%list 0 (n - 1) with Some r => Ok r | None => Panic 64 end
    | _, _ => Panic 63
    end end end end
  else Ok buf.
