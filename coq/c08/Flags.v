(* C08 / C — cli/flags.go parseFlags transcribed over argument vectors [list (list N)] (bytes).
   Every Go slicing / indexing / element assignment of the function is an explicit partial operation
   ([slice], [byte_at], [arg_at], [set_arg]); failure is the outcome [FPanic site].
   The control flow (the `for i` loop with the labels S and L and `goto`) is a small-step machine with three
   program points; [i] may be decremented by the code (`i--` before `goto S`), exactly as in Go.
   The option table (kinds and long/short/positional tags that the Go code reads by reflection) is
   coq/gen/GenFlagTable.v, regenerated from cli/cli.go.  Definitions only; proofs in FlagsProofs.v. *)
From Coq Require Import ZArith NArith List Bool String.
From Verif Require Import common.Sexp gen.GenFlagTable.
Import ListNotations.
Open Scope Z_scope.

Definition bytes := list N.
Definition blen (b : bytes) : Z := Z.of_nat (List.length b).
Definition bytes_eqb (a b : bytes) : bool := list_N_eqb a b.

(* s[a:b] *)
Definition slice (s : bytes) (a b : Z) : option bytes :=
  if (0 <=? a) && (a <=? b) && (b <=? blen s)
  then Some (firstn (Z.to_nat (b - a)) (skipn (Z.to_nat a) s)) else None.
(* s[i] *)
Definition byte_at (s : bytes) (i : Z) : option N :=
  if i <? 0 then None else nth_error s (Z.to_nat i).
(* args[i] and args[i] = v *)
Definition arg_at (a : list bytes) (i : Z) : option bytes :=
  if i <? 0 then None else nth_error a (Z.to_nat i).
Fixpoint set_nth (n : nat) (v : bytes) (a : list bytes) : option (list bytes) :=
  match a, n with
  | [], _ => None
  | _ :: r, O => Some (v :: r)
  | x :: r, S k => option_map (cons x) (set_nth k v r)
  end.
Definition set_arg (a : list bytes) (i : Z) (v : bytes) : option (list bytes) :=
  if i <? 0 then None else set_nth (Z.to_nat i) v a.

Definition dash : N := 45%N.
Definition equals : N := 61%N.
Definition has_dashdash (a : bytes) : bool :=
  match a with c1 :: c2 :: _ => N.eqb c1 dash && N.eqb c2 dash | _ => false end.
(* strings.IndexByte(arg, '=') *)
Fixpoint index_byte (a : bytes) (c : N) (k : Z) : option Z :=
  match a with [] => None | x :: r => if N.eqb x c then Some k else index_byte r c (k + 1) end.
Definition is_letter (c : N) : bool :=
  ((65 <=? c) && (c <=? 90) || (97 <=? c) && (c <=? 122))%N.

(* strconv.Atoi: optional sign, at least one decimal digit, value in the int64 range *)
Definition atoi (s : bytes) : option Z :=
  let '(neg, ds) := match s with
                    | c :: r => if N.eqb c 45 then (true, r) else if N.eqb c 43 then (false, r) else (false, s)
                    | [] => (false, []) end in
  match parse_N ds with
  | Some n => let z := if neg then - Z.of_N n else Z.of_N n in
              if (- 2 ^ 63 <=? z) && (z <=? 2 ^ 63 - 1) then Some z else None
  | None => None
  end.

Inductive fval :=
  | VBool (b : bool) | VStr (s : bytes) | VInt (o : option Z) | VOther
  | VSlice (l : list (option bytes)) | VMap (m : list (bytes * bytes)).

Definition zero_of (k : kind) : fval :=
  match k with
  | KBool => VBool false | KString => VStr [] | KIntPtr => VInt None | KOtherPtr => VOther
  | KSlice => VSlice [] | KMap => VMap []
  end.

Inductive fres :=
  | FOk (rest : list bytes) (opts : list fval)
  | FErr (msg : bytes)
  | FPanic (site : nat)
  | FFuel.

Section Parse.
Variable tbl : list flagdef.

(* longToValue / shortToValue / longToPositional: Go fills the maps in field order, later fields win *)
Fixpoint find_last (p : flagdef -> bool) (l : list flagdef) (k : nat) (acc : option nat) : option nat :=
  match l with [] => acc | f :: r => find_last p r (S k) (if p f then Some k else acc) end.
Definition opt_is (o : option bytes) (name : bytes) : bool :=
  match o with Some n => bytes_eqb n name | None => false end.
Definition lookup_long (name : bytes) : option nat := find_last (fun f => opt_is (fLong f) name) tbl 0 None.
Definition lookup_short (name : bytes) : option nat := find_last (fun f => opt_is (fShort f) name) tbl 0 None.
Definition is_positional (name : bytes) : bool :=
  existsb (fun f => opt_is (fLong f) name && fPositional f) tbl.
Definition kind_of (v : nat) : kind := match nth_error tbl v with Some f => fKind f | None => KOtherPtr end.

Fixpoint set_opt (n : nat) (v : fval) (o : list fval) : list fval :=
  match o, n with
  | [], _ => []
  | _ :: r, O => v :: r
  | x :: r, S k => x :: set_opt k v r
  end.
Definition get_opt (n : nat) (o : list fval) : fval := nth n o VOther.
Definition slice_len (v : fval) : nat := match v with VSlice l => List.length l | _ => O end.

(* state of the loop *)
Record st := {
  args : list bytes; i : Z; rest : list bytes; opts : list fval;
  mapkeys : list bytes; posval : option nat; done : bool
}.
Definition upd_i (s : st) (j : Z) : st :=
  {| args := args s; i := j; rest := rest s; opts := opts s; mapkeys := mapkeys s; posval := posval s; done := done s |}.
Definition upd_args (s : st) (a : list bytes) : st :=
  {| args := a; i := i s; rest := rest s; opts := opts s; mapkeys := mapkeys s; posval := posval s; done := done s |}.
Definition upd_opts (s : st) (o : list fval) : st :=
  {| args := args s; i := i s; rest := rest s; opts := o; mapkeys := mapkeys s; posval := posval s; done := done s |}.

(* program points: top of the for loop (condition check) | label S with (arg, val, shortopts) | label L *)
Inductive pc := PTop | PS (arg : bytes) (v : nat) (so : bytes) | PL (so : bytes).

Inductive sres := Next (p : pc) (s : st) | Done (r : fres).

Definition msg1 (pre : string) (arg : bytes) (post : string) : bytes := (codes pre ++ arg ++ codes post)%list.

Definition err_unknown (arg : bytes) : fres := FErr (msg1 "unknown flag `" arg "'").
Definition err_boolarg (arg : bytes) : fres := FErr (msg1 "boolean flag `" arg "' cannot have an argument").
Definition err_expected (arg : bytes) : fres := FErr (msg1 "expected argument for flag `" arg "'").
Definition err_expected2 (arg : bytes) : fres := FErr (msg1 "expected 2 arguments for flag `" arg "'").
Definition err_invalid (arg : bytes) : fres := FErr (msg1 "invalid argument for flag `" arg "': ").

(* for i := 1; i < len(arg); i++ { opt := arg[i:i+1]; if val, ok = shortToValue[opt]; ok { if val.Kind() != Bool { break } }
   else if !letter(opt) { skip = true; break } }      — run over arg[1:], result (skip, ok, val) *)
Fixpoint short_scan (l : bytes) (ok : bool) (v : option nat) : bool * bool * option nat :=
  match l with
  | [] => (false, ok, v)
  | c :: r =>
      match lookup_short [c] with
      | Some f => match kind_of f with KBool => short_scan r true (Some f) | _ => (false, true, Some f) end
      | None => if is_letter c then short_scan r false None else (true, false, None)
      end
  end.

(* if !ok { positional or rest; continue } *)
Definition plain (s : st) (arg : bytes) : sres :=
  match posval s, rest s with
  | Some pv, _ :: _ =>
      match get_opt pv (opts s) with
      | VSlice l => Next PTop (upd_i (upd_opts s (set_opt pv (VSlice (l ++ [Some arg])) (opts s))) (i s + 1))
      | _ => Done (FPanic 50)            (* reflect.Append on a non-slice *)
      end
  | _, _ =>
      Next PTop {| args := args s; i := i s + 1; rest := (rest s ++ [arg])%list; opts := opts s;
                   mapkeys := mapkeys s; posval := posval s; done := done s |}
  end.

Definition top (s : st) : sres :=
  if i s >=? Z.of_nat (List.length (args s)) then Done (FOk (rest s) (opts s)) else
  match arg_at (args s) (i s) with None => Done (FPanic 1) | Some arg =>
  if done s then plain s arg
  else if bytes_eqb arg [dash; dash] then
    Next PTop {| args := args s; i := i s + 1; rest := rest s; opts := opts s; mapkeys := mapkeys s;
                 posval := posval s; done := true |}
  else if has_dashdash arg then
    match slice arg 2 (blen arg) with None => Done (FPanic 2) | Some name =>
    match lookup_long name with
    | Some v => Next (PS arg v []) s
    | None =>
        match index_byte arg equals 0 with
        | Some j =>
            match slice arg 2 j with None => Done (FPanic 3) | Some name2 =>
            match lookup_long name2 with
            | Some v =>
                match slice arg 0 j with None => Done (FPanic 4) | Some argj =>
                match kind_of v with
                | KBool => Done (err_boolarg argj)
                | _ =>
                    match slice arg (j + 1) (blen arg) with None => Done (FPanic 5) | Some tailv =>
                    match set_arg (args s) (i s) tailv with None => Done (FPanic 6) | Some a' =>
                    Next (PS argj v []) (upd_i (upd_args s a') (i s - 1))
                    end end
                end end
            | None => Done (err_unknown arg)
            end end
        | None => Done (err_unknown arg)
        end
    end end
  else if (blen arg >? 1) && (match byte_at arg 0 with Some c => N.eqb c dash | None => false end) then
    match slice arg 1 (blen arg) with None => Done (FPanic 7) | Some tl1 =>
    let '(skip, ok, v) := short_scan tl1 false None in
    if negb skip && ((blen arg >? 2) || negb ok) then Next (PL tl1) s
    else match ok, v with
         | true, Some f => Next (PS arg f []) s
         | _, _ => plain s arg
         end
    end
  else plain s arg
  end.

(* label S: switch val.Kind() *)
Definition at_S (s : st) (arg : bytes) (v : nat) (so : bytes) : sres :=
  let need_arg (k : st -> bytes -> sres) : sres :=
    let j := i s + 1 in
    if j >=? Z.of_nat (List.length (args s)) then Done (err_expected arg)
    else match arg_at (args s) j with None => Done (FPanic 10) | Some a => k (upd_i s j) a end in
  match kind_of v with
  | KBool => Next (PL so) (upd_opts s (set_opt v (VBool true) (opts s)))
  | KString => need_arg (fun s' a => Next (PL so) (upd_opts s' (set_opt v (VStr a) (opts s'))))
  | KIntPtr =>
      need_arg (fun s' a =>
        match atoi a with
        | Some z => Next (PL so) (upd_opts s' (set_opt v (VInt (Some z)) (opts s')))
        | None => Done (err_invalid arg)
        end)
  | KOtherPtr => Next (PL so) s
  | KSlice =>
      match slice arg 2 (blen arg) with None => Done (FPanic 11) | Some name =>
      if is_positional name then
        let o1 := match posval s with
                  | Some pv =>
                      let n := slice_len (get_opt pv (opts s)) in
                      match get_opt v (opts s) with
                      | VSlice l => set_opt v (VSlice (l ++ repeat None (n - List.length l))) (opts s)
                      | _ => opts s
                      end
                  | None => opts s
                  end in
        Next (PL so) {| args := args s; i := i s; rest := rest s; opts := o1; mapkeys := mapkeys s;
                        posval := Some v; done := done s |}
      else
        need_arg (fun s' a =>
          match get_opt v (opts s') with
          | VSlice l => Next (PL so) (upd_opts s' (set_opt v (VSlice (l ++ [Some a])) (opts s')))
          | _ => Done (FPanic 12)
          end)
      end
  | KMap =>
      let j := i s + 2 in
      if j >=? Z.of_nat (List.length (args s)) then Done (err_expected2 arg)
      else match arg_at (args s) (j - 1), arg_at (args s) j with
           | Some name, Some value =>
               if existsb (bytes_eqb name) (mapkeys s) then Next (PL so) (upd_i s j)
               else match get_opt v (opts s) with
                    | VMap m => Next (PL so) {| args := args s; i := j; rest := rest s;
                                               opts := set_opt v (VMap (m ++ [(name, value)])) (opts s);
                                               mapkeys := name :: mapkeys s; posval := posval s; done := done s |}
                    | _ => Done (FPanic 14)
                    end
           | _, _ => Done (FPanic 13)
           end
  end.

(* label L: if shortopts != "" { … goto S } ; (loop post statement) i++ *)
Definition at_L (s : st) (so : bytes) : sres :=
  match so with
  | [] => Next PTop (upd_i s (i s + 1))
  | _ :: _ =>
      match slice so 0 1 with None => Done (FPanic 20) | Some opt =>
      match lookup_short opt with
      | None => Done (err_unknown opt)
      | Some v =>
          let arg := dash :: opt in
          if (match kind_of v with KBool => false | _ => true end) && (blen so >? 1) then
            match byte_at so 1 with None => Done (FPanic 21) | Some c1 =>
            match (if N.eqb c1 equals then slice so 2 (blen so) else slice so 1 (blen so)) with
            | None => Done (FPanic 22)
            | Some remainder =>
                match set_arg (args s) (i s) remainder with None => Done (FPanic 23) | Some a' =>
                Next (PS arg v []) (upd_i (upd_args s a') (i s - 1))
                end
            end end
          else
            match slice so 1 (blen so) with None => Done (FPanic 24) | Some so' => Next (PS arg v so') s end
      end end
  end.

Definition step (p : pc) (s : st) : sres :=
  match p with PTop => top s | PS arg v so => at_S s arg v so | PL so => at_L s so end.

Fixpoint run (fuel : nat) (p : pc) (s : st) : fres :=
  match fuel with
  | O => FFuel
  | S f => match step p s with Done r => r | Next p' s' => run f p' s' end
  end.

Definition init (a : list bytes) : st :=
  {| args := a; i := 0; rest := []; opts := map (fun f => zero_of (fKind f)) tbl; mapkeys := [];
     posval := None; done := false |}.

(* enough fuel for every argument vector (FlagsProofs: the rank of the initial state) *)
Definition weight (a : list bytes) : nat := fold_right (fun x acc => (3 * List.length x + 1 + acc)%nat) O a.
Definition fuel_for (a : list bytes) : nat := S (weight a).

Definition parse_flags (a : list bytes) : fres := run (fuel_for a) PTop (init a).
End Parse.
