(* C08 / B — the LR driver never indexes out of range: proofs.
   Generic part: for ANY tables T, relation E and bounds MD with [closed T E MD = true], every run of the
   driver from the initial configuration stays inside the invariant
        the stack is an E-path from state 0  /\  the lookahead token is one yylex1 can produce  /\  0 <= Errflag <= 3
   and therefore never reaches a Panic site (table index out of range, stack underflow at a reduction,
   yyDollar slice/index out of range, loop fuel).
   Instance: [closed the_tables E MD = true] for the tables of the current parser.go, by vm_compute. *)
From Coq Require Import ZArith List Bool Lia ZifyBool ZifyNat.
From Verif Require Import c08.LR c08.LRCheck.
Import ListNotations.
Open Scope Z_scope.

Lemma zth_app_r : forall (pre l : list Z) a, zth (pre ++ a :: l) (zlen pre) = Some a.
Proof.
  intros. unfold zth, zlen. destruct (Z.ltb_spec (Z.of_nat (length pre)) 0); [lia|].
  rewrite Nat2Z.id. rewrite nth_error_app2 by lia. rewrite Nat.sub_diag. reflexivity.
Qed.

Lemma zth_In : forall l i v, zth l i = Some v -> In v l.
Proof. unfold zth. intros l i v. destruct (i <? 0); [discriminate|]. apply nth_error_In. Qed.

Lemma zth_some : forall l i, 0 <= i < zlen l -> exists v, zth l i = Some v.
Proof.
  unfold zth, zlen. intros l i H. destruct (Z.ltb_spec i 0); [lia|].
  destruct (nth_error l (Z.to_nat i)) eqn:N; [eauto|]. apply nth_error_None in N. lia.
Qed.

Lemma in_zseq : forall n z, 0 <= z < Z.of_nat n -> In z (zseq n).
Proof. intros n z H. unfold zseq. apply in_map_iff. exists (Z.to_nat z). split; [lia|]. apply in_seq. lia. Qed.

(* (i) lifted from the boolean check by forallb_forall *)
Theorem index_safe : forall T, index_ok T = true ->
  (forall s t, 0 <= s < zlen (tPact T) -> In t (all_tokens T) ->
     is_ok (simple_state T s) = true /\ is_ok (idx 13 (tDef T) s) = true /\ is_ok (errshift_of T s) = true /\
     is_ok (shift_of T s t) = true /\
     (idx 13 (tDef T) s = Ok (-2) -> is_ok (exca_lookup T s t) = true)) /\
  (forall n base, 0 <= n < zlen (tR2 T) -> 0 <= base < zlen (tPact T) ->
     exists nt r2, idx 32 (tR1 T) n = Ok nt /\ idx 30 (tR2 T) n = Ok r2 /\ 0 <= r2 /\
                   is_ok (idx 33 (tPgo T) nt) = true /\ is_ok (goto_of T base nt) = true).
Proof.
  intros T H. unfold index_ok in H. apply andb_prop in H as [Hs Hr].
  rewrite forallb_forall in Hs. rewrite forallb_forall in Hr. split.
  - intros s t Hsr Ht. specialize (Hs s (in_zseq _ _ Hsr)). unfold state_index_ok in Hs.
    apply andb_prop in Hs as [Hs Hall]. apply andb_prop in Hs as [Hs H3]. apply andb_prop in Hs as [H1 H2].
    rewrite forallb_forall in Hall. specialize (Hall t Ht). apply andb_prop in Hall as [H4 H5].
    repeat split; auto. intro Hd. rewrite Hd in H5. exact H5.
  - intros n base Hn Hb. specialize (Hr n (in_zseq _ _ Hn)). unfold rule_index_ok in Hr.
    destruct (idx 32 (tR1 T) n) as [nt|]; [|discriminate]. destruct (idx 30 (tR2 T) n) as [r2|]; [|discriminate].
    apply andb_prop in Hr as [Hr Hg]. apply andb_prop in Hr as [H0 Hp]. rewrite forallb_forall in Hg.
    exists nt, r2. repeat split; auto; [lia|]. apply Hg. apply in_zseq. exact Hb.
Qed.

Section Generic.
Variable T : tables.
Variable E : list (list Z).
Variable MD : list Z.
Variable AL : list (list Z).
Hypothesis Hclosed : closed T E MD AL = true.

Lemma Hlex : lex_ok T = true.
Proof.
  pose proof Hclosed as H. unfold closed in H. apply andb_prop in H as [H _]. apply andb_prop in H as [H _].
  apply andb_prop in H as [H _]. exact H.
Qed.
Lemma Hmd : md_ok E MD = true.
Proof.
  pose proof Hclosed as H. unfold closed in H. apply andb_prop in H as [H _]. apply andb_prop in H as [H _].
  apply andb_prop in H as [_ H]. exact H.
Qed.
Lemma Hal0 : al_in AL 0 0 = true.
Proof. pose proof Hclosed as H. unfold closed in H. apply andb_prop in H as [H _]. apply andb_prop in H as [_ H]. exact H. Qed.
Lemma Hnodes : forall s, In s (nodes E) -> node_ok T E MD AL s = true.
Proof. pose proof Hclosed as H. unfold closed in H. apply andb_prop in H as [_ H]. apply forallb_forall. exact H. Qed.

(* ---- yylex1 is total and lands in all_tokens ---- *)
Lemma tok3_scan_ok : forall fuel l pre token char,
  tTok3 T = pre ++ l -> tok3_ok l = true -> (length l < fuel)%nat -> 0 < char ->
  exists t, tok3_scan T fuel (zlen pre) token char = Ok t /\ (t = token \/ In t (tTok3 T)).
Proof.
  induction fuel as [|f IH]; intros l pre token char Hsplit Hok Hlen Hc; [lia|].
  cbn [tok3_scan].
  destruct l as [|a l].
  - rewrite app_nil_r in Hsplit. rewrite Hsplit. destruct (zlen pre <? zlen pre) eqn:X; [lia|]. eauto.
  - assert (Hlt : zlen pre <? zlen (tTok3 T) = true).
    { rewrite Hsplit. unfold zlen. rewrite app_length. cbn [length]. lia. }
    rewrite Hlt.
    assert (Hi : idx 4 (tTok3 T) (zlen pre) = Ok a) by (unfold idx; rewrite Hsplit, zth_app_r; reflexivity).
    rewrite Hi. cbn [bind].
    destruct l as [|b l].
    + cbn in Hok. destruct (a =? char) eqn:X; [lia|].
      assert (Hs2 : tTok3 T = (pre ++ [a]) ++ []) by (rewrite <- app_assoc; exact Hsplit).
      assert (Hz : zlen pre + 2 = zlen (pre ++ [a]) + 1) by (unfold zlen; rewrite app_length; cbn; lia).
      (* one more round: i + 2 is past the end *)
      destruct f as [|f']; [cbn in Hlen; lia|]. cbn [tok3_scan].
      destruct (zlen pre + 2 <? zlen (tTok3 T)) eqn:Y.
      { rewrite Hsplit in Y. unfold zlen in Y. rewrite app_length in Y. cbn in Y. lia. }
      exists a. split; [reflexivity|]. right. rewrite Hsplit. apply in_or_app. right. left. reflexivity.
    + destruct (a =? char) eqn:X.
      * assert (Hs2 : tTok3 T = (pre ++ [a]) ++ b :: l) by (rewrite <- app_assoc; exact Hsplit).
        assert (Hz : zlen pre + 1 = zlen (pre ++ [a])) by (unfold zlen; rewrite app_length; cbn; lia).
        assert (Hi5 : idx 5 (tTok3 T) (zlen pre + 1) = Ok b) by (unfold idx; rewrite Hz, Hs2, zth_app_r; reflexivity).
        rewrite Hi5. exists b. split; [reflexivity|]. right. rewrite Hsplit. apply in_or_app. right. right. left. reflexivity.
      * assert (Hs2 : tTok3 T = (pre ++ [a; b]) ++ l) by (rewrite <- app_assoc; exact Hsplit).
        assert (Hz : zlen pre + 2 = zlen (pre ++ [a; b])) by (unfold zlen; rewrite app_length; cbn; lia).
        rewrite Hz. cbn [tok3_ok] in Hok.
        destruct (IH l (pre ++ [a; b]) a char Hs2 Hok ltac:(cbn in Hlen; lia) Hc) as [t [Ht Hin]].
        exists t. split; [exact Ht|]. right. destruct Hin as [->|Hin]; [|exact Hin].
        rewrite Hsplit. apply in_or_app. right. left. reflexivity.
Qed.

Lemma in_all_tokens : forall t, t = -1 \/ In t (tTok1 T) \/ In t (tTok2 T) \/ In t (tTok3 T) -> In t (all_tokens T).
Proof.
  intros t H. unfold all_tokens. apply nodup_In. destruct H as [->|H]; [left; reflexivity|]. right.
  apply in_or_app. destruct H as [H|[H|H]]; [left; exact H|right; apply in_or_app; left; exact H|right; apply in_or_app; right; exact H].
Qed.

Lemma yylex1_ok : forall ch, exists t, yylex1 T ch = Ok t /\ In t (all_tokens T).
Proof.
  intro ch. pose proof Hlex as Hl0. unfold lex_ok in Hl0. apply andb_prop in Hl0 as [H12 H3]. apply andb_prop in H12 as [H1 H2].
  apply Z.leb_le in H1. apply Z.leb_le in H2.
  destruct (zth_some (tTok2 T) 1 ltac:(lia)) as [u Hu].
  assert (Hfin : forall token, In token (tTok1 T) \/ In token (tTok2 T) \/ In token (tTok3 T) \/ token = 0 ->
            exists t, (if token =? 0 then idx 6 (tTok2 T) 1 else Ok token) = Ok t /\ In t (all_tokens T)).
  { intros token Hin. destruct (token =? 0) eqn:Z0.
    - unfold idx. rewrite Hu. exists u. split; [reflexivity|]. apply in_all_tokens. right. right. left. eapply zth_In; eauto.
    - exists token. split; [reflexivity|]. apply in_all_tokens. right.
      destruct Hin as [H|[H|[H|H]]]; auto. lia. }
  unfold yylex1.
  destruct (ch <=? 0) eqn:C0.
  - destruct (zth_some (tTok1 T) 0 ltac:(lia)) as [v Hv]. unfold idx at 1. rewrite Hv. cbn [bind].
    apply Hfin. left. eapply zth_In; eauto.
  - apply Z.leb_gt in C0. destruct (ch <? zlen (tTok1 T)) eqn:C1.
    + apply Z.ltb_lt in C1. destruct (zth_some (tTok1 T) ch ltac:(lia)) as [v Hv]. unfold idx at 1. rewrite Hv. cbn [bind].
      apply Hfin. left. eapply zth_In; eauto.
    + destruct ((ch >=? tPrivate T) && (ch <? tPrivate T + zlen (tTok2 T))) eqn:C2.
      * apply andb_prop in C2 as [Ca Cb]. apply Z.geb_le in Ca. apply Z.ltb_lt in Cb.
        destruct (zth_some (tTok2 T) (ch - tPrivate T) ltac:(lia)) as [v Hv]. unfold idx at 1. rewrite Hv. cbn [bind].
        apply Hfin. right. left. eapply zth_In; eauto.
      * destruct (tok3_scan_ok (S (length (tTok3 T))) (tTok3 T) [] 0 ch eq_refl H3 ltac:(lia) C0) as [t [Ht Hin]].
        change (zlen []) with 0 in Ht. rewrite Ht. cbn [bind]. apply Hfin.
        destruct Hin as [->|Hin]; auto.
Qed.

(* ---- E-paths ---- *)
Fixpoint chain (s : list Z) : Prop :=
  match s with
  | [] => False
  | q :: rest => match rest with
                 | [] => q = 0
                 | p :: _ => inE E p q = true /\ chain rest
                 end
  end.

Lemma inE_In : forall p q, inE E p q = true -> In q (concat E) /\ 0 <= p /\ (Z.to_nat p < length E)%nat.
Proof.
  unfold inE, succs, mem. intros p q H. apply andb_prop in H as [Hp H]. apply Z.leb_le in Hp.
  apply existsb_exists in H as [x [Hx Hq]]. apply Z.eqb_eq in Hq. subst x.
  destruct (Nat.lt_ge_cases (Z.to_nat p) (length E)) as [L|L].
  - split; [|split; assumption]. apply in_concat. exists (nth (Z.to_nat p) E []). split; [apply nth_In; exact L|exact Hx].
  - rewrite nth_overflow in Hx by exact L. destruct Hx.
Qed.

Lemma chain_top_node : forall q rest, chain (q :: rest) -> In q (nodes E).
Proof.
  intros q rest H. unfold nodes. apply nodup_In. destruct rest as [|p r]; cbn in H.
  - left. auto.
  - right. destruct H as [H _]. apply inE_In in H. tauto.
Qed.

Lemma chain_skipn : forall k s, chain s -> (k < length s)%nat -> chain (skipn k s).
Proof.
  induction k as [|k IH]; intros s H L; [exact H|].
  destruct s as [|q rest]; [cbn in L; lia|]. cbn [skipn]. apply IH; [|cbn in L; lia].
  destruct rest as [|p r]; [cbn in L; lia|]. cbn in H. tauto.
Qed.

Lemma chain_tail : forall q p r, chain (q :: p :: r) -> chain (p :: r).
Proof. intros q p r H. cbn in H. tauto. Qed.

Lemma md_edge : forall p q, inE E p q = true -> md MD q <= md MD p + 1.
Proof.
  intros p q H. pose proof (inE_In _ _ H) as [_ [Hp Hl]].
  pose proof Hmd as Hmd0. unfold md_ok in Hmd0. apply andb_prop in Hmd0 as [_ Hm]. rewrite forallb_forall in Hm.
  assert (Hs : In p (states E)).
  { unfold states. apply in_map_iff. exists (Z.to_nat p). split; [lia|]. apply in_seq. lia. }
  specialize (Hm p Hs). rewrite forallb_forall in Hm.
  unfold inE in H. apply andb_prop in H as [_ H]. unfold mem in H. apply existsb_exists in H as [x [Hx Hq]].
  apply Z.eqb_eq in Hq. subst x. specialize (Hm q Hx). apply Z.leb_le in Hm. exact Hm.
Qed.

Lemma md_depth : forall s, chain s -> forall q rest, s = q :: rest -> md MD q <= zlen rest.
Proof.
  induction s as [|q0 rest0 IH]; intros H q rest Heq; [destruct H|].
  injection Heq as -> ->. destruct rest as [|p r].
  - cbn in H. subst q. pose proof Hmd as Hmd0. unfold md_ok in Hmd0. apply andb_prop in Hmd0 as [H0 _]. apply Z.leb_le in H0. cbn. exact H0.
  - destruct H as [He Hc]. specialize (IH Hc p r eq_refl). pose proof (md_edge _ _ He).
    unfold zlen in *. cbn [length]. lia.
Qed.

Lemma preds_sound : forall p x X, inE E p x = true -> In x X -> In p (preds E X).
Proof.
  intros p x X H Hx. pose proof (inE_In _ _ H) as [_ [Hp Hl]]. unfold preds. apply filter_In. split.
  - unfold states. apply in_map_iff. exists (Z.to_nat p). split; [lia|]. apply in_seq. lia.
  - unfold inE in H. apply andb_prop in H as [_ H]. unfold mem in H. apply existsb_exists in H as [y [Hy Hq]].
    apply Z.eqb_eq in Hq. subst y. apply existsb_exists. exists x. split; [exact Hy|].
    unfold mem. apply existsb_exists. exists x. split; [exact Hx|apply Z.eqb_refl].
Qed.

Lemma back_sound : forall k s X x rest, chain s -> s = x :: rest -> In x X -> (k < length s)%nat ->
  forall b below, skipn k s = b :: below -> In b (back E k X).
Proof.
  induction k as [|k IH]; intros s X x rest Hc Hs Hx Hl b below Hsk.
  - cbn in Hsk. rewrite Hs in Hsk. injection Hsk as <- _. exact Hx.
  - subst s. destruct rest as [|p r]; [cbn in Hl; lia|]. cbn [skipn] in Hsk. cbn [back].
    destruct Hc as [He Hc].
    eapply (IH (p :: r) (preds E X) p r Hc eq_refl); [eapply preds_sound; eauto|cbn in Hl |- *; lia|exact Hsk].
Qed.

(* ---- the invariant ---- *)
Definition typed (s v : list Z) : Prop := Forall2 (fun q x => al_in AL x q = true) s v.

Definition Inv (c : cfg) : Prop :=
  chain (stk c) /\ typed (stk c) (vals c) /\ In (token c) (all_tokens T) /\ 0 <= errflag c <= 3.
Ltac inv_intro := unfold Inv; cbn [stk vals token errflag char inp nlex errat]; split; [|split; [|split]].

Lemma typed_skipn : forall k s v, typed s v -> typed (skipn k s) (skipn k v).
Proof.
  induction k as [|k IH]; intros s v H; [exact H|]. destruct H as [|q x s v Hx H]; [constructor|].
  cbn [skipn]. apply IH. exact H.
Qed.

Lemma typed_nth : forall s v, typed s v -> forall j q, nth_error s j = Some q ->
  exists x, nth_error v j = Some x /\ al_in AL x q = true.
Proof.
  induction 1 as [|q0 x0 s v Hx H IH]; intros j q Hj; [destruct j; discriminate|].
  destruct j as [|j]; cbn in Hj |- *.
  - injection Hj as <-. eauto.
  - apply IH. exact Hj.
Qed.

Lemma typed_tl : forall q s v, typed (q :: s) v -> typed s (tl v).
Proof. intros q s v H. inversion H; subst. cbn. assumption. Qed.

Lemma skipn_nth_error : forall (A : Type) n (a : list A) x, nth_error a n = Some x -> skipn n a = x :: skipn (S n) a.
Proof.
  induction n as [|n IH]; intros a x H; destruct a as [|y a]; try discriminate.
  - cbn in H. injection H as ->. reflexivity.
  - cbn in H. cbn [skipn]. rewrite (IH a x H). reflexivity.
Qed.

Lemma back_nth : forall s x rest j q, chain s -> s = x :: rest -> nth_error s j = Some q -> In q (back E j [x]).
Proof.
  intros s x rest j q Hc Hs Hj.
  assert (Hl : (j < length s)%nat) by (apply nth_error_Some; congruence).
  eapply (back_sound j s [x] x rest Hc Hs (or_introl eq_refl) Hl q). apply skipn_nth_error. exact Hj.
Qed.

(* the value in RHS position k is allowed in one of the states that can hold that position *)
Lemma slot_typed : forall s0 v x rest r2 k, chain s0 -> typed s0 v -> s0 = x :: rest ->
  1 <= k <= r2 -> (Z.to_nat r2 < length s0)%nat ->
  exists ty q, slot v r2 k = Some ty /\ In q (pos_states E x r2 k) /\ al_in AL ty q = true.
Proof.
  intros s0 v x rest r2 k Hc Ht Hs Hk Hl. unfold slot, pos_states.
  replace ((1 <=? k) && (k <=? r2)) with true by lia.
  destruct (nth_error s0 (Z.to_nat (r2 - k))) as [q|] eqn:Eq.
  - destruct (typed_nth _ _ Ht _ _ Eq) as [ty [E1 E2]]. exists ty, q. split; [exact E1|]. split; [|exact E2].
    eapply back_nth; eauto.
  - apply nth_error_None in Eq. lia.
Qed.

Lemma mem_eq : forall ty q v, forallb (Z.eqb ty) (allowed AL q) = true -> al_in AL v q = true -> v = ty.
Proof.
  intros ty q v Hall Hin. unfold al_in, mem in Hin. apply andb_prop in Hin as [_ Hin].
  apply existsb_exists in Hin as [y [Hy Hv]]. apply Z.eqb_eq in Hv. subst y.
  rewrite forallb_forall in Hall. specialize (Hall v Hy). apply Z.eqb_eq in Hall. congruence.
Qed.

Lemma flows_ok : forall s0 v x rest r2 k ns, chain s0 -> typed s0 v -> s0 = x :: rest ->
  (Z.to_nat r2 < length s0)%nat -> flows E AL x r2 k ns = true ->
  exists ty, slot v r2 k = Some ty /\ al_in AL ty ns = true.
Proof.
  intros s0 v x rest r2 k ns Hc Ht Hs Hl Hf. unfold flows in Hf.
  apply andb_prop in Hf as [Hk Hf]. apply andb_prop in Hk as [Hk1 Hk2].
  destruct (slot_typed s0 v x rest r2 k Hc Ht Hs ltac:(lia) Hl) as [ty [q [E1 [E2 E3]]]].
  exists ty. split; [exact E1|]. rewrite forallb_forall in Hf. specialize (Hf q E2). rewrite forallb_forall in Hf.
  apply Hf. unfold al_in, mem in E3. apply andb_prop in E3 as [_ E3]. apply existsb_exists in E3 as [y [Hy Hv]].
  apply Z.eqb_eq in Hv. subst y. exact Hy.
Qed.

Lemma ensure_la_ok : forall c, Inv c ->
  exists c1, ensure_la T c = Ok c1 /\ stk c1 = stk c /\ vals c1 = vals c /\ errflag c1 = errflag c /\ Inv c1.
Proof.
  intros c [Hc [Hty [Ht He]]]. unfold ensure_la. destruct (char c <? 0).
  - destruct (lexcall (inp c)) as [ch r]. destruct (yylex1_ok ch) as [t [Hy Hin]]. rewrite Hy. cbn [bind].
    eexists. split; [reflexivity|]. cbn [stk vals errflag]. repeat (split; [reflexivity|]). inv_intro; auto; lia.
  - exists c. unfold Inv. repeat split; auto; lia.
Qed.

Lemma recover_ok : forall s v, chain s -> typed s v ->
  match recover_stk T s v with
  | Ok None => True
  | Ok (Some (s', v')) => chain s' /\ typed s' v'
  | Panic _ => False
  end.
Proof.
  induction s as [|st rest IH]; intros v Hc Hty; [destruct Hc|].
  cbn [recover_stk].
  pose proof (Hnodes st (chain_top_node _ _ Hc)) as Hn. unfold node_ok in Hn.
  apply andb_prop in Hn as [_ Hn].
  destruct (errshift_of T st) as [[ns|]|] eqn:Ee; [| |discriminate]; cbn [bind].
  - apply andb_prop in Hn as [Hn1 Hn2]. split.
    + split; [exact Hn1|exact Hc].
    + constructor; [exact Hn2|exact Hty].
  - destruct rest as [|p r]; [cbn; exact I|]. apply IH; [eapply chain_tail; eauto|eapply typed_tl; eauto].
Qed.

Lemma reduce_ok : forall c s rest n, Inv c -> stk c = s :: rest -> red_ok T E MD AL s n = true ->
  match reduce T c n with
  | Cont c' => Inv c'
  | Crash _ => False
  | _ => True
  end.
Proof.
  intros c s rest n [Hc [Hty [Ht He]]] Hs Hr. unfold red_ok in Hr. unfold reduce.
  destruct (idx 30 (tR2 T) n) as [r2|] eqn:E2; [|discriminate].
  destruct (idx 32 (tR1 T) n) as [nt|] eqn:E1; [|discriminate].
  apply andb_prop in Hr as [Hr Hsem]. apply andb_prop in Hr as [Hr Hact]. apply andb_prop in Hr as [Hr Hgoto].
  apply andb_prop in Hr as [Hr Hpgo]. apply andb_prop in Hr as [Hr0 Hrmd]. apply Z.leb_le in Hr0. apply Z.leb_le in Hrmd.
  pose proof (md_depth _ Hc s rest Hs) as Hdepth.
  assert (Hlen : zlen (stk c) = zlen rest + 1) by (rewrite Hs; unfold zlen; cbn [length]; lia).
  destruct (r2 <? 0) eqn:X1; [lia|].
  destruct (zlen (stk c) - 1 - r2 + 1 <? 0) eqn:X2; [lia|].
  destruct (idx 33 (tPgo T) nt) as [g|] eqn:Eg; [|discriminate].
  assert (Hl : (Z.to_nat r2 < length (stk c))%nat) by (unfold zlen in *; lia).
  destruct (skipn (Z.to_nat r2) (stk c)) as [|base below] eqn:Esk.
  { apply (f_equal (@length Z)) in Esk. rewrite skipn_length in Esk. cbn in Esk. lia. }
  pose proof (back_sound (Z.to_nat r2) (stk c) [s] s rest Hc Hs (or_introl eq_refl) Hl base below Esk) as Hb.
  rewrite forallb_forall in Hgoto. specialize (Hgoto base Hb).
  destruct (goto_of T base nt) as [ns|] eqn:Egoto; [|discriminate].
  assert (Hchain' : chain (ns :: base :: below)).
  { split; [exact Hgoto|]. rewrite <- Esk. apply chain_skipn; assumption. }
  assert (Hslicing : match action_of n (tActions T) with
        | Some (k, (lo, hi)) =>
            if zlen (stk c) - 1 - k <? 0 then Some 40%nat
            else if (lo <=? hi) && ((lo <? 0) || (hi >? k)) then Some 41%nat
            else None
        | None => None
        end = None).
  { destruct (action_of n (tActions T)) as [[k [lo hi]]|]; [|reflexivity].
    apply andb_prop in Hact as [Hk Hidx]. apply Z.leb_le in Hk.
    destruct (zlen (stk c) - 1 - k <? 0) eqn:X3; [lia|].
    destruct ((lo <=? hi) && ((lo <? 0) || (hi >? k))) eqn:X4; [|reflexivity].
    apply andb_prop in X4 as [Xa Xb]. apply Z.leb_le in Xa. apply orb_prop in Hidx as [Hidx|Hidx].
    - apply Z.ltb_lt in Hidx. lia.
    - apply andb_prop in Hidx as [Hi1 Hi2]. apply Z.leb_le in Hi1. apply Z.leb_le in Hi2.
      apply orb_prop in Xb as [Xb|Xb]; [apply Z.ltb_lt in Xb; lia|]. apply Z.gtb_lt in Xb. lia. }
  rewrite Hslicing.
  (* the semantic action: type assertions and the stored type *)
  unfold sem_ok in Hsem.
  destruct (match sem_of n (tSem T) with Some d => d | None => ([], (2, 0)) end) as [asserts o].
  apply andb_prop in Hsem as [Hass Hst].
  assert (Hah : asserts_hold (vals c) r2 asserts = true).
  { unfold asserts_hold. apply forallb_forall. intros a Ha. rewrite forallb_forall in Hass. specialize (Hass a Ha).
    apply andb_prop in Hass as [Hk Hall]. apply andb_prop in Hk as [Hk1 Hk2].
    destruct (slot_typed (stk c) (vals c) s rest r2 (fst a) Hc Hty Hs ltac:(lia) Hl) as [ty [q [S1 [S2 S3]]]].
    rewrite S1. rewrite forallb_forall in Hall. specialize (Hall q S2).
    apply Z.eqb_eq. eapply mem_eq; eauto. }
  rewrite Hah. cbn [negb].
  rewrite forallb_forall in Hst. specialize (Hst base Hb). rewrite Egoto in Hst.
  assert (Hstored : exists ty, stored (vals c) r2 o = Ok ty /\ al_in AL ty ns = true).
  { unfold stored. destruct (fst o =? 0); [eauto|]. destruct (fst o =? 1).
    - destruct (flows_ok (stk c) (vals c) s rest r2 (snd o) ns Hc Hty Hs Hl Hst) as [ty [S1 S2]]. rewrite S1. eauto.
    - destruct (fst o =? 2); [|eauto]. destruct (1 <=? r2); [|eauto].
      destruct (flows_ok (stk c) (vals c) s rest r2 1 ns Hc Hty Hs Hl Hst) as [ty [S1 S2]]. rewrite S1. eauto. }
  destruct Hstored as [ty [S1 S2]]. rewrite S1.
  inv_intro; auto; try lia.
  constructor; [exact S2|]. rewrite <- Esk. apply typed_skipn. exact Hty.
Qed.

Lemma on_error_ok : forall c, Inv c ->
  match on_error T c with
  | Cont c' => Inv c'
  | Crash _ => False
  | _ => True
  end.
Proof.
  intros c [Hc [Hty [Ht He]]]. unfold on_error.
  assert (Hrec : forall c0, stk c0 = stk c -> vals c0 = vals c -> token c0 = token c ->
    match (match recover_stk T (stk c0) (vals c0) with
           | Panic s => Crash s
           | Ok None => Reject c0
           | Ok (Some (st', v')) => Cont {| stk := st'; vals := v'; char := char c0; token := token c0; errflag := 3;
                                             inp := inp c0; nlex := nlex c0; errat := errat c0 |}
           end) with Cont c' => Inv c' | Crash _ => False | _ => True end).
  { intros c0 H1 H1' H2. rewrite H1, H1'. pose proof (recover_ok _ _ Hc Hty) as Hr.
    destruct (recover_stk T (stk c) (vals c)) as [[[s' v']|]|]; [|exact I|exact Hr].
    destruct Hr as [Hr1 Hr2]. inv_intro; auto; try lia. rewrite H2. exact Ht. }
  destruct (errflag c =? 0) eqn:E0.
  - apply Hrec; reflexivity.
  - destruct ((errflag c =? 1) || (errflag c =? 2)) eqn:E12.
    + apply Hrec; reflexivity.
    + destruct (errflag c =? 3) eqn:E3.
      * destruct (token c =? tEofCode T); [exact I|]. inv_intro; auto; try lia.
        apply in_all_tokens. left. reflexivity.
      * apply Z.eqb_neq in E0. apply Z.eqb_neq in E3. apply orb_false_elim in E12 as [E1 E2].
        apply Z.eqb_neq in E1. apply Z.eqb_neq in E2. lia.
Qed.

Lemma dflt_ok : forall c s rest, Inv c -> stk c = s :: rest ->
  match dflt T c s with
  | Cont c' => Inv c'
  | Crash _ => False
  | _ => True
  end.
Proof.
  intros c s rest HI Hs. pose proof HI as [Hc [Hty [Ht He]]].
  assert (Hnode : In s (nodes E)) by (rewrite Hs in Hc; eapply chain_top_node; eauto).
  pose proof (Hnodes s Hnode) as Hn. unfold node_ok in Hn.
  apply andb_prop in Hn as [Hn _]. apply andb_prop in Hn as [_ Hdef].
  unfold dflt. destruct (idx 13 (tDef T) s) as [d|]; [|discriminate].
  destruct (d =? -2).
  - destruct (ensure_la_ok c HI) as [c2 [H2 [Hstk [Hvals [Herr HI2]]]]]. rewrite H2.
    rewrite forallb_forall in Hdef. pose proof HI2 as [Hc2 [Hty2 [Ht2 He2]]]. specialize (Hdef (token c2) Ht2).
    destruct (exca_lookup T s (token c2)) as [n|]; [|discriminate].
    destruct (n <? 0); [exact I|]. destruct (n =? 0).
    + apply on_error_ok. exact HI2.
    + cbn in Hdef. eapply reduce_ok; [exact HI2|rewrite Hstk; exact Hs|exact Hdef].
  - destruct (d =? 0).
    + apply on_error_ok. exact HI.
    + cbn in Hdef. eapply reduce_ok; eauto.
Qed.

Lemma step_ok : forall c, Inv c ->
  match step T c with
  | Cont c' => Inv c'
  | Crash _ => False
  | _ => True
  end.
Proof.
  intros c HI. pose proof HI as [Hc [Hty [Ht He]]]. unfold step.
  destruct (stk c) as [|s rest] eqn:Hs; [destruct Hc|].
  assert (Hnode : In s (nodes E)) by (eapply chain_top_node; eauto).
  pose proof (Hnodes s Hnode) as Hn. unfold node_ok in Hn.
  apply andb_prop in Hn as [Hn _]. apply andb_prop in Hn as [Hn _]. apply andb_prop in Hn as [Hn Hshift].
  apply andb_prop in Hn as [_ Hsimple].
  destruct (simple_state T s) as [[|]|]; [| |discriminate].
  - eapply dflt_ok; eauto.
  - destruct (ensure_la_ok c HI) as [c1 [H1 [Hstk [Hvals [Herr HI1]]]]]. rewrite H1.
    pose proof HI1 as [Hc1 [Hty1 [Ht1 He1]]].
    rewrite forallb_forall in Hshift. specialize (Hshift (token c1) Ht1).
    destruct (shift_of T s (token c1)) as [[a|]|]; [| |discriminate].
    + apply andb_prop in Hshift as [Hsh1 Hsh2]. inv_intro.
      * rewrite Hstk, Hs. split; [exact Hsh1|exact Hc].
      * constructor; [exact Hsh2|exact Hty1].
      * apply in_all_tokens. left. reflexivity.
      * destruct (errflag c1 >? 0) eqn:G; lia.
    + eapply dflt_ok; eauto. rewrite Hstk. exact Hs.
Qed.

Lemma init_inv : forall i, Inv (init i).
Proof.
  intro i. unfold init. inv_intro; [reflexivity| | |lia].
  - constructor; [exact Hal0|constructor].
  - apply in_all_tokens. left. reflexivity.
Qed.

Lemma run_inv : forall fuel c, Inv c -> forall site, run T fuel c <> OPanic site.
Proof.
  induction fuel as [|f IH]; intros c HI site; cbn [run]; [discriminate|].
  pose proof (step_ok c HI) as Hs. destruct (step T c); try discriminate.
  - apply IH. exact Hs.
  - destruct Hs.
Qed.

Theorem driver_never_panics : forall (input : list Z) (fuel : nat) (site : nat),
  run T fuel (init input) <> OPanic site.
Proof. intros. apply run_inv. apply init_inv. Qed.

End Generic.

(* AL is determined by the closedness proof (keeps the earlier argument list usable) *)
Arguments yylex1_ok T E MD {AL} _ ch.
