(* C08 correspondence: one harness line -> verdict ("ok" or (bad <what the model expected>)).
   Line forms (harness/c08/streams.go):
     (flags (<arghex>…) (ok (<resthex>…) (<field>…)))      field: (b 0|1) (s hex) (i nil|dec) (l hex|nil …) (m (khex vhex)…) x
     (flags (<arghex>…) (err <msghex>))
     (lr (<char dec>…) <status> <erroffset> (<offset after k-th Lex>…) <srclen>)
     (preview <tag> <isnil> <typenamehex> <marshalhex> <limitedhex> <previewhex> <typeerrorpreviewhex>)
     (encstr <stringhex> <marshalhex>)
     (fexp <appendfloathex> <marshalhex>)                                                          *)
From Coq Require Import List ZArith NArith Bool String.
From Verif Require Import common.Sexp c08.FastSexp gen.GenTables gen.GenFlagTable c08.LR c08.Flags c08.Utf8Dec c08.Preview.
Import ListNotations.
Open Scope Z_scope.

Definition bad (what : list N) : sexp := SList [A "bad"; Atom what].
Definition badhex (b : bytes) : sexp := SList [A "bad"; Atom (print_hexs b)].

Fixpoint hex_atoms (l : list sexp) : option (list bytes) :=
  match l with
  | [] => Some []
  | Atom a :: r => match parse_hexs a, hex_atoms r with Some b, Some t => Some (b :: t) | _, _ => None end
  | _ => None
  end.
Fixpoint z_atoms (l : list sexp) : option (list Z) :=
  match l with
  | [] => Some []
  | Atom a :: r => match parse_Z a, z_atoms r with Some b, Some t => Some (b :: t) | _, _ => None end
  | _ => None
  end.

(* ---- flags ---- *)
Fixpoint list_eqb {X} (eq : X -> X -> bool) (a b : list X) : bool :=
  match a, b with
  | [], [] => true
  | x :: a', y :: b' => eq x y && list_eqb eq a' b'
  | _, _ => false
  end.
Definition obytes_eqb (a b : option bytes) : bool :=
  match a, b with Some x, Some y => bytes_eqb x y | None, None => true | _, _ => false end.
Definition pair_eqb (a b : bytes * bytes) : bool := bytes_eqb (fst a) (fst b) && bytes_eqb (snd a) (snd b).
Definition sub_pairs (a b : list (bytes * bytes)) : bool := forallb (fun x => existsb (pair_eqb x) b) a.

Fixpoint dec_slice_elems (l : list sexp) : option (list (option bytes)) :=
  match l with
  | [] => Some []
  | Atom v :: r' =>
      match dec_slice_elems r' with
      | Some tl => if list_N_eqb v (codes "nil") then Some (None :: tl)
                   else match parse_hexs v with Some b => Some (Some b :: tl) | None => None end
      | None => None
      end
  | _ => None
  end.
Fixpoint dec_map_elems (l : list sexp) : option (list (bytes * bytes)) :=
  match l with
  | [] => Some []
  | SList [Atom k; Atom v] :: r' =>
      match parse_hexs k, parse_hexs v, dec_map_elems r' with
      | Some kb, Some vb, Some tl => Some ((kb, vb) :: tl)
      | _, _, _ => None
      end
  | _ => None
  end.
Definition dec_field (e : sexp) : option fval :=
  match e with
  | Atom a => if list_N_eqb a (codes "x") then Some VOther else None
  | SList (t :: r) =>
      if atom_is "b" t then match r with [Atom v] => Some (VBool (list_N_eqb v (codes "1"))) | _ => None end
      else if atom_is "s" t then match r with [Atom v] => option_map VStr (parse_hexs v) | _ => None end
      else if atom_is "i" t then
        match r with
        | [Atom v] => if list_N_eqb v (codes "nil") then Some (VInt None) else option_map (fun z => VInt (Some z)) (parse_Z v)
        | _ => None end
      else if atom_is "l" t then option_map VSlice (dec_slice_elems r)
      else if atom_is "m" t then option_map VMap (dec_map_elems r)
      else None
  | _ => None
  end.

Definition fval_eqb (a b : fval) : bool :=
  match a, b with
  | VBool x, VBool y => Bool.eqb x y
  | VStr x, VStr y => bytes_eqb x y
  | VInt None, VInt None => true
  | VInt (Some x), VInt (Some y) => x =? y
  | VOther, VOther => true
  | VSlice x, VSlice y => list_eqb obytes_eqb x y
  | VMap x, VMap y => sub_pairs x y && sub_pairs y x && Nat.eqb (List.length x) (List.length y)
  | _, _ => false
  end.

Fixpoint dec_fields (l : list sexp) : option (list fval) :=
  match l with
  | [] => Some []
  | e :: r => match dec_field e, dec_fields r with Some f, Some t => Some (f :: t) | _, _ => None end
  end.

Fixpoint is_prefix (p s : bytes) : bool :=
  match p, s with
  | [], _ => true
  | x :: p', y :: s' => (x =? y)%N && is_prefix p' s'
  | _, _ => false
  end.

Definition show_fres (r : fres) : sexp :=
  match r with
  | FOk rest _ => SList (A "ok" :: map (fun b => Atom (print_hexs b)) rest)
  | FErr m => SList [A "err"; Atom (print_hexs m)]
  | FPanic s => SList [A "panic"; Atom (print_Z (Z.of_nat s))]
  | FFuel => A "fuel"
  end.

Definition judge_flags (args : list bytes) (impl : sexp) : sexp :=
  let r := parse_flags flag_table args in
  let no := SList [A "bad"; show_fres r] in
  match impl, r with
  | SList [k; SList rest; SList fields], FOk mrest mopts =>
      if atom_is "ok" k then
        match hex_atoms rest, dec_fields fields with
        | Some irest, Some iopts =>
            if list_eqb bytes_eqb irest mrest && list_eqb fval_eqb iopts mopts then A "ok" else no
        | _, _ => A "undecodable"
        end
      else no
  | SList [k; Atom m], FErr mm =>
      if atom_is "err" k then
        match parse_hexs m with
        | Some im =>
            (* "invalid argument for flag `x': " is followed by strconv's message *)
            if bytes_eqb im mm || (is_prefix (codes "invalid argument for flag `") mm && is_prefix mm im) then A "ok" else no
        | None => A "undecodable"
        end
      else no
  | _, _ => no
  end.

(* ---- LR driver ---- *)
Definition judge_lr (chars : list Z) (status erroff : Z) (offsets : list Z) (srclen : Z) : sexp :=
  let fuel := (100 * (List.length chars + 3))%nat in
  match LR.run the_tables fuel (LR.init chars) with
  | OAccept _ => if status =? 0 then A "ok" else bad (codes "accept")
  | OReject c =>
      (* the k-th Lex call left the lexer at offsets[k-1]; after the end of input it stays at len(src) *)
      let k := errat c in
      let expect := if k <=? 0 then 0 else nth (Z.to_nat (k - 1)) offsets srclen in
      if (status =? 1) && (erroff =? expect) then A "ok"
      else SList [A "bad"; A "reject-at"; Atom (print_Z expect)]
  | OPanic s => SList [A "bad"; A "panic"; Atom (print_Z (Z.of_nat s))]
  | OFuel _ => bad (codes "fuel")
  end.

(* ---- preview / encoder ---- *)
Definition dec_vty (e : sexp) : option vty :=
  if atom_is "string" e then Some TString else if atom_is "array" e then Some TArray
  else if atom_is "object" e then Some TObject else if atom_is "other" e then Some TOther else None.

Definition judge_preview (t : vty) (isnil : bool) (tyname marshal ilimited ipreview itep : bytes) : sexp :=
  match limited 32 [OpWrite marshal], preview decode_last_rune t [OpWrite marshal],
        type_error_preview decode_last_rune isnil tyname t [OpWrite marshal] with
  | Ok l, Ok p, Ok tep =>
      if negb (bytes_eqb l ilimited) then SList [A "bad"; A "limited"; Atom (print_hexs l)]
      else if negb (bytes_eqb p ipreview) then SList [A "bad"; A "preview"; Atom (print_hexs p)]
      else if negb (bytes_eqb tep itep) then SList [A "bad"; A "tep"; Atom (print_hexs tep)]
      else A "ok"
  | _, _, _ => bad (codes "panic")
  end.

Definition run_sexp (e : sexp) : sexp :=
  match e with
  | SList [k; SList args; impl] =>
      if atom_is "flags" k then
        match hex_atoms args with Some a => judge_flags a impl | None => A "undecodable" end
      else A "undecodable"
  | SList [k; SList chars; Atom st; Atom eo; SList offs; Atom sl] =>
      if atom_is "lr" k then
        match z_atoms chars, parse_Z st, parse_Z eo, z_atoms offs, parse_Z sl with
        | Some c, Some s, Some o, Some os, Some l => judge_lr c s o os l
        | _, _, _, _, _ => A "undecodable"
        end
      else A "undecodable"
  | SList [k; tag; Atom isnil; Atom tn; Atom m; Atom l; Atom p; Atom tep] =>
      if atom_is "preview" k then
        match dec_vty tag, parse_hexs tn, parse_hexs m, parse_hexs l, parse_hexs p, parse_hexs tep with
        | Some t, Some tn', Some m', Some l', Some p', Some tep' =>
            judge_preview t (list_N_eqb isnil (codes "1")) tn' m' l' p' tep'
        | _, _, _, _, _, _ => A "undecodable"
        end
      else A "undecodable"
  | SList [k; Atom a; Atom b] =>
      match parse_hexs a, parse_hexs b with
      | Some x, Some y =>
          if atom_is "encstr" k then
            match enc_string decode_rune x with
            | Ok o => if bytes_eqb o y then A "ok" else badhex o
            | Panic s => SList [A "bad"; A "panic"; Atom (print_Z (Z.of_nat s))]
            end
          else if atom_is "fexp" k then
            match clean_exp x with
            | Ok o => if bytes_eqb o y then A "ok" else badhex o
            | Panic s => SList [A "bad"; A "panic"; Atom (print_Z (Z.of_nat s))]
            end
          else A "undecodable"
      | _, _ => A "undecodable"
      end
  | _ => A "undecodable"
  end.

Definition run_line (l : list N) : list N :=
  match parse_fast l with
  | Some e => print (run_sexp e)
  | None => codes "unparsable"
  end.
