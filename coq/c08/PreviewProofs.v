(* C08 / D — proofs: limitedWriter, Preview truncation, encodeString slicing, exponent clean-up never
   slice or index out of range (and their loops terminate within the stated fuel).
   The UTF-8 decoders are arbitrary functions satisfying a size bound (Section hypotheses), shown to hold
   for the executable decoders of Utf8Dec.v. *)
From Coq Require Import ZArith NArith List Bool Lia ZifyBool ZifyNat.
From Verif Require Import common.Sexp c08.LR c08.Flags c08.FlagsProofs c08.Utf8Dec c08.Preview.
Import ListNotations.
Open Scope Z_scope.

(* ---- the executable decoders satisfy the size bounds ---- *)
Lemma decode_rune_bound : forall p, p <> [] -> (1 <= snd (decode_rune p) <= length p)%nat.
Proof.
  intros p H. destruct p as [|b0 r]; [congruence|]. unfold decode_rune.
  destruct (b0 <? 128)%N; [cbn; lia|].
  destruct (in_rng 194 223 b0).
  { destruct r as [|b1 r]; [cbn; lia|]. destruct (is_cont b1); cbn; lia. }
  destruct (in_rng 224 239 b0).
  { destruct r as [|b1 [|b2 r]]; try (cbn; lia).
    destruct (in_rng (if (b0 =? 224)%N then 160 else 128) (if (b0 =? 237)%N then 159 else 191) b1 && is_cont b2)%N; cbn; lia. }
  destruct (in_rng 240 244 b0).
  { destruct r as [|b1 [|b2 [|b3 r]]]; try (cbn; lia).
    destruct (in_rng (if (b0 =? 240)%N then 144 else 128) (if (b0 =? 244)%N then 143 else 191) b1 && is_cont b2 && is_cont b3)%N; cbn; lia. }
  cbn; lia.
Qed.

Lemma scan_back_le : forall fuel p start lim, scan_back fuel p start lim <= start.
Proof.
  induction fuel as [|f IH]; intros p start lim; cbn [scan_back]; [lia|].
  destruct (start <? lim); [lia|]. destruct (rune_start _); [lia|]. specialize (IH p (start - 1) lim). lia.
Qed.

Lemma decode_last_rune_bound : forall p, p <> [] -> (1 <= decode_last_rune p <= length p)%nat.
Proof.
  intros p H. unfold decode_last_rune. destruct (length p) as [|e1] eqn:El.
  { destruct p; [congruence|discriminate]. }
  destruct (nth e1 p 0%N <? 128)%N; [lia|].
  set (e := Z.of_nat (S e1)).
  pose proof (scan_back_le 4 p (e - 2) (Z.max (e - 4) 0)) as Hs.
  set (start0 := scan_back 4 p (e - 2) (Z.max (e - 4) 0)) in *.
  set (start := if start0 <? 0 then 0 else start0).
  assert (Hst : 0 <= start <= Z.max (e - 2) 0) by (unfold start; destruct (start0 <? 0) eqn:X; lia).
  destruct (decode_rune (skipn (Z.to_nat start) p)) as [vld size] eqn:Ed.
  destruct (start + Z.of_nat size =? e) eqn:Ee; [|lia].
  assert (Hne : skipn (Z.to_nat start) p <> []).
  { intro Hnil. apply (f_equal (@length N)) in Hnil. rewrite skipn_length in Hnil. cbn in Hnil. unfold e in *. lia. }
  pose proof (decode_rune_bound _ Hne) as Hb. rewrite Ed in Hb. cbn [snd] in Hb. rewrite skipn_length in Hb. unfold e in *. lia.
Qed.

(* ---- limitedWriter ---- *)
Lemma firstn_skipn_all : forall (A : Type) (l : list A) n, (length l <= n)%nat -> firstn n l = l /\ skipn n l = [].
Proof. intros. split; [apply firstn_all2|apply skipn_all2]; assumption. Qed.

Lemma slice_spec : forall s a b, 0 <= a -> a <= b -> b <= blen s ->
  slice s a b = Some (firstn (Z.to_nat (b - a)) (skipn (Z.to_nat a) s)).
Proof.
  intros s a b H1 H2 H3. unfold slice. replace ((0 <=? a) && (a <=? b) && (b <=? blen s)) with true by lia. reflexivity.
Qed.

Section LW.
Variable n : nat.
Hypothesis Hn : (0 < n)%nat.

Lemma lw_run_spec : forall ops w pre,
  length (lbuf w) = n -> 0 <= loff w < Z.of_nat n -> length pre = Z.to_nat (loff w) ->
  firstn (Z.to_nat (loff w)) (lbuf w) = pre ->
  lw_run w ops = Ok (firstn n (pre ++ flat ops)).
Proof.
  induction ops as [|o r IH]; intros w pre Hl Ho Hp Hf.
  - cbn [lw_run flat flat_map]. unfold lw_bytes. unfold blen in *.
    rewrite slice_spec by (unfold blen; lia). cbn [skipn Z.to_nat]. replace (loff w - 0) with (loff w) by lia.
    rewrite Hf. rewrite app_nil_r. rewrite firstn_all2 by lia. reflexivity.
  - cbn [lw_run]. destruct o as [bs|b].
    + unfold lw_write. rewrite slice_spec by (unfold blen; lia).
      set (room := firstn (Z.to_nat (blen (lbuf w) - loff w)) (skipn (Z.to_nat (loff w)) (lbuf w))).
      assert (Hroom : room = skipn (Z.to_nat (loff w)) (lbuf w)).
      { unfold room. apply firstn_all2. rewrite skipn_length. unfold blen. lia. }
      assert (Hlr : length room = (n - Z.to_nat (loff w))%nat) by (rewrite Hroom, skipn_length; lia).
      set (k := Z.min (blen room) (blen bs)).
      cbn [loff lbuf]. rewrite Hf.
      destruct (loff w + k =? blen (lbuf w)) eqn:Efull.
      * (* buffer full: recover() returns the whole buffer *)
        unfold lw_bytes. cbn [loff lbuf].
        assert (Hk : k = Z.of_nat n - loff w) by (unfold blen in *; lia).
        assert (Hkb : (Z.to_nat k <= length bs)%nat) by (unfold k, blen in *; lia).
        assert (Hsk : skipn (Z.to_nat k) room = []) by (apply skipn_all2; lia).
        rewrite Hsk, app_nil_r.
        rewrite slice_spec.
        2: lia. 2: lia.
        2:{ unfold blen. rewrite app_length, firstn_length. lia. }
        cbn [skipn Z.to_nat]. rewrite firstn_all2 by (rewrite app_length, firstn_length; lia).
        cbn [flat flat_map]. fold (flat r).
        rewrite firstn_app. rewrite (firstn_all2 pre) by lia. f_equal.
        rewrite firstn_app. replace (n - length pre - length bs)%nat with 0%nat by lia.
        cbn [firstn]. rewrite app_nil_r. repeat f_equal. lia.
      * assert (Hk : k = blen bs) by (unfold k, blen in *; lia).
        rewrite Hk. replace (Z.to_nat (blen bs)) with (length bs) by (unfold blen; lia). rewrite (firstn_all bs).
        set (w' := {| lbuf := (pre ++ bs ++ skipn (length bs) room)%list; loff := loff w + blen bs |}).
        rewrite (IH w' (pre ++ bs)%list).
        -- cbn [flat flat_map]. fold (flat r). rewrite <- app_assoc. reflexivity.
        -- unfold w'. cbn [lbuf]. rewrite !app_length, skipn_length. unfold blen in *. lia.
        -- unfold w'. cbn [loff]. unfold blen in *. lia.
        -- unfold w'. cbn [loff]. rewrite app_length. unfold blen. lia.
        -- unfold w'. cbn [loff lbuf]. rewrite app_assoc. rewrite firstn_app.
           replace (Z.to_nat (loff w + blen bs) - length (pre ++ bs))%nat with 0%nat by (rewrite app_length; unfold blen; lia).
           cbn [firstn]. rewrite app_nil_r. apply firstn_all2. rewrite app_length. unfold blen. lia.
    + unfold lw_write_byte. replace ((0 <=? loff w) && (loff w <? blen (lbuf w))) with true by (unfold blen; lia).
      cbn [loff lbuf]. rewrite Hf.
      set (tl := skipn (Z.to_nat (loff w + 1)) (lbuf w)).
      assert (Htl : length tl = (n - Z.to_nat (loff w) - 1)%nat) by (unfold tl; rewrite skipn_length; lia).
      destruct (loff w + 1 =? blen (lbuf w)) eqn:Efull.
      * unfold lw_bytes. cbn [loff lbuf]. rewrite slice_spec.
        2: lia. 2: lia.
        2:{ unfold blen in *. rewrite app_length. cbn [length]. lia. }
        cbn [skipn Z.to_nat].
        assert (tl = []) by (destruct tl; [reflexivity|cbn [length] in Htl; unfold blen in *; lia]).
        rewrite H. rewrite firstn_all2 by (rewrite app_length; cbn [length]; unfold blen in *; lia).
        cbn [flat flat_map]. fold (flat r). rewrite firstn_app. rewrite (firstn_all2 pre) by lia. f_equal.
        replace (n - length pre)%nat with 1%nat by (unfold blen in *; lia). reflexivity.
      * set (w' := {| lbuf := (pre ++ b :: tl)%list; loff := loff w + 1 |}).
        rewrite (IH w' (pre ++ [b])%list).
        -- cbn [flat flat_map]. fold (flat r). rewrite <- app_assoc. reflexivity.
        -- unfold w'. cbn [lbuf]. rewrite app_length. cbn [length]. unfold blen in *. lia.
        -- unfold w'. cbn [loff]. unfold blen in *. lia.
        -- unfold w'. cbn [loff]. rewrite app_length. cbn [length]. lia.
        -- unfold w'. cbn [loff lbuf]. change (b :: tl) with ([b] ++ tl)%list. rewrite app_assoc. rewrite firstn_app.
           replace (Z.to_nat (loff w + 1) - length (pre ++ [b]))%nat with 0%nat by (rewrite app_length; cbn [length]; lia).
           cbn [firstn]. rewrite app_nil_r. apply firstn_all2. rewrite app_length. cbn [length]. lia.
Qed.

Theorem limited_spec : forall ops, limited n ops = Ok (firstn n (flat ops)).
Proof.
  intro ops. unfold limited. rewrite (lw_run_spec ops (lw_new n) []); try reflexivity.
  - unfold lw_new. cbn [lbuf]. apply repeat_length.
  - unfold lw_new. cbn [loff]. lia.
Qed.
End LW.

(* ---- Preview ---- *)
Section Decoders.
Variable dlr : bytes -> nat.
Variable dr : bytes -> bool * nat.
Hypothesis dlr_bound : forall p, p <> [] -> (1 <= dlr p <= length p)%nat.
Hypothesis dr_bound : forall p, p <> [] -> (1 <= snd (dr p) <= length p)%nat.

Lemma trunc_loop_ok : forall fuel bs limit, 0 <= limit -> (length bs < fuel)%nat ->
  exists k, trunc_loop dlr fuel bs limit = Ok (firstn k bs) /\
            (blen bs <= limit -> firstn k bs = bs) /\ blen (firstn k bs) <= Z.max limit 0.
Proof.
  induction fuel as [|f IH]; intros bs limit Hl Hf; [lia|]. cbn [trunc_loop].
  destruct (blen bs >? limit) eqn:Egt.
  - assert (Hne : bs <> []) by (intro X; subst bs; unfold blen in Egt; cbn in Egt; lia).
    pose proof (dlr_bound bs Hne) as Hb.
    rewrite slice_spec by (unfold blen; lia). cbn [skipn Z.to_nat].
    replace (blen bs - Z.of_nat (dlr bs) - 0) with (blen bs - Z.of_nat (dlr bs)) by lia.
    set (k1 := Z.to_nat (blen bs - Z.of_nat (dlr bs))).
    destruct (IH (firstn k1 bs) limit Hl) as [k [Hk [Hk1 Hk2]]].
    { rewrite firstn_length. unfold k1, blen. lia. }
    exists (Nat.min k k1). rewrite firstn_firstn in Hk. rewrite Hk. split; [reflexivity|]. split.
    + intro. lia.
    + rewrite firstn_firstn in Hk2. exact Hk2.
  - exists (length bs). rewrite firstn_all. split; [reflexivity|]. split; [reflexivity|lia].
Qed.

Lemma trailing_len : forall t, 4 <= blen (trailing t) <= 5.
Proof. intros []; unfold blen; cbn; lia. Qed.

(* Preview never slices out of range; its result has at most 30 bytes; an encoding of at most 30 bytes
   is returned unchanged; otherwise the result is a prefix of the encoding followed by the trailer *)
Theorem preview_total : forall t ops,
  exists out, preview dlr t ops = Ok out /\ blen out <= 30 /\
    (blen (flat ops) <= 30 -> out = flat ops) /\
    (30 < blen (flat ops) -> exists k, out = (firstn k (flat ops) ++ trailing t)%list).
Proof.
  intros t ops. unfold preview. rewrite (limited_spec 32 ltac:(lia)). cbn [bind].
  set (bs := firstn 32 (flat ops)).
  pose proof (trailing_len t) as Htl.
  destruct (blen bs >? 30) eqn:Egt.
  - destruct (trunc_loop_ok (S (length bs)) bs (30 - blen (trailing t)) ltac:(lia) ltac:(lia)) as [k [Hk [_ Hk2]]].
    rewrite Hk. cbn [bind]. eexists. split; [reflexivity|]. split; [|split].
    + unfold blen in *. rewrite app_length. lia.
    + intro Hle. unfold bs, blen in *. rewrite firstn_length in Egt. lia.
    + intros _. unfold bs. rewrite firstn_firstn. eexists. reflexivity.
  - exists bs. split; [reflexivity|]. unfold bs, blen in *. rewrite firstn_length in *. split; [lia|]. split.
    + intro Hle. apply firstn_all2. lia.
    + intro Hgt. lia.
Qed.

Theorem type_error_preview_total : forall isnil tyname t ops,
  exists out, type_error_preview dlr isnil tyname t ops = Ok out.
Proof.
  intros. unfold type_error_preview. destruct isnil; [eauto|].
  destruct (preview_total t ops) as [out [H _]]. rewrite H. cbn [bind]. eauto.
Qed.

(* ---- encodeString ---- *)
Lemma hexdigit_some : forall k, 0 <= k < 16 -> exists c, byte_at hexdigits k = Some c.
Proof. intros k H. apply byte_at_some. unfold blen. cbn. lia. Qed.

Lemma escape_ok : forall b, (b < 128)%N -> exists e, escape b = Ok e.
Proof.
  intros b Hb. unfold escape.
  repeat match goal with |- context [if ?c then _ else _] => destruct c; [eauto|] end.
  assert (H1 : (N.shiftr b 4 < 8)%N).
  { rewrite N.shiftr_div_pow2. change (2 ^ 4)%N with 16%N. apply N.div_lt_upper_bound; lia. }
  assert (H2 : (N.land b 15 < 16)%N).
  { change 15%N with (N.ones 4). rewrite N.land_ones. change (2 ^ 4)%N with 16%N. apply N.mod_lt. lia. }
  destruct (hexdigit_some (Z.of_N (N.shiftr b 4)) ltac:(lia)) as [h Hh].
  destruct (hexdigit_some (Z.of_N (N.land b 15)) ltac:(lia)) as [l Hl].
  rewrite Hh, Hl. eauto.
Qed.

Lemma flush_ok : forall s start i out, 0 <= start <= i -> i <= blen s -> exists o, flush s start i out = Ok o.
Proof.
  intros s start i out H1 H2. unfold flush. destruct (start <? i); [|eauto].
  rewrite slice_spec by lia. eauto.
Qed.

Lemma enc_loop_ok : forall fuel s i start out, 0 <= start <= i -> i <= blen s ->
  (Z.to_nat (blen s - i) < fuel)%nat -> exists o, enc_loop dr fuel s i start out = Ok o.
Proof.
  induction fuel as [|f IH]; intros s i start out H1 H2 Hf; [lia|]. cbn [enc_loop].
  destruct (i <? blen s) eqn:Ei.
  - destruct (byte_at_some s i ltac:(lia)) as [b Hb]. rewrite Hb.
    destruct (b <? 128)%N eqn:E128.
    + destruct (printable b).
      * apply IH; lia.
      * destruct (flush_ok s start i out H1 H2) as [o1 Ho1]. rewrite Ho1. cbn [bind].
        destruct (escape_ok b ltac:(lia)) as [e He]. rewrite He. cbn [bind]. apply IH; lia.
    + rewrite slice_spec by lia.
      set (tl := firstn (Z.to_nat (blen s - i)) (skipn (Z.to_nat i) s)).
      assert (Hlt : length tl = Z.to_nat (blen s - i)).
      { unfold tl. rewrite firstn_length, skipn_length. unfold blen. lia. }
      assert (Hne : tl <> []) by (intro X; rewrite X in Hlt; cbn in Hlt; lia).
      pose proof (dr_bound tl Hne) as Hb2. destruct (dr tl) as [valid size]. cbn [snd] in Hb2.
      destruct (negb valid && Nat.eqb size 1).
      * destruct (flush_ok s start i out H1 H2) as [o1 Ho1]. rewrite Ho1. cbn [bind]. apply IH; lia.
      * apply IH; lia.
  - assert (Hfin : exists o1, (if start <? blen s then
                 match slice s start (blen s) with Some x => Ok (out ++ x)%list | None => Panic 44 end
               else Ok out) = Ok o1).
    { destruct (start <? blen s); [|eauto]. rewrite slice_spec by lia. eauto. }
    destruct Hfin as [o1 Ho1]. rewrite Ho1. cbn [bind]. eauto.
Qed.

Theorem enc_string_total : forall s, exists out, enc_string dr s = Ok out.
Proof. intro s. unfold enc_string. apply enc_loop_ok; unfold blen; lia. Qed.
End Decoders.

(* ---- exponent clean-up ---- *)
Theorem clean_exp_total : forall buf, exists out, clean_exp buf = Ok out.
Proof.
  intro buf. unfold clean_exp. destruct (blen buf >=? 4) eqn:E4; [|eauto].
  destruct (byte_at_some buf (blen buf - 4) ltac:(lia)) as [c4 H4]. rewrite H4.
  destruct (negb (c4 =? 101)%N); [eauto|].
  destruct (byte_at_some buf (blen buf - 3) ltac:(lia)) as [c3 H3]. rewrite H3.
  destruct (negb (c3 =? 45)%N); [eauto|].
  destruct (byte_at_some buf (blen buf - 2) ltac:(lia)) as [c2 H2]. rewrite H2.
  destruct (negb (c2 =? 48)%N); [eauto|].
  destruct (byte_at_some buf (blen buf - 1) ltac:(lia)) as [c1 H1]. rewrite H1.
  destruct (slice_some buf 0 (blen buf - 2) ltac:(lia) ltac:(lia) ltac:(lia)) as [pre [Hp Hlp]]. rewrite Hp.
  destruct (slice_some (pre ++ [c1; c1]) 0 (blen buf - 1) ltac:(lia) ltac:(lia)) as [r [Hr _]].
  { unfold blen in *. rewrite app_length. cbn [length]. lia. }
  rewrite Hr. eauto.
Qed.

(* instances for the executable decoders *)
Theorem preview_total_exec : forall t ops,
  exists out, preview decode_last_rune t ops = Ok out /\ blen out <= 30 /\
    (blen (flat ops) <= 30 -> out = flat ops) /\
    (30 < blen (flat ops) -> exists k, out = (firstn k (flat ops) ++ trailing t)%list).
Proof.
  intros t ops.
  first [ exact (preview_total decode_last_rune decode_last_rune_bound t ops)
        | exact (preview_total decode_last_rune decode_rune decode_last_rune_bound t ops)
        | exact (preview_total decode_last_rune decode_rune decode_last_rune_bound decode_rune_bound t ops) ].
Qed.

Theorem enc_string_total_exec : forall s, exists out, enc_string decode_rune s = Ok out.
Proof.
  intro s.
  first [ exact (enc_string_total decode_rune decode_rune_bound s)
        | exact (enc_string_total decode_last_rune decode_rune decode_rune_bound s)
        | exact (enc_string_total decode_last_rune decode_rune decode_last_rune_bound decode_rune_bound s) ].
Qed.
