(* C08 / B — instance of the generic driver theorems for the tables of the CURRENT parser.go
   (coq/gen/GenTables.v, regenerated on every run).  Slow file: E, MD, AL and RHO are computed from the tables
   by fixpoint iteration inside Coq and the finite checks are discharged by vm_compute. *)
From Coq Require Import ZArith List Bool Lia.
From Verif Require Import gen.GenTables c08.LR c08.LRCheck c08.LRProofs c08.LRTerm.
Import ListNotations.
Open Scope Z_scope.

Definition E_real : list (list Z) := Eval vm_compute in the_E the_tables.
Definition MD_real : list Z := Eval vm_compute in the_MD the_tables E_real.
(* the "symbol type map": for every state the dynamic types the value in its stack slot can have *)
Definition AL_real : list (list Z) := Eval vm_compute in the_AL the_tables E_real.
Definition RHO_real : list Z := Eval vm_compute in the_RHO the_tables E_real.

(* finite check (ii): E_real is closed under one driver round from each of its nodes for each of the
   tokens yylex1 can produce; every reduction possible in state s pops at most MD_real(s) entries; every
   type assertion yyDollar[k].value.(T) of a rule reducible in s reads a slot whose states allow only T, and
   what the action stores is allowed in the goto state *)
Lemma closed_real : closed the_tables E_real MD_real AL_real = true.
Proof. vm_compute. reflexivity. Qed.

(* finite check (iii): $end is never shifted, a state that reads no lookahead does not default to "error",
   and RHO_real ranks the reduce edges *)
Lemma term_ok_real : term_ok the_tables E_real RHO_real = true.
Proof. vm_compute. reflexivity. Qed.

(* finite check (i): for every state number 0 <= s < len(yyPact) and every token, and for every rule
   0 <= n < len(yyR2) and every exposed state, all table indices computed by the driver are in range *)
Lemma index_ok_real : index_ok the_tables = true.
Proof. vm_compute. reflexivity. Qed.

Definition n_states : Z := Eval vm_compute in zlen (tPact the_tables).
Definition n_rules : Z := Eval vm_compute in zlen (tR2 the_tables).
Definition n_tokens : nat := Eval vm_compute in length (all_tokens the_tables).
Definition n_edges : nat := Eval vm_compute in edge_count E_real.
Definition n_nodes : nat := Eval vm_compute in length (nodes E_real).
(* every state allows exactly one dynamic type *)
Definition n_single_typed : nat := Eval vm_compute in length (filter (fun l => Nat.eqb (length l) 1) AL_real).


(* safety: no Panic site is ever reached (table index, stack pop count, yyDollar slicing, type assertion, fuel) *)
Theorem parse_driver_total : forall (input : list Z) (fuel : nat) (site : nat),
  run the_tables fuel (init input) <> OPanic site.
Proof. exact (driver_never_panics the_tables E_real MD_real AL_real closed_real). Qed.
