(* C08 / B — instance of the generic driver theorem for the tables of the CURRENT parser.go
   (coq/gen/GenTables.v, regenerated on every run).  Slow file: E and MD are computed from the tables by
   fixpoint iteration inside Coq and the finite checks are discharged by vm_compute. *)
From Coq Require Import ZArith List Bool.
From Verif Require Import gen.GenTables c08.LR c08.LRCheck c08.LRProofs.
Import ListNotations.
Open Scope Z_scope.

Definition E_real : list (list Z) := Eval vm_compute in the_E the_tables.
Definition MD_real : list Z := Eval vm_compute in the_MD the_tables E_real.

(* finite check (ii): E_real is closed under one driver round from each of its nodes for each of the
   tokens yylex1 can produce; every reduction possible in state s pops at most MD_real(s) entries *)
Lemma closed_real : closed the_tables E_real MD_real = true.
Proof. vm_compute. reflexivity. Qed.

(* finite check (i): for every state number 0 <= s < len(yyPact) and every token, and for every rule
   0 <= n < len(yyR2) and every exposed state, all table indices computed by the driver are in range *)
Lemma index_ok_real : index_ok the_tables = true.
Proof. vm_compute. reflexivity. Qed.

Definition n_states : Z := Eval vm_compute in zlen (tPact the_tables).
Definition n_rules : Z := Eval vm_compute in zlen (tR2 the_tables).
Definition n_tokens : nat := Eval vm_compute in length (all_tokens the_tables).
Definition n_edges : nat := Eval vm_compute in edge_count E_real.
Definition n_nodes : nat := Eval vm_compute in length (nodes E_real).

Theorem parse_driver_total : forall (input : list Z) (fuel : nat) (site : nat),
  run the_tables fuel (init input) <> OPanic site.
Proof. exact (driver_never_panics the_tables E_real MD_real closed_real). Qed.

Theorem parse_tables_index_safe :
  (forall s t, 0 <= s < zlen (tPact the_tables) -> In t (all_tokens the_tables) ->
     is_ok (simple_state the_tables s) = true /\ is_ok (idx 13 (tDef the_tables) s) = true /\
     is_ok (errshift_of the_tables s) = true /\ is_ok (shift_of the_tables s t) = true /\
     (idx 13 (tDef the_tables) s = Ok (-2) -> is_ok (exca_lookup the_tables s t) = true)) /\
  (forall n base, 0 <= n < zlen (tR2 the_tables) -> 0 <= base < zlen (tPact the_tables) ->
     exists nt r2, idx 32 (tR1 the_tables) n = Ok nt /\ idx 30 (tR2 the_tables) n = Ok r2 /\ 0 <= r2 /\
                   is_ok (idx 33 (tPgo the_tables) nt) = true /\ is_ok (goto_of the_tables base nt) = true).
Proof. exact (index_safe the_tables index_ok_real). Qed.
