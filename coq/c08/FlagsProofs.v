(* C08 / C — parseFlags never panics and terminates: proofs.
   One lemma per program point shows: under the invariant, a step either finishes with Ok / a usage error,
   or moves to a state that satisfies the invariant again and has a strictly smaller rank.
   rank = 3*len+1 for every argument still to be read (args[i..] at the loop head, args[i+1..] at S and L)
          + 3*len(shortopts)+1 (+1 at S). *)
From Coq Require Import ZArith NArith List Bool Lia ZifyBool ZifyNat.
From Verif Require Import gen.GenFlagTable c08.Flags.
Import ListNotations.
Open Scope Z_scope.

(* ---- partial operations succeed inside their bounds ---- *)
Lemma slice_some : forall s a b, 0 <= a -> a <= b -> b <= blen s ->
  exists x, slice s a b = Some x /\ blen x = b - a.
Proof.
  intros s a b H1 H2 H3. unfold slice.
  replace ((0 <=? a) && (a <=? b) && (b <=? blen s)) with true by lia.
  eexists. split; [reflexivity|]. unfold blen in *. rewrite firstn_length, skipn_length. lia.
Qed.

Lemma skipn_nth : forall (A : Type) n (a : list A) x, nth_error a n = Some x -> skipn n a = x :: skipn (S n) a.
Proof.
  induction n as [|n IH]; intros a x H; destruct a as [|y a]; try discriminate.
  - cbn in H. injection H as ->. reflexivity.
  - cbn in H. cbn [skipn]. rewrite (IH a x H). reflexivity.
Qed.

Definition suffix (a : list bytes) (i : Z) : list bytes := skipn (Z.to_nat i) a.

Lemma weight_cons : forall x a, weight (x :: a) = (3 * length x + 1 + weight a)%nat.
Proof. reflexivity. Qed.

Lemma arg_at_some : forall a i, 0 <= i < Z.of_nat (length a) ->
  exists x, arg_at a i = Some x /\ weight (suffix a i) = (3 * length x + 1 + weight (suffix a (i + 1)))%nat.
Proof.
  intros a i H. unfold arg_at. replace (i <? 0) with false by lia.
  destruct (nth_error a (Z.to_nat i)) as [x|] eqn:E.
  - exists x. split; [reflexivity|]. unfold suffix. rewrite (skipn_nth _ _ _ _ E). rewrite weight_cons.
    replace (Z.to_nat (i + 1)) with (S (Z.to_nat i)) by lia. reflexivity.
  - apply nth_error_None in E. lia.
Qed.

Lemma byte_at_some : forall s i, 0 <= i < blen s -> exists c, byte_at s i = Some c.
Proof.
  intros s i H. unfold byte_at, blen in *. replace (i <? 0) with false by lia.
  destruct (nth_error s (Z.to_nat i)) eqn:E; [eauto|]. apply nth_error_None in E. lia.
Qed.

Lemma set_nth_some : forall n v a, (n < length a)%nat ->
  exists a', set_nth n v a = Some a' /\ length a' = length a /\ skipn n a' = v :: skipn (S n) a.
Proof.
  induction n as [|n IH]; intros v a H; destruct a as [|x a]; cbn in H; try lia.
  - exists (v :: a). repeat split.
  - destruct (IH v a ltac:(lia)) as [a' [E [L S']]]. exists (x :: a'). cbn [set_nth]. rewrite E. cbn.
    repeat split; [lia|exact S'].
Qed.

Lemma set_arg_some : forall a i v, 0 <= i < Z.of_nat (length a) ->
  exists a', set_arg a i v = Some a' /\ length a' = length a /\
             weight (suffix a' i) = (3 * length v + 1 + weight (suffix a (i + 1)))%nat.
Proof.
  intros a i v H. unfold set_arg. replace (i <? 0) with false by lia.
  destruct (set_nth_some (Z.to_nat i) v a ltac:(lia)) as [a' [E [L S']]].
  exists a'. split; [exact E|split; [exact L|]]. unfold suffix. rewrite S'. rewrite weight_cons.
  replace (Z.to_nat (i + 1)) with (S (Z.to_nat i)) by lia. reflexivity.
Qed.

Lemma weight_skipn_S : forall n (a : list bytes), (weight (skipn (S n) a) <= weight (skipn n a))%nat.
Proof.
  induction n as [|n IH]; intros a; destruct a as [|x a]; cbn [skipn]; try lia.
  - rewrite weight_cons. lia.
  - apply IH.
Qed.
Lemma weight_skipn_mono : forall n m (a : list bytes), (n <= m)%nat -> (weight (skipn m a) <= weight (skipn n a))%nat.
Proof.
  intros n m a H. induction H as [|m H IH]; [lia|]. pose proof (weight_skipn_S m a). lia.
Qed.
Lemma weight_suffix_mono : forall a i j, i <= j -> (weight (suffix a j) <= weight (suffix a i))%nat.
Proof. intros. unfold suffix. apply weight_skipn_mono. lia. Qed.

Lemma index_byte_range : forall a c k j, index_byte a c k = Some j -> k <= j < k + blen a.
Proof.
  induction a as [|x a IH]; intros c k j H; [discriminate|]. cbn [index_byte] in H. unfold blen in *. cbn [length].
  destruct (N.eqb x c).
  - injection H as <-. lia.
  - apply IH in H. lia.
Qed.

Lemma dashdash_eq : forall arg j, has_dashdash arg = true -> index_byte arg equals 0 = Some j -> 2 <= j < blen arg.
Proof.
  intros arg j H E. destruct arg as [|c1 [|c2 r]]; try discriminate. cbn in H.
  apply andb_prop in H as [H1 H2]. apply N.eqb_eq in H1. apply N.eqb_eq in H2. subst.
  cbn [index_byte] in E. unfold dash, equals in E. cbn in E. apply index_byte_range in E.
  unfold blen in *. cbn [length]. lia.
Qed.

Lemma dashdash_len : forall arg, has_dashdash arg = true -> 2 <= blen arg.
Proof. intros arg H. destruct arg as [|c1 [|c2 r]]; try discriminate. unfold blen. cbn [length]. lia. Qed.

Ltac arith := cbn [length] in *; unfold blen in *; cbn [length] in *; lia.
Ltac spl := repeat match goal with |- _ /\ _ => split end.
Ltac need s :=
  cbv zeta; destruct (i s + 1 >=? Z.of_nat (length (args s))) eqn:Ej; [exact I|];
  let a := fresh "a" in let Ea := fresh "Ea" in
  destruct (arg_at_some (args s) (i s + 1) ltac:(lia)) as [a [Ea _]]; rewrite Ea.
Ltac simp_st := cbn [args i rest opts mapkeys posval done upd_i upd_args upd_opts].

Section Proofs.
Variable tbl : list flagdef.

(* ---- option values stay well-kinded (reflect.Append / SetMapIndex are applied to the right kinds) ---- *)
Definition val_typed (k : kind) (v : fval) : Prop :=
  match k, v with
  | KBool, VBool _ | KString, VStr _ | KIntPtr, VInt _ | KOtherPtr, VOther | KSlice, VSlice _ | KMap, VMap _ => True
  | _, _ => False
  end.
Definition typed_with (t : list flagdef) (o : list fval) : Prop := Forall2 (fun f v => val_typed (fKind f) v) t o.
Definition typed (o : list fval) : Prop := typed_with tbl o.

Lemma typed_get_gen : forall t o v f, typed_with t o -> nth_error t v = Some f -> val_typed (fKind f) (nth v o VOther).
Proof.
  intros t o v f H. revert v. induction H as [|f0 x t o Hx H IH]; intros v E.
  - destruct v; discriminate.
  - destruct v as [|v]; cbn in E |- *.
    + injection E as ->. exact Hx.
    + apply IH. exact E.
Qed.

Lemma typed_set_gen : forall t o v x, typed_with t o ->
  (forall f, nth_error t v = Some f -> val_typed (fKind f) x) -> typed_with t (set_opt v x o).
Proof.
  intros t o v x H. revert v. induction H as [|f0 y t o Hy H IH]; intros v Hx.
  - destruct v; constructor.
  - destruct v as [|v]; cbn [set_opt].
    + constructor; [apply Hx; reflexivity|exact H].
    + constructor; [exact Hy|]. apply IH. intros f E. apply Hx. exact E.
Qed.

Lemma kind_of_nth : forall v k, kind_of tbl v = k -> k <> KOtherPtr -> exists f, nth_error tbl v = Some f /\ fKind f = k.
Proof.
  intros v k H N. unfold kind_of in H. destruct (nth_error tbl v) as [f|]; [eauto|]. congruence.
Qed.

Lemma typed_get : forall o v k, typed o -> kind_of tbl v = k -> k <> KOtherPtr -> val_typed k (get_opt v o).
Proof.
  intros o v k H E N. destruct (kind_of_nth v k E N) as [f [F1 F2]]. rewrite <- F2. unfold get_opt.
  eapply typed_get_gen; eauto.
Qed.

Lemma typed_set : forall o v x, typed o -> val_typed (kind_of tbl v) x -> typed (set_opt v x o).
Proof.
  intros o v x H Hx. apply typed_set_gen; [exact H|]. intros f E. unfold kind_of in Hx. rewrite E in Hx. exact Hx.
Qed.

Lemma typed_init : typed (map (fun f => zero_of (fKind f)) tbl).
Proof.
  unfold typed, typed_with. induction tbl as [|f t IH]; constructor; [|exact IH]. destruct (fKind f); exact I.
Qed.

(* ---- invariant and rank ---- *)
Definition common (s : st) : Prop :=
  typed (opts s) /\ (forall pv, posval s = Some pv -> kind_of tbl pv = KSlice).

Definition in_range (s : st) : Prop := 0 <= i s < Z.of_nat (length (args s)).
Ltac fin := try assumption; try lia; try (unfold in_range in *; lia); try (intros; congruence);
  try (let HH := fresh in intro HH; exfalso; apply HH; reflexivity);
  try (cbn [length] in *; unfold blen in *; cbn [length] in *; lia).

Definition Inv (p : pc) (s : st) : Prop :=
  common s /\
  match p with
  | PTop => 0 <= i s
  | PS arg v so => -1 <= i s /\ 2 <= blen arg /\ (so <> [] -> kind_of tbl v = KBool /\ in_range s)
  | PL so => -1 <= i s /\ (so <> [] -> in_range s)
  end.

Definition rank (p : pc) (s : st) : nat :=
  match p with
  | PTop => weight (suffix (args s) (i s))
  | PS _ _ so => weight (suffix (args s) (i s + 1)) + 3 * length so + 1 + 1
  | PL so => weight (suffix (args s) (i s + 1)) + 3 * length so + 1
  end.

Definition good (r : fres) : Prop := match r with FOk _ _ | FErr _ => True | _ => False end.

Definition step_good (p : pc) (s : st) : Prop :=
  match step tbl p s with
  | Done r => good r
  | Next p' s' => Inv p' s' /\ (rank p' s' < rank p s)%nat
  end.

Lemma plain_ok : forall s arg, common s -> in_range s ->
  weight (suffix (args s) (i s)) = (3 * length arg + 1 + weight (suffix (args s) (i s + 1)))%nat ->
  match plain s arg with
  | Done r => good r
  | Next p' s' => Inv p' s' /\ (rank p' s' < weight (suffix (args s) (i s)))%nat
  end.
Proof.
  intros s arg [Ht Hp] Hr Hw. unfold plain.
  assert (Hp' : forall pv0 : nat, posval s = Some pv0 -> kind_of tbl pv0 = KSlice) by exact Hp.
  destruct (posval s) as [pv|] eqn:Epv; [destruct (rest s) as [|r0 rs] eqn:Er|].
  - unfold Inv, common, rank; simp_st; spl; auto; fin; try (intros pv0 H0; apply Hp; congruence).
  - pose proof (typed_get (opts s) pv KSlice Ht (Hp pv eq_refl) ltac:(discriminate)) as Hv.
    destruct (get_opt pv (opts s)) eqn:Eg; try destruct Hv.
    unfold Inv, common, rank; simp_st; spl; auto; fin; try (intros pv0 H0; apply Hp; congruence).
    apply typed_set; [exact Ht|]. rewrite (Hp pv eq_refl). exact I.
  - unfold Inv, common, rank; simp_st; spl; auto; fin.
Qed.

Lemma top_ok : forall s, Inv PTop s -> step_good PTop s.
Proof.
  intros s [[Ht Hp] Hi]. unfold step_good, step, top.
  destruct (i s >=? Z.of_nat (length (args s))) eqn:Eend; [exact I|].
  assert (Hr : in_range s) by (unfold in_range; lia).
  destruct (arg_at_some (args s) (i s) Hr) as [arg [Ea Hw]]. rewrite Ea.
  assert (Hplain : match plain s arg with
                   | Done r => good r
                   | Next p' s' => Inv p' s' /\ (rank p' s' < rank PTop s)%nat end).
  { apply plain_ok; auto. split; auto. }
  destruct (done s); [exact Hplain|].
  destruct (bytes_eqb arg [dash; dash]).
  { unfold Inv, common, rank; simp_st; spl; auto; fin. }
  destruct (has_dashdash arg) eqn:Edd.
  - pose proof (dashdash_len _ Edd) as Hl2.
    destruct (slice_some arg 2 (blen arg) ltac:(lia) ltac:(lia) ltac:(lia)) as [name [En _]]. rewrite En.
    destruct (lookup_long tbl name) as [v|].
    + unfold Inv, common, rank; simp_st; spl; auto; fin.
    + destruct (index_byte arg equals 0) as [j|] eqn:Ej; [|exact I].
      pose proof (dashdash_eq _ _ Edd Ej) as Hj.
      destruct (slice_some arg 2 j ltac:(lia) ltac:(lia) ltac:(lia)) as [name2 [En2 _]]. rewrite En2.
      destruct (lookup_long tbl name2) as [v|]; [|exact I].
      destruct (slice_some arg 0 j ltac:(lia) ltac:(lia) ltac:(lia)) as [argj [Eaj Hlj]]. rewrite Eaj.
      destruct (slice_some arg (j + 1) (blen arg) ltac:(lia) ltac:(lia) ltac:(lia)) as [tailv [Etl Hlt]].
      destruct (set_arg_some (args s) (i s) tailv Hr) as [a' [Es [Hla Hwa]]].
      assert (Hgo : match (match slice arg (j + 1) (blen arg) with
                           | Some tailv0 =>
                               match set_arg (args s) (i s) tailv0 with
                               | Some a'0 => Next (PS argj v []) (upd_i (upd_args s a'0) (i s - 1))
                               | None => Done (FPanic 6)
                               end
                           | None => Done (FPanic 5)
                           end) with
                    | Done r => good r
                    | Next p' s' => Inv p' s' /\ (rank p' s' < rank PTop s)%nat end).
      { rewrite Etl, Es. unfold Inv, common, rank; simp_st; spl; auto; fin.
        replace (i s - 1 + 1) with (i s) by lia. rewrite Hwa. arith. }
      destruct (kind_of tbl v); try exact Hgo. exact I.
  - destruct ((blen arg >? 1) && match byte_at arg 0 with Some c => N.eqb c dash | None => false end) eqn:Esh; [|exact Hplain].
    apply andb_prop in Esh as [Hl1 _].
    destruct (slice_some arg 1 (blen arg) ltac:(lia) ltac:(lia) ltac:(lia)) as [tl1 [Et1 Hlt1]]. rewrite Et1.
    destruct (short_scan tbl tl1 false None) as [[skip ok] v].
    destruct (negb skip && ((blen arg >? 2) || negb ok)).
    + unfold Inv, common, rank; simp_st; spl; auto; fin.
    + destruct ok; [|exact Hplain]. destruct v as [f|]; [|exact Hplain].
      unfold Inv, common, rank; simp_st; spl; auto; fin.
Qed.

Lemma S_ok : forall s arg v so, Inv (PS arg v so) s -> step_good (PS arg v so) s.
Proof.
  intros s arg v so [[Ht Hp] [Hi [Hl Hso]]]. unfold step_good, step, at_S.
  assert (Hmono : (weight (suffix (args s) (i s + 1 + 1)) <= weight (suffix (args s) (i s + 1)))%nat)
    by (apply weight_suffix_mono; lia).
  assert (Hso0 : forall k, kind_of tbl v = k -> k <> KBool -> so = []).
  { intros k E N. destruct so; [reflexivity|]. destruct Hso as [H _]; [discriminate|congruence]. }
  destruct (kind_of tbl v) eqn:Ek.
  - (* Bool *) unfold Inv, common, rank; simp_st; spl; auto; fin.
    + apply typed_set; auto. rewrite Ek. exact I.
    + intro Hne. apply Hso in Hne. tauto.
  - (* String *) rewrite (Hso0 _ eq_refl ltac:(discriminate)) in *.
    need s. unfold Inv, common, rank; simp_st; spl; auto; fin.
    apply typed_set; auto. rewrite Ek. exact I.
  - (* *int *) rewrite (Hso0 _ eq_refl ltac:(discriminate)) in *.
    need s. destruct (atoi a); [|exact I]. unfold Inv, common, rank; simp_st; spl; auto; fin.
    apply typed_set; auto. rewrite Ek. exact I.
  - (* other pointer *) rewrite (Hso0 _ eq_refl ltac:(discriminate)) in *.
    unfold Inv, common, rank; simp_st; spl; auto; fin.
  - (* slice *) rewrite (Hso0 _ eq_refl ltac:(discriminate)) in *.
    destruct (slice_some arg 2 (blen arg) ltac:(lia) ltac:(lia) ltac:(lia)) as [name [En _]]. rewrite En.
    pose proof (typed_get (opts s) v KSlice Ht Ek ltac:(discriminate)) as Hv.
    destruct (is_positional tbl name).
    + unfold Inv, common, rank; simp_st; spl; auto; fin; try (intros pv0 H0; injection H0 as <-; exact Ek).
      destruct (posval s) as [pv|]; [|exact Ht]. destruct (get_opt v (opts s)); try exact Ht.
      apply typed_set; auto. rewrite Ek. exact I.
    + need s. cbn [opts upd_i]. destruct (get_opt v (opts s)) eqn:Eg; try destruct Hv.
      unfold Inv, common, rank; simp_st; spl; auto; fin.
      apply typed_set; auto. rewrite Ek. exact I.
  - (* map *) rewrite (Hso0 _ eq_refl ltac:(discriminate)) in *.
    cbv zeta. destruct (i s + 2 >=? Z.of_nat (length (args s))) eqn:Ej; [exact I|].
    destruct (arg_at_some (args s) (i s + 2 - 1) ltac:(lia)) as [name [En _]]. rewrite En.
    destruct (arg_at_some (args s) (i s + 2) ltac:(lia)) as [value [Ev _]]. rewrite Ev.
    assert (Hm2 : (weight (suffix (args s) (i s + 2 + 1)) <= weight (suffix (args s) (i s + 1)))%nat)
      by (apply weight_suffix_mono; lia).
    destruct (existsb (bytes_eqb name) (mapkeys s)).
    + unfold Inv, common, rank; simp_st; spl; auto; fin.
    + pose proof (typed_get (opts s) v KMap Ht Ek ltac:(discriminate)) as Hv.
      destruct (get_opt v (opts s)) eqn:Eg; try destruct Hv.
      unfold Inv, common, rank; simp_st; spl; auto; fin.
      apply typed_set; auto. rewrite Ek. exact I.
Qed.

Lemma L_ok : forall s so, Inv (PL so) s -> step_good (PL so) s.
Proof.
  intros s so [[Ht Hp] [Hi Hso]]. unfold step_good, step, at_L.
  destruct so as [|c r].
  - unfold Inv, common, rank; simp_st; spl; auto; fin.
  - assert (Hr : in_range s) by (apply Hso; discriminate).
    assert (Hlen : blen (c :: r) = 1 + blen r) by (unfold blen; cbn [length]; lia).
    assert (Hlr : 0 <= blen r) by (unfold blen; lia).
    destruct (slice_some (c :: r) 0 1 ltac:(lia) ltac:(lia) ltac:(lia)) as [opt [Eo Hlo]]. rewrite Eo.
    destruct (lookup_short tbl opt) as [v|]; [|exact I].
    destruct ((match kind_of tbl v with KBool => false | _ => true end) && (blen (c :: r) >? 1)) eqn:EA.
    + apply andb_prop in EA as [_ Hgt].
      destruct (byte_at_some (c :: r) 1 ltac:(lia)) as [c1 Ec1]. rewrite Ec1.
      assert (Hrem : exists rem, (if N.eqb c1 equals then slice (c :: r) 2 (blen (c :: r)) else slice (c :: r) 1 (blen (c :: r))) = Some rem
                                 /\ blen rem <= blen (c :: r) - 1).
      { destruct (N.eqb c1 equals).
        - destruct (slice_some (c :: r) 2 (blen (c :: r)) ltac:(lia) ltac:(lia) ltac:(lia)) as [x [E1 E2]]. exists x. split; [exact E1|lia].
        - destruct (slice_some (c :: r) 1 (blen (c :: r)) ltac:(lia) ltac:(lia) ltac:(lia)) as [x [E1 E2]]. exists x. split; [exact E1|lia]. }
      destruct Hrem as [rem [Erem Hlrem]]. rewrite Erem.
      destruct (set_arg_some (args s) (i s) rem Hr) as [a' [Es [Hla Hwa]]]. rewrite Es.
      unfold Inv, common, rank; simp_st; spl; auto; fin.
      replace (i s - 1 + 1) with (i s) by lia. rewrite Hwa. arith.
    + destruct (slice_some (c :: r) 1 (blen (c :: r)) ltac:(lia) ltac:(lia) ltac:(lia)) as [so' [Eso Hlso]]. rewrite Eso.
      unfold Inv, common, rank; simp_st; spl; auto; fin.
      intro Hne. split; [|exact Hr].
      destruct so' as [|x so']; [congruence|].
      assert (Hb : blen (c :: r) >? 1 = true) by arith.
      rewrite Hb in EA. rewrite andb_true_r in EA. destruct (kind_of tbl v); try discriminate. reflexivity.
Qed.

Lemma step_ok : forall p s, Inv p s -> step_good p s.
Proof. intros [| |] s H; [apply top_ok|apply S_ok|apply L_ok]; exact H. Qed.

Lemma run_ok : forall fuel p s, Inv p s -> (rank p s < fuel)%nat -> good (run tbl fuel p s).
Proof.
  induction fuel as [|f IH]; intros p s HI Hr; [lia|]. cbn [run].
  pose proof (step_ok p s HI) as Hs. unfold step_good in Hs.
  destruct (step tbl p s) as [p' s'|r]; [|exact Hs]. destruct Hs as [HI' Hlt]. apply IH; [exact HI'|lia].
Qed.

Theorem parse_flags_total : forall a : list bytes, good (parse_flags tbl a).
Proof.
  intro a. unfold parse_flags. apply run_ok.
  - unfold Inv, common, init. cbn. repeat split; try lia; [apply typed_init|discriminate].
  - unfold rank, init, fuel_for, suffix. cbn [args i Z.to_nat skipn]. lia.
Qed.

End Proofs.

(* for the option table of the current cli/cli.go *)
Theorem flags_total : forall args : list bytes,
  match parse_flags flag_table args with FOk _ _ | FErr _ => True | FPanic _ | FFuel => False end.
Proof. intro a. pose proof (parse_flags_total flag_table a) as H. unfold good in H. exact H. Qed.
