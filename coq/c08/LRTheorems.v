(* C08 / B — the theorems about the driver over the tables of the current parser.go (fast file; the
   computations and finite checks are in LRInstance.v). *)
From Coq Require Import ZArith List Bool Lia.
From Verif Require Import gen.GenTables c08.LR c08.LRCheck c08.LRProofs c08.LRTerm c08.LRInstance.
Import ListNotations.
Open Scope Z_scope.

(* the fuel bound, as numbers: A * len(input) + B rounds *)
Definition fuel_A : Z := Eval vm_compute in
  (let C := cC the_tables in let R := rho_max RHO_real in let L := C + R + 1 in let K := L + C + R + 1 in 2 * K).
Definition fuel_B : Z := Eval vm_compute in
  (let C := cC the_tables in let R := rho_max RHO_real in let L := C + R + 1 in 3 * L + C + rho RHO_real 0 + 1).
Definition parse_fuel (n : nat) : nat := Z.to_nat (fuel_A * Z.of_nat n + fuel_B).

Lemma parse_fuel_eq : forall n, fuel_bound the_tables RHO_real n = parse_fuel n.
Proof.
  intro n. unfold fuel_bound, parse_fuel. f_equal.
  assert (HA : 2 * (cC the_tables + rho_max RHO_real + 1 + cC the_tables + rho_max RHO_real + 1) = fuel_A) by (vm_compute; reflexivity).
  assert (HB : 3 * (cC the_tables + rho_max RHO_real + 1) + cC the_tables + rho RHO_real 0 + 1 = fuel_B) by (vm_compute; reflexivity).
  rewrite <- HA, <- HB. ring.
Qed.

(* total correctness of the driver: accept or syntax error within parse_fuel(len input) rounds *)
Theorem parse_driver_terminates : forall input : list Z,
  exists c', run the_tables (parse_fuel (length input)) (init input) = OAccept c' \/
             run the_tables (parse_fuel (length input)) (init input) = OReject c'.
Proof.
  intro input. rewrite <- parse_fuel_eq.
  exact (driver_total the_tables E_real MD_real AL_real RHO_real closed_real term_ok_real input).
Qed.

Theorem parse_tables_index_safe :
  (forall s t, 0 <= s < zlen (tPact the_tables) -> In t (all_tokens the_tables) ->
     is_ok (simple_state the_tables s) = true /\ is_ok (idx 13 (tDef the_tables) s) = true /\
     is_ok (errshift_of the_tables s) = true /\ is_ok (shift_of the_tables s t) = true /\
     (idx 13 (tDef the_tables) s = Ok (-2) -> is_ok (exca_lookup the_tables s t) = true)) /\
  (forall n base, 0 <= n < zlen (tR2 the_tables) -> 0 <= base < zlen (tPact the_tables) ->
     exists nt r2, idx 32 (tR1 the_tables) n = Ok nt /\ idx 30 (tR2 the_tables) n = Ok r2 /\ 0 <= r2 /\
                   is_ok (idx 33 (tPgo the_tables) nt) = true /\ is_ok (goto_of the_tables base nt) = true).
Proof. exact (index_safe the_tables index_ok_real). Qed.

(* more fuel changes nothing once the driver has returned *)
Lemma run_more : forall T f g c c', (f <= g)%nat ->
  (run T f c = OAccept c' \/ run T f c = OReject c') -> run T g c = run T f c.
Proof.
  intros T f. induction f as [|f IH]; intros g c c' Hle H; [cbn in H; destruct H; discriminate|].
  destruct g as [|g]; [lia|]. cbn [run] in *. destruct (step T c); try reflexivity.
  eapply IH; [lia|exact H].
Qed.

Theorem parse_driver_total_correct : forall (input : list Z) (fuel : nat), (parse_fuel (length input) <= fuel)%nat ->
  exists c', run the_tables fuel (init input) = OAccept c' \/ run the_tables fuel (init input) = OReject c'.
Proof.
  intros input fuel Hf. destruct (parse_driver_terminates input) as [c' H]. exists c'.
  rewrite (run_more the_tables _ fuel _ c' Hf H). exact H.
Qed.
