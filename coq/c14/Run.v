(* C14 correspondence: one harness line -> verdict ("ok", (bad <expected>) or hyp-violated).
   Line forms (harness/c14/main.go):
     (length S I) (slice S i j I) (at S i I) (indices S X I) (index S X I) (rindex S X I)
     (match RE FLAGS S NAMES XS I) (splits RE FLAGS S XS I) (gsubid RE FLAGS S XS I)
     (test RE FLAGS S MS XS1 XSALL I) (capture RE FLAGS S NAMES XS I) (scan RE FLAGS S XSALL I)
     (split2 RE FLAGS S XSALL I)
   MS = Regexp.MatchString; XS1 / XSALL = FindAllStringSubmatchIndex(S, 1) / (S, -1).
   Every engine output is first checked against the hypotheses of the theorems (alignedb, orderedb,
   progressb, names_nodupb, MatchString = a first match exists, XS1 = first of XSALL); a failure gives
   the verdict hyp-violated.
   S, X, RE, FLAGS strings; i, j integers or null; NAMES = regexp.SubexpNames() as an array of strings;
   XS = regexp.FindAllStringSubmatchIndex(S, n) as an array of arrays of integers, obtained by the harness
   from Go's regexp with gojq's flag translation; I = what the implementation returned. *)
From Coq Require Import List ZArith NArith Bool String.
From Verif Require Import common.Sexp c13.Utf8 c13.Codec c13.Jv c13.Run c14.Pos.
Import ListNotations.
Open Scope Z_scope.

Definition opt_index (v : jv) : option (option Z) :=
  match v with JNull => Some None | JInt z => Some (Some z) | _ => None end.

Definition nat_jv (n : nat) : jv := JInt (Z.of_nat n).
Definition optnat_jv (o : option nat) : jv := match o with Some n => nat_jv n | None => JNull end.

Fixpoint zs_of (l : list jv) : option (list Z) :=
  match l with
  | [] => Some []
  | JInt z :: r => option_map (cons z) (zs_of r)
  | _ => None
  end.
Fixpoint zss_of (l : list jv) : option (list (list Z)) :=
  match l with
  | [] => Some []
  | JArr x :: r => match zs_of x, zss_of r with Some a, Some b => Some (a :: b) | _, _ => None end
  | _ => None
  end.

Fixpoint all_some {A} (l : list (option A)) : option (list A) :=
  match l with
  | [] => Some []
  | Some a :: r => option_map (cons a) (all_some r)
  | None :: _ => None
  end.

Definition run14 (k : sexp) (args : list jv) : option (res jv) :=
  if atom_is "length" k then
    match args with [JStr s] => Some (ROk (JInt (str_length s))) | _ => None end
  else if atom_is "slice" k then
    match args with
    | [JStr s; i; j] => match opt_index i, opt_index j with
                        | Some i, Some j => Some (ROk (JStr (slice_string s i j)))
                        | _, _ => None
                        end
    | _ => None
    end
  else if atom_is "at" k then
    match args with [JStr s; JInt i] => Some (ROk (jstr (index_string s i))) | _ => None end
  else if atom_is "indices" k then
    match args with [JStr s; JStr x] => Some (ROk (JArr (map nat_jv (indices_str s x)))) | _ => None end
  else if atom_is "index" k then
    match args with [JStr s; JStr x] => Some (ROk (optnat_jv (index_str s x))) | _ => None end
  else if atom_is "rindex" k then
    match args with [JStr s; JStr x] => Some (ROk (optnat_jv (rindex_str s x))) | _ => None end
  else None.

Definition run_match (args : list jv) (impl : sexp) : sexp :=
  match args with
  | [_; _; JStr s; JArr names; JArr xs] =>
      match strs_of names, zss_of xs with
      | Some names, Some xs =>
          if forallb (alignedb s) xs && orderedb s xs && progressb xs && names_nodupb names then
            match all_some (func_match s xs) with
            | Some ms => agree (ROk (JArr (map (match_jv names) ms))) impl
            | None => A "hyp-violated"
            end
          else A "hyp-violated"
      | _, _ => A "undecodable"
      end
  | _ => A "undecodable"
  end.

(* [splits(re; flags)] and gsub("(?<zz>" + re + ")"; .zz; flags) through the hand transcriptions of
   builtin.jq, fed with the whole-match index pairs (XS is the global result for splits) *)
Definition run_reduction (is_splits : bool) (args : list jv) (impl : sexp) : sexp :=
  match args with
  | [_; _; JStr s; JArr xs] =>
      match zss_of xs with
      | Some xs =>
          if forallb (alignedb s) xs && orderedb s xs && progressb xs then
            let rep := reported s xs in
            if is_splits then
              agree (ROk (JArr (map JStr (splits s (map (fun t => (fst (fst t), snd (fst t))) rep))))) impl
            else agree (ROk (JStr (sub_with s rep))) impl
          else A "hyp-violated"
      | None => A "undecodable"
      end
  | _ => A "undecodable"
  end.

Fixpoint zss_eqb (a b : list (list Z)) : bool :=
  match a, b with
  | [], [] => true
  | x :: a', y :: b' =>
      (fix eq (x y : list Z) : bool :=
         match x, y with
         | [], [] => true
         | u :: x', v :: y' => (u =? v) && eq x' y'
         | _, _ => false
         end) x y && zss_eqb a' b'
  | _, _ => false
  end.

Definition hyps_ok (s : list N) (xs : list (list Z)) : bool :=
  forallb (alignedb s) xs && orderedb s xs && progressb xs.

(* test / capture / scan / split/2 through their transcriptions *)
Definition run_builtin (k : sexp) (args : list jv) (impl : sexp) : sexp :=
  if atom_is "test" k then
    match args with
    | [_; _; JStr s; JBool ms; JArr xs1; JArr xsall] =>
        match zss_of xs1, zss_of xsall with
        | Some xs1, Some xsall =>
            if hyps_ok s xsall && Bool.eqb ms (negb (match xs1 with [] => true | _ => false end))
               && zss_eqb xs1 (firstn 1 xsall)
            then agree (ROk (jq_test ms)) impl else A "hyp-violated"
        | _, _ => A "undecodable"
        end
    | _ => A "undecodable"
    end
  else if atom_is "capture" k then
    match args with
    | [_; _; JStr s; JArr names; JArr xs] =>
        match strs_of names, zss_of xs with
        | Some names, Some xs =>
            if hyps_ok s xs && names_nodupb names then
              match all_some (func_match s xs) with
              | Some ms => agree (ROk (JArr (map (jq_capture names) ms))) impl
              | None => A "hyp-violated"
              end
            else A "hyp-violated"
        | _, _ => A "undecodable"
        end
    | _ => A "undecodable"
    end
  else if atom_is "scan" k then
    match args with
    | [_; _; JStr s; JArr xs] =>
        match zss_of xs with
        | Some xs =>
            if hyps_ok s xs then
              match all_some (func_match s xs) with
              | Some ms => agree (ROk (JArr (map jq_scan ms))) impl
              | None => A "hyp-violated"
              end
            else A "hyp-violated"
        | None => A "undecodable"
        end
    | _ => A "undecodable"
    end
  else
    match args with
    | [_; _; JStr s; JArr xs] =>
        match zss_of xs with
        | Some xs =>
            if hyps_ok s xs then
              agree (ROk (jq_split2 s (map (fun t => (fst (fst t), snd (fst t))) (reported s xs)))) impl
            else A "hyp-violated"
        | None => A "undecodable"
        end
    | _ => A "undecodable"
    end.

Definition run_sexp14 (e : sexp) : sexp :=
  match e with
  | SList (k :: rest) =>
      match rev rest with
      | impl :: rargs =>
          match dec_all (rev rargs) with
          | Some args =>
              if atom_is "match" k then run_match args impl
              else if atom_is "splits" k then run_reduction true args impl
              else if atom_is "gsubid" k then run_reduction false args impl
              else if atom_is "test" k || atom_is "capture" k || atom_is "scan" k || atom_is "split2" k
              then run_builtin k args impl
              else match run14 k args with
                   | Some r => agree r impl
                   | None => A "undecodable"
                   end
          | None => A "undecodable"
          end
      | [] => A "undecodable"
      end
  | _ => A "undecodable"
  end.

Definition run_line (l : list N) : list N :=
  match parse l with
  | Some e => print (run_sexp14 e)
  | None => codes "unparsable"
  end.
