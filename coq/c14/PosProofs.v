(* C14 proofs: positions are code points. *)
From Coq Require Import List NArith ZArith Bool Lia Arith.
From Verif Require Import c13.Tac c13.Utf8 c13.Utf8Proofs c13.Codec c13.Jv c13.JvProofs c14.Pos.
Import ListNotations.
Open Scope Z_scope.

Lemma byte_offset_offs : forall s k, byte_offset s k = offs s k.
Proof. reflexivity. Qed.

Lemma sub_bytes_eq : forall s a b, Pos.sub_bytes s a b = Utf8Proofs.sub_bytes s a b.
Proof. reflexivity. Qed.

(* ------------------------------------------------------------------ length *)

Lemma length_is_explode_length : forall s, str_length s = len (explode s).
Proof. intros s. unfold str_length, len. rewrite count_runes_explode. reflexivity. Qed.

Lemma nrunes : forall s, count_runes s = length (runes s).
Proof. intros s. rewrite count_runes_explode. unfold explode. apply map_length. Qed.

(* ------------------------------------------------------------------ slicing *)

Lemma clamp_range : forall i mn mx, mn <= mx -> mn <= clamp_index i mn mx <= mx.
Proof. intros. unfold clamp_index. split_ifs; lia. Qed.

Lemma clamp_id : forall z mn mx, 0 <= z -> mn <= z <= mx -> clamp_index z mn mx = z.
Proof. intros. unfold clamp_index. split_ifs; lia. Qed.

Lemma slice_bounds_range : forall l i j, 0 <= l ->
  let '(start, stop) := slice_bounds l i j in 0 <= start <= stop /\ stop <= l.
Proof.
  intros l i j Hl. unfold slice_bounds.
  assert (S : 0 <= match i with Some i => clamp_index i 0 l | None => 0 end <= l).
  { destruct i; [apply clamp_range; lia | lia]. }
  destruct j as [j|]; [|lia].
  pose proof (clamp_range j (match i with Some i => clamp_index i 0 l | None => 0 end) l ltac:(lia)). lia.
Qed.

Lemma bound_offset : forall s k, 0 <= k <= str_length s ->
  (if k <? str_length s then byte_offset s (Z.to_nat k) else length s) = offs s (Z.to_nat k).
Proof.
  intros s k H. destruct (k <? str_length s) eqn:C; [reflexivity|].
  assert (k = str_length s) by lia. subst k. unfold str_length. rewrite Nat2Z.id, nrunes.
  symmetry. apply offs_total.
Qed.

(* .[i:j] on a string is .[i:j] on its code points, for every byte string *)
Lemma slice_string_explode : forall s i j, explode (slice_string s i j) = slice_list (explode s) i j.
Proof.
  intros s i j. unfold slice_string, slice_list. rewrite <- length_is_explode_length.
  pose proof (slice_bounds_range (str_length s) i j ltac:(unfold str_length; lia)) as B.
  destruct (slice_bounds (str_length s) i j) as [start stop]. destruct B as [B1 B2].
  rewrite !bound_offset by lia. rewrite sub_bytes_eq.
  rewrite explode_sub_offs by lia. reflexivity.
Qed.

Lemma slice_string_runes : forall s i j, runes (slice_string s i j) = slice_list (runes s) i j.
Proof.
  intros s i j. unfold slice_string, slice_list.
  replace (len (runes s)) with (str_length s) by (unfold str_length, len; rewrite nrunes; reflexivity).
  pose proof (slice_bounds_range (str_length s) i j ltac:(unfold str_length; lia)) as B.
  destruct (slice_bounds (str_length s) i j) as [start stop]. destruct B as [B1 B2].
  rewrite !bound_offset by lia. rewrite sub_bytes_eq.
  rewrite runes_sub_offs by lia. reflexivity.
Qed.

(* ------------------------------------------------------------------ .[i] *)

Lemma explode_encode1 : forall c, scalar c -> explode (encode c) = [c].
Proof.
  intros c H. pose proof (explode_encode_all [c] (Forall_cons c H (Forall_nil _))) as E.
  unfold encode_all in E. cbn [flat_map] in E. rewrite app_nil_r in E. exact E.
Qed.

Lemma index_string_explode : forall s i,
  option_map explode (index_string s i) = option_map (fun c => [c]) (index_list (explode s) i).
Proof.
  intros s i. unfold index_string, index_list. rewrite <- length_is_explode_length.
  set (k := clamp_index i (-1) (str_length s)).
  destruct ((0 <=? k) && (k <? str_length s)) eqn:C; [|reflexivity].
  apply andb_true_iff in C. destruct C as [C1 C2].
  assert (L : (Z.to_nat k < length (explode s))%nat).
  { rewrite length_is_explode_length in C2. unfold len in C2. lia. }
  rewrite (nth_error_nth' (explode s) 0%N L). cbn [option_map]. f_equal.
  apply explode_encode1. pose proof (explode_scalar s) as F. rewrite Forall_forall in F.
  apply F. apply nth_In. exact L.
Qed.

(* ------------------------------------------------------------------ indices / index / rindex *)

Lemma list_eqb_eq : forall a b, list_eqb a b = true <-> a = b.
Proof.
  induction a as [|x a IH]; intros [|y b]; cbn; split; intros H; try discriminate; try reflexivity.
  - apply andb_true_iff in H. destruct H as [E H]. apply N.eqb_eq in E. apply IH in H. subst. reflexivity.
  - injection H as -> ->. rewrite N.eqb_refl. apply IH. reflexivity.
Qed.

(* i is reported iff the needle is non-empty and occurs at code point position i *)
Lemma indices_list_spec : forall vs xs i,
  In i (indices_list vs xs) <->
  xs <> [] /\ (i + length xs <= length vs)%nat /\ firstn (length xs) (skipn i vs) = xs.
Proof.
  intros vs xs i. unfold indices_list. destruct xs as [|x xs'].
  - split; [contradiction | intros [H _]; congruence].
  - set (xs := x :: xs'). rewrite filter_In. unfold positions, match_at.
    destruct (length vs <? length xs)%nat eqn:C.
    + apply Nat.ltb_lt in C. split; [intros [[] _]|]. intros [_ [L _]]. lia.
    + apply Nat.ltb_ge in C. rewrite in_seq, list_eqb_eq. split.
      * intros [R E]. repeat split; [discriminate | lia | exact E].
      * intros [_ [L E]]. split; [lia | exact E].
Qed.

Lemma find_filter_hd : forall A (f : A -> bool) l, find f l = hd_error (filter f l).
Proof.
  intros A f. induction l as [|a l IH]; [reflexivity|]. cbn. destruct (f a); [reflexivity | exact IH].
Qed.

(* index is the first reported position, rindex the last *)
Lemma index_first_spec : forall vs xs, index_first vs xs = hd_error (indices_list vs xs).
Proof. intros vs [|x xs]; [reflexivity|]. unfold index_first, indices_list. apply find_filter_hd. Qed.

Lemma filter_rev : forall A (f : A -> bool) l, filter f (rev l) = rev (filter f l).
Proof.
  intros A f. induction l as [|a l IH]; [reflexivity|]. cbn [rev filter]. rewrite filter_app, IH. cbn [filter].
  destruct (f a); [reflexivity | rewrite app_nil_r; reflexivity].
Qed.

Lemma index_last_spec : forall vs xs, index_last vs xs = hd_error (rev (indices_list vs xs)).
Proof.
  intros vs [|x xs]; [reflexivity|]. unfold index_last, indices_list.
  rewrite find_filter_hd, filter_rev. reflexivity.
Qed.

(* ------------------------------------------------------------------ valid UTF-8: slices stay valid *)

Lemma runes_encode_all : forall cs, Forall scalar cs ->
  runes (encode_all cs) = map (fun c => (c, length (encode c))) cs.
Proof.
  induction 1 as [|c cs Hc Hcs IH]; [reflexivity|].
  unfold encode_all in *. cbn [flat_map map]. rewrite runes_encode_app by exact Hc. f_equal. exact IH.
Qed.

Lemma encode_all_app : forall a b, encode_all (a ++ b) = encode_all a ++ encode_all b.
Proof. intros. unfold encode_all. apply flat_map_app. Qed.

Lemma offs_encode_all : forall cs k, Forall scalar cs ->
  offs (encode_all cs) k = length (encode_all (firstn k cs)).
Proof.
  intros cs k H. unfold offs, widths. rewrite (runes_encode_all cs H), map_map. cbn [snd].
  revert k. induction cs as [|c cs IH]; intros k; [destruct k; reflexivity|].
  destruct k as [|k]; [reflexivity|]. cbn [map firstn]. rewrite list_sum_cons.
  unfold encode_all in *. cbn [flat_map]. rewrite app_length.
  apply Forall_cons_iff in H. destruct H as [_ H]. rewrite (IH H k). reflexivity.
Qed.

Lemma firstn_offs_encode_all : forall cs k, Forall scalar cs ->
  firstn (offs (encode_all cs) k) (encode_all cs) = encode_all (firstn k cs).
Proof.
  intros cs k H. rewrite (offs_encode_all cs k H).
  rewrite <- (firstn_skipn k cs) at 2. rewrite encode_all_app, firstn_app, Nat.sub_diag, firstn_all.
  cbn [firstn]. apply app_nil_r.
Qed.

Lemma skipn_offs_encode_all : forall cs k, Forall scalar cs ->
  skipn (offs (encode_all cs) k) (encode_all cs) = encode_all (skipn k cs).
Proof.
  intros cs k H. rewrite (offs_encode_all cs k H).
  rewrite <- (firstn_skipn k cs) at 2. rewrite encode_all_app, skipn_app, Nat.sub_diag, skipn_all.
  reflexivity.
Qed.

Lemma Forall_firstn : forall A (P : A -> Prop) n l, Forall P l -> Forall P (firstn n l).
Proof.
  intros A P n l H. rewrite Forall_forall in *. intros x Hx. apply H.
  rewrite <- (firstn_skipn n l). apply in_or_app. left. exact Hx.
Qed.
Lemma Forall_skipn : forall A (P : A -> Prop) n l, Forall P l -> Forall P (skipn n l).
Proof.
  intros A P n l H. rewrite Forall_forall in *. intros x Hx. apply H.
  rewrite <- (firstn_skipn n l). apply in_or_app. right. exact Hx.
Qed.

Lemma valid_sub_offs : forall s j k, valid_utf8 s -> (j <= k)%nat ->
  valid_utf8 (Utf8Proofs.sub_bytes s (offs s j) (offs s k)).
Proof.
  intros s j k [cs [H E]] L. subst s. unfold Utf8Proofs.sub_bytes.
  exists (firstn (k - j) (skipn j cs)). split; [apply Forall_firstn, Forall_skipn; exact H|].
  pose proof (offs_skipn j (k - j) (encode_all cs)) as O. replace (j + (k - j))%nat with k in O by lia.
  replace (offs (encode_all cs) k - offs (encode_all cs) j)%nat
    with (offs (skipn (offs (encode_all cs) j) (encode_all cs)) (k - j)) by lia.
  rewrite (skipn_offs_encode_all cs j H).
  apply firstn_offs_encode_all. apply Forall_skipn. exact H.
Qed.

Lemma valid_slice : forall s i j, valid_utf8 s -> valid_utf8 (slice_string s i j).
Proof.
  intros s i j V. unfold slice_string.
  pose proof (slice_bounds_range (str_length s) i j ltac:(unfold str_length; lia)) as B.
  destruct (slice_bounds (str_length s) i j) as [start stop]. destruct B as [B1 B2].
  rewrite !bound_offset by lia. rewrite sub_bytes_eq. apply valid_sub_offs; [exact V | lia].
Qed.

(* on valid UTF-8, a position reported by indices is where slicing finds the needle again *)
Lemma indices_slice : forall s x i, valid_utf8 s -> valid_utf8 x -> In i (indices_str s x) ->
  slice_string s (Some (Z.of_nat i)) (Some (Z.of_nat i + str_length x)) = x.
Proof.
  intros s x i Vs Vx H. unfold indices_str in H. apply indices_list_spec in H. destruct H as [_ [L E]].
  apply explode_inj_valid; [apply valid_slice; exact Vs | exact Vx|].
  rewrite slice_string_explode. unfold slice_list, slice_bounds.
  rewrite length_is_explode_length. unfold len.
  rewrite (clamp_id (Z.of_nat i) 0) by lia. rewrite clamp_id by lia.
  replace (Z.to_nat (Z.of_nat i + Z.of_nat (length (explode x))) - Z.to_nat (Z.of_nat i))%nat
    with (length (explode x)) by lia.
  rewrite Nat2Z.id. exact E.
Qed.

(* ------------------------------------------------------------------ match *)

Definition boundary (s : list N) (b : Z) : Prop :=
  exists k, (k <= count_runes s)%nat /\ b = Z.of_nat (offs s k).

Lemma boundaryb_spec : forall s b, boundaryb s b = true <-> boundary s b.
Proof.
  intros s b. unfold boundaryb, boundary. rewrite existsb_exists. split.
  - intros [k [I E]]. apply in_seq in I. exists k. split; [lia|]. rewrite byte_offset_offs in E. lia.
  - intros [k [L E]]. exists k. split; [apply in_seq; lia|]. rewrite byte_offset_offs. lia.
Qed.

Lemma conv_pair_ok : forall s b0 b1, boundary s b0 -> boundary s b1 -> b0 <= b1 -> mrec_ok s (conv_pair s b0 b1).
Proof.
  intros s b0 b1 [k0 [L0 E0]] [k1 [L1 E1]] Hle.
  (* without loss of generality k0 <= k1 *)
  assert (G : exists k0', (k0' <= k1)%nat /\ b0 = Z.of_nat (offs s k0')).
  { destruct (Nat.le_gt_cases k0 k1) as [C | C]; [exists k0; split; assumption|].
    exists k1. split; [lia|]. pose proof (offs_mono_le s k1 k0 ltac:(lia)). lia. }
  clear k0 L0 E0. destruct G as [k0 [L0 E0]]. subst b0 b1.
  unfold mrec_ok, conv_pair. cbn [m_string m_offset m_length]. rewrite !Nat2Z.id.
  rewrite !count_firstn_offs by (rewrite <- nrunes; lia).
  unfold slice_string, slice_bounds.
  assert (Hl : str_length s = Z.of_nat (count_runes s)) by reflexivity.
  rewrite (clamp_id (Z.of_nat k0) 0) by lia.
  replace (Z.of_nat k0 + (Z.of_nat k1 - Z.of_nat k0)) with (Z.of_nat k1) by lia.
  rewrite clamp_id by lia.
  rewrite !bound_offset by lia. rewrite !Nat2Z.id. reflexivity.
Qed.

Lemma pair_okb_spec : forall s a b, pair_okb s (a, b) = true ->
  (a = -1 /\ b = -1) \/ (0 <= a /\ a <= b /\ boundary s a /\ boundary s b).
Proof.
  intros s a b H. unfold pair_okb in H. apply orb_true_iff in H. destruct H as [H | H].
  - apply andb_true_iff in H. left. lia.
  - repeat (apply andb_true_iff in H; destruct H as [H ?]). right.
    repeat split; try lia; apply boundaryb_spec; assumption.
Qed.

Lemma conv_capture_ok : forall s a b, pair_okb s (a, b) = true -> mrec_ok s (conv_capture s a b).
Proof.
  intros s a b H. apply pair_okb_spec in H. unfold conv_capture. destruct H as [[-> ->] | [H0 [H1 [B0 B1]]]].
  - cbn. split; reflexivity.
  - replace (a <? 0) with false by (symmetry; lia). apply conv_pair_ok; assumption.
Qed.

Lemma conv_match_ok : forall s x, alignedb s x = true ->
  exists m caps, conv_match s x = Some (m, caps) /\ mrec_ok s m /\ Forall (mrec_ok s) caps.
Proof.
  intros s x H. unfold alignedb, conv_match in *. destruct (pairs_of x) as [|[a b] caps]; [discriminate|].
  apply andb_true_iff in H. destruct H as [H Hc]. apply andb_true_iff in H. destruct H as [H0 Hp].
  eexists. eexists. split; [reflexivity|]. split.
  - apply pair_okb_spec in Hp. destruct Hp as [[-> _] | [_ [H1 [B0 B1]]]]; [discriminate|].
    apply conv_pair_ok; assumption.
  - apply Forall_map. rewrite forallb_forall in Hc. apply Forall_forall. intros [c d] I.
    apply conv_capture_ok. exact (Hc _ I).
Qed.

Section Match.
  (* the regexp engine: (regex, flags, subject, global?) -> FindAllStringSubmatchIndex result *)
  Variable re : list N -> list N -> list N -> bool -> list (list Z).
  (* what Go's regexp guarantees: every reported pair is either (-1,-1) (group did not participate) or
     ordered, in range and on rune boundaries of the subject; the whole match always participates *)
  Hypothesis re_aligned : forall r f s g x, In x (re r f s g) -> alignedb s x = true.

  Definition jq_match (r f s : list N) (g : bool) := func_match s (re r f s g).

  (* every (offset, length, string) reported by match satisfies: slicing the subject by code points
     [offset, offset+length) gives string; non-participating groups report (-1, 0, null) *)
  Lemma match_slice : forall r f s g o, In o (jq_match r f s g) ->
    exists m caps, o = Some (m, caps) /\ mrec_ok s m /\ Forall (mrec_ok s) caps.
  Proof.
    intros r f s g o H. unfold jq_match, func_match in H. apply in_map_iff in H.
    destruct H as [x [E I]]. subst o. apply conv_match_ok. exact (re_aligned _ _ _ _ _ I).
  Qed.
End Match.
