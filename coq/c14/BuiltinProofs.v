(* C14: test / capture / scan / split/2 over their transcriptions, and termination + ordering of the global
   match loop (c14/Pos.v). *)
From Coq Require Import List NArith ZArith Bool Lia Arith.
From Verif Require Import c13.Tac c13.Utf8 c13.Utf8Proofs c13.Codec c13.Jv c13.JvProofs c14.Pos c14.PosProofs c14.RegexProofs.
Import ListNotations.
Open Scope Z_scope.

(* ------------------------------------------------------------------ capture *)

Lemma lookup_oset_other : forall k k' u m, bytes_eqb k k' = false -> lookup k (oset k' u m) = lookup k m.
Proof.
  intros k k' u. induction m as [|[k1 v] r IH]; intros H.
  - cbn [oset lookup]. rewrite H. reflexivity.
  - cbn [oset]. destruct (bytes_eqb k' k1) eqn:E.
    + apply bytes_eqb_eq in E. subst k1. cbn [lookup]. rewrite H. reflexivity.
    + destruct (bytes_ltb k' k1); cbn [lookup]; [rewrite H; reflexivity|].
      destruct (bytes_eqb k k1); [reflexivity | exact (IH H)].
Qed.

Definition cap_step (acc : list (str * jv)) (nc : list N * mrec) : list (str * jv) :=
  match fst nc with [] => acc | _ => oset (fst nc) (jstr (m_string (snd nc))) acc end.

Lemma captures_obj_fold : forall names caps, captures_obj names caps = fold_left cap_step (combine names caps) [].
Proof. reflexivity. Qed.

Lemma fold_preserves_lookup : forall n l acc, (forall nc, In nc l -> fst nc <> n) ->
  lookup n (fold_left cap_step l acc) = lookup n acc.
Proof.
  intros n. induction l as [|[n' c'] l IH]; intros acc H; [reflexivity|].
  cbn [fold_left]. rewrite IH by (intros nc I; apply H; right; exact I).
  unfold cap_step. cbn [fst snd]. destruct n' as [|x n']; [reflexivity|].
  apply lookup_oset_other. destruct (bytes_eqb n (x :: n')) eqn:E; [|reflexivity].
  apply bytes_eqb_eq in E. exfalso. apply (H (x :: n', c') (or_introl eq_refl)). cbn. congruence.
Qed.

Lemma combine_app_eq : forall (A B : Type) (a1 a2 : list A) (b1 b2 : list B), length a1 = length b1 ->
  combine (a1 ++ a2) (b1 ++ b2) = combine a1 b1 ++ combine a2 b2.
Proof.
  induction a1 as [|x a1 IH]; intros a2 [|y b1] b2 L; try discriminate; [reflexivity|].
  cbn [app combine]. f_equal. apply IH. cbn in L. lia.
Qed.

(* capture surfaces every named group under its name: the string of the group, null when the group did
   not participate ([m_string] = None); regexp rejects duplicate names, so no later group has name n *)
Lemma capture_named : forall ns1 n ns2 cs1 c cs2,
  length ns1 = length cs1 -> n <> [] -> ~ In n ns2 ->
  lookup n (captures_obj (ns1 ++ n :: ns2) (cs1 ++ c :: cs2)) = Some (jstr (m_string c)).
Proof.
  intros ns1 n ns2 cs1 c cs2 L Hn Hnot. rewrite captures_obj_fold.
  rewrite combine_app_eq by exact L. cbn [combine]. rewrite fold_left_app. cbn [fold_left].
  rewrite fold_preserves_lookup.
  - unfold cap_step at 1. cbn [fst snd]. destruct n as [|x n]; [congruence|]. apply lookup_oset_same.
  - intros [n' c'] I E. cbn [fst] in E. subst n'. apply in_combine_l in I. exact (Hnot I).
Qed.

(* only names of groups appear *)
Lemma captures_obj_keys : forall names caps k v, In (k, v) (captures_obj names caps) -> In k names.
Proof.
  intros names caps k v. rewrite captures_obj_fold.
  assert (G : forall l acc, In (k, v) (fold_left cap_step l acc) ->
              In (k, v) acc \/ exists nc, In nc l /\ fst nc = k).
  { induction l as [|[n' c'] l IH]; intros acc H; [left; exact H|].
    cbn [fold_left] in H. destruct (IH _ H) as [H1 | [nc [I E]]].
    - unfold cap_step in H1. cbn [fst snd] in H1. destruct n' as [|x n']; [left; exact H1|].
      assert (Q : forall m, In (k, v) (oset (x :: n') (jstr (m_string c')) m) -> In (k, v) m \/ k = x :: n').
      { induction m as [|[k1 v1] r IHm]; cbn [oset]; intros Hin.
        - destruct Hin as [Hin | []]. right. congruence.
        - destruct (bytes_eqb (x :: n') k1) eqn:E.
          + destruct Hin as [Hin | Hin]; [right; congruence | left; right; exact Hin].
          + destruct (bytes_ltb (x :: n') k1).
            * destruct Hin as [Hin | Hin]; [right; congruence | left; exact Hin].
            * destruct Hin as [Hin | Hin]; [left; left; exact Hin|].
              destruct (IHm Hin) as [G1 | G2]; [left; right; exact G1 | right; exact G2]. }
      destruct (Q _ H1) as [Q1 | Q2]; [left; exact Q1|].
      right. exists (x :: n', c'). split; [left; reflexivity | cbn; congruence].
    - right. exists nc. split; [right; exact I | exact E]. }
  intros H. destruct (G _ _ H) as [[] | [nc [I E]]]. destruct nc as [n' c']. cbn [fst] in E. subst n'.
  exact (in_combine_l _ _ _ _ I).
Qed.

(* ------------------------------------------------------------------ scan, split/2 *)

(* without groups scan yields the matched strings; with groups the array of the capture strings *)
Lemma scan_no_groups : forall m, jq_scan (m, []) = jstr (m_string m).
Proof. reflexivity. Qed.

Lemma scan_groups : forall m c caps, jq_scan (m, c :: caps) = JArr (map (fun c => jstr (m_string c)) (c :: caps)).
Proof. reflexivity. Qed.

Lemma scan_strings : forall mcs, Forall (fun mc => snd mc = []) mcs ->
  map jq_scan mcs = map (fun mc => jstr (m_string (fst mc))) mcs.
Proof.
  induction 1 as [|[m caps] l H F IH]; [reflexivity|]. cbn [map]. cbn [snd] in H. subst caps. f_equal. exact IH.
Qed.

Lemma split2_is_splits : forall s ms, jq_split2 s ms = JArr (map JStr (splits s ms)).
Proof. reflexivity. Qed.

(* ------------------------------------------------------------------ test *)

Section Test.
  Variable re : list N -> list N -> list N -> bool -> list (list Z).
  Variable re_test : list N -> list N -> list N -> bool.      (* Regexp.MatchString *)
  (* MatchString reports whether there is a first match; FindAll(s, 1) is the first global match *)
  Hypothesis re_test_first : forall r f s, re_test r f s = negb (match re r f s false with [] => true | _ => false end).
  Hypothesis re_first : forall r f s, re r f s false = firstn 1 (re r f s true).

  (* test holds iff a match exists, with or without the g flag *)
  Lemma test_iff_match : forall r f s g,
    jq_test (re_test r f s) = JBool true <-> jq_match re r f s g <> [].
  Proof.
    intros r f s g. unfold jq_test, jq_match, func_match. rewrite re_test_first.
    assert (E : (re r f s false = []) <-> (re r f s g = [])).
    { destruct g; [|tauto]. rewrite re_first. destruct (re r f s true); cbn; split; congruence. }
    destruct (re r f s false) eqn:E0; cbn [negb].
    - split; [discriminate|]. intros H. exfalso. apply H. rewrite (proj1 E eq_refl). reflexivity.
    - split; [|reflexivity]. intros _ H. apply map_eq_nil in H. apply E in H. discriminate.
  Qed.
End Test.

(* ------------------------------------------------------------------ the global loop terminates *)

Section Loop.
  Variable exec : list N -> nat -> option (list Z).
  (* re_progress: a match found when searching from pos lies between pos and the end of the subject *)
  Hypothesis exec_progress : forall s pos m, (pos <= length s)%nat -> exec s pos = Some m ->
    Z.of_nat pos <= fst (whole m) /\ fst (whole m) <= snd (whole m) /\ snd (whole m) <= Z.of_nat (length s).

  Lemma width_bound : forall s pos, (pos < length s)%nat ->
    (1 <= snd (dec (skipn pos s)) /\ pos + snd (dec (skipn pos s)) <= length s)%nat.
  Proof.
    intros s pos H. pose proof (dec_width (skipn pos s)) as W.
    assert (Hne : skipn pos s <> []).
    { intro E. apply (f_equal (@length N)) in E. rewrite skipn_length in E. cbn in E. lia. }
    pose proof (dec_width_le _ Hne) as L. rewrite skipn_length in L. lia.
  Qed.

  (* the position strictly advances and never passes end + 1, so [length s + 2 - pos] steps suffice:
     the fuel never runs out, whatever empty matches the engine reports *)
  Lemma all_matches_fuel : forall s fuel limit pos prev,
    (pos <= length s + 1)%nat -> (length s + 2 <= fuel + pos)%nat ->
    snd (all_matches exec s fuel limit pos prev) = false.
  Proof.
    intros s. induction fuel as [|fuel IH]; intros limit pos prev Hp Hf; [lia|].
    cbn [all_matches]. destruct limit as [|lim']; [reflexivity|].
    destruct (length s <? pos)%nat eqn:C; [reflexivity|]. apply Nat.ltb_ge in C.
    destruct (exec s pos) as [m|] eqn:E; [|reflexivity].
    destruct (exec_progress s pos m C E) as [P1 [P2 P3]]. destruct (whole m) as [a b]. cbn [fst snd] in *.
    set (pos' := if b =? Z.of_nat pos
                 then (if (pos <? length s)%nat then pos + snd (dec (skipn pos s)) else length s + 1)%nat
                 else Z.to_nat b).
    assert (Hpos' : (pos < pos' <= length s + 1)%nat).
    { unfold pos'. destruct (b =? Z.of_nat pos) eqn:B.
      - destruct (pos <? length s)%nat eqn:D.
        + apply Nat.ltb_lt in D. pose proof (width_bound s pos D). lia.
        + apply Nat.ltb_ge in D. lia.
      - lia. }
    specialize (IH (if negb ((b =? Z.of_nat pos) && (a =? prev)) then lim' else S lim') pos' b ltac:(lia) ltac:(lia)).
    destruct (all_matches exec s fuel _ pos' b) as [rest ex]. cbn [snd] in *. exact IH.
  Qed.

  Lemma all_matches_terminates : forall s limit,
    snd (all_matches exec s (length s + 2) limit 0 (-1)) = false.
  Proof. intros. apply all_matches_fuel; lia. Qed.

  Lemma ordered_from_weaken : forall ps p p' stop, p <= p' -> ordered_from p' ps stop = true -> ordered_from p ps stop = true.
  Proof.
    intros [|[a b] r] p p' stop H O; cbn [ordered_from] in *; [lia|].
    apply andb_true_iff in O. destruct O as [O1 O2]. apply andb_true_iff in O1.
    apply andb_true_iff. split; [apply andb_true_iff; lia | exact O2].
  Qed.

  (* what the loop delivers is ordered (re_ordered) and its ends strictly increase (at most len+1 matches) *)
  Lemma all_matches_ordered : forall s fuel limit pos prev q,
    (pos <= length s + 1)%nat -> prev <= Z.of_nat pos -> q <= Z.of_nat pos -> q <= Z.of_nat (length s) ->
    let out := fst (all_matches exec s fuel limit pos prev) in
    ordered_from q (map whole out) (Z.of_nat (length s)) = true /\ ends_increasing prev (map whole out) = true.
  Proof.
    intros s. induction fuel as [|fuel IH]; intros limit pos prev q Hp Hprev Hq Hql; cbv zeta.
    { cbn. split; [lia | reflexivity]. }
    cbn [all_matches]. destruct limit as [|lim']; [cbn; split; [lia | reflexivity]|].
    destruct (length s <? pos)%nat eqn:C; [cbn; split; [lia | reflexivity]|]. apply Nat.ltb_ge in C.
    destruct (exec s pos) as [m|] eqn:E; [|cbn; split; [lia | reflexivity]].
    destruct (exec_progress s pos m C E) as [P1 [P2 P3]]. destruct (whole m) as [a b] eqn:W. cbn [fst snd] in *.
    set (pos' := if b =? Z.of_nat pos
                 then (if (pos <? length s)%nat then pos + snd (dec (skipn pos s)) else length s + 1)%nat
                 else Z.to_nat b).
    assert (Hpos' : (pos < pos' <= length s + 1)%nat /\ b <= Z.of_nat pos').
    { unfold pos'. destruct (b =? Z.of_nat pos) eqn:B.
      - destruct (pos <? length s)%nat eqn:D.
        + apply Nat.ltb_lt in D. pose proof (width_bound s pos D). lia.
        + apply Nat.ltb_ge in D. lia.
      - lia. }
    destruct Hpos' as [Hpos' Hb].
    set (accept := negb ((b =? Z.of_nat pos) && (a =? prev))).
    pose proof (IH (if accept then lim' else S lim') pos' b b ltac:(lia) Hb Hb P3) as IHb.
    pose proof (IH (if accept then lim' else S lim') pos' b q ltac:(lia) Hb ltac:(lia) Hql) as IHq.
    cbv zeta in IHb, IHq.
    destruct (all_matches exec s fuel _ pos' b) as [rest ex]. cbn [fst] in *.
    destruct accept eqn:A; cbn [fst map ordered_from ends_increasing].
    - rewrite W. destruct IHb as [O1 O2]. split.
      + apply andb_true_iff. split; [apply andb_true_iff; lia | exact O1].
      + apply andb_true_iff. split; [|exact O2].
        unfold accept in A. apply negb_true_iff in A. apply andb_false_iff in A. lia.
    - destruct IHq as [O1 O2]. split; [exact O1|].
      (* a rejected empty match at pos = prev: the next ends are beyond b = prev *)
      unfold accept in A. apply negb_false_iff in A. apply andb_true_iff in A.
      assert (b = prev) by lia. subst b. exact O2.
  Qed.

  Lemma find_all_ordered : forall s g, orderedb s (find_all exec s g) = true.
  Proof.
    intros s g. unfold orderedb, find_all.
    exact (proj1 (all_matches_ordered s _ _ 0%nat (-1) 0 ltac:(lia) ltac:(lia) ltac:(lia) ltac:(lia))).
  Qed.

  Lemma find_all_progress : forall s g, progressb (find_all exec s g) = true.
  Proof.
    intros s g. unfold progressb, find_all.
    exact (proj2 (all_matches_ordered s _ _ 0%nat (-1) 0 ltac:(lia) ltac:(lia) ltac:(lia) ltac:(lia))).
  Qed.
End Loop.

(* strictly increasing ends inside [0, len] bound the number of matches: the jq-level iterations over
   match (splits, sub, gsub, scan, capture) are over at most len + 1 elements *)
Lemma ends_increasing_count : forall ps prev stop, ends_increasing prev ps = true ->
  Forall (fun p => snd p <= stop) ps -> Z.of_nat (length ps) <= Z.max 0 (stop - prev).
Proof.
  induction ps as [|[a b] r IH]; intros prev stop H F; [cbn; lia|].
  cbn [ends_increasing] in H. apply andb_true_iff in H. destruct H as [H1 H2].
  apply Forall_cons_iff in F. destruct F as [Fb F]. cbn [snd] in Fb.
  specialize (IH b stop H2 F). cbn [length]. lia.
Qed.
