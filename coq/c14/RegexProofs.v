(* C14: the splits / sub / gsub reductions rebuild the subject (over the hand transcriptions in c14/Pos.v). *)
From Coq Require Import List NArith ZArith Bool Lia Arith.
From Verif Require Import c13.Tac c13.Utf8 c13.Utf8Proofs c13.Jv c13.JvProofs c14.Pos c14.PosProofs.
Import ListNotations.
Open Scope Z_scope.

(* ------------------------------------------------------------------ bytes: adjacent ranges concatenate *)

Lemma firstn_cat : forall (A : Type) a b (t : list A), firstn a t ++ firstn b (skipn a t) = firstn (a + b) t.
Proof.
  induction a as [|a IH]; intros b t; [reflexivity|].
  destruct t as [|x t]; [cbn; rewrite firstn_nil; reflexivity|]. cbn [firstn skipn app Nat.add]. f_equal. apply IH.
Qed.

Lemma sub_bytes_cat : forall s x y z, (x <= y <= z)%nat ->
  Pos.sub_bytes s x y ++ Pos.sub_bytes s y z = Pos.sub_bytes s x z.
Proof.
  intros s x y z H. unfold Pos.sub_bytes.
  assert (E : skipn y s = skipn (y - x) (skipn x s)) by (rewrite <- skipn_add; f_equal; lia).
  rewrite E, firstn_cat. f_equal. lia.
Qed.

Lemma sub_bytes_all : forall s, Pos.sub_bytes s 0 (length s) = s.
Proof. intros s. unfold Pos.sub_bytes. cbn [skipn]. rewrite Nat.sub_0_r. apply firstn_all. Qed.

(* ------------------------------------------------------------------ code point bounds *)

Lemma offs_inj_le : forall s k k', (k <= count_runes s)%nat -> (k' <= count_runes s)%nat ->
  (offs s k <= offs s k')%nat -> (k <= k')%nat.
Proof.
  intros s k k' L L' H. destruct (Nat.le_gt_cases k k') as [C | C]; [exact C|].
  pose proof (offs_mono_le s k' k ltac:(lia)) as M. assert (E : offs s k = offs s k') by lia.
  pose proof (count_firstn_offs k s ltac:(rewrite <- nrunes; lia)) as C1.
  pose proof (count_firstn_offs k' s ltac:(rewrite <- nrunes; lia)) as C2.
  rewrite E in C1. lia.
Qed.

Lemma slice_cp : forall s k0 k1, (k0 <= k1 <= count_runes s)%nat ->
  slice_string s (Some (Z.of_nat k0)) (Some (Z.of_nat k1)) = Pos.sub_bytes s (offs s k0) (offs s k1).
Proof.
  intros s k0 k1 H. unfold slice_string, slice_bounds.
  assert (Hl : str_length s = Z.of_nat (count_runes s)) by reflexivity.
  rewrite (clamp_id (Z.of_nat k0) 0) by lia. rewrite clamp_id by lia.
  rewrite !bound_offset by lia. rewrite !Nat2Z.id. reflexivity.
Qed.

Lemma slice_cp_end : forall s k0, (k0 <= count_runes s)%nat ->
  slice_string s (Some (Z.of_nat k0)) None = Pos.sub_bytes s (offs s k0) (length s).
Proof.
  intros s k0 H. unfold slice_string, slice_bounds.
  assert (Hl : str_length s = Z.of_nat (count_runes s)) by reflexivity.
  rewrite (clamp_id (Z.of_nat k0) 0) by lia.
  rewrite !bound_offset by lia. unfold str_length. rewrite !Nat2Z.id, nrunes, offs_total. reflexivity.
Qed.

Lemma slice_none_start : forall s j, slice_string s None j = slice_string s (Some 0) j.
Proof.
  intros s j. unfold slice_string, slice_bounds.
  replace (clamp_index 0 0 (str_length s)) with 0; [reflexivity|].
  unfold clamp_index, str_length. split_ifs; lia.
Qed.

(* ------------------------------------------------------------------ chains of matches in code points *)

Section Chain.
  Variable s : list N.
  Let n := count_runes s.

  Fixpoint chain (next : nat) (ks : list (nat * nat)) : Prop :=
    match ks with
    | [] => (next <= n)%nat
    | (k, k') :: r => (next <= k)%nat /\ (k <= k')%nat /\ chain k' r
    end.

  Definition ms_of (ks : list (nat * nat)) : list (Z * Z) :=
    map (fun kk => (Z.of_nat (fst kk), Z.of_nat (snd kk) - Z.of_nat (fst kk))) ks.
  Definition strs_of (ks : list (nat * nat)) : list (list N) :=
    map (fun kk => Pos.sub_bytes s (offs s (fst kk)) (offs s (snd kk))) ks.
  Definition triples (ks : list (nat * nat)) : list (Z * Z * list N) :=
    map (fun kk => (Z.of_nat (fst kk), Z.of_nat (snd kk) - Z.of_nat (fst kk),
                    Pos.sub_bytes s (offs s (fst kk)) (offs s (snd kk)))) ks.

  Lemma chain_bound : forall ks next, chain next ks -> (next <= n)%nat.
  Proof.
    induction ks as [|[k k'] r IH]; intros next H; [exact H|].
    destruct H as [H1 [H2 H3]]. specialize (IH _ H3). lia.
  Qed.

  Lemma offs_le_len : forall k, (offs s k <= length s)%nat.
  Proof. intros. apply offs_le_length. Qed.

  Lemma weave_chain : forall ks next, chain next ks ->
    weave (splits_go s (Some (Z.of_nat next)) (ms_of ks)) (strs_of ks) = Pos.sub_bytes s (offs s next) (length s).
  Proof.
    induction ks as [|[k k'] r IH]; intros next H.
    - cbn [ms_of strs_of map splits_go weave]. apply slice_cp_end. exact H.
    - destruct H as [H1 [H2 H3]]. pose proof (chain_bound _ _ H3) as B.
      cbn [ms_of strs_of map splits_go weave fst snd].
      replace (Z.of_nat k + (Z.of_nat k' - Z.of_nat k)) with (Z.of_nat k') by lia.
      fold (ms_of r). fold (strs_of r). rewrite (IH _ H3).
      rewrite slice_cp by (fold n; lia).
      pose proof (offs_mono_le s next k H1). pose proof (offs_mono_le s k k' H2). pose proof (offs_le_len k').
      rewrite sub_bytes_cat by lia. apply sub_bytes_cat. lia.
  Qed.

  Lemma splits_go_none : forall ms, splits_go s None ms = splits_go s (Some 0) ms.
  Proof. intros [|[o l] r]; cbn [splits_go]; rewrite slice_none_start; reflexivity. Qed.

  Lemma splits_rebuild_chain : forall ks, chain 0 ks -> weave (splits s (ms_of ks)) (strs_of ks) = s.
  Proof.
    intros ks H. unfold splits. rewrite splits_go_none. change 0 with (Z.of_nat 0).
    rewrite (weave_chain ks 0%nat H). change (offs s 0) with 0%nat. apply sub_bytes_all.
  Qed.

  Lemma sub_go_chain : forall ks next acc, chain next ks ->
    sub_go s (Some acc) (Some (Z.of_nat next)) (triples ks) = acc ++ Pos.sub_bytes s (offs s next) (length s).
  Proof.
    induction ks as [|[k k'] r IH]; intros next acc H.
    - cbn [triples map sub_go]. rewrite slice_cp_end by exact H. reflexivity.
    - destruct H as [H1 [H2 H3]]. pose proof (chain_bound _ _ H3) as B.
      cbn [triples map sub_go fst snd].
      replace (Z.of_nat k + (Z.of_nat k' - Z.of_nat k)) with (Z.of_nat k') by lia.
      fold (triples r). rewrite (IH _ _ H3). rewrite slice_cp by (fold n; lia).
      pose proof (offs_mono_le s next k H1). pose proof (offs_mono_le s k k' H2). pose proof (offs_le_len k').
      rewrite <- !app_assoc. f_equal. rewrite sub_bytes_cat by lia. apply sub_bytes_cat. lia.
  Qed.

  Lemma sub_with_chain : forall ks, chain 0 ks -> sub_with s (triples ks) = s.
  Proof.
    intros [|[k k'] r] H; [reflexivity|].
    destruct H as [H1 [H2 H3]]. pose proof (chain_bound _ _ H3) as B.
    unfold sub_with. cbn [triples map sub_go fst snd]. fold (triples r).
    replace (Z.of_nat k + (Z.of_nat k' - Z.of_nat k)) with (Z.of_nat k') by lia.
    rewrite (sub_go_chain _ _ _ H3). rewrite slice_none_start. change 0 with (Z.of_nat 0).
    rewrite slice_cp by (fold n; lia). change (offs s 0) with 0%nat.
    pose proof (offs_mono_le s k k' H2). pose proof (offs_le_len k').
    rewrite sub_bytes_cat by lia. rewrite sub_bytes_cat by lia. apply sub_bytes_all.
  Qed.

  (* aligned, ordered byte index pairs are a chain in code points, and [reported] is its rendering *)
  Lemma reported_chain : forall xs prev, (prev <= n)%nat ->
    forallb (alignedb s) xs = true ->
    ordered_from (Z.of_nat (offs s prev)) (map whole xs) (Z.of_nat (length s)) = true ->
    exists ks, chain prev ks /\ reported s xs = triples ks.
  Proof.
    induction xs as [|x xs IH]; intros prev Hp Ha Ho.
    - exists []. split; [exact Hp | reflexivity].
    - cbn [forallb] in Ha. apply andb_true_iff in Ha. destruct Ha as [Ax Ha].
      cbn [map ordered_from] in Ho. unfold alignedb in Ax. unfold whole in *.
      destruct (pairs_of x) as [|[a b] caps] eqn:Ep; [discriminate|]. cbn [hd] in Ho.
      apply andb_true_iff in Ax. destruct Ax as [Ax _]. apply andb_true_iff in Ax. destruct Ax as [A0 Ap].
      apply pair_okb_spec in Ap. destruct Ap as [[-> _] | [_ [Hab [[k [Lk Ek]] [k' [Lk' Ek']]]]]]; [discriminate|].
      apply andb_true_iff in Ho. destruct Ho as [Ho Hr]. apply andb_true_iff in Ho. destruct Ho as [Hpa _].
      subst a b.
      assert (K1 : (prev <= k)%nat) by (apply (offs_inj_le s); fold n; lia).
      assert (K2 : (k <= k')%nat) by (apply (offs_inj_le s); fold n; lia).
      destruct (IH k' ltac:(fold n; lia) Ha Hr) as [ks [C E]].
      exists ((k, k') :: ks). split; [cbn [chain]; repeat split; assumption|].
      cbn [reported map triples]. fold (reported s xs). fold (triples ks). rewrite E. f_equal.
      unfold whole. rewrite Ep. cbn [hd fst snd]. unfold conv_pair. cbn [m_offset m_length].
      rewrite !Nat2Z.id. rewrite !count_firstn_offs by (rewrite <- nrunes; fold n; lia). reflexivity.
  Qed.
End Chain.

Section Regex.
  Variable re : list N -> list N -> list N -> bool -> list (list Z).
  Hypothesis re_aligned : forall r f s g x, In x (re r f s g) -> alignedb s x = true.
  (* FindAll reports successive non-overlapping matches inside the subject *)
  Hypothesis re_ordered : forall r f s g, orderedb s (re r f s g) = true.

  Lemma aligned_all : forall r f s g, forallb (alignedb s) (re r f s g) = true.
  Proof. intros. apply forallb_forall. intros x I. exact (re_aligned _ _ _ _ _ I). Qed.

  (* the pieces of splits interleaved with the (global) matches rebuild the subject *)
  Lemma splits_rebuild : forall r f s,
    let rep := reported s (re r f s true) in
    weave (splits s (map (fun t => (fst (fst t), snd (fst t))) rep)) (map snd rep) = s.
  Proof.
    intros r f s. cbv zeta.
    destruct (reported_chain s (re r f s true) 0%nat ltac:(lia) (aligned_all r f s true) (re_ordered r f s true))
      as [ks [C E]].
    rewrite E. unfold triples. rewrite !map_map. cbn [fst snd].
    exact (splits_rebuild_chain s ks C).
  Qed.

  (* replacing every match (g = true) or the first match (g = false) by itself returns the subject *)
  Lemma gsub_identity : forall r f s g, sub_with s (reported s (re r f s g)) = s.
  Proof.
    intros r f s g.
    destruct (reported_chain s (re r f s g) 0%nat ltac:(lia) (aligned_all r f s g) (re_ordered r f s g))
      as [ks [C E]].
    rewrite E. exact (sub_with_chain s ks C).
  Qed.
End Regex.
