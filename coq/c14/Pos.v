(* C14 model: string positions are code points (definitions only; proofs in PosProofs.v).
   Byte strings and the UTF-8 decoder come from c13/Utf8.v ([count_runes] = len([]rune(s)),
   [explode], [runes], [widths]); [clamp_index], [jv] from c13/Jv.v.

   func.go:  funcLength (string case)   len([]rune(v))
             sliceString                clamp both indices against the rune count, then walk
                                        `for i := range v` to the byte offset of each bound
             indexString                .[i] : the i-th rune re-encoded with string(r)
             funcIndices/funcIndex/funcRindex via indexFunc: explode both strings, then the array
                                        algorithms (Compare on slices of ints)
             funcMatch                  byte index pairs from regexp.FindAllStringSubmatchIndex are
                                        converted with len([]rune(s[:b])); the string is s[b0:b1] *)
From Coq Require Import List NArith ZArith Bool.
From Verif Require Import c13.Utf8 c13.Codec c13.Jv.
Import ListNotations.
Open Scope Z_scope.

(* byte offset of the k-th rune: the loop `for i := range v { if k--; k < 0 { return i } }` *)
Definition byte_offset (s : list N) (k : nat) : nat := list_sum (firstn k (widths s)).

Definition sub_bytes (s : list N) (a b : nat) : list N := firstn (b - a) (skipn a s).

Definition str_length (s : list N) : Z := Z.of_nat (count_runes s).

(* start / end after clamping; [None] = null bound *)
Definition slice_bounds (l : Z) (i j : option Z) : Z * Z :=
  let start := match i with Some i => clamp_index i 0 l | None => 0 end in
  let stop := match j with Some j => clamp_index j start l | None => l end in
  (start, stop).

Definition slice_string (s : list N) (i j : option Z) : list N :=
  let l := str_length s in
  let '(start, stop) := slice_bounds l i j in
  let bstart := if start <? l then byte_offset s (Z.to_nat start) else length s in
  let bstop := if stop <? l then byte_offset s (Z.to_nat stop) else length s in
  sub_bytes s bstart bstop.

(* func.go slice on arrays, for comparison: the same clamping on a list *)
Definition slice_list {A} (v : list A) (i j : option Z) : list A :=
  let '(start, stop) := slice_bounds (len v) i j in
  firstn (Z.to_nat stop - Z.to_nat start) (skipn (Z.to_nat start) v).

(* .[i] on a string: None = null *)
Definition index_string (s : list N) (i : Z) : option (list N) :=
  let l := str_length s in
  let i := clamp_index i (-1) l in
  if (0 <=? i) && (i <? l) then Some (encode (nth (Z.to_nat i) (explode s) 0%N)) else None.

(* func.go index on arrays, for comparison *)
Definition index_list {A} (v : list A) (i : Z) : option A :=
  let i := clamp_index i (-1) (len v) in
  if (0 <=? i) && (i <? len v) then nth_error v (Z.to_nat i) else None.

(* ------------------------------------------------------------------ indices / index / rindex *)

Fixpoint list_eqb (a b : list N) : bool :=
  match a, b with
  | [], [] => true
  | x :: a', y :: b' => (x =? y)%N && list_eqb a' b'
  | _, _ => false
  end.

Definition match_at (vs xs : list N) (i : nat) : bool := list_eqb (firstn (length xs) (skipn i vs)) xs.

(* for i := range len(vs) - len(xs) + 1 *)
Definition positions (vs xs : list N) : list nat :=
  if (length vs <? length xs)%nat then [] else seq 0 (length vs - length xs + 1).

Definition indices_list (vs xs : list N) : list nat :=
  match xs with
  | [] => []
  | _ => filter (match_at vs xs) (positions vs xs)
  end.
Definition index_first (vs xs : list N) : option nat :=
  match xs with
  | [] => None
  | _ => find (match_at vs xs) (positions vs xs)
  end.
Definition index_last (vs xs : list N) : option nat :=
  match xs with
  | [] => None
  | _ => find (match_at vs xs) (rev (positions vs xs))
  end.

(* indexFunc on two strings *)
Definition indices_str (s x : list N) : list nat := indices_list (explode s) (explode x).
Definition index_str (s x : list N) : option nat := index_first (explode s) (explode x).
Definition rindex_str (s x : list N) : option nat := index_last (explode s) (explode x).

(* ------------------------------------------------------------------ match *)

Record mrec := { m_offset : Z; m_length : Z; m_string : option (list N) }.

(* offset / length / string for the byte pair (b0, b1) *)
Definition conv_pair (s : list N) (b0 b1 : Z) : mrec :=
  let o0 := Z.of_nat (count_runes (firstn (Z.to_nat b0) s)) in
  let o1 := Z.of_nat (count_runes (firstn (Z.to_nat b1) s)) in
  {| m_offset := o0; m_length := o1 - o0; m_string := Some (sub_bytes s (Z.to_nat b0) (Z.to_nat b1)) |}.

Definition conv_capture (s : list N) (b0 b1 : Z) : mrec :=
  if b0 <? 0 then {| m_offset := -1; m_length := 0; m_string := None |} else conv_pair s b0 b1.

Fixpoint pairs_of (x : list Z) : list (Z * Z) :=
  match x with
  | a :: b :: r => (a, b) :: pairs_of r
  | _ => []
  end.

(* one element of FindAllStringSubmatchIndex -> (whole match, captures) *)
Definition conv_match (s : list N) (x : list Z) : option (mrec * list mrec) :=
  match pairs_of x with
  | (b0, b1) :: caps => Some (conv_pair s b0 b1, map (fun p => conv_capture s (fst p) (snd p)) caps)
  | [] => None
  end.

Definition func_match (s : list N) (xs : list (list Z)) : list (option (mrec * list mrec)) :=
  map (conv_match s) xs.

(* byte index b is a rune boundary of s (what Go's regexp reports: it steps by decoded runes) *)
Definition boundaryb (s : list N) (b : Z) : bool :=
  existsb (fun k => Z.of_nat (byte_offset s k) =? b) (seq 0 (S (count_runes s))).
Definition pair_okb (s : list N) (p : Z * Z) : bool :=
  let '(a, b) := p in
  ((a =? -1) && (b =? -1)) || ((0 <=? a) && (a <=? b) && boundaryb s a && boundaryb s b).
Definition alignedb (s : list N) (x : list Z) : bool :=
  match pairs_of x with
  | (a, b) :: caps => (0 <=? a) && pair_okb s (a, b) && forallb (pair_okb s) caps
  | [] => false
  end.

(* slicing the subject by code points [offset, offset+length) gives the reported string *)
Definition mrec_ok (s : list N) (m : mrec) : Prop :=
  match m_string m with
  | Some str => slice_string s (Some (m_offset m)) (Some (m_offset m + m_length m)) = str
  | None => m_offset m = -1 /\ m_length m = 0
  end.

(* ------------------------------------------------------------------ rendering as jq values *)

Definition k_captures : str := [99; 97; 112; 116; 117; 114; 101; 115]%N.
Definition k_length : str := [108; 101; 110; 103; 116; 104]%N.
Definition k_name : str := [110; 97; 109; 101]%N.
Definition k_offset : str := [111; 102; 102; 115; 101; 116]%N.
Definition k_string : str := [115; 116; 114; 105; 110; 103]%N.

Definition jstr (o : option (list N)) : jv := match o with Some s => JStr s | None => JNull end.
Definition capture_jv (name : list N) (m : mrec) : jv :=
  JObj [(k_length, JInt (m_length m)); (k_name, match name with [] => JNull | _ => JStr name end);
        (k_offset, JInt (m_offset m)); (k_string, jstr (m_string m))].
Definition match_jv (names : list (list N)) (mc : mrec * list mrec) : jv :=
  let '(m, caps) := mc in
  JObj [(k_captures, JArr (map (fun nc => capture_jv (fst nc) (snd nc)) (combine (tl names) caps)));
        (k_length, JInt (m_length m)); (k_offset, JInt (m_offset m)); (k_string, jstr (m_string m))].

(* ------------------------------------------------------------------ splits and sub/gsub (hand transcriptions)

   def splits($re; $flags):
     .[foreach (match($re; $flags + "g"), null) as {$offset, $length}
         (null; {start: .next, end: $offset, next: $offset + $length})];
   the matches are given by their (offset, length); the trailing null closes the last piece *)
Fixpoint splits_go (s : list N) (next : option Z) (ms : list (Z * Z)) : list (list N) :=
  match ms with
  | [] => [slice_string s next None]
  | (o, l) :: r => slice_string s next (Some o) :: splits_go s (Some (o + l)) r
  end.
Definition splits (s : list N) (ms : list (Z * Z)) : list (list N) := splits_go s None ms.

(* pieces interleaved with the matched strings: p0 m0 p1 m1 ... pn *)
Fixpoint weave (ps ms : list (list N)) : list N :=
  match ps, ms with
  | p :: ps', m :: ms' => p ++ m ++ weave ps' ms'
  | p :: _, [] => p
  | [], _ => []
  end.

(* def sub($re; str; $flags):
     reduce match($re; $flags) as {$offset, $length, $captures}
       ({s: ., r: []};
         reduce ($captures | _captures | str) as $s
           (.i = 0; .r[.i] += .s[.next:$offset] + $s | .i += 1) |
         .next = $offset + $length) | .r[] + .s[.next:] // .s;
   with str producing ONE string per match (here: the text of a named group around the whole regex),
   so only .r[0] is used: acc = .r[0] (None = null), next = .next *)
Fixpoint sub_go (s : list N) (acc : option (list N)) (next : option Z) (ms : list (Z * Z * list N)) : list N :=
  match ms with
  | [] => match acc with None => s | Some a => a ++ slice_string s next None end
  | (o, l, str) :: r =>
      let add := slice_string s next (Some o) ++ str in
      sub_go s (Some (match acc with None => add | Some a => a ++ add end)) (Some (o + l)) r
  end.
Definition sub_with (s : list N) (ms : list (Z * Z * list N)) : list N := sub_go s None None ms.

(* what match reports for the whole matches: (offset, length, string) *)
Definition whole (x : list Z) : Z * Z := hd (0, 0) (pairs_of x).
Definition reported (s : list N) (xs : list (list Z)) : list (Z * Z * list N) :=
  map (fun x => let m := conv_pair s (fst (whole x)) (snd (whole x)) in
                (m_offset m, m_length m, sub_bytes s (Z.to_nat (fst (whole x))) (Z.to_nat (snd (whole x))))) xs.

(* successive matches do not overlap and stay inside the subject (regexp.FindAll: "non-overlapping") *)
Fixpoint ordered_from (prev : Z) (ps : list (Z * Z)) (stop : Z) : bool :=
  match ps with
  | [] => prev <=? stop
  | (a, b) :: r => (prev <=? a) && (a <=? b) && ordered_from b r stop
  end.
Definition orderedb (s : list N) (xs : list (list Z)) : bool :=
  ordered_from 0 (map whole xs) (Z.of_nat (length s)).
