(* C14 model: string positions are code points (definitions only; proofs in PosProofs.v).
   Byte strings and the UTF-8 decoder come from c13/Utf8.v ([count_runes] = len([]rune(s)),
   [explode], [runes], [widths]); [clamp_index], [jv] from c13/Jv.v.

   func.go:  funcLength (string case)   len([]rune(v))
             sliceString                clamp both indices against the rune count, then walk
                                        `for i := range v` to the byte offset of each bound
             indexString                .[i] : the i-th rune re-encoded with string(r)
             funcIndices/funcIndex/funcRindex via indexFunc: explode both strings, then the array
                                        algorithms (Compare on slices of ints)
             funcMatch                  byte index pairs from regexp.FindAllStringSubmatchIndex are
                                        converted with len([]rune(s[:b])); the string is s[b0:b1] *)
From Coq Require Import List NArith ZArith Bool.
From Verif Require Import c13.Utf8 c13.Codec c13.Jv.
Import ListNotations.
Open Scope Z_scope.

(* byte offset of the k-th rune: the loop `for i := range v { if k--; k < 0 { return i } }` *)
Definition byte_offset (s : list N) (k : nat) : nat := list_sum (firstn k (widths s)).

Definition sub_bytes (s : list N) (a b : nat) : list N := firstn (b - a) (skipn a s).

Definition str_length (s : list N) : Z := Z.of_nat (count_runes s).

(* start / end after clamping; [None] = null bound *)
Definition slice_bounds (l : Z) (i j : option Z) : Z * Z :=
  let start := match i with Some i => clamp_index i 0 l | None => 0 end in
  let stop := match j with Some j => clamp_index j start l | None => l end in
  (start, stop).

Definition slice_string (s : list N) (i j : option Z) : list N :=
  let l := str_length s in
  let '(start, stop) := slice_bounds l i j in
  let bstart := if start <? l then byte_offset s (Z.to_nat start) else length s in
  let bstop := if stop <? l then byte_offset s (Z.to_nat stop) else length s in
  sub_bytes s bstart bstop.

(* func.go slice on arrays, for comparison: the same clamping on a list *)
Definition slice_list {A} (v : list A) (i j : option Z) : list A :=
  let '(start, stop) := slice_bounds (len v) i j in
  firstn (Z.to_nat stop - Z.to_nat start) (skipn (Z.to_nat start) v).

(* .[i] on a string: None = null *)
Definition index_string (s : list N) (i : Z) : option (list N) :=
  let l := str_length s in
  let i := clamp_index i (-1) l in
  if (0 <=? i) && (i <? l) then Some (encode (nth (Z.to_nat i) (explode s) 0%N)) else None.

(* func.go index on arrays, for comparison *)
Definition index_list {A} (v : list A) (i : Z) : option A :=
  let i := clamp_index i (-1) (len v) in
  if (0 <=? i) && (i <? len v) then nth_error v (Z.to_nat i) else None.

(* ------------------------------------------------------------------ indices / index / rindex *)

Fixpoint list_eqb (a b : list N) : bool :=
  match a, b with
  | [], [] => true
  | x :: a', y :: b' => (x =? y)%N && list_eqb a' b'
  | _, _ => false
  end.

Definition match_at (vs xs : list N) (i : nat) : bool := list_eqb (firstn (length xs) (skipn i vs)) xs.

(* for i := range len(vs) - len(xs) + 1 *)
Definition positions (vs xs : list N) : list nat :=
  if (length vs <? length xs)%nat then [] else seq 0 (length vs - length xs + 1).

Definition indices_list (vs xs : list N) : list nat :=
  match xs with
  | [] => []
  | _ => filter (match_at vs xs) (positions vs xs)
  end.
Definition index_first (vs xs : list N) : option nat :=
  match xs with
  | [] => None
  | _ => find (match_at vs xs) (positions vs xs)
  end.
Definition index_last (vs xs : list N) : option nat :=
  match xs with
  | [] => None
  | _ => find (match_at vs xs) (rev (positions vs xs))
  end.

(* indexFunc on two strings *)
Definition indices_str (s x : list N) : list nat := indices_list (explode s) (explode x).
Definition index_str (s x : list N) : option nat := index_first (explode s) (explode x).
Definition rindex_str (s x : list N) : option nat := index_last (explode s) (explode x).

(* ------------------------------------------------------------------ match *)

Record mrec := { m_offset : Z; m_length : Z; m_string : option (list N) }.

(* offset / length / string for the byte pair (b0, b1) *)
Definition conv_pair (s : list N) (b0 b1 : Z) : mrec :=
  let o0 := Z.of_nat (count_runes (firstn (Z.to_nat b0) s)) in
  let o1 := Z.of_nat (count_runes (firstn (Z.to_nat b1) s)) in
  {| m_offset := o0; m_length := o1 - o0; m_string := Some (sub_bytes s (Z.to_nat b0) (Z.to_nat b1)) |}.

Definition conv_capture (s : list N) (b0 b1 : Z) : mrec :=
  if b0 <? 0 then {| m_offset := -1; m_length := 0; m_string := None |} else conv_pair s b0 b1.

Fixpoint pairs_of (x : list Z) : list (Z * Z) :=
  match x with
  | a :: b :: r => (a, b) :: pairs_of r
  | _ => []
  end.

(* one element of FindAllStringSubmatchIndex -> (whole match, captures) *)
Definition conv_match (s : list N) (x : list Z) : option (mrec * list mrec) :=
  match pairs_of x with
  | (b0, b1) :: caps => Some (conv_pair s b0 b1, map (fun p => conv_capture s (fst p) (snd p)) caps)
  | [] => None
  end.

Definition func_match (s : list N) (xs : list (list Z)) : list (option (mrec * list mrec)) :=
  map (conv_match s) xs.

(* byte index b is a rune boundary of s (what Go's regexp reports: it steps by decoded runes) *)
Definition boundaryb (s : list N) (b : Z) : bool :=
  existsb (fun k => Z.of_nat (byte_offset s k) =? b) (seq 0 (S (count_runes s))).
Definition pair_okb (s : list N) (p : Z * Z) : bool :=
  let '(a, b) := p in
  ((a =? -1) && (b =? -1)) || ((0 <=? a) && (a <=? b) && boundaryb s a && boundaryb s b).
Definition alignedb (s : list N) (x : list Z) : bool :=
  match pairs_of x with
  | (a, b) :: caps => (0 <=? a) && pair_okb s (a, b) && forallb (pair_okb s) caps
  | [] => false
  end.

(* slicing the subject by code points [offset, offset+length) gives the reported string *)
Definition mrec_ok (s : list N) (m : mrec) : Prop :=
  match m_string m with
  | Some str => slice_string s (Some (m_offset m)) (Some (m_offset m + m_length m)) = str
  | None => m_offset m = -1 /\ m_length m = 0
  end.

(* ------------------------------------------------------------------ rendering as jq values *)

Definition k_captures : str := [99; 97; 112; 116; 117; 114; 101; 115]%N.
Definition k_length : str := [108; 101; 110; 103; 116; 104]%N.
Definition k_name : str := [110; 97; 109; 101]%N.
Definition k_offset : str := [111; 102; 102; 115; 101; 116]%N.
Definition k_string : str := [115; 116; 114; 105; 110; 103]%N.

Definition jstr (o : option (list N)) : jv := match o with Some s => JStr s | None => JNull end.
Definition capture_jv (name : list N) (m : mrec) : jv :=
  JObj [(k_length, JInt (m_length m)); (k_name, match name with [] => JNull | _ => JStr name end);
        (k_offset, JInt (m_offset m)); (k_string, jstr (m_string m))].
Definition match_jv (names : list (list N)) (mc : mrec * list mrec) : jv :=
  let '(m, caps) := mc in
  JObj [(k_captures, JArr (map (fun nc => capture_jv (fst nc) (snd nc)) (combine (tl names) caps)));
        (k_length, JInt (m_length m)); (k_offset, JInt (m_offset m)); (k_string, jstr (m_string m))].

(* ------------------------------------------------------------------ splits and sub/gsub (hand transcriptions)

   def splits($re; $flags):
     .[foreach (match($re; $flags + "g"), null) as {$offset, $length}
         (null; {start: .next, end: $offset, next: $offset + $length})];
   the matches are given by their (offset, length); the trailing null closes the last piece *)
Fixpoint splits_go (s : list N) (next : option Z) (ms : list (Z * Z)) : list (list N) :=
  match ms with
  | [] => [slice_string s next None]
  | (o, l) :: r => slice_string s next (Some o) :: splits_go s (Some (o + l)) r
  end.
Definition splits (s : list N) (ms : list (Z * Z)) : list (list N) := splits_go s None ms.

(* pieces interleaved with the matched strings: p0 m0 p1 m1 ... pn *)
Fixpoint weave (ps ms : list (list N)) : list N :=
  match ps, ms with
  | p :: ps', m :: ms' => p ++ m ++ weave ps' ms'
  | p :: _, [] => p
  | [], _ => []
  end.

(* def sub($re; str; $flags):
     reduce match($re; $flags) as {$offset, $length, $captures}
       ({s: ., r: []};
         reduce ($captures | _captures | str) as $s
           (.i = 0; .r[.i] += .s[.next:$offset] + $s | .i += 1) |
         .next = $offset + $length) | .r[] + .s[.next:] // .s;
   with str producing ONE string per match (here: the text of a named group around the whole regex),
   so only .r[0] is used: acc = .r[0] (None = null), next = .next *)
Fixpoint sub_go (s : list N) (acc : option (list N)) (next : option Z) (ms : list (Z * Z * list N)) : list N :=
  match ms with
  | [] => match acc with None => s | Some a => a ++ slice_string s next None end
  | (o, l, str) :: r =>
      let add := slice_string s next (Some o) ++ str in
      sub_go s (Some (match acc with None => add | Some a => a ++ add end)) (Some (o + l)) r
  end.
Definition sub_with (s : list N) (ms : list (Z * Z * list N)) : list N := sub_go s None None ms.

(* what match reports for the whole matches: (offset, length, string) *)
Definition whole (x : list Z) : Z * Z := hd (0, 0) (pairs_of x).
Definition reported (s : list N) (xs : list (list Z)) : list (Z * Z * list N) :=
  map (fun x => let m := conv_pair s (fst (whole x)) (snd (whole x)) in
                (m_offset m, m_length m, sub_bytes s (Z.to_nat (fst (whole x))) (Z.to_nat (snd (whole x))))) xs.

(* successive matches do not overlap and stay inside the subject (regexp.FindAll: "non-overlapping") *)
Fixpoint ordered_from (prev : Z) (ps : list (Z * Z)) (stop : Z) : bool :=
  match ps with
  | [] => prev <=? stop
  | (a, b) :: r => (prev <=? a) && (a <=? b) && ordered_from b r stop
  end.
Definition orderedb (s : list N) (xs : list (list Z)) : bool :=
  ordered_from 0 (map whole xs) (Z.of_nat (length s)).

(* ------------------------------------------------------------------ test, capture, scan, split/2 (hand transcriptions)

   def test($re; $flags): _match($re; $flags; true);       funcMatch(testing = true) = r.MatchString(s):
   the model takes MatchString's answer as a second engine output *)
Definition jq_test (matchstring : bool) : jv := JBool matchstring.

(* def capture($re; $flags): match($re; $flags) | .captures | _captures;
   funcCaptures: w := {}; for each capture in order: if its name is a string then w[name] = capture.string *)
Definition captures_obj (names : list (list N)) (caps : list mrec) : list (str * jv) :=
  fold_left (fun acc nc => match fst nc with
                           | [] => acc
                           | _ => oset (fst nc) (jstr (m_string (snd nc))) acc
                           end) (combine names caps) [].
Definition jq_capture (names : list (list N)) (mc : mrec * list mrec) : jv :=
  JObj (captures_obj (tl names) (snd mc)).

(* def scan($re; $flags): match($re; $flags + "g") |
     if .captures == [] then .string else [.captures[].string] end; *)
Definition jq_scan (mc : mrec * list mrec) : jv :=
  match snd mc with
  | [] => jstr (m_string (fst mc))
  | caps => JArr (map (fun c => jstr (m_string c)) caps)
  end.

(* def split($re; $flags): [splits($re; $flags)]; *)
Definition jq_split2 (s : list N) (ms : list (Z * Z)) : jv := JArr (map JStr (splits s ms)).

(* ------------------------------------------------------------------ the global match loop (regexp.allMatches)

   for pos, i, prevMatchEnd := 0, 0, -1; i < n && pos <= end; {
     matches := re.doExecute(..., pos, ...); if len(matches) == 0 { break }
     accept := true
     if matches[1] == pos {                       // empty match
       if matches[0] == prevMatchEnd { accept = false }
       _, width = step(pos); if width > 0 { pos += width } else { pos = end + 1 }
     } else { pos = matches[1] }
     prevMatchEnd = matches[1]
     if accept { deliver(matches); i++ } }
   [exec s pos] stands for doExecute (leftmost match searching from byte pos); the second component of
   the result says whether the fuel ran out (it never does: RegexProofs.all_matches_terminates) *)
Section AllMatches.
  Variable exec : list N -> nat -> option (list Z).

  Fixpoint all_matches (s : list N) (fuel limit pos : nat) (prev : Z) : list (list Z) * bool :=
    match fuel with
    | O => ([], true)
    | S f =>
        match limit with
        | O => ([], false)
        | S lim' =>
            if (length s <? pos)%nat then ([], false)
            else match exec s pos with
                 | None => ([], false)
                 | Some m =>
                     let '(a, b) := whole m in
                     let empty_here := b =? Z.of_nat pos in
                     let accept := negb (empty_here && (a =? prev)) in
                     let pos' := if empty_here
                                 then (if (pos <? length s)%nat then pos + snd (dec (skipn pos s)) else length s + 1)%nat
                                 else Z.to_nat b in
                     let '(rest, ex) := all_matches s f (if accept then lim' else limit) pos' b in
                     (if accept then m :: rest else rest, ex)
                 end
        end
    end.

  (* FindAllStringSubmatchIndex(s, n): n < 0 means len(s)+1 *)
  Definition find_all (s : list N) (global : bool) : list (list Z) :=
    fst (all_matches s (length s + 2) (if global then length s + 1 else 1)%nat 0 (-1)).
End AllMatches.

(* ends of successive delivered matches strictly increase (so there are at most len+1 of them) *)
Fixpoint ends_increasing (prev : Z) (ps : list (Z * Z)) : bool :=
  match ps with
  | [] => true
  | (_, b) :: r => (prev <? b) && ends_increasing b r
  end.
Definition progressb (xs : list (list Z)) : bool := ends_increasing (-1) (map whole xs).

(* regexp rejects duplicate group names: the non-empty names are pairwise distinct *)
Fixpoint names_nodupb (names : list (list N)) : bool :=
  match names with
  | [] => true
  | n :: r => (match n with [] => true | _ => negb (existsb (list_eqb n) r) end) && names_nodupb r
  end.
