(* C11 model, part 2: the consumers of the order, written as func.go / operator.go / execute.go /
   encoder.go do it.  Everything is parametric in the comparison [cmp] on keys so that the same code
   runs with [compare] (the model of the implementation) and with the exact-rational order of the
   specification (Spec.v).  Definitions only.

   Assumption made explicit: sort.SliceStable(items, less) is modelled by a stable insertion sort with
   the same [less] (`Compare(items[i].key, items[j].key) < 0`).  SortProofs.v shows that on a total
   preorder the stable ordered permutation of a list is unique, so the assumption is exactly
   "sort.SliceStable returns a stable ordered permutation when less is a strict weak order". *)
From Coq Require Import List ZArith NArith Bool Arith.
From Verif Require Import c11.Value.
Import ListNotations.

Section Generic.
  Context {K V : Type} (cmp : K -> K -> comparison).
  Notation item := (V * K)%type.

  Definition less (a b : item) : bool := is_lt (cmp (snd a) (snd b)).

  (* stable insertion sort: x (which preceded everything in l) goes before the first y with not (y < x) *)
  Fixpoint insert (x : item) (l : list item) : list item :=
    match l with
    | [] => [x]
    | y :: l' => if less y x then y :: insert x l' else x :: y :: l'
    end.
  Fixpoint isort (l : list item) : list item :=
    match l with [] => [] | x :: l' => insert x (isort l') end.

  (* func.go sortItems + sortBy *)
  Definition sort_items (l : list item) : list item := isort l.
  Definition sort_by (l : list item) : list V := map fst (sort_items l).

  (* func.go funcGroupBy: a new group starts when Compare(last, r.key) != 0, last = key of the first
     item of the current group.  group_go returns (rest of the current group, following groups). *)
  Fixpoint group_go (last : K) (items : list item) : list item * list (list item) :=
    match items with
    | [] => ([], [])
    | it :: rest =>
        if is_eq (cmp last (snd it)) then
          let '(g, gs) := group_go last rest in (it :: g, gs)
        else
          let '(g, gs) := group_go (snd it) rest in ([], (it :: g) :: gs)
    end.
  Definition groups (sorted : list item) : list (list item) :=
    match sorted with
    | [] => []
    | it :: rest => let '(g, gs) := group_go (snd it) rest in (it :: g) :: gs
    end.
  Definition group_by (l : list item) : list (list V) := map (map fst) (groups (sort_items l)).

  (* func.go uniqueBy: keep r when i == 0 || Compare(last, r.key) != 0 *)
  Fixpoint uniq_go (last : K) (items : list item) : list item :=
    match items with
    | [] => []
    | it :: rest => if is_eq (cmp last (snd it)) then uniq_go last rest else it :: uniq_go (snd it) rest
    end.
  Definition uniq (sorted : list item) : list item :=
    match sorted with [] => [] | it :: rest => it :: uniq_go (snd it) rest end.
  Definition unique_by (l : list item) : list V := map fst (uniq (sort_items l)).

  (* func.go minMaxBy: i, j, x := 0, 0, xs[0]; for i++; i < len(xs); i++ { if Compare(x, xs[i]) > 0 == isMin
     { j, x = i, xs[i] } }; return vs[j].  The model carries the item with its index. *)
  Fixpoint mm_go (is_min : bool) (j : nat) (best : item) (i : nat) (rest : list item) : nat * item :=
    match rest with
    | [] => (j, best)
    | it :: rest' =>
        if Bool.eqb (is_gt (cmp (snd best) (snd it))) is_min
        then mm_go is_min i it (S i) rest'
        else mm_go is_min j best (S i) rest'
    end.
  Definition min_max_by (is_min : bool) (l : list item) : option (nat * item) :=
    match l with [] => None | it :: rest => Some (mm_go is_min 0 it 1 rest) end.

  (* sort.Search(n, f): i, j := 0, n; for i < j { h := int(uint(i+j) >> 1); if !f(h) { i = h + 1 } else { j = h } }; return i
     fuel: j - i strictly decreases, so n iterations suffice (bsearch_fuel_enough in SortProofs.v). *)
  Fixpoint search_go (fuel : nat) (f : nat -> bool) (i j : nat) : nat :=
    match fuel with
    | O => i
    | S fu => if i <? j then
                let h := Nat.div2 (i + j) in
                if f h then search_go fu f i h else search_go fu f (S h) j
              else i
    end.
  Definition search (n : nat) (f : nat -> bool) : nat := search_go n f 0 n.

  (* func.go funcBsearch: i := sort.Search(len vs, Compare(vs[i], t) >= 0);
     if i < len(vs) && Compare(vs[i], t) == 0 { return i }; return -i - 1 *)
  Definition ge_at (vs : list K) (t : K) (i : nat) : bool :=
    match nth_error vs i with Some x => negb (is_lt (cmp x t)) | None => true end.
  Definition bsearch (vs : list K) (t : K) : Z :=
    let i := search (length vs) (ge_at vs t) in
    match nth_error vs i with
    | Some x => if is_eq (cmp x t) then Z.of_nat i else (- Z.of_nat i - 1)%Z
    | None => (- Z.of_nat i - 1)%Z
    end.

  (* operator.go funcOpSub on arrays: keep l's elements that have no Compare-equal element in r *)
  Definition arr_sub (l r : list K) : list K :=
    filter (fun x => negb (existsb (fun y => is_eq (cmp x y)) r)) l.
End Generic.

(* ---- consumers that compare whole windows (func.go indices / funcIndex / funcRindex on arrays) ---- *)
Section Windows.
  Context (cmp : value -> value -> comparison).

  (* Compare(vs[i:i+len(xs)], xs) == 0 for i in range(len(vs)-len(xs)+1) *)
  Fixpoint match_positions (i : nat) (vs xs : list value) : list nat :=
    match vs with
    | [] => []
    | _ :: rest =>
        (if (length xs <=? length vs) && is_eq (cmp (VArr (firstn (length xs) vs)) (VArr xs)) then [i] else [])
          ++ match_positions (S i) rest xs
    end.
  Definition indices (vs xs : list value) : list nat :=
    match xs with [] => [] | _ => match_positions 0 vs xs end.
  Definition index_first (vs xs : list value) : option nat := hd_error (indices vs xs).
  Definition index_last (vs xs : list value) : option nat := hd_error (rev (indices vs xs)).
  (* indexFunc: a non-array needle x is wrapped as [x] *)
  Definition needle (x : value) : list value := match x with VArr xs => xs | _ => [x] end.
End Windows.

(* ---- key order: func.go keys / funcKeys, execute.go opiter, encoder.go encodeObject ----
   On the sorted-association-list representation these are the list itself; what the check compares
   is the implementation's observed order against this list, whose keys the transport decoder has
   verified to be strictly ascending in the bytewise order cmp_str (wfb). *)
Definition obj_keys (m : list (list N * value)) : list value := map (fun kv => VStr (fst kv)) m.
Definition obj_values (m : list (list N * value)) : list value := map snd m.
Definition arr_keys (l : list value) : list value := map (fun i => VNum (NInt (Z.of_nat i))) (seq 0 (length l)).
Definition keys_of (v : value) : option (list value) :=
  match v with VObj m => Some (obj_keys m) | VArr l => Some (arr_keys l) | _ => None end.
Definition iter_of (v : value) : option (list value) :=
  match v with VObj m => Some (obj_values m) | VArr l => Some l | _ => None end.
