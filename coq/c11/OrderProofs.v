(* C11 proofs, part 3: gojq.Compare (the model [compare]) is a total preorder on the property's
   domain, its equivalence is equality of denotations (numbers as exact reals), and the six
   operators are its projections. *)
From Coq Require Import List ZArith NArith Bool Lia Reals.
From Flocq Require Import Core IEEE754.BinarySingleNaN.
From Verif Require Import c11.Value c11.OrderGeneric c11.NumProofs.
Import ListNotations.

(* NaN-free, every float finite with |x| < 2^53; integers of any size in both representations *)
Definition good : value -> Prop := good_with good_num.

(* value denotation: representation of numbers forgotten, -0.0 = 0 = big 0 *)
Definition denote : value -> dval (DN := R) := denote_with num_R.

Theorem compare_total_preorder : total_preorder compare good.
Proof.
  apply compare_with_total_preorder.
  - exact cmp_num_total_preorder.
  - exact cmp_str_ord.
  - exact cmp_str_eq.
Qed.

Theorem compare_refl a : good a -> compare a a = Eq.
Proof. intros G. now destruct (compare_total_preorder a G). Qed.

Theorem compare_opp a b : good a -> good b -> compare b a = CompOpp (compare a b).
Proof. intros Ga Gb. destruct (compare_total_preorder a Ga) as (_ & S & _). now apply S. Qed.

Theorem compare_eq_l a b c : good a -> good b -> good c -> compare a b = Eq -> compare a c = compare b c.
Proof. intros Ga Gb Gc. destruct (compare_total_preorder a Ga) as (_ & _ & T). now apply T. Qed.

Theorem compare_eq_r a b c : good a -> good b -> good c -> compare b c = Eq -> compare a c = compare a b.
Proof. intros Ga Gb Gc. destruct (compare_total_preorder a Ga) as (_ & _ & T). now apply T. Qed.

Theorem compare_trans a b c o :
  good a -> good b -> good c -> compare a b = o -> compare b c = o -> compare a c = o.
Proof.
  intros Ga Gb Gc H1 H2. destruct (compare_total_preorder a Ga) as (_ & _ & T).
  destruct (T b c Gb Gc) as (_ & _ & T3). rewrite T3; congruence.
Qed.

(* a <= b *)
Definition le (a b : value) : Prop := compare a b <> Gt.

Theorem le_trans a b c : good a -> good b -> good c -> le a b -> le b c -> le a c.
Proof.
  unfold le. intros Ga Gb Gc H1 H2.
  destruct (compare a b) eqn:X; try congruence.
  - rewrite (compare_eq_l a b c) by assumption. exact H2.
  - destruct (compare b c) eqn:Y; try congruence.
    + rewrite (compare_eq_r a b c) by assumption. congruence.
    + rewrite (compare_trans a b c Lt) by assumption. discriminate.
Qed.

Theorem le_total a b : good a -> good b -> le a b \/ le b a.
Proof.
  unfold le. intros Ga Gb. rewrite (compare_opp a b) by assumption.
  destruct (compare a b); cbn; [left|left|right]; discriminate.
Qed.

Theorem le_antisym a b : good a -> good b -> le a b -> le b a -> compare a b = Eq.
Proof.
  unfold le. intros Ga Gb. rewrite (compare_opp a b) by assumption.
  destruct (compare a b); cbn; congruence.
Qed.

Theorem compare_eq_denote a b : good a -> good b -> (compare a b = Eq <-> denote a = denote b).
Proof.
  apply compare_with_eq_denote with (gn := good_num).
  - exact cmp_str_ord.
  - exact cmp_str_eq.
  - exact cmp_num_eq_iff.
Qed.

(* ---- the operators are the projections of Compare ---- *)
Theorem ops_projections a b :
  (op_eq a b = true <-> compare a b = Eq) /\
  (op_ne a b = true <-> compare a b <> Eq) /\
  (op_lt a b = true <-> compare a b = Lt) /\
  (op_le a b = true <-> compare a b <> Gt) /\
  (op_gt a b = true <-> compare a b = Gt) /\
  (op_ge a b = true <-> compare a b <> Lt).
Proof.
  unfold op_eq, op_ne, op_lt, op_le, op_gt, op_ge.
  destruct (compare a b); cbn; repeat split; intros; try congruence; try discriminate.
Qed.

(* and, on the domain, they relate to each other as the operators of a total preorder do *)
Theorem ops_coherent a b :
  good a -> good b ->
  op_gt a b = op_lt b a /\ op_ge a b = op_le b a /\ op_le a b = negb (op_lt b a) /\
  op_eq a b = op_le a b && op_le b a /\ op_ne a b = negb (op_eq a b) /\ op_eq a b = op_eq b a.
Proof.
  intros Ga Gb. unfold op_eq, op_ne, op_lt, op_le, op_gt, op_ge.
  rewrite (compare_opp a b) by assumption. destruct (compare a b); cbn; repeat split.
Qed.

(* ---- the executable domain test ---- *)
Lemma goodb_spec v : goodb v = true <-> good v.
Proof.
  induction v using value_ind_nested; cbn [goodb].
  - split; [constructor|auto].
  - split; [constructor|auto].
  - destruct n; cbn [good_numb].
    + split; [intros _; now constructor|auto].
    + split; [intros _; now constructor|auto].
    + rewrite good_fltb_spec. split; [intros G; now constructor|intros G; now inversion G].
  - split; [constructor|auto].
  - rewrite forallb_forall. split.
    + intros G. constructor. apply Forall_forall. intros x Hx. rewrite Forall_forall in H.
      apply (H x Hx). now apply G.
    + intros G x Hx. apply good_arr_inv in G. rewrite Forall_forall in H, G.
      apply (H x Hx). now apply G.
  - rewrite forallb_forall. split.
    + intros G. constructor. apply Forall_forall. intros x Hx. rewrite Forall_forall in H.
      apply (H x Hx). now apply G.
    + intros G x Hx. inversion G as [| | | | |? G']; subst. rewrite Forall_forall in H, G'.
      apply (H x Hx). now apply G'.
Qed.

(* ---- the ranking of the types: null < false < true < numbers < strings < arrays < objects ---- *)
Theorem type_order a b : (type_index a < type_index b)%Z -> compare a b = Lt.
Proof.
  destruct a as [|[]| | | |], b as [|[]| | | |]; cbn [type_index]; intros H; try lia; reflexivity.
Qed.

Lemma type_index_table :
  type_index VNull = 0%Z /\ type_index (VBool false) = 1%Z /\ type_index (VBool true) = 2%Z /\
  (forall n, type_index (VNum n) = 3%Z) /\ (forall s, type_index (VStr s) = 4%Z) /\
  (forall l, type_index (VArr l) = 5%Z) /\ (forall m, type_index (VObj m) = 6%Z).
Proof. repeat split. Qed.
