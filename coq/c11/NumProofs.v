(* C11 proofs, part 2: on the property's domain (finite floats of magnitude < 2^53, integers of any
   size in either integer representation) the number comparison of gojq.Compare is the comparison of
   the exact real values.  This is where float64(int) / bigToFloat rounding is dealt with:
     |z| <= 2^53  converts exactly;
     |z| >  2^53  rounds (monotonically) to something of magnitude >= 2^53, or overflows to an
                  infinity of the same sign -- either way it stays on the same side of every float of
                  magnitude < 2^53. *)
From Coq Require Import List ZArith NArith Bool Lia Reals Lra.
From Flocq Require Import Core IEEE754.BinarySingleNaN.
From Verif Require Import c11.Value c11.OrderGeneric.
Import ListNotations.
Open Scope R_scope.

Definition num_R (n : num) : R :=
  match n with NInt z => IZR z | NBig z => IZR z | NFlt f => B2R f end.

Definition good_flt (f : f64) : Prop := is_finite f = true /\ Rabs (B2R f) < IZR (2 ^ 53).
Definition good_num (n : num) : Prop := match n with NFlt f => good_flt f | _ => True end.

Local Notation fexp64 := (SpecFloat.fexp 53 1024).
Local Instance fexp64_valid : Valid_exp fexp64 := fexp_correct 53 1024 Hprec64.

Lemma cmp_flt_finite l r :
  is_finite l = true -> is_finite r = true -> cmp_flt l r = Rcompare (B2R l) (B2R r).
Proof.
  intros Fl Fr. unfold cmp_flt, flt_lt, Bltb, Beqb, SpecFloat.SFltb, SpecFloat.SFeqb.
  fold (Bcompare l r). rewrite (Bcompare_correct 53 1024 l r Fl Fr).
  assert (N : is_nan l = false) by (destruct l; try discriminate; reflexivity).
  rewrite N. destruct (Rcompare (B2R l) (B2R r)); reflexivity.
Qed.

Lemma IZR_two53 : IZR (2 ^ 53) = bpow radix2 53.
Proof. rewrite <- (IZR_Zpower radix2) by lia. reflexivity. Qed.

Lemma F2R_int z : F2R (Float radix2 z 0) = IZR z.
Proof. unfold F2R; cbn. ring. Qed.

Lemma generic_int z : (Z.abs z <= 2 ^ 53)%Z -> generic_format radix2 fexp64 (IZR z).
Proof.
  intros H.
  assert (C : (Z.abs z < 2 ^ 53 \/ z = 2 ^ 53 \/ z = - 2 ^ 53)%Z) by lia.
  destruct C as [C|[->| ->]].
  - rewrite <- F2R_int. apply generic_format_F2R. intros Nz.
    rewrite F2R_int. unfold cexp.
    assert (M : (mag radix2 (IZR z) <= 53)%Z).
    { apply mag_le_bpow. { intros E. apply eq_IZR in E. contradiction. }
      rewrite <- abs_IZR, <- IZR_two53. now apply IZR_lt. }
    unfold SpecFloat.fexp, SpecFloat.emin. lia.
  - rewrite IZR_two53. apply generic_format_bpow. unfold SpecFloat.fexp, SpecFloat.emin. lia.
  - rewrite opp_IZR, IZR_two53. apply generic_format_opp.
    apply generic_format_bpow. unfold SpecFloat.fexp, SpecFloat.emin. lia.
Qed.

Lemma two53_lt_emax : bpow radix2 53 < bpow radix2 1024.
Proof. apply bpow_lt. lia. Qed.

(* exact conversion *)
Lemma Z_to_f64_exact z :
  (Z.abs z <= 2 ^ 53)%Z -> is_finite (Z_to_f64 z) = true /\ B2R (Z_to_f64 z) = IZR z.
Proof.
  intros H. unfold Z_to_f64.
  pose proof (binary_normalize_correct 53 1024 Hprec64 Hmax64 mode_NE z 0 false) as C.
  cbv zeta in C. rewrite F2R_int in C.
  rewrite (round_generic radix2 fexp64 (round_mode mode_NE) (IZR z) (generic_int z H)) in C.
  rewrite Rlt_bool_true in C.
  - destruct C as (C1 & C2 & _). auto.
  - rewrite <- abs_IZR. apply Rle_lt_trans with (IZR (2 ^ 53)); [now apply IZR_le|].
    rewrite IZR_two53. apply two53_lt_emax.
Qed.

(* beyond 2^53: still at least 2^53 in magnitude, sign kept, possibly infinite *)
Lemma Z_to_f64_large_pos z :
  (2 ^ 53 <= z)%Z ->
  (is_finite (Z_to_f64 z) = true /\ IZR (2 ^ 53) <= B2R (Z_to_f64 z)) \/ Z_to_f64 z = B754_infinity false.
Proof.
  intros H. unfold Z_to_f64.
  pose proof (binary_normalize_correct 53 1024 Hprec64 Hmax64 mode_NE z 0 false) as C.
  cbv zeta in C. rewrite F2R_int in C.
  destruct (Rlt_bool (Rabs (round radix2 fexp64 (round_mode mode_NE) (IZR z))) (bpow radix2 1024)).
  - left. destruct C as (C1 & C2 & _). split; [exact C2|]. rewrite C1.
    apply round_ge_generic; try typeclasses eauto.
    + apply generic_int. cbn. lia.
    + now apply IZR_le.
  - right. rewrite Rlt_bool_false in C by (apply IZR_le; lia).
    unfold binary_overflow in C. cbn in C.
    destruct (binary_normalize 53 1024 Hprec64 Hmax64 mode_NE z 0 false); cbn in C; try discriminate.
    now injection C as ->.
Qed.

Lemma Z_to_f64_large_neg z :
  (z <= - 2 ^ 53)%Z ->
  (is_finite (Z_to_f64 z) = true /\ B2R (Z_to_f64 z) <= IZR (- 2 ^ 53)) \/ Z_to_f64 z = B754_infinity true.
Proof.
  intros H. unfold Z_to_f64.
  pose proof (binary_normalize_correct 53 1024 Hprec64 Hmax64 mode_NE z 0 false) as C.
  cbv zeta in C. rewrite F2R_int in C.
  destruct (Rlt_bool (Rabs (round radix2 fexp64 (round_mode mode_NE) (IZR z))) (bpow radix2 1024)).
  - left. destruct C as (C1 & C2 & _). split; [exact C2|]. rewrite C1.
    apply round_le_generic; try typeclasses eauto.
    + apply generic_int. cbn. lia.
    + now apply IZR_le.
  - right. rewrite Rlt_bool_true in C by (apply IZR_lt; lia).
    unfold binary_overflow in C. cbn in C.
    destruct (binary_normalize 53 1024 Hprec64 Hmax64 mode_NE z 0 false); cbn in C; try discriminate.
    now injection C as ->.
Qed.

Lemma cmp_flt_inf_l s f : is_finite f = true -> cmp_flt (B754_infinity s) f = if s then Lt else Gt.
Proof. destruct f as [? | ? | | ? ? ? ?], s; try discriminate; reflexivity. Qed.
Lemma cmp_flt_inf_r s f : is_finite f = true -> cmp_flt f (B754_infinity s) = if s then Gt else Lt.
Proof. destruct f as [[]|?| |[] ? ? ?], s; try discriminate; reflexivity. Qed.

Lemma Rabs_lt_both x b : Rabs x < b -> - b < x < b.
Proof. intros H. now apply Rabs_lt_inv. Qed.

(* the mixed int/float and big/float rows of binopTypeSwitch *)
Lemma cmp_flt_Z_l z f : good_flt f -> cmp_flt (Z_to_f64 z) f = Rcompare (IZR z) (B2R f).
Proof.
  intros [Ff Bf]. apply Rabs_lt_both in Bf. rewrite <- opp_IZR in Bf.
  assert (C : (Z.abs z <= 2 ^ 53 \/ 2 ^ 53 <= z \/ z <= - 2 ^ 53)%Z) by lia.
  destruct C as [C|[C|C]].
  - destruct (Z_to_f64_exact z C) as [F E]. rewrite cmp_flt_finite by assumption. now rewrite E.
  - assert (Hz : IZR (2 ^ 53) <= IZR z) by now apply IZR_le.
    rewrite (Rcompare_Gt (IZR z)) by lra.
    destruct (Z_to_f64_large_pos z C) as [[F E]| ->].
    + rewrite cmp_flt_finite by assumption. apply Rcompare_Gt. lra.
    + now rewrite cmp_flt_inf_l.
  - assert (Hz : IZR z <= IZR (- 2 ^ 53)) by now apply IZR_le.
    rewrite (Rcompare_Lt (IZR z)) by lra.
    destruct (Z_to_f64_large_neg z C) as [[F E]| ->].
    + rewrite cmp_flt_finite by assumption. apply Rcompare_Lt. lra.
    + now rewrite cmp_flt_inf_l.
Qed.

Lemma cmp_flt_Z_r z f : good_flt f -> cmp_flt f (Z_to_f64 z) = Rcompare (B2R f) (IZR z).
Proof.
  intros [Ff Bf]. apply Rabs_lt_both in Bf. rewrite <- opp_IZR in Bf.
  assert (C : (Z.abs z <= 2 ^ 53 \/ 2 ^ 53 <= z \/ z <= - 2 ^ 53)%Z) by lia.
  destruct C as [C|[C|C]].
  - destruct (Z_to_f64_exact z C) as [F E]. rewrite cmp_flt_finite by assumption. now rewrite E.
  - assert (Hz : IZR (2 ^ 53) <= IZR z) by now apply IZR_le.
    rewrite (Rcompare_Lt _ (IZR z)) by lra.
    destruct (Z_to_f64_large_pos z C) as [[F E]| ->].
    + rewrite cmp_flt_finite by assumption. apply Rcompare_Lt. lra.
    + now rewrite cmp_flt_inf_r.
  - assert (Hz : IZR z <= IZR (- 2 ^ 53)) by now apply IZR_le.
    rewrite (Rcompare_Gt _ (IZR z)) by lra.
    destruct (Z_to_f64_large_neg z C) as [[F E]| ->].
    + rewrite cmp_flt_finite by assumption. apply Rcompare_Gt. lra.
    + now rewrite cmp_flt_inf_r.
Qed.

(* the number rows of gojq.Compare compute the order of the exact values *)
Theorem cmp_num_exact a b : good_num a -> good_num b -> cmp_num a b = Rcompare (num_R a) (num_R b).
Proof.
  destruct a as [x|x|x], b as [y|y|y]; cbn [good_num num_R cmp_num]; intros Ga Gb;
    unfold int_to_float, big_to_float;
    try (now rewrite Rcompare_IZR);
    try (now apply cmp_flt_Z_l); try (now apply cmp_flt_Z_r).
  destruct Ga, Gb. now apply cmp_flt_finite.
Qed.

Lemma Rcompare_total_preorder : total_preorder Rcompare (fun _ => True).
Proof.
  intros x _. split; [now apply Rcompare_Eq|split].
  - intros y _. apply Rcompare_sym.
  - intros y z _ _. repeat split; intros H.
    + apply Rcompare_Eq_inv in H. now subst.
    + apply Rcompare_Eq_inv in H. now subst.
    + destruct (Rcompare_spec x y), (Rcompare_spec y z), (Rcompare_spec x z); try congruence; lra.
Qed.

Theorem cmp_num_total_preorder : total_preorder cmp_num good_num.
Proof.
  intros x Gx. destruct (Rcompare_total_preorder (num_R x) I) as (R & S & T).
  split; [|split].
  - now rewrite cmp_num_exact.
  - intros y Gy. rewrite !cmp_num_exact by assumption. now apply S.
  - intros y z Gy Gz. rewrite !cmp_num_exact by assumption. now apply T.
Qed.

Theorem cmp_num_eq_iff x y : good_num x -> good_num y -> (cmp_num x y = Eq <-> num_R x = num_R y).
Proof.
  intros Gx Gy. rewrite cmp_num_exact by assumption. split.
  - apply Rcompare_Eq_inv.
  - apply Rcompare_Eq.
Qed.

(* the executable domain test decides the domain predicate *)
Lemma good_fltb_spec f : good_fltb f = true <-> good_flt f.
Proof.
  unfold good_fltb, good_flt. rewrite andb_true_iff.
  destruct (Z_to_f64_exact (2 ^ 53)) as [F2 E2]; [cbn; lia|].
  split.
  - intros [Ff L]. split; [exact Ff|].
    unfold two53 in L. rewrite Bltb_correct in L by (try rewrite is_finite_Babs; assumption).
    rewrite B2R_Babs, E2 in L. revert L. case Rlt_bool_spec; [auto|discriminate].
  - intros [Ff L]. split; [exact Ff|].
    unfold two53. rewrite Bltb_correct by (try rewrite is_finite_Babs; assumption).
    rewrite B2R_Babs, E2. now apply Rlt_bool_true.
Qed.
