(* C11 model, part 1: JSON values as gojq carries them, and Compare exactly as compare.go /
   operator.go (binopTypeSwitch) / func.go (bigToFloat, funcKeys) compute it.  Definitions only.

   Representation choices
   - numbers: NInt z (Go int, invariant: 64-bit range), NBig z ( *big.Int, any magnitude, may be small),
     NFlt f (float64 = Flocq BinarySingleNaN.binary_float 53 1024; one NaN, payloads are irrelevant to Compare).
     json.Number is normalised by parseNumber at the top of binopTypeSwitch; the transport decoder
     (Run.v, parse_number) models parseNumber, so json.Number never reaches [compare].
   - strings: byte lists (Go strings compare bytewise);
   - objects: association lists in strictly ascending bytewise key order (invariant wf_value; stands for
     map[string]any: funcKeys sorts the keys, and Compare visits l[k], r[k] in that order). *)
From Coq Require Import List ZArith NArith Bool.
From Flocq Require Import Core IEEE754.BinarySingleNaN.
Import ListNotations.

Definition f64 := binary_float 53 1024.
Lemma Hprec64 : FLX.Prec_gt_0 53. Proof. reflexivity. Qed.
Lemma Hmax64 : Prec_lt_emax 53 1024. Proof. reflexivity. Qed.

(* float64(int) and bigToFloat: both round to nearest, ties to even; out of range gives +-Inf
   (float64(int64) never overflows; bigToFloat: strconv.ParseFloat range error -> math.Inf(sign)). *)
Definition Z_to_f64 (z : Z) : f64 := binary_normalize 53 1024 Hprec64 Hmax64 mode_NE z 0 false.
Definition int_to_float (z : Z) : f64 := Z_to_f64 z.      (* float64(l), l int *)
Definition big_to_float (z : Z) : f64 := Z_to_f64 z.      (* bigToFloat(l) *)

Inductive num :=
| NInt (z : Z)
| NBig (z : Z)
| NFlt (f : f64).

Inductive value :=
| VNull
| VBool (b : bool)
| VNum (n : num)
| VStr (s : list N)
| VArr (l : list value)
| VObj (m : list (list N * value)).

(* compare.go: typeIndex *)
Definition type_index (v : value) : Z :=
  match v with
  | VNull => 0
  | VBool false => 1
  | VBool true => 2
  | VNum _ => 3
  | VStr _ => 4
  | VArr _ => 5
  | VObj _ => 6
  end%Z.

(* compare.go: lt(l, r) = l < r || math.IsNaN(l) *)
Definition flt_lt (l r : f64) : bool := Bltb l r || is_nan l.

(* the callbackFloats of Compare: switch { case lt(l,r): -1; case l == r: 0; default: 1 } *)
Definition cmp_flt (l r : f64) : comparison :=
  if flt_lt l r then Lt else if Beqb l r then Eq else Gt.

(* binopTypeSwitch restricted to the number rows: which callback runs after which conversion.
   callbackInts = cmp.Compare[int], callbackBigInts = ( *big.Int).Cmp (exact, trusted math/big). *)
Definition cmp_num (a b : num) : comparison :=
  match a, b with
  | NInt l, NInt r => Z.compare l r
  | NInt l, NFlt r => cmp_flt (int_to_float l) r
  | NInt l, NBig r => Z.compare l r
  | NFlt l, NInt r => cmp_flt l (int_to_float r)
  | NFlt l, NFlt r => cmp_flt l r
  | NFlt l, NBig r => cmp_flt l (big_to_float r)
  | NBig l, NInt r => Z.compare l r
  | NBig l, NFlt r => cmp_flt (big_to_float l) r
  | NBig l, NBig r => Z.compare l r
  end.

(* generic "first difference, then length" loop shared by strings (bytes), key lists and arrays *)
Section Lex.
  Context {A : Type} (cmp : A -> A -> comparison).
  Fixpoint lex (l r : list A) : comparison :=
    match l, r with
    | [], [] => Eq
    | [], _ :: _ => Lt
    | _ :: _, [] => Gt
    | x :: l', y :: r' => match cmp x y with Eq => lex l' r' | c => c end
    end.
End Lex.

(* cmp.Compare on Go strings: bytewise, shorter prefix first *)
Definition cmp_str (a b : list N) : comparison := lex N.compare a b.
(* Compare(funcKeys(l), funcKeys(r)): arrays of strings *)
Definition cmp_keys (a b : list (list N)) : comparison := lex cmp_str a b.

(* Compare.  Arrays: `for i := range min(len l, len r) { if c := Compare(l[i], r[i]); c != 0 { return c } };
   return cmp.Compare(len l, len r)`.  Objects: key arrays first; when they are equal, the values in
   key order, `return 0` when the keys are exhausted.  Every other pair of dynamic types, and
   null/null, bool/bool: cmp.Compare(typeIndex l, typeIndex r).
   The number and string comparisons are parameters so that the specification order (Spec.v: exact
   rationals, code points) is the same traversal with other leaves. *)
Section CompareWith.
  Context (cn : num -> num -> comparison) (cs : list N -> list N -> comparison).
  Fixpoint compare_with (a b : value) : comparison :=
    match a, b with
    | VNum x, VNum y => cn x y
    | VStr x, VStr y => cs x y
    | VArr l, VArr r =>
        (fix go (l r : list value) : comparison :=
           match l, r with
           | [], [] => Eq
           | [], _ :: _ => Lt
           | _ :: _, [] => Gt
           | x :: l', y :: r' => match compare_with x y with Eq => go l' r' | c => c end
           end) l r
    | VObj l, VObj r =>
        match lex cs (map fst l) (map fst r) with
        | Eq =>
            (fix go (l r : list (list N * value)) : comparison :=
               match l, r with
               | (_, x) :: l', (_, y) :: r' => match compare_with x y with Eq => go l' r' | c => c end
               | _, _ => Eq
               end) l r
        | c => c
        end
    | _, _ => Z.compare (type_index a) (type_index b)
    end.
End CompareWith.

(* gojq.Compare *)
Definition compare : value -> value -> comparison := compare_with cmp_num cmp_str.

(* the value loop of the object case on its own (used to state unfolding lemmas) *)
Fixpoint obj_vals_cmp (cmp : value -> value -> comparison) (l r : list (list N * value)) : comparison :=
  match l, r with
  | (_, x) :: l', (_, y) :: r' => match cmp x y with Eq => obj_vals_cmp cmp l' r' | c => c end
  | _, _ => Eq
  end.

(* operator.go funcOpEq .. funcOpLe: projections of Compare *)
Definition is_eq (c : comparison) : bool := match c with Eq => true | _ => false end.
Definition is_lt (c : comparison) : bool := match c with Lt => true | _ => false end.
Definition is_gt (c : comparison) : bool := match c with Gt => true | _ => false end.
Definition op_eq (a b : value) : bool := is_eq (compare a b).          (* Compare(l,r) == 0 *)
Definition op_ne (a b : value) : bool := negb (is_eq (compare a b)).   (* != 0 *)
Definition op_lt (a b : value) : bool := is_lt (compare a b).          (* < 0 *)
Definition op_le (a b : value) : bool := negb (is_gt (compare a b)).   (* <= 0 *)
Definition op_gt (a b : value) : bool := is_gt (compare a b).          (* > 0 *)
Definition op_ge (a b : value) : bool := negb (is_lt (compare a b)).   (* >= 0 *)

(* ---- the domain of the property: NaN-free, every float finite with magnitude < 2^53 ---- *)
Definition two53 : f64 := Z_to_f64 (2 ^ 53).
Definition good_fltb (f : f64) : bool := is_finite f && Bltb (Babs f) two53.
Definition good_numb (n : num) : bool := match n with NFlt f => good_fltb f | _ => true end.
Fixpoint goodb (v : value) : bool :=
  match v with
  | VNum n => good_numb n
  | VArr l => forallb goodb l
  | VObj m => forallb (fun kv => goodb (snd kv)) m
  | _ => true
  end.

(* representation invariant of objects (checked by the transport decoder): keys strictly ascending *)
Fixpoint keys_ascb (ks : list (list N)) : bool :=
  match ks with
  | k1 :: ((k2 :: _) as r) => is_lt (cmp_str k1 k2) && keys_ascb r
  | _ => true
  end.
Fixpoint wfb (v : value) : bool :=
  match v with
  | VArr l => forallb wfb l
  | VObj m => keys_ascb (map fst m) && forallb (fun kv => wfb (snd kv)) m
  | _ => true
  end.
