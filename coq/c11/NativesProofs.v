(* C11 proofs, part 5: the sorting layer instantiated with gojq.Compare on the property's domain. *)
From Coq Require Import List ZArith NArith Bool Arith Lia Sorting.Sorted Sorting.Permutation.
From Verif Require Import c11.Value c11.Natives c11.OrderGeneric c11.NumProofs c11.OrderProofs c11.SortProofs.
Import ListNotations.

Notation vitem := (value * value)%type.                      (* (value, key) as in func.go sortItem *)
Definition good_keys (l : list vitem) : Prop := Forall (fun it => good (snd it)) l.
Definition key_le (a b : vitem) : Prop := le (snd a) (snd b).        (* Compare(a.key, b.key) <= 0 *)
Definition key_lt (a b : vitem) : Prop := compare (snd a) (snd b) = Lt.
Definition same_class (k : value) (it : vitem) : bool := is_eq (compare k (snd it)).

Local Notation ord := compare_total_preorder.

(* ---- sort / sort_by ---- *)
Theorem sort_permutation (l : list vitem) : Permutation (sort_items compare l) l.
Proof. apply isort_perm. Qed.

Theorem sort_ordered (l : list vitem) : good_keys l -> StronglySorted key_le (sort_items compare l).
Proof. exact (isort_sorted compare good ord l). Qed.

Theorem sort_stable (l : list vitem) k :
  good k -> good_keys l -> filter (same_class k) (sort_items compare l) = filter (same_class k) l.
Proof. exact (isort_stable compare good ord l k). Qed.

Theorem stable_sort_is_unique (l out : list vitem) :
  good_keys l -> good_keys out -> StronglySorted key_le out ->
  (forall k, good k -> filter (same_class k) out = filter (same_class k) l) ->
  out = sort_items compare l.
Proof. exact (stable_sort_unique compare good ord l out). Qed.

(* plain `sort`: the key is the value itself *)
Definition sort_values (l : list value) : list value := sort_by compare (map (fun x => (x, x)) l).

Lemma map_fst_self (l : list value) : map fst (map (fun x => (x, x)) l) = l.
Proof. induction l; cbn; congruence. Qed.

Lemma self_sorted_values (s : list vitem) :
  Forall (fun it => fst it = snd it) s -> StronglySorted key_le s -> StronglySorted le (map fst s).
Proof.
  intros E S. induction S as [|it s S IH F]; cbn; [constructor|].
  inversion E as [|? ? Eit E']; subst. constructor; [now apply IH|].
  apply Forall_map. rewrite Forall_forall in *. intros x Hx. unfold key_le in F.
  rewrite Eit, (E' x Hx). now apply F.
Qed.

Theorem sort_values_spec (l : list value) :
  Forall good l -> Permutation (sort_values l) l /\ StronglySorted le (sort_values l).
Proof.
  intros G. unfold sort_values, sort_by.
  set (items := map (fun x => (x, x)) l).
  assert (Gk : good_keys items).
  { unfold good_keys, items. apply Forall_map. exact G. }
  assert (P : Permutation (sort_items compare items) items) by apply sort_permutation.
  split.
  - apply (Permutation_trans (l' := map fst items)); [now apply Permutation_map|].
    unfold items. rewrite map_fst_self. reflexivity.
  - apply self_sorted_values; [|now apply sort_ordered].
    apply (Permutation_Forall (x := items)); [now symmetry|].
    unfold items. apply Forall_map. apply Forall_forall. reflexivity.
Qed.

(* ---- group_by ---- *)
Theorem group_by_partition (l : list vitem) : concat (groups compare (sort_items compare l)) = sort_items compare l.
Proof. apply groups_concat. Qed.

Theorem group_by_runs (l : list vitem) : Forall (is_run compare) (groups compare (sort_items compare l)).
Proof. apply groups_runs. Qed.

Theorem group_by_maximal (l : list vitem) :
  good_keys l -> StronglySorted (grp_lt compare) (groups compare (sort_items compare l)).
Proof.
  intros G. apply (groups_increasing compare good ord).
  - now apply (kdom_isort compare good).
  - now apply (isort_sorted compare good ord).
Qed.

(* ---- unique / unique_by ---- *)
Theorem unique_first_of_groups (l : list vitem) :
  Forall2 (fun u grp => exists t, grp = u :: t) (uniq compare (sort_items compare l)) (groups compare (sort_items compare l)).
Proof. apply uniq_heads. Qed.

Theorem unique_strictly_increasing (l : list vitem) :
  good_keys l -> StronglySorted key_lt (uniq compare (sort_items compare l)).
Proof.
  intros G. apply (uniq_increasing compare good ord).
  - now apply (kdom_isort compare good).
  - now apply (isort_sorted compare good ord).
Qed.

(* ---- min_by / max_by ---- *)
Theorem min_by_is_first_minimum (l : list vitem) j b :
  good_keys l -> min_max_by compare true l = Some (j, b) -> first_min compare l j b.
Proof. exact (min_by_first_min compare good ord l j b). Qed.

Theorem max_by_is_last_maximum (l : list vitem) j b :
  good_keys l -> min_max_by compare false l = Some (j, b) -> last_max compare l j b.
Proof. exact (max_by_last_max compare good ord l j b). Qed.

(* ---- bsearch ---- *)
Theorem bsearch_sorted (vs : list value) t :
  Forall good vs -> good t -> StronglySorted le vs ->
  let r := bsearch compare vs t in
  ((0 <= r)%Z ->
     exists x, nth_error vs (Z.to_nat r) = Some x /\ compare x t = Eq /\
               forall k y, k < Z.to_nat r -> nth_error vs k = Some y -> compare y t = Lt) /\
  ((r < 0)%Z ->
     let p := Z.to_nat (- r - 1) in
     p <= length vs /\
     forall k y, nth_error vs k = Some y -> (k < p -> compare y t = Lt) /\ (p <= k -> compare y t = Gt)).
Proof. exact (bsearch_spec compare good ord vs t). Qed.

(* ---- array difference ---- *)
Theorem array_sub_membership (l r : list value) x :
  In x (arr_sub compare l r) <-> In x l /\ forall y, In y r -> compare x y <> Eq.
Proof. apply arr_sub_In. Qed.

Theorem array_sub_is_filter (l r : list value) :
  arr_sub compare l r = filter (fun x => forallb (fun y => negb (is_eq (compare x y))) r) l.
Proof. apply arr_sub_spec. Qed.

(* ---- keys of a well-formed object are strictly ascending in the value order ---- *)
Lemma cmp_str_lt_trans a b c : cmp_str a b = Lt -> cmp_str b c = Lt -> cmp_str a c = Lt.
Proof.
  intros H1 H2. destruct (cmp_str_ord a I) as (_ & _ & T). destruct (T b c I I) as (_ & _ & T3).
  rewrite T3; congruence.
Qed.

Lemma keys_asc_strong ks : keys_ascb ks = true -> StronglySorted (fun a b => cmp_str a b = Lt) ks.
Proof.
  induction ks as [|k ks IH]; intros H; [constructor|].
  destruct ks as [|k2 ks]; [repeat constructor|].
  cbn [keys_ascb] in H. apply andb_true_iff in H. destruct H as [H1 H2].
  specialize (IH H2). constructor; [exact IH|].
  assert (L : cmp_str k k2 = Lt) by (destruct (cmp_str k k2); cbn in H1; congruence).
  inversion IH as [|? ? S F]; subst. constructor; [exact L|].
  rewrite Forall_forall in *. intros x Hx. apply (cmp_str_lt_trans k k2 x); auto.
Qed.

Theorem object_keys_sorted m :
  wfb (VObj m) = true -> StronglySorted (fun a b => compare a b = Lt) (obj_keys m).
Proof.
  cbn [wfb]. intros H. apply andb_true_iff in H. destruct H as [H _].
  apply keys_asc_strong in H. unfold obj_keys.
  induction m as [|[k v] m IH]; cbn in *; [constructor|].
  inversion H as [|? ? S F]; subst. constructor; [now apply IH|].
  apply Forall_map. rewrite Forall_map in F. rewrite Forall_forall in *. intros x Hx. cbn. now apply F.
Qed.

(* ---- indices / index / rindex on arrays: the positions whose window is Compare-equal to the needle ---- *)
Section Indices.
  Context (cmp : value -> value -> comparison).

  Definition window_matches (vs xs : list value) (d : nat) : Prop :=
    d + length xs <= length vs /\ cmp (VArr (firstn (length xs) (skipn d vs))) (VArr xs) = Eq.

  Lemma is_eq_true c : is_eq c = true <-> c = Eq.
  Proof. destruct c; cbn; split; congruence. Qed.

  Lemma match_positions_In xs : xs <> [] -> forall vs i j,
    In j (match_positions cmp i vs xs) <-> exists d, j = i + d /\ window_matches vs xs d.
  Proof.
    intros Hx. assert (Lx : 1 <= length xs) by (destruct xs; [congruence|cbn; lia]).
    induction vs as [|v rest IH]; intros i j.
    - cbn. split; [tauto|]. intros (d & _ & Hd & _). cbn in Hd. lia.
    - cbn [match_positions]. rewrite in_app_iff, IH. split.
      + intros [H|(d & -> & Hd & He)].
        * destruct ((length xs <=? length (v :: rest)) && is_eq (cmp (VArr (firstn (length xs) (v :: rest))) (VArr xs))) eqn:C;
            [|contradiction].
          destruct H as [<-|[]]. apply andb_true_iff in C. destruct C as [C1 C2].
          apply Nat.leb_le in C1. apply is_eq_true in C2. exists 0. split; [lia|]. split; [cbn [length plus] in *; lia|exact C2].
        * exists (S d). split; [lia|]. split; [cbn [length] in *; lia|exact He].
      + intros ([|d] & -> & Hd & He).
        * left. cbn [skipn] in He.
          replace ((length xs <=? length (v :: rest)) && is_eq (cmp (VArr (firstn (length xs) (v :: rest))) (VArr xs))) with true.
          -- left. lia.
          -- symmetry. apply andb_true_iff. split; [apply Nat.leb_le; cbn [length] in *; lia|now apply is_eq_true].
        * right. exists d. split; [lia|]. split; [cbn [length] in *; lia|exact He].
  Qed.

  Theorem indices_spec vs xs j :
    In j (indices cmp vs xs) <-> xs <> [] /\ window_matches vs xs j.
  Proof.
    unfold indices. destruct xs as [|x xs]; [cbn; split; [tauto|intros [H _]; congruence]|].
    rewrite match_positions_In by congruence. split.
    - intros (d & -> & H). split; [congruence|exact H].
    - intros [_ H]. exists j. split; [reflexivity|exact H].
  Qed.
End Indices.

Theorem indices_compare vs xs j :
  In j (indices compare vs xs) <-> xs <> [] /\ window_matches compare vs xs j.
Proof. apply indices_spec. Qed.
