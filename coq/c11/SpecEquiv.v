(* C11 proofs, part 7: the stated order (Spec.v) IS the order Compare computes on the domain. *)
From Coq Require Import List ZArith NArith Bool Lia.
From Verif Require Import c11.Value c11.Spec c11.OrderGeneric c11.NumProofs c11.OrderProofs c11.SpecProofs.
Import ListNotations.

(* ---------------- the traversal only depends on its leaves ---------------- *)
Lemma lex_ext {A} (c1 c2 : A -> A -> comparison) l : forall r,
  Forall (fun x => forall y, In y r -> c1 x y = c2 x y) l -> lex c1 l r = lex c2 l r.
Proof.
  induction l as [|x l IH]; intros [|y r] H; try reflexivity.
  inversion H; subst. cbn. rewrite (H2 y) by now left.
  destruct (c2 x y); try reflexivity. apply IH.
  apply Forall_forall. intros z Hz w Hw. rewrite Forall_forall in H3. apply (H3 z Hz). now right.
Qed.

Lemma compare_with_ext cn1 cs1 cn2 cs2 (gn : num -> Prop) :
  (forall x y, gn x -> gn y -> cn1 x y = cn2 x y) -> (forall s t, cs1 s t = cs2 s t) ->
  forall a b, good_with gn a -> good_with gn b -> compare_with cn1 cs1 a b = compare_with cn2 cs2 a b.
Proof.
  intros Hn Hs. induction a using value_ind_nested; intros w Ga Gb; destruct w; try reflexivity.
  - cbn. inversion Ga; inversion Gb; subst. now apply Hn.
  - cbn. apply Hs.
  - change (lex (compare_with cn1 cs1) l l0 = lex (compare_with cn2 cs2) l l0).
    inversion Ga as [| | | |? Gl|]; inversion Gb as [| | | |? Gl0|]; subst.
    apply lex_ext. rewrite Forall_forall in *. intros x Hx y Hy. apply (H x Hx); auto.
  - cbn. inversion Ga as [| | | | |? Gm]; inversion Gb as [| | | | |? Gm0]; subst.
    replace (lex cs1 (map fst m) (map fst m0)) with (lex cs2 (map fst m) (map fst m0)).
    2:{ symmetry. apply lex_ext. apply Forall_forall. intros; apply Hs. }
    destruct (lex cs2 (map fst m) (map fst m0)); try reflexivity.
    clear Ga Gb. revert m0 Gm0. induction m as [|[k x] m IHm]; intros [|[k' y] m0] Gm0; try reflexivity.
    inversion H; inversion Gm; inversion Gm0; subst. cbn [snd] in *.
    rewrite (H2 y) by assumption. destruct (compare_with cn2 cs2 x y); try reflexivity.
    now apply IHm.
Qed.

(* the stated order IS the order Compare computes *)
Theorem spec_compare_is_compare a b : good a -> good b -> spec_compare a b = compare a b.
Proof.
  unfold spec_compare, compare, good.
  apply compare_with_ext.
  - apply spec_num_is_cmp_num.
  - apply spec_str_is_cmp_str.
Qed.
