(* C11 proofs, part 1 (no floats, no reals): total-preorder facts are preserved by the two
   constructions Compare is made of -- "first component, then second" and "first difference, then
   length" -- and hence by the whole nested traversal [compare_with], for ANY number comparison and
   string comparison that are themselves total preorders on their domains. *)
From Coq Require Import List ZArith NArith Bool Lia.
From Verif Require Import c11.Value.
Import ListNotations.

Section Ord.
  Context {A : Type} (cmp : A -> A -> comparison) (dom : A -> Prop).

  (* everything a total preorder says about x against arbitrary y, z of the domain.
     (the statement is anchored at x so that it can serve as a nested induction hypothesis) *)
  Definition ord_at (x : A) : Prop :=
    dom x ->
    cmp x x = Eq /\
    (forall y, dom y -> cmp y x = CompOpp (cmp x y)) /\
    (forall y z, dom y -> dom z ->
       (cmp x y = Eq -> cmp x z = cmp y z) /\
       (cmp y z = Eq -> cmp x z = cmp x y) /\
       (cmp x y = cmp y z -> cmp x z = cmp x y)).

  Definition total_preorder : Prop := forall x, ord_at x.
End Ord.

Definition prodcmp {A B : Type} (c1 : A -> A -> comparison) (c2 : B -> B -> comparison) (p q : A * B) : comparison :=
  match c1 (fst p) (fst q) with Eq => c2 (snd p) (snd q) | c => c end.

Lemma prod_ord_at {A B} (c1 : A -> A -> comparison) (c2 : B -> B -> comparison) d1 d2 a b :
  ord_at c1 d1 a -> ord_at c2 d2 b ->
  ord_at (prodcmp c1 c2) (fun p => d1 (fst p) /\ d2 (snd p)) (a, b).
Proof.
  intros H1 H2 [Da Db]. cbn in Da, Db.
  destruct (H1 Da) as (R1 & S1 & T1). destruct (H2 Db) as (R2 & S2 & T2).
  unfold prodcmp; cbn [fst snd]. split; [|split].
  - now rewrite R1.
  - intros [a' b'] [Da' Db']; cbn [fst snd] in *.
    rewrite (S1 a' Da'). destruct (c1 a a'); cbn; auto.
  - intros [a' b'] [a'' b''] [Da' Db'] [Da'' Db'']; cbn [fst snd] in *.
    destruct (T1 a' a'' Da' Da'') as (E1 & E2 & E3).
    destruct (T2 b' b'' Db' Db'') as (F1 & F2 & F3).
    destruct (c1 a a') eqn:X, (c1 a' a'') eqn:Y;
      try (rewrite (E1 eq_refl)); try (rewrite (E2 eq_refl)); try (rewrite (E3 eq_refl));
      try (repeat split; intros; congruence); try (repeat split; assumption).
    all: destruct (c1 a a''); repeat split; intros; congruence.
Qed.

Section LexOrd.
  Context {A : Type} (cmp : A -> A -> comparison) (dom : A -> Prop).

  Lemma lex_ord_at (l : list A) : Forall (ord_at cmp dom) l -> ord_at (lex cmp) (Forall dom) l.
  Proof.
    induction 1 as [|x l Hx Hl IH].
    - intros _. split; [reflexivity|split].
      + intros [|y m] _; reflexivity.
      + intros [|y m] [|z n] _ _; cbn; repeat split; intros; congruence.
    - intros D. inversion D as [|? ? Dx Dl]; subst.
      pose proof (prod_ord_at cmp (lex cmp) dom (Forall dom) x l Hx IH (conj Dx Dl)) as (R & S & T).
      unfold prodcmp in R, S, T; cbn [fst snd] in R, S, T.
      split; [exact R|split].
      + intros [|y m] Dy; [reflexivity|]. inversion Dy; subst. exact (S (y, m) (conj H1 H2)).
      + intros [|y m] [|z n] Dy Dz; cbn [lex]; try (repeat split; intros; congruence).
        inversion Dy; inversion Dz; subst. exact (T (y, m) (z, n) (conj H1 H2) (conj H5 H6)).
  Qed.

  Lemma lex_total_preorder : total_preorder cmp dom -> total_preorder (lex cmp) (Forall dom).
  Proof. intros H l. apply lex_ord_at. apply Forall_forall. intros; apply H. Qed.

  (* equality of lex = pointwise equality *)
  Lemma lex_eq_Forall2 l r : lex cmp l r = Eq <-> Forall2 (fun x y => cmp x y = Eq) l r.
  Proof.
    revert r; induction l as [|x l IH]; intros [|y r]; cbn; split; intros H; try discriminate; try constructor;
      try (inversion H; fail).
    - destruct (cmp x y); congruence.
    - apply IH. destruct (cmp x y); congruence.
    - inversion H; subst. rewrite H3. now apply IH.
  Qed.
End LexOrd.

(* ---- N.compare and bytewise strings ---- *)
Lemma N_ord : total_preorder N.compare (fun _ => True).
Proof.
  intros x _. split; [apply N.compare_refl|split].
  - intros y _. apply N.compare_antisym.
  - intros y z _ _. repeat split; intros H.
    + apply N.compare_eq in H. now subst.
    + apply N.compare_eq in H. now subst.
    + destruct (N.compare_spec x y), (N.compare_spec y z), (N.compare_spec x z); try congruence; lia.
Qed.

Lemma Forall_True {A} (l : list A) : Forall (fun _ => True) l.
Proof. induction l; constructor; auto. Qed.

Lemma cmp_str_ord : total_preorder cmp_str (fun _ => True).
Proof.
  intros s _. destruct (lex_total_preorder N.compare _ N_ord s (Forall_True s)) as (R & S & T).
  split; [exact R|split].
  - intros y _. apply S, Forall_True.
  - intros y z _ _. apply T; apply Forall_True.
Qed.

Lemma cmp_str_eq s t : cmp_str s t = Eq -> s = t.
Proof.
  unfold cmp_str. rewrite lex_eq_Forall2. induction 1; auto.
  apply N.compare_eq in H. now subst.
Qed.

(* ---- nested induction on values ---- *)
Section ValueInd.
  Variable P : value -> Prop.
  Hypothesis Hnull : P VNull.
  Hypothesis Hbool : forall b, P (VBool b).
  Hypothesis Hnum : forall n, P (VNum n).
  Hypothesis Hstr : forall s, P (VStr s).
  Hypothesis Harr : forall l, Forall P l -> P (VArr l).
  Hypothesis Hobj : forall m, Forall (fun kv => P (snd kv)) m -> P (VObj m).

  Fixpoint value_ind_nested (v : value) : P v :=
    match v with
    | VNull => Hnull
    | VBool b => Hbool b
    | VNum n => Hnum n
    | VStr s => Hstr s
    | VArr l =>
        Harr l ((fix go (l : list value) : Forall P l :=
                   match l with
                   | [] => Forall_nil _
                   | x :: r => Forall_cons x (value_ind_nested x) (go r)
                   end) l)
    | VObj m =>
        Hobj m ((fix go (m : list (list N * value)) : Forall (fun kv => P (snd kv)) m :=
                   match m with
                   | [] => Forall_nil _
                   | kv :: r => Forall_cons kv (value_ind_nested (snd kv)) (go r)
                   end) m)
    end.
End ValueInd.

(* the domain predicate, parametric in the condition on numbers *)
Inductive good_with (gn : num -> Prop) : value -> Prop :=
| gw_null : good_with gn VNull
| gw_bool b : good_with gn (VBool b)
| gw_num n : gn n -> good_with gn (VNum n)
| gw_str s : good_with gn (VStr s)
| gw_arr l : Forall (good_with gn) l -> good_with gn (VArr l)
| gw_obj m : Forall (fun kv => good_with gn (snd kv)) m -> good_with gn (VObj m).

Section CompareWithProofs.
  Context (cn : num -> num -> comparison) (cs : list N -> list N -> comparison) (gn : num -> Prop).
  Hypothesis Hcn : total_preorder cn gn.
  Hypothesis Hcs : total_preorder cs (fun _ => True).
  Hypothesis Hcs_eq : forall s t, cs s t = Eq -> s = t.

  Notation cmpv := (compare_with cn cs).
  Notation goodv := (good_with gn).

  Lemma compare_arr l r : cmpv (VArr l) (VArr r) = lex cmpv l r.
  Proof.
    reflexivity.
  Qed.

  Lemma compare_obj l r :
    cmpv (VObj l) (VObj r) =
    match lex cs (map fst l) (map fst r) with Eq => obj_vals_cmp cmpv l r | c => c end.
  Proof.
    cbn. destruct (lex cs (map fst l) (map fst r)); try reflexivity.
    revert r; induction l as [|[k x] l IH]; intros [|[k' y] r]; try reflexivity.
    cbn. rewrite IH. reflexivity.
  Qed.

  Lemma obj_vals_lex (c : value -> value -> comparison) l r :
    length l = length r -> obj_vals_cmp c l r = lex c (map snd l) (map snd r).
  Proof.
    revert r; induction l as [|[k x] l IH]; intros [|[k' y] r] H; try discriminate; try reflexivity.
    cbn. rewrite IH by (cbn in H; lia). reflexivity.
  Qed.

  Lemma keys_eq ks1 ks2 : lex cs ks1 ks2 = Eq -> ks1 = ks2.
  Proof.
    rewrite lex_eq_Forall2. induction 1; auto. apply Hcs_eq in H. now subst.
  Qed.

  (* objects compare as the pair (key list, value list) *)
  Lemma compare_obj_prod l r :
    cmpv (VObj l) (VObj r) =
    prodcmp (lex cs) (lex cmpv) (map fst l, map snd l) (map fst r, map snd r).
  Proof.
    rewrite compare_obj. unfold prodcmp; cbn [fst snd].
    destruct (lex cs (map fst l) (map fst r)) eqn:E; try reflexivity.
    apply keys_eq in E. apply obj_vals_lex.
    rewrite <- (map_length fst l), <- (map_length fst r). now rewrite E.
  Qed.

  Lemma compare_cases a b :
    cmpv a b =
    match a, b with
    | VNum x, VNum y => cn x y
    | VStr x, VStr y => cs x y
    | VArr l, VArr r => lex cmpv l r
    | VObj l, VObj r => prodcmp (lex cs) (lex cmpv) (map fst l, map snd l) (map fst r, map snd r)
    | _, _ => Z.compare (type_index a) (type_index b)
    end.
  Proof.
    destruct a, b; try reflexivity. apply compare_obj_prod.
  Qed.

  Lemma good_arr_inv l : goodv (VArr l) -> Forall goodv l.
  Proof. now inversion 1. Qed.
  Lemma good_obj_inv m : goodv (VObj m) -> Forall goodv (map snd m).
  Proof. inversion 1; subst. now apply Forall_map. Qed.
  Lemma good_num_inv n : goodv (VNum n) -> gn n.
  Proof. now inversion 1. Qed.

  Ltac mixed := cbn; repeat split; intros; try discriminate; try reflexivity; try congruence.

  Theorem compare_with_total_preorder : total_preorder cmpv goodv.
  Proof.
    intros v. induction v using value_ind_nested; intros G.
    - (* null *)
      split; [reflexivity|split].
      + intros [|[]| | | |] _; reflexivity.
      + intros [|[]| | | |] [|[]| | | |] _ _; mixed.
    - (* bool *)
      split; [destruct b; reflexivity|split].
      + intros [|[]| | | |] _; destruct b; reflexivity.
      + intros [|[]| | | |] [|[]| | | |] _ _; destruct b; mixed.
    - (* numbers *)
      destruct (Hcn n (good_num_inv _ G)) as (R & S & T).
      split; [exact R|split].
      + intros [|[]|y| | |] Gy; try reflexivity. cbn. apply S. now apply good_num_inv.
      + intros [|[]|y| | |] [|[]|z| | |] Gy Gz; rewrite !compare_cases; try solve [mixed].
        apply T; now apply good_num_inv.
    - (* strings *)
      destruct (Hcs s I) as (R & S & T).
      split; [exact R|split].
      + intros [|[]| |y| |] Gy; try reflexivity. cbn. now apply S.
      + intros [|[]| |y| |] [|[]| |z| |] Gy Gz; rewrite !compare_cases; try solve [mixed].
        all: try (cbn; repeat split; intros; try discriminate; congruence).
        now apply T.
    - (* arrays *)
      assert (HL : ord_at (lex cmpv) (Forall goodv) l) by (apply lex_ord_at; exact H).
      destruct (HL (good_arr_inv _ G)) as (R & S & T).
      split; [rewrite compare_cases; exact R|split].
      + intros [|[]| | |y|] Gy; try reflexivity. rewrite !compare_cases. apply S. now apply good_arr_inv.
      + intros [|[]| | |y|] [|[]| | |z|] Gy Gz; rewrite !compare_cases; try solve [mixed].
        all: try (cbn; repeat split; intros; try discriminate; congruence).
        apply T; now apply good_arr_inv.
    - (* objects *)
      assert (HK : ord_at (lex cs) (Forall (fun _ => True)) (map fst m)).
      { apply lex_ord_at. apply Forall_forall. intros; apply Hcs. }
      assert (HV : ord_at (lex cmpv) (Forall goodv) (map snd m)).
      { apply lex_ord_at. apply Forall_map. exact H. }
      pose proof (prod_ord_at _ _ _ _ _ _ HK HV (conj (Forall_True _) (good_obj_inv _ G))) as (R & S & T).
      split; [rewrite compare_cases; exact R|split].
      + intros [|[]| | | |y] Gy; try reflexivity. rewrite !compare_cases.
        apply (S (map fst y, map snd y)). split; [apply Forall_True|now apply good_obj_inv].
      + intros [|[]| | | |y] [|[]| | | |z] Gy Gz; rewrite !compare_cases; try solve [mixed].
        all: try (cbn; repeat split; intros; try discriminate; congruence).
        apply (T (map fst y, map snd y) (map fst z, map snd z));
          (split; [apply Forall_True|now apply good_obj_inv]).
  Qed.

  (* ---- equality of the order = equality of denotations ---- *)
  Context {DN : Type} (dn : num -> DN).
  Hypothesis Hdn : forall x y, gn x -> gn y -> (cn x y = Eq <-> dn x = dn y).

  Inductive dval :=
  | DNull | DBool (b : bool) | DNum (d : DN) | DStr (s : list N)
  | DArr (l : list dval) | DObj (m : list (list N * dval)).

  Fixpoint denote_with (v : value) : dval :=
    match v with
    | VNull => DNull
    | VBool b => DBool b
    | VNum n => DNum (dn n)
    | VStr s => DStr s
    | VArr l => DArr (map denote_with l)
    | VObj m => DObj (map (fun kv => (fst kv, denote_with (snd kv))) m)
    end.

  Lemma cs_eq_iff s t : cs s t = Eq <-> s = t.
  Proof.
    split; [apply Hcs_eq|]. intros ->. destruct (Hcs t I) as (R & _). exact R.
  Qed.

  Lemma keys_eq_iff ks1 ks2 : lex cs ks1 ks2 = Eq <-> ks1 = ks2.
  Proof.
    split; [apply keys_eq|]. intros ->. apply lex_eq_Forall2.
    induction ks2; constructor; auto. now apply cs_eq_iff.
  Qed.

  Lemma Forall2_denote l r :
    Forall (fun x => forall y, goodv x -> goodv y -> (cmpv x y = Eq <-> denote_with x = denote_with y)) l ->
    Forall goodv l -> Forall goodv r ->
    (Forall2 (fun x y => cmpv x y = Eq) l r <-> map denote_with l = map denote_with r).
  Proof.
    intros H; revert r; induction H as [|x l Hx Hl IH]; intros r Gl Gr.
    - split; intros E; [inversion E; reflexivity|]. destruct r; [constructor|discriminate].
    - inversion Gl; subst. split; intros E.
      + inversion E; subst. inversion Gr; subst. cbn. f_equal; [now apply Hx|]. now apply IH.
      + destruct r as [|y r]; [discriminate|]. inversion Gr; subst. cbn in E. injection E as E1 E2.
        constructor; [now apply Hx|]. now apply IH.
  Qed.

  Lemma map_pair_split (m r : list (list N * value)) :
    map (fun kv => (fst kv, denote_with (snd kv))) m = map (fun kv => (fst kv, denote_with (snd kv))) r <->
    map fst m = map fst r /\ map denote_with (map snd m) = map denote_with (map snd r).
  Proof.
    revert r; induction m as [|[k x] m IH]; intros [|[k' y] r]; cbn; split; intros H;
      try discriminate; try (destruct H; discriminate); auto.
    - injection H as -> E1 E2. destruct (proj1 (IH r) E2) as [-> ->]. rewrite E1. auto.
    - destruct H as [H1 H2]. injection H1 as -> H1. injection H2 as -> H2.
      f_equal. apply IH. auto.
  Qed.

  Theorem compare_with_eq_denote a :
    forall w, goodv a -> goodv w -> (cmpv a w = Eq <-> denote_with a = denote_with w).
  Proof.
    induction a using value_ind_nested; intros w Ga Gb.
    - destruct w as [|[]| | | |]; cbn; split; intros; try discriminate; auto.
    - destruct w as [|[]| | | |], b; cbn; split; intros; try discriminate; auto.
    - destruct w as [|[]|y| | |]; try (cbn; split; intros; discriminate).
      cbn. rewrite (Hdn n y) by now apply good_num_inv. split; intros E; [now rewrite E|now injection E].
    - destruct w as [|[]| |y| |]; try (cbn; split; intros; discriminate).
      cbn. rewrite cs_eq_iff. split; intros E; [now rewrite E|now injection E].
    - destruct w as [|[]| | |y|]; try (cbn; split; intros; discriminate).
      rewrite compare_cases, lex_eq_Forall2. cbn [denote_with].
      rewrite (Forall2_denote l y H (good_arr_inv _ Ga) (good_arr_inv _ Gb)).
      split; intros E; [now rewrite E|now injection E].
    - destruct w as [|[]| | | |y]; try (cbn; split; intros; discriminate).
      rewrite compare_cases. unfold prodcmp; cbn [fst snd denote_with].
      assert (HV : Forall2 (fun x y => cmpv x y = Eq) (map snd m) (map snd y) <->
                   map denote_with (map snd m) = map denote_with (map snd y)).
      { apply Forall2_denote; [apply Forall_map; exact H|now apply good_obj_inv|now apply good_obj_inv]. }
      split.
      + destruct (lex cs (map fst m) (map fst y)) eqn:E; try discriminate.
        intros E2. apply keys_eq_iff in E. apply lex_eq_Forall2, HV in E2.
        f_equal. apply map_pair_split. auto.
      + intros E. injection E as E. apply map_pair_split in E. destruct E as [E1 E2].
        rewrite (proj2 (keys_eq_iff _ _) E1). apply lex_eq_Forall2, HV. exact E2.
  Qed.
End CompareWithProofs.
