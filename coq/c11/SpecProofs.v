(* C11 proofs, part 6: the order as the property TEXT states it (Spec.v: numbers as exact rationals
   compared by integer arithmetic on dyadics, strings by code point) is the order gojq.Compare
   computes, on the property's domain.  Hence every theorem about [compare] is a theorem about the
   stated order, and the (spec ...) oracle of the correspondence check judges by a proven-equal order. *)
From Coq Require Import List ZArith NArith Bool Lia Reals Lra.
From Coq Require Import ZifyN ZifyBool.
From Flocq Require Import Core IEEE754.BinarySingleNaN.
From Verif Require Import c11.Value c11.Spec c11.OrderGeneric c11.NumProofs c11.OrderProofs.
Import ListNotations.

(* ---------------- numbers: dyadic comparison = comparison of the real values ---------------- *)
Open Scope R_scope.

Definition dy_R (d : dyadic) : R := F2R (Float radix2 (fst d) (snd d)).

Lemma dy_compare_exact a b : dy_compare a b = Rcompare (dy_R a) (dy_R b).
Proof.
  destruct a as [m1 e1], b as [m2 e2]. unfold dy_compare, dy_R. cbn [fst snd].
  set (e := Z.min e1 e2).
  rewrite (F2R_change_exp radix2 e m1 e1) by lia.
  rewrite (F2R_change_exp radix2 e m2 e2) by lia.
  rewrite Rcompare_F2R. reflexivity.
Qed.

Lemma num_dyadic_R n d : num_dyadic n = Some d -> dy_R d = num_R n.
Proof.
  destruct n as [z|z|f]; cbn.
  - intros [= <-]. apply F2R_int.
  - intros [= <-]. apply F2R_int.
  - destruct f as [s|s| |s m e H]; cbn; try discriminate; intros [= <-]; unfold dy_R; cbn [fst snd].
    + apply F2R_0.
    + reflexivity.
Qed.

Lemma good_num_dyadic n : good_num n -> exists d, num_dyadic n = Some d.
Proof.
  destruct n as [z|z|f]; cbn; eauto.
  intros [F _]. destruct f; try discriminate; cbn; eauto.
Qed.

(* whenever both numbers are finite the specification compares the exact values *)
Theorem spec_num_exact a b x y :
  num_dyadic a = Some x -> num_dyadic b = Some y -> spec_num a b = Rcompare (num_R a) (num_R b).
Proof.
  intros Ha Hb. unfold spec_num. rewrite Ha, Hb, dy_compare_exact.
  now rewrite (num_dyadic_R a x Ha), (num_dyadic_R b y Hb).
Qed.

Theorem spec_num_is_cmp_num a b : good_num a -> good_num b -> spec_num a b = cmp_num a b.
Proof.
  intros Ga Gb. destruct (good_num_dyadic a Ga) as [x Hx]. destruct (good_num_dyadic b Gb) as [y Hy].
  rewrite (spec_num_exact a b x y Hx Hy). symmetry. now apply cmp_num_exact.
Qed.

Close Scope R_scope.

(* ---------------- strings: UTF-8 preserves order ---------------- *)
Open Scope N_scope.

(* one decoding step: the leading code point and the remaining bytes *)
Definition step (l : list N) : option (N * list N) :=
  match l with
  | [] => None
  | b0 :: r =>
      if b0 <? 128 then Some (b0, r)
      else if (194 <=? b0) && (b0 <=? 223) then
        match r with
        | b1 :: r1 => if is_cont b1 then Some ((b0 - 192) * 64 + (b1 - 128), r1) else None
        | _ => None
        end
      else if (224 <=? b0) && (b0 <=? 239) then
        match r with
        | b1 :: b2 :: r2 =>
            let c := (b0 - 224) * 4096 + (b1 - 128) * 64 + (b2 - 128) in
            if is_cont b1 && is_cont b2 && (2048 <=? c) && negb ((55296 <=? c) && (c <=? 57343))
            then Some (c, r2) else None
        | _ => None
        end
      else if (240 <=? b0) && (b0 <=? 244) then
        match r with
        | b1 :: b2 :: b3 :: r3 =>
            let c := (b0 - 240) * 262144 + (b1 - 128) * 4096 + (b2 - 128) * 64 + (b3 - 128) in
            if is_cont b1 && is_cont b2 && is_cont b3 && (65536 <=? c) && (c <=? 1114111)
            then Some (c, r3) else None
        | _ => None
        end
      else None
  end.

Lemma decode_step l : l <> [] ->
  utf8_decode l = match step l with
                  | Some (c, r) => option_map (cons c) (utf8_decode r)
                  | None => None
                  end.
Proof.
  destruct l as [|b0 r]; [congruence|]. intros _. cbn [utf8_decode step].
  destruct (b0 <? 128); [reflexivity|].
  destruct ((194 <=? b0) && (b0 <=? 223)).
  { destruct r as [|b1 r1]; [reflexivity|]. destruct (is_cont b1); reflexivity. }
  destruct ((224 <=? b0) && (b0 <=? 239)).
  { destruct r as [|b1 [|b2 r2]]; try reflexivity.
    destruct (is_cont b1 && is_cont b2 && (2048 <=? (b0 - 224) * 4096 + (b1 - 128) * 64 + (b2 - 128)) &&
              negb ((55296 <=? (b0 - 224) * 4096 + (b1 - 128) * 64 + (b2 - 128)) &&
                    ((b0 - 224) * 4096 + (b1 - 128) * 64 + (b2 - 128) <=? 57343))); reflexivity. }
  destruct ((240 <=? b0) && (b0 <=? 244)).
  { destruct r as [|b1 [|b2 [|b3 r3]]]; try reflexivity.
    destruct (is_cont b1 && is_cont b2 && is_cont b3 &&
              (65536 <=? (b0 - 240) * 262144 + (b1 - 128) * 4096 + (b2 - 128) * 64 + (b3 - 128)) &&
              ((b0 - 240) * 262144 + (b1 - 128) * 4096 + (b2 - 128) * 64 + (b3 - 128) <=? 1114111)); reflexivity. }
  reflexivity.
Qed.

Lemma step_shorter l c r : step l = Some (c, r) -> (length r < length l)%nat.
Proof.
  destruct l as [|b0 t]; [discriminate|]. cbn [step].
  destruct (b0 <? 128); [intros [= _ <-]; cbn; lia|].
  destruct ((194 <=? b0) && (b0 <=? 223)).
  { destruct t as [|b1 r1]; [discriminate|]. destruct (is_cont b1); [|discriminate]. intros [= _ <-]. cbn; lia. }
  destruct ((224 <=? b0) && (b0 <=? 239)).
  { destruct t as [|b1 [|b2 r2]]; try discriminate.
    match goal with |- (if ?c then _ else _) = _ -> _ => destruct c end; [|discriminate]. intros [= _ <-]. cbn; lia. }
  destruct ((240 <=? b0) && (b0 <=? 244)).
  { destruct t as [|b1 [|b2 [|b3 r3]]]; try discriminate.
    match goal with |- (if ?c then _ else _) = _ -> _ => destruct c end; [|discriminate]. intros [= _ <-]. cbn; lia. }
  discriminate.
Qed.

Definition lexN := lex N.compare.

(* the heart: comparing the bytes of two leading characters (and then the rests) agrees with
   comparing the two code points (and then the rests) *)
Lemma step_order la lb ca ra cb rb :
  step la = Some (ca, ra) -> step lb = Some (cb, rb) ->
  lexN la lb = match N.compare ca cb with Eq => lexN ra rb | c => c end.
Proof.
  unfold lexN.
  destruct la as [|a0 ta]; [discriminate|]. destruct lb as [|b0 tb]; [discriminate|].
  cbn [step].
  (* classify both leading bytes *)
  destruct (a0 <? 128) eqn:A1; [|destruct ((194 <=? a0) && (a0 <=? 223)) eqn:A2;
    [|destruct ((224 <=? a0) && (a0 <=? 239)) eqn:A3; [|destruct ((240 <=? a0) && (a0 <=? 244)) eqn:A4; [|discriminate]]]];
  (destruct (b0 <? 128) eqn:B1; [|destruct ((194 <=? b0) && (b0 <=? 223)) eqn:B2;
    [|destruct ((224 <=? b0) && (b0 <=? 239)) eqn:B3; [|destruct ((240 <=? b0) && (b0 <=? 244)) eqn:B4; [|discriminate]]]]).
  all: repeat match goal with
         | |- match ?t with [] => _ | _ :: _ => _ end = _ -> _ => destruct t; try discriminate
         | |- _ -> match ?t with [] => _ | _ :: _ => _ end = _ -> _ => let H := fresh in intros H; revert H
         end.
  all: repeat match goal with
         | |- (if ?c then _ else _) = _ -> _ => let E := fresh "E" in destruct c eqn:E; [|discriminate]
         end.
  all: intros Ha; injection Ha as <- <-.
  all: repeat match goal with
         | |- match ?t with [] => _ | _ :: _ => _ end = _ -> _ => destruct t; try discriminate
         end.
  all: repeat match goal with
         | |- (if ?c then _ else _) = _ -> _ => let E := fresh "E" in destruct c eqn:E; [|discriminate]
         end.
  all: intros Hb; injection Hb as <- <-.
  all: unfold is_cont in *.
  all: cbn [lex].
  all: repeat match goal with
         | |- context [N.compare ?x ?y] => let C := fresh "C" in destruct (N.compare_spec x y) as [C|C|C]
         end; try reflexivity; try (exfalso; lia).
Qed.

(* bytewise order = code point order on valid UTF-8 *)
Theorem utf8_order_preserving : forall n a b x y, (length a <= n)%nat ->
  utf8_decode a = Some x -> utf8_decode b = Some y -> lexN a b = lexN x y.
Proof.
  induction n as [|n IH]; intros a b x y Hn Ha Hb.
  - destruct a; [|cbn in Hn; lia]. cbn in Ha. injection Ha as <-.
    destruct b as [|b0 tb]; [cbn in Hb; injection Hb as <-; reflexivity|].
    rewrite decode_step in Hb by congruence. destruct (step (b0 :: tb)) as [[cb rb]|]; [|discriminate].
    destruct (utf8_decode rb); [|discriminate]. cbn in Hb. injection Hb as <-. reflexivity.
  - destruct a as [|a0 ta].
    { cbn in Ha. injection Ha as <-.
      destruct b as [|b0 tb]; [cbn in Hb; injection Hb as <-; reflexivity|].
      rewrite decode_step in Hb by congruence. destruct (step (b0 :: tb)) as [[cb rb]|]; [|discriminate].
      destruct (utf8_decode rb); [|discriminate]. cbn in Hb. injection Hb as <-. reflexivity. }
    rewrite decode_step in Ha by congruence.
    destruct (step (a0 :: ta)) as [[ca ra]|] eqn:Sa; [|discriminate].
    destruct (utf8_decode ra) as [xa|] eqn:Da; [|discriminate]. cbn in Ha. injection Ha as <-.
    destruct b as [|b0 tb].
    { cbn in Hb. injection Hb as <-. reflexivity. }
    rewrite decode_step in Hb by congruence.
    destruct (step (b0 :: tb)) as [[cb rb]|] eqn:Sb; [|discriminate].
    destruct (utf8_decode rb) as [xb|] eqn:Db; [|discriminate]. cbn in Hb. injection Hb as <-.
    rewrite (step_order _ _ _ _ _ _ Sa Sb).
    change (lexN (ca :: xa) (cb :: xb)) with (match N.compare ca cb with Eq => lexN xa xb | c => c end).
    destruct (N.compare ca cb); try reflexivity.
    apply (IH ra rb xa xb); auto. apply step_shorter in Sa. cbn in Sa, Hn. lia.
Qed.

Theorem spec_str_is_cmp_str a b : spec_str a b = cmp_str a b.
Proof.
  unfold spec_str, cmp_str.
  destruct (utf8_decode a) as [x|] eqn:Da; [|reflexivity].
  destruct (utf8_decode b) as [y|] eqn:Db; [|reflexivity].
  symmetry. exact (utf8_order_preserving (length a) a b x y (le_n _) Da Db).
Qed.

Close Scope N_scope.

