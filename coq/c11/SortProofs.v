(* C11 proofs, part 4: the consumers of the order (Natives.v), for ANY comparison that is a total
   preorder on a domain [dom] of keys.  Instantiated with gojq.Compare on the property's domain in
   NativesProofs.v. *)
From Coq Require Import List ZArith NArith Bool Arith Lia Sorting.Sorted Sorting.Permutation.
From Verif Require Import c11.Value c11.Natives c11.OrderGeneric.
Import ListNotations.

Section SortLayer.
  Context {K V : Type} (cmp : K -> K -> comparison) (dom : K -> Prop).
  Hypothesis ord : total_preorder cmp dom.
  Notation item := (V * K)%type.

  Definition kdom (l : list item) : Prop := Forall (fun it => dom (snd it)) l.
  Definition ile (a b : item) : Prop := cmp (snd a) (snd b) <> Gt.       (* a <= b by key *)
  Definition ilt (a b : item) : Prop := cmp (snd a) (snd b) = Lt.        (* a <  b by key *)
  Definition ieq (a b : item) : Prop := cmp (snd a) (snd b) = Eq.

  (* ---- the preorder facts in usable form ---- *)
  Lemma o_refl x : dom x -> cmp x x = Eq.
  Proof. intros D. now destruct (ord x D). Qed.
  Lemma o_sym x y : dom x -> dom y -> cmp y x = CompOpp (cmp x y).
  Proof. intros Dx Dy. destruct (ord x Dx) as (_ & S & _). now apply S. Qed.
  Lemma o_eq_l x y z : dom x -> dom y -> dom z -> cmp x y = Eq -> cmp x z = cmp y z.
  Proof. intros Dx Dy Dz. destruct (ord x Dx) as (_ & _ & T). now apply T. Qed.
  Lemma o_eq_r x y z : dom x -> dom y -> dom z -> cmp y z = Eq -> cmp x z = cmp x y.
  Proof. intros Dx Dy Dz. destruct (ord x Dx) as (_ & _ & T). now apply T. Qed.
  Lemma o_trans x y z o : dom x -> dom y -> dom z -> cmp x y = o -> cmp y z = o -> cmp x z = o.
  Proof.
    intros Dx Dy Dz H1 H2. destruct (ord x Dx) as (_ & _ & T).
    destruct (T y z Dy Dz) as (_ & _ & T3). rewrite T3; congruence.
  Qed.
  Lemma o_le_trans x y z : dom x -> dom y -> dom z -> cmp x y <> Gt -> cmp y z <> Gt -> cmp x z <> Gt.
  Proof.
    intros Dx Dy Dz H1 H2. destruct (cmp x y) eqn:X; try congruence.
    - now rewrite (o_eq_l x y z).
    - destruct (cmp y z) eqn:Y; try congruence.
      + rewrite (o_eq_r x y z) by assumption. congruence.
      + rewrite (o_trans x y z Lt) by assumption. discriminate.
  Qed.
  Lemma o_lt_le_trans x y z : dom x -> dom y -> dom z -> cmp x y = Lt -> cmp y z <> Gt -> cmp x z = Lt.
  Proof.
    intros Dx Dy Dz H1 H2. destruct (cmp y z) eqn:Y; try congruence.
    - now rewrite (o_eq_r x y z).
    - now apply (o_trans x y z Lt).
  Qed.
  Lemma o_le_lt_trans x y z : dom x -> dom y -> dom z -> cmp x y <> Gt -> cmp y z = Lt -> cmp x z = Lt.
  Proof.
    intros Dx Dy Dz H1 H2. destruct (cmp x y) eqn:X; try congruence.
    - now rewrite (o_eq_l x y z).
    - now apply (o_trans x y z Lt).
  Qed.
  Lemma o_not_lt_ge x y : dom x -> dom y -> cmp y x <> Lt -> cmp x y <> Gt.
  Proof. intros Dx Dy H. rewrite (o_sym y x) by assumption. destruct (cmp y x); cbn; congruence. Qed.
  Lemma o_gt_lt x y : dom x -> dom y -> cmp x y = Gt -> cmp y x = Lt.
  Proof. intros Dx Dy H. rewrite (o_sym x y), H by assumption. reflexivity. Qed.
  Lemma o_lt_gt x y : dom x -> dom y -> cmp x y = Lt -> cmp y x = Gt.
  Proof. intros Dx Dy H. rewrite (o_sym x y), H by assumption. reflexivity. Qed.

  (* ---------------- sort: ordered, stable permutation ---------------- *)
  Lemma insert_perm (x : item) l : Permutation (insert cmp x l) (x :: l).
  Proof.
    induction l as [|y l IH]; cbn; [reflexivity|].
    destruct (less cmp y x); [|reflexivity].
    rewrite IH. apply perm_swap.
  Qed.

  Theorem isort_perm (l : list item) : Permutation (isort cmp l) l.
  Proof.
    induction l as [|x l IH]; cbn; [reflexivity|]. rewrite insert_perm. now constructor.
  Qed.

  Lemma kdom_perm l l' : Permutation l l' -> kdom l -> kdom l'.
  Proof. intros P. apply Permutation_Forall. exact P. Qed.

  Lemma kdom_isort l : kdom l -> kdom (isort cmp l).
  Proof. apply kdom_perm. symmetry. apply isort_perm. Qed.

  Lemma insert_sorted x l :
    dom (snd x) -> kdom l -> StronglySorted ile l -> StronglySorted ile (insert cmp x l).
  Proof.
    intros Dx Dl S. induction S as [|y l S IH F]; cbn.
    - constructor; constructor.
    - inversion Dl as [|? ? Dy Dl']; subst. unfold less. destruct (cmp (snd y) (snd x)) eqn:C; cbn [is_lt].
      + (* y = x: x goes first *)
        constructor; [constructor; assumption|]. constructor.
        * unfold ile. apply o_not_lt_ge; try assumption. congruence.
        * rewrite Forall_forall in *. intros z Hz. unfold ile.
          apply (o_le_trans (snd x) (snd y) (snd z)); auto.
          -- apply o_not_lt_ge; try assumption. congruence.
          -- now apply F.
      + (* y < x: keep y first *)
        constructor; [now apply IH|].
        apply (Permutation_Forall (x := x :: l)); [symmetry; apply insert_perm|].
        constructor; [unfold ile; congruence|assumption].
      + constructor; [constructor; assumption|]. constructor.
        * unfold ile. apply o_not_lt_ge; try assumption. congruence.
        * rewrite Forall_forall in *. intros z Hz. unfold ile.
          apply (o_le_trans (snd x) (snd y) (snd z)); auto.
          -- apply o_not_lt_ge; try assumption. congruence.
          -- now apply F.
  Qed.

  Theorem isort_sorted l : kdom l -> StronglySorted ile (isort cmp l).
  Proof.
    induction l as [|x l IH]; intros D; cbn; [constructor|].
    inversion D; subst. apply insert_sorted; auto. now apply kdom_isort.
  Qed.

  (* stability: the items of every equivalence class keep their relative order *)
  Definition in_class (k : K) (it : item) : bool := is_eq (cmp k (snd it)).

  Lemma insert_class k x l :
    dom k -> dom (snd x) -> kdom l ->
    filter (in_class k) (insert cmp x l) = filter (in_class k) (x :: l).
  Proof.
    intros Dk Dx Dl. induction l as [|y l IH]; [reflexivity|].
    inversion Dl as [|? ? Dy Dl']; subst. cbn [insert]. unfold less.
    destruct (cmp (snd y) (snd x)) eqn:C; cbn [is_lt]; try reflexivity.
    cbn [filter] in *. rewrite (IH Dl').
    destruct (in_class k x) eqn:Px; [|reflexivity].
    assert (Py : in_class k y = false).
    { unfold in_class in *. destruct (cmp k (snd x)) eqn:E1; try discriminate.
      destruct (cmp k (snd y)) eqn:E2; try reflexivity.
      (* k = y and k = x would give y = x, but y < x *)
      rewrite <- (o_eq_l k (snd y) (snd x)) in C by assumption. congruence. }
    now rewrite Py.
  Qed.

  Theorem isort_stable l k : dom k -> kdom l -> filter (in_class k) (isort cmp l) = filter (in_class k) l.
  Proof.
    intros Dk. induction l as [|x l IH]; intros D; [reflexivity|].
    inversion D; subst. cbn [isort]. rewrite insert_class; auto using kdom_isort.
    cbn [filter]. now rewrite IH.
  Qed.

  (* the stable ordered arrangement is unique: whatever algorithm sort.SliceStable runs, if its result
     is ordered and keeps every class in input order, it is this list *)
  Lemma class_head_in k (l : list item) it t : filter (in_class k) l = it :: t -> In it l /\ in_class k it = true.
  Proof.
    intros H. assert (I : In it (filter (in_class k) l)) by (rewrite H; now left).
    apply filter_In in I. exact I.
  Qed.

  Theorem stable_sorted_unique l1 : forall l2,
    kdom l1 -> kdom l2 -> StronglySorted ile l1 -> StronglySorted ile l2 ->
    (forall k, dom k -> filter (in_class k) l1 = filter (in_class k) l2) -> l1 = l2.
  Proof.
    induction l1 as [|x l1 IH]; intros l2 D1 D2 S1 S2 H.
    - destruct l2 as [|y l2]; [reflexivity|]. inversion D2; subst.
      specialize (H (snd y) H2). cbn in H. unfold in_class in H at 1. rewrite o_refl in H by assumption.
      discriminate.
    - inversion D1 as [|? ? Dx D1']; subst. inversion S1 as [|? ? S1' F1]; subst.
      pose proof (H (snd x) Dx) as Hx. cbn [filter] in Hx. unfold in_class in Hx at 1.
      rewrite o_refl in Hx by assumption. cbn [is_eq] in Hx. symmetry in Hx.
      destruct l2 as [|y l2]; [discriminate|].
      inversion D2 as [|? ? Dy D2']; subst. inversion S2 as [|? ? S2' F2]; subst.
      (* x occurs in l2, so y <= x; y occurs in l1, so x <= y *)
      destruct (class_head_in _ _ _ _ Hx) as [Ix _].
      assert (Lyx : cmp (snd y) (snd x) <> Gt).
      { destruct Ix as [->|Ix]; [rewrite o_refl by assumption; discriminate|].
        rewrite Forall_forall in F2. now apply F2. }
      assert (Cy : in_class (snd y) y = true) by (unfold in_class; now rewrite o_refl).
      pose proof (H (snd y) Dy) as Hy. cbn [filter] in Hy. rewrite Cy in Hy.
      assert (Iy : In y (x :: l1)).
      { assert (I : In y (filter (in_class (snd y)) (x :: l1))) by (cbn [filter]; rewrite Hy; now left).
        now apply filter_In in I. }
      assert (Lxy : cmp (snd x) (snd y) <> Gt).
      { destruct Iy as [->|Iy]; [rewrite o_refl by assumption; discriminate|].
        rewrite Forall_forall in F1. now apply F1. }
      assert (E : cmp (snd x) (snd y) = Eq).
      { rewrite (o_sym (snd x) (snd y)) in Lyx by assumption. destruct (cmp (snd x) (snd y)); cbn in *; congruence. }
      (* so y is in the class of x and heads it in l2 *)
      assert (Cxy : in_class (snd x) y = true) by (unfold in_class; now rewrite E).
      cbn [filter] in Hx. rewrite Cxy in Hx. injection Hx as -> Hx.
      f_equal. apply IH; auto.
      intros k Dk. specialize (H k Dk). cbn [filter] in H.
      destruct (in_class k x); [now injection H|exact H].
  Qed.

  Theorem stable_sort_unique l out :
    kdom l -> kdom out -> StronglySorted ile out ->
    (forall k, dom k -> filter (in_class k) out = filter (in_class k) l) -> out = isort cmp l.
  Proof.
    intros Dl Do So St. apply stable_sorted_unique; auto using kdom_isort, isort_sorted.
    intros k Dk. rewrite St, isort_stable; auto.
  Qed.

  (* ---------------- group_by: maximal runs of the sorted input ---------------- *)
  Definition grp_lt (g1 g2 : list item) : Prop := forall a b, In a g1 -> In b g2 -> ilt a b.

  Lemma group_go_concat last (items : list item) :
    let '(g, gs) := group_go cmp last items in g ++ concat gs = items.
  Proof.
    revert last; induction items as [|it rest IH]; intros last; cbn; [reflexivity|].
    destruct (is_eq (cmp last (snd it))).
    - specialize (IH last). destruct (group_go cmp last rest) as [g gs]. cbn. now rewrite IH.
    - specialize (IH (snd it)). destruct (group_go cmp (snd it) rest) as [g gs]. cbn. now rewrite IH.
  Qed.

  Theorem groups_concat (s : list item) : concat (groups cmp s) = s.
  Proof.
    destruct s as [|it rest]; [reflexivity|]. cbn.
    pose proof (group_go_concat (snd it) rest) as H.
    destruct (group_go cmp (snd it) rest) as [g gs]. cbn. now rewrite H.
  Qed.

  (* each group: a first item followed by items whose key is Compare-equal to the first's *)
  Definition is_run (g : list item) : Prop :=
    exists it t, g = it :: t /\ Forall (fun x => cmp (snd it) (snd x) = Eq) t.

  Lemma group_go_runs last (items : list item) :
    let '(g, gs) := group_go cmp last items in
    Forall (fun x => cmp last (snd x) = Eq) g /\ Forall is_run gs.
  Proof.
    revert last; induction items as [|it rest IH]; intros last; cbn; [split; constructor|].
    destruct (cmp last (snd it)) eqn:C; cbn [is_eq].
    - specialize (IH last). destruct (group_go cmp last rest) as [g gs]. destruct IH. split; auto.
    - specialize (IH (snd it)). destruct (group_go cmp (snd it) rest) as [g gs]. destruct IH.
      split; [constructor|]. constructor; auto. exists it, g. auto.
    - specialize (IH (snd it)). destruct (group_go cmp (snd it) rest) as [g gs]. destruct IH.
      split; [constructor|]. constructor; auto. exists it, g. auto.
  Qed.

  Theorem groups_runs (s : list item) : Forall is_run (groups cmp s).
  Proof.
    destruct s as [|it rest]; [constructor|]. cbn.
    pose proof (group_go_runs (snd it) rest) as H.
    destruct (group_go cmp (snd it) rest) as [g gs]. destruct H. constructor; auto. exists it, g. auto.
  Qed.

  (* on a sorted input consecutive groups are strictly increasing: the runs are maximal *)
  Lemma group_go_sorted last (items : list item) :
    dom last -> kdom items -> StronglySorted ile items ->
    Forall (fun x => cmp last (snd x) <> Gt) items ->
    let '(g, gs) := group_go cmp last items in
    Forall (fun x => cmp last (snd x) = Eq) g /\
    Forall (Forall (fun x => cmp last (snd x) = Lt)) gs /\
    StronglySorted grp_lt gs /\ kdom g /\ Forall kdom gs.
  Proof.
    revert last; induction items as [|it rest IH]; intros last Dl D S F; cbn.
    - repeat split; constructor.
    - inversion D as [|? ? Dit D']; subst. inversion S as [|? ? S' Fit]; subst. inversion F as [|? ? Fl F']; subst.
      destruct (cmp last (snd it)) eqn:C; cbn [is_eq]; try congruence.
      + specialize (IH last Dl D' S' F'). destruct (group_go cmp last rest) as [g gs].
        destruct IH as (I1 & I2 & I3 & I4 & I5). repeat split; auto; constructor; auto.
      + assert (F2 : Forall (fun x => cmp (snd it) (snd x) <> Gt) rest) by exact Fit.
        specialize (IH (snd it) Dit D' S' F2). destruct (group_go cmp (snd it) rest) as [g gs].
        destruct IH as (I1 & I2 & I3 & I4 & I5). unfold kdom in *.
        rewrite Forall_forall in I1, I2, I4, I5.
        assert (Dgs : forall g' x, In g' gs -> In x g' -> dom (snd x)).
        { intros g' x Hg Hx. specialize (I5 g' Hg). rewrite Forall_forall in I5. now apply I5. }
        assert (Lgs : forall g' x, In g' gs -> In x g' -> cmp (snd it) (snd x) = Lt).
        { intros g' x Hg Hx. specialize (I2 g' Hg). rewrite Forall_forall in I2. now apply I2. }
        split; [constructor|]. split; [|split; [|split; [constructor|]]].
        * constructor.
          -- constructor; [exact C|]. apply Forall_forall. intros x Hx.
             rewrite (o_eq_r last (snd it) (snd x)); auto.
          -- apply Forall_forall. intros g' Hg. apply Forall_forall. intros x Hx.
             apply (o_trans last (snd it) (snd x) Lt); eauto.
        * constructor; [exact I3|]. apply Forall_forall. intros g' Hg a b Ha Hb. unfold ilt.
          destruct Ha as [<-|Ha]; [eauto|].
          rewrite <- (o_eq_l (snd it) (snd a) (snd b)); eauto.
        * constructor; [|apply Forall_forall; intros g' Hg; apply Forall_forall; eauto].
          constructor; [exact Dit|]. apply Forall_forall. auto.
  Qed.

  Theorem groups_increasing (s : list item) :
    kdom s -> StronglySorted ile s -> StronglySorted grp_lt (groups cmp s).
  Proof.
    intros D S. destruct s as [|it rest]; [constructor|]. cbn.
    inversion D as [|? ? Dit D']; subst. inversion S as [|? ? S' Fit]; subst.
    pose proof (group_go_sorted (snd it) rest Dit D' S' Fit) as H.
    destruct (group_go cmp (snd it) rest) as [g gs]. destruct H as (I1 & I2 & I3 & I4 & I5).
    unfold kdom in *. rewrite Forall_forall in I1, I2, I4, I5.
    constructor; [exact I3|]. apply Forall_forall. intros g' Hg a b Ha Hb. unfold ilt.
    assert (Db : dom (snd b)).
    { specialize (I5 g' Hg). rewrite Forall_forall in I5. now apply I5. }
    assert (Lb : cmp (snd it) (snd b) = Lt).
    { specialize (I2 g' Hg). rewrite Forall_forall in I2. now apply I2. }
    destruct Ha as [<-|Ha]; [exact Lb|].
    rewrite <- (o_eq_l (snd it) (snd a) (snd b)); auto.
  Qed.

  (* ---------------- unique: the first item of every group ---------------- *)
  Lemma uniq_go_heads last (items : list item) :
    let '(g, gs) := group_go cmp last items in
    Forall2 (fun u grp => exists t, grp = u :: t) (uniq_go cmp last items) gs.
  Proof.
    revert last; induction items as [|it rest IH]; intros last; cbn; [constructor|].
    destruct (is_eq (cmp last (snd it))).
    - specialize (IH last). destruct (group_go cmp last rest) as [g gs]. exact IH.
    - specialize (IH (snd it)). destruct (group_go cmp (snd it) rest) as [g gs].
      constructor; [now exists g|exact IH].
  Qed.

  Theorem uniq_heads (s : list item) : Forall2 (fun u grp => exists t, grp = u :: t) (uniq cmp s) (groups cmp s).
  Proof.
    destruct s as [|it rest]; [constructor|]. cbn.
    pose proof (uniq_go_heads (snd it) rest) as H.
    destruct (group_go cmp (snd it) rest) as [g gs]. constructor; [now exists g|exact H].
  Qed.

  Lemma heads_increasing us gs :
    Forall2 (fun (u : item) grp => exists t, grp = u :: t) us gs -> StronglySorted grp_lt gs -> StronglySorted ilt us.
  Proof.
    induction 1 as [|u g us gs [t ->] F IH]; intros S; [constructor|].
    inversion S as [|? ? S' Fg]; subst. constructor; [now apply IH|].
    clear IH S S'. induction F as [|u' g' us gs [t' ->] F IH]; [constructor|].
    inversion Fg; subst. constructor; [|now apply IH]. apply H1; now left.
  Qed.

  (* no two results are Compare-equal: strictly increasing keys *)
  Theorem uniq_increasing (s : list item) : kdom s -> StronglySorted ile s -> StronglySorted ilt (uniq cmp s).
  Proof.
    intros D S. apply (heads_increasing _ (groups cmp s)); [apply uniq_heads|now apply groups_increasing].
  Qed.

  (* ---------------- min_by / max_by ---------------- *)
  Lemma nth_error_app_last {T} (pre : list T) x : nth_error (pre ++ [x]) (length pre) = Some x.
  Proof. rewrite nth_error_app2 by lia. now rewrite Nat.sub_diag. Qed.

  Lemma nth_error_snoc_inv {T} (pre : list T) x i y :
    nth_error (pre ++ [x]) i = Some y -> (i < length pre /\ nth_error pre i = Some y) \/ (i = length pre /\ y = x).
  Proof.
    intros H. destruct (Nat.lt_ge_cases i (length pre)) as [L|G].
    - left. rewrite nth_error_app1 in H by assumption. auto.
    - right. rewrite nth_error_app2 in H by assumption.
      destruct (i - length pre) as [|n] eqn:E; cbn in H; [|destruct n; discriminate].
      injection H as <-. split; [lia|reflexivity].
  Qed.

  (* first minimum: nothing is smaller, everything before is strictly greater *)
  Definition first_min (l : list item) (j : nat) (b : item) : Prop :=
    nth_error l j = Some b /\
    forall i x, nth_error l i = Some x -> cmp (snd b) (snd x) <> Gt /\ (i < j -> cmp (snd x) (snd b) = Gt).
  (* last maximum: nothing is greater, everything after is strictly smaller *)
  Definition last_max (l : list item) (j : nat) (b : item) : Prop :=
    nth_error l j = Some b /\
    forall i x, nth_error l i = Some x -> cmp (snd x) (snd b) <> Gt /\ (j < i -> cmp (snd x) (snd b) = Lt).

  Lemma kdom_nth l i x : kdom l -> nth_error l i = Some x -> dom (snd x).
  Proof. intros D H. apply nth_error_In in H. unfold kdom in D. rewrite Forall_forall in D. now apply D. Qed.

  Lemma mm_go_min (rest : list item) : forall pre j best,
    kdom (pre ++ rest) -> first_min pre j best ->
    let '(j', b') := mm_go cmp true j best (length pre) rest in first_min (pre ++ rest) j' b'.
  Proof.
    induction rest as [|it rest IH]; intros pre j best D [Hn Hp]; cbn.
    - rewrite app_nil_r. split; assumption.
    - assert (Dpre : kdom (pre ++ [it])).
      { unfold kdom in *. rewrite Forall_app in *. destruct D as [D1 D2]. inversion D2; subst. repeat constructor; auto. }
      assert (Dit : dom (snd it)) by (apply (kdom_nth (pre ++ [it]) (length pre)); auto using nth_error_app_last).
      assert (Db : dom (snd best)).
      { apply (kdom_nth (pre ++ [it]) j); auto. rewrite nth_error_app1; auto. apply nth_error_Some. congruence. }
      assert (Lj : j < length pre) by (apply nth_error_Some; congruence).
      replace (pre ++ it :: rest) with ((pre ++ [it]) ++ rest) in * by (rewrite <- app_assoc; reflexivity).
      replace (S (length pre)) with (length (pre ++ [it])) by (rewrite app_length; cbn; lia).
      destruct (cmp (snd best) (snd it)) eqn:C; cbn [is_gt Bool.eqb].
      + apply IH; auto. split; [rewrite nth_error_app1; auto|].
        intros i x Hx. apply nth_error_snoc_inv in Hx. destruct Hx as [[Li Hx]|[-> ->]].
        * now apply Hp.
        * split; [congruence|lia].
      + apply IH; auto. split; [rewrite nth_error_app1; auto|].
        intros i x Hx. apply nth_error_snoc_inv in Hx. destruct Hx as [[Li Hx]|[-> ->]].
        * now apply Hp.
        * split; [congruence|lia].
      + (* it < best: it becomes the candidate *)
        apply IH; auto. split; [apply nth_error_app_last|].
        intros i x Hx. apply nth_error_snoc_inv in Hx. destruct Hx as [[Li Hx]|[-> ->]].
        * assert (Dx : dom (snd x)) by (apply (kdom_nth (pre ++ [it]) i); auto; rewrite nth_error_app1; auto).
          destruct (Hp i x Hx) as [Hle _].
          assert (L : cmp (snd it) (snd x) = Lt).
          { apply (o_lt_le_trans (snd it) (snd best) (snd x)); auto. now apply o_gt_lt. }
          split; [congruence|]. intros _. now apply o_lt_gt.
        * split; [rewrite o_refl by assumption; discriminate|lia].
  Qed.

  Lemma mm_go_max (rest : list item) : forall pre j best,
    kdom (pre ++ rest) -> last_max pre j best ->
    let '(j', b') := mm_go cmp false j best (length pre) rest in last_max (pre ++ rest) j' b'.
  Proof.
    induction rest as [|it rest IH]; intros pre j best D [Hn Hp]; cbn.
    - rewrite app_nil_r. split; assumption.
    - assert (Dpre : kdom (pre ++ [it])).
      { unfold kdom in *. rewrite Forall_app in *. destruct D as [D1 D2]. inversion D2; subst. repeat constructor; auto. }
      assert (Dit : dom (snd it)) by (apply (kdom_nth (pre ++ [it]) (length pre)); auto using nth_error_app_last).
      assert (Db : dom (snd best)).
      { apply (kdom_nth (pre ++ [it]) j); auto. rewrite nth_error_app1; auto. apply nth_error_Some. congruence. }
      assert (Lj : j < length pre) by (apply nth_error_Some; congruence).
      replace (pre ++ it :: rest) with ((pre ++ [it]) ++ rest) in * by (rewrite <- app_assoc; reflexivity).
      replace (S (length pre)) with (length (pre ++ [it])) by (rewrite app_length; cbn; lia).
      assert (New : cmp (snd best) (snd it) <> Gt -> last_max (pre ++ [it]) (length pre) it).
      { intros Le. split; [apply nth_error_app_last|].
        intros i x Hx. apply nth_error_snoc_inv in Hx. destruct Hx as [[Li Hx]|[-> ->]].
        - assert (Dx : dom (snd x)) by (apply (kdom_nth (pre ++ [it]) i); auto; rewrite nth_error_app1; auto).
          destruct (Hp i x Hx) as [Hle _]. split; [|lia].
          apply (o_le_trans (snd x) (snd best) (snd it)); auto.
        - split; [rewrite o_refl by assumption; discriminate|lia]. }
      destruct (cmp (snd best) (snd it)) eqn:C; cbn [is_gt Bool.eqb].
      + apply IH; auto. apply New. discriminate.
      + apply IH; auto. apply New. discriminate.
      + (* it < best: keep the candidate *)
        apply IH; auto. split; [rewrite nth_error_app1; auto|].
        intros i x Hx. apply nth_error_snoc_inv in Hx. destruct Hx as [[Li Hx]|[-> ->]].
        * now apply Hp.
        * assert (L : cmp (snd it) (snd best) = Lt) by now apply o_gt_lt.
          split; [congruence|auto].
  Qed.

  Theorem min_by_first_min (l : list item) j b : kdom l -> min_max_by cmp true l = Some (j, b) -> first_min l j b.
  Proof.
    destruct l as [|it rest]; [discriminate|]. intros D H. cbn in H. injection H as H.
    inversion D; subst.
    pose proof (mm_go_min rest [it] 0 it D) as M. cbn [length app] in M. rewrite H in M. apply M.
    split; [reflexivity|]. intros [|i] x Hx; cbn in Hx; [|destruct i; discriminate].
    injection Hx as <-. split; [rewrite o_refl by assumption; discriminate|lia].
  Qed.

  Theorem max_by_last_max (l : list item) j b : kdom l -> min_max_by cmp false l = Some (j, b) -> last_max l j b.
  Proof.
    destruct l as [|it rest]; [discriminate|]. intros D H. cbn in H. injection H as H.
    inversion D; subst.
    pose proof (mm_go_max rest [it] 0 it D) as M. cbn [length app] in M. rewrite H in M. apply M.
    split; [reflexivity|]. intros [|i] x Hx; cbn in Hx; [|destruct i; discriminate].
    injection Hx as <-. split; [rewrite o_refl by assumption; discriminate|lia].
  Qed.

  Theorem min_max_by_nonempty b (l : list item) : l <> [] -> exists r, min_max_by cmp b l = Some r.
  Proof. destruct l; [congruence|]. intros _. cbn. eauto. Qed.
End SortLayer.

(* ---------------- sort.Search and bsearch ---------------- *)
Section Search.
  Lemma div2_mid i j : i < j -> i <= Nat.div2 (i + j) < j.
  Proof.
    intros H. pose proof (Nat.div2_odd (i + j)) as E. destruct (Nat.odd (i + j)); cbn in E; lia.
  Qed.

  (* with enough fuel, on a predicate that is monotone below n, the loop returns the least index
     from which the predicate holds (n if none) *)
  Lemma search_go_spec n f : (forall a b, a <= b -> b < n -> f a = true -> f b = true) ->
    forall fuel i j, j - i <= fuel -> i <= j -> j <= n ->
    (forall k, k < i -> f k = false) -> (forall k, j <= k -> k < n -> f k = true) ->
    let p := search_go fuel f i j in
    i <= p <= j /\ (forall k, k < p -> f k = false) /\ (forall k, p <= k -> k < n -> f k = true).
  Proof.
    intros Mono. induction fuel as [|fu IH]; intros i j Hf Hij Hjn Lo Hi; cbn [search_go]; cbv zeta in *.
    - assert (i = j) by lia. subst. repeat split; auto.
    - destruct (i <? j) eqn:L.
      + apply Nat.ltb_lt in L. pose proof (div2_mid i j L) as M.
        destruct (f (Nat.div2 (i + j))) eqn:Fh.
        * destruct (IH i (Nat.div2 (i + j))) as (P1 & P2 & P3); try lia; auto.
          { intros k K1 K2. apply (Mono (Nat.div2 (i + j)) k); auto. }
          repeat split; auto; lia.
        * destruct (IH (S (Nat.div2 (i + j))) j) as (P1 & P2 & P3); try lia; auto.
          { intros k K. destruct (f k) eqn:Fk; auto.
            rewrite (Mono k (Nat.div2 (i + j))) in Fh; try lia; auto. }
          repeat split; auto; lia.
      + apply Nat.ltb_ge in L. assert (i = j) by lia. subst. repeat split; auto.
  Qed.

  Theorem search_spec n f : (forall a b, a <= b -> b < n -> f a = true -> f b = true) ->
    let p := search n f in
    p <= n /\ (forall k, k < p -> f k = false) /\ (forall k, p <= k -> k < n -> f k = true).
  Proof.
    intros Mono. unfold search. cbv zeta.
    destruct (search_go_spec n f Mono n 0 n) as (P1 & P2 & P3); try (intros; lia).
    repeat split; auto; lia.
  Qed.
End Search.


Section Bsearch.
  Context {K : Type} (cmp : K -> K -> comparison) (dom : K -> Prop).
  Hypothesis ord : total_preorder cmp dom.

  Definition kle (a b : K) : Prop := cmp a b <> Gt.

  Lemma dom_nth (vs : list K) i x : Forall dom vs -> nth_error vs i = Some x -> dom x.
  Proof. intros D H. rewrite Forall_forall in D. apply D. eapply nth_error_In; eauto. Qed.

  Lemma sorted_nth (vs : list K) : StronglySorted kle vs -> Forall dom vs ->
    forall a b x y, a <= b -> nth_error vs a = Some x -> nth_error vs b = Some y -> kle x y.
  Proof.
    induction 1 as [|v vs S IH F]; intros D a b x y Hab Ha Hb.
    - destruct a; discriminate.
    - inversion D; subst. destruct a as [|a], b as [|b]; cbn in Ha, Hb; try lia.
      + injection Ha as <-. injection Hb as <-. unfold kle.
        rewrite (o_refl cmp dom ord) by assumption. discriminate.
      + injection Ha as <-. apply nth_error_In in Hb. rewrite Forall_forall in F. now apply F.
      + apply (IH H2 a b); auto. lia.
  Qed.

  Lemma ge_at_mono vs t : Forall dom vs -> dom t -> StronglySorted kle vs ->
    forall a b, a <= b -> b < length vs -> ge_at cmp vs t a = true -> ge_at cmp vs t b = true.
  Proof.
    intros D Dt S a b Hab Hb. unfold ge_at.
    destruct (nth_error vs a) as [x|] eqn:Ea; [|apply nth_error_None in Ea; lia].
    destruct (nth_error vs b) as [y|] eqn:Eb; [|reflexivity].
    pose proof (sorted_nth vs S D a b x y Hab Ea Eb) as L.
    pose proof (dom_nth _ _ _ D Ea) as Dx. pose proof (dom_nth _ _ _ D Eb) as Dy.
    destruct (cmp y t) eqn:C2; cbn; auto.
    rewrite (o_le_lt_trans cmp dom ord x y t Dx Dy Dt L C2). cbn. auto.
  Qed.

  Lemma ge_at_false vs t k : ge_at cmp vs t k = false -> exists y, nth_error vs k = Some y /\ cmp y t = Lt.
  Proof.
    unfold ge_at. destruct (nth_error vs k) as [y|]; [|discriminate].
    destruct (cmp y t) eqn:C; cbn; try discriminate. eauto.
  Qed.

  Lemma ge_at_true vs t k y : ge_at cmp vs t k = true -> nth_error vs k = Some y -> cmp y t <> Lt.
  Proof. unfold ge_at. intros H E. rewrite E in H. destruct (cmp y t); cbn in H; congruence. Qed.

  (* bsearch on a sorted array: a non-negative result is the FIRST index holding an element equal to
     the target; a negative result -1-p names the insertion point p: everything before p is smaller,
     everything from p on is greater *)
  Theorem bsearch_spec vs t :
    Forall dom vs -> dom t -> StronglySorted kle vs ->
    let r := bsearch cmp vs t in
    ((0 <= r)%Z ->
       exists x, nth_error vs (Z.to_nat r) = Some x /\ cmp x t = Eq /\
                 forall k y, k < Z.to_nat r -> nth_error vs k = Some y -> cmp y t = Lt) /\
    ((r < 0)%Z ->
       let p := Z.to_nat (- r - 1) in
       p <= length vs /\
       forall k y, nth_error vs k = Some y -> (k < p -> cmp y t = Lt) /\ (p <= k -> cmp y t = Gt)).
  Proof.
    intros D Dt S. unfold bsearch.
    pose proof (search_spec (length vs) (ge_at cmp vs t) (ge_at_mono vs t D Dt S)) as H. cbv zeta in H.
    set (p := search (length vs) (ge_at cmp vs t)) in *. destruct H as (Hp & Hlo & Hhi).
    assert (Lo : forall k y, k < p -> nth_error vs k = Some y -> cmp y t = Lt).
    { intros k y Hk Ey. destruct (ge_at_false vs t k (Hlo k Hk)) as (y' & Ey' & C). congruence. }
    assert (Neg : forall q, Z.to_nat (- (- Z.of_nat q - 1) - 1) = q) by (intros; lia).
    destruct (nth_error vs p) as [x|] eqn:E.
    - assert (Pn : p < length vs) by (apply nth_error_Some; congruence).
      pose proof (ge_at_true vs t p x (Hhi p (le_n _) Pn) E) as Gx.
      pose proof (dom_nth _ _ _ D E) as Dx.
      destruct (cmp x t) eqn:C; cbn [is_eq]; cbv zeta.
      + split; [|lia]. intros _. rewrite Nat2Z.id. exists x. auto.
      + congruence.
      + split; [lia|]. intros _. rewrite Neg. split; [lia|].
        intros k y Ey. split; [intros Hk; eapply Lo; eauto|]. intros Hk.
        pose proof (dom_nth _ _ _ D Ey) as Dy.
        pose proof (sorted_nth vs S D p k x y Hk E Ey) as L.
        apply (o_lt_gt cmp dom ord); auto.
        apply (o_lt_le_trans cmp dom ord t x y); auto.
        now apply (o_gt_lt cmp dom ord).
    - apply nth_error_None in E. cbv zeta. split; [lia|]. intros _. rewrite Neg. split; [lia|].
      intros k y Ey. split; [intros Hk; eapply Lo; eauto|]. intros Hk.
      assert (k < length vs) by (apply nth_error_Some; congruence). lia.
  Qed.
End Bsearch.

(* ---------------- array difference ---------------- *)
Section Sub.
  Context {K : Type} (cmp : K -> K -> comparison).

  (* l - r keeps, in order, exactly the elements of l that are Compare-equal to no element of r *)
  Theorem arr_sub_spec l r :
    arr_sub cmp l r = filter (fun x => forallb (fun y => negb (is_eq (cmp x y))) r) l.
  Proof.
    unfold arr_sub. apply filter_ext. intros x.
    induction r as [|y r IH]; cbn; [reflexivity|].
    rewrite negb_orb. now rewrite IH.
  Qed.

  Theorem arr_sub_In l r x :
    In x (arr_sub cmp l r) <-> In x l /\ forall y, In y r -> cmp x y <> Eq.
  Proof.
    unfold arr_sub. rewrite filter_In, negb_true_iff. split; intros [H1 H2]; split; auto.
    - intros y Hy E. assert (X : existsb (fun y => is_eq (cmp x y)) r = true).
      { apply existsb_exists. exists y. split; auto. now rewrite E. }
      congruence.
    - destruct (existsb (fun y => is_eq (cmp x y)) r) eqn:X; auto.
      apply existsb_exists in X. destruct X as (y & Hy & E).
      exfalso. apply (H2 y Hy). destruct (cmp x y); cbn in E; congruence.
  Qed.
End Sub.
