(* C11 correspondence: one harness line -> verdict.  Line forms (harness/c11/main.go):
     (cmp a b <int> [<eq> <ne> <lt> <le> <gt> <ge>])   gojq.Compare(a, b) and, optionally, the six operators
                                              $a==$b, !=, <, <=, >, >= (each true|false)
     (sort A R) (unique A R) (min A R) (max A R)
     (sort_by A KS F R) (group_by ..) (unique_by ..) (min_by ..) (max_by ..)   the query is b(f) on A with f = the
                                              source text F (a string, kept for replay); KS = [[f outputs of A[0]], ...],
                                              i.e. exactly what builtin.jq's `map([f])` hands to _sort_by: the key of an
                                              element is the ARRAY of all outputs of f (0, 1, 2, ... of them)
     (bsearch A t R) (sub A B R) (indices A x R) (index A x R) (rindex A x R)
     (keys V R) (iter V R)                    keys, [.[]]
     (jsonkeys V R)                           R = the output of tojson / gojq.Marshal parsed back keeping the
                                              order in which keys were written
   values: null true false (i z) (b z) (f bits) (l hex-literal) (s hex) (a v...) (o (hexkey v)...)
   Verdict: ok | (bad <expected>) | undecodable.
   (spec <line>) judges the same observation against the specification order (Spec.v: exact rationals,
   code points) and only on the property's domain (NaN-free, |float| < 2^53, well-formed objects);
   outside it the verdict is ok.  Definitions only. *)
From Coq Require Import List ZArith NArith Bool String.
From Flocq Require Import Core IEEE754.BinarySingleNaN.
From Flocq Require IEEE754.Binary IEEE754.Bits.
From Verif Require Import common.Int64 common.Sexp c11.Value c11.Natives c11.Spec.
Import ListNotations.
Open Scope Z_scope.

(* ---------- numbers on the wire ---------- *)
Definition f64_of_bits (b : Z) : f64 := Binary.B2BSN 53 1024 (Bits.b64_of_bits b).

Definition sf_to_f64 (x : SpecFloat.spec_float) : f64 :=
  match x with
  | SpecFloat.S754_zero s => B754_zero s
  | SpecFloat.S754_infinity s => B754_infinity s
  | SpecFloat.S754_nan => B754_nan
  | SpecFloat.S754_finite s m e =>
      binary_normalize 53 1024 Hprec64 Hmax64 mode_NE (cond_Zopp s (Zpos m)) e s
  end.

(* strconv.ParseFloat on sign, decimal mantissa M and decimal exponent: the correctly rounded
   (nearest-even) binary64 of (-1)^s * M * 10^e10, +-Inf when out of range (trusted model of strconv) *)
Definition dec_to_float (s : bool) (M : Z) (e10 : Z) : f64 :=
  if M =? 0 then B754_zero s
  else if 0 <=? e10 then binary_normalize 53 1024 Hprec64 Hmax64 mode_NE (cond_Zopp s (10 ^ e10 * M)) 0 s
  else let '(q, e, l) := SpecFloat.SFdiv_core_binary 53 1024 M 0 (10 ^ (- e10)) 0 in
       sf_to_f64 (SpecFloat.binary_round_aux 53 1024 s q e l).

(* split a JSON number literal: -? digits (. digits)? ([eE] [+-]? digits)? *)
Definition is_digit (c : N) : bool := (48 <=? c)%N && (c <=? 57)%N.
Fixpoint span_digits (l : list N) : list N * list N :=
  match l with
  | c :: r => if is_digit c then let '(d, t) := span_digits r in (c :: d, t) else ([], l)
  | [] => ([], [])
  end.
(* decimal digits -> number; `10 * acc` (not `acc * 10`): binary multiplication is linear in its second
   operand and quadratic in its first, and the universe contains 300-digit integers *)
Fixpoint dec_fast (l : list N) (acc : N) : option N :=
  match l with
  | [] => Some acc
  | c :: r => if is_digit c then dec_fast r (10 * acc + (c - 48))%N else None
  end.
Definition digitsZ (d : list N) : option Z := match d with [] => None | _ => option_map Z.of_N (dec_fast d 0%N) end.
Definition parse_Zf (l : list N) : option Z :=
  if is_minus l then option_map Z.opp (digitsZ (tl l)) else digitsZ l.

(* func.go parseNumber *)
Definition parse_number (t : list N) : option num :=
  let neg := is_minus t in
  let body := if neg then tl t else t in
  let '(ip, r1) := span_digits body in
  let '(fp, r2) := match r1 with 46%N :: r => span_digits r | _ => ([], r1) end in
  let has_dot := match r1 with 46%N :: _ => true | _ => false end in
  let exp : option (option Z) :=       (* None: malformed; Some None: no exponent *)
    match r2 with
    | [] => Some None
    | c :: r => if ((c =? 101) || (c =? 69))%N then
                  match r with
                  | 43%N :: d => option_map Some (digitsZ d)
                  | 45%N :: d => option_map (fun z => Some (- z)) (digitsZ d)
                  | d => option_map Some (digitsZ d)
                  end
                else None
    end in
  match digitsZ ip, exp with
  | Some iz, Some ex =>
      match has_dot, fp, ex with
      | false, _, None =>
          let z := if neg then - iz else iz in
          Some (if in_intb z then NInt z else NBig z)
      | true, [], _ => None
      | _, _, _ =>
          match digitsZ (ip ++ fp) with
          | Some M =>
              let e := match ex with Some e => e | None => 0 end in
              Some (NFlt (dec_to_float neg M (e - Z.of_nat (List.length fp))))
          | None => None
          end
      end
  | _, _ => None
  end.

(* ---------- values on the wire ---------- *)
Definition dec_numv (t : sexp) (v : list N) : option value :=
  if atom_is "i" t then option_map (fun z => VNum (NInt z)) (parse_Zf v)
  else if atom_is "b" t then option_map (fun z => VNum (NBig z)) (parse_Zf v)
  else if atom_is "f" t then option_map (fun z => VNum (NFlt (f64_of_bits z))) (parse_Zf v)
  else if atom_is "l" t then
    match parse_hexs v with Some lit => option_map VNum (parse_number lit) | None => None end
  else if atom_is "s" t then option_map VStr (parse_hexs v)
  else None.

Fixpoint dec_value (e : sexp) : option value :=
  match e with
  | Atom _ =>
      if atom_is "null" e then Some VNull
      else if atom_is "true" e then Some (VBool true)
      else if atom_is "false" e then Some (VBool false)
      else None
  | SList (t :: args) =>
      if atom_is "a" t then
        option_map VArr
          ((fix go (l : list sexp) : option (list value) :=
              match l with
              | [] => Some []
              | x :: r => match dec_value x, go r with Some v, Some vs => Some (v :: vs) | _, _ => None end
              end) args)
      else if atom_is "o" t then
        option_map VObj
          ((fix go (l : list sexp) : option (list (list N * value)) :=
              match l with
              | [] => Some []
              | SList [Atom k; x] :: r =>
                  match parse_hexs k, dec_value x, go r with
                  | Some k', Some v, Some vs => Some ((k', v) :: vs)
                  | _, _, _ => None
                  end
              | _ => None
              end) args)
      else match args with [Atom v] => dec_numv t v | _ => None end
  | SList [] => None
  end.

(* inputs must satisfy the object invariant (keys strictly ascending bytewise) *)
Definition dec_input (e : sexp) : option value :=
  match dec_value e with Some v => if wfb v then Some v else None | None => None end.

(* ---------- equality of observed results: structural, floats by IEEE datum ---------- *)
Definition f64_eqb (a b : f64) : bool :=
  match a, b with
  | B754_zero s, B754_zero s' => Bool.eqb s s'
  | B754_infinity s, B754_infinity s' => Bool.eqb s s'
  | B754_nan, B754_nan => true
  | B754_finite s m e _, B754_finite s' m' e' _ => Bool.eqb s s' && Pos.eqb m m' && Z.eqb e e'
  | _, _ => false
  end.
Definition num_eqb (a b : num) : bool :=
  match a, b with
  | NInt x, NInt y => x =? y
  | NBig x, NBig y => x =? y
  | NFlt x, NFlt y => f64_eqb x y
  | _, _ => false
  end.
Fixpoint value_eqb (a b : value) : bool :=
  match a, b with
  | VNull, VNull => true
  | VBool x, VBool y => Bool.eqb x y
  | VNum x, VNum y => num_eqb x y
  | VStr x, VStr y => list_N_eqb x y
  | VArr l, VArr r =>
      (fix go (l r : list value) : bool :=
         match l, r with
         | [], [] => true
         | x :: l', y :: r' => value_eqb x y && go l' r'
         | _, _ => false
         end) l r
  | VObj l, VObj r =>
      (fix go (l r : list (list N * value)) : bool :=
         match l, r with
         | [], [] => true
         | (k, x) :: l', (k', y) :: r' => list_N_eqb k k' && value_eqb x y && go l' r'
         | _, _ => false
         end) l r
  | _, _ => false
  end.

(* ---------- printing expected results (diagnostics only) ---------- *)
Definition enc_num (n : num) : sexp :=
  match n with
  | NInt z => SList [A "i"; Atom (print_Z z)]
  | NBig z => SList [A "b"; Atom (print_Z z)]
  | NFlt (B754_zero s) => if s then A "-0.0" else A "0.0"
  | NFlt (B754_infinity s) => if s then A "-inf" else A "inf"
  | NFlt B754_nan => A "nan"
  | NFlt (B754_finite s m e _) => SList [A "fme"; Atom (print_Z (cond_Zopp s (Zpos m))); Atom (print_Z e)]
  end.
Fixpoint enc_value (v : value) : sexp :=
  match v with
  | VNull => A "null"
  | VBool true => A "true"
  | VBool false => A "false"
  | VNum n => enc_num n
  | VStr s => SList [A "s"; Atom (print_hexs s)]
  | VArr l => SList (A "a" :: map enc_value l)
  | VObj m => SList (A "o" :: map (fun kv => SList [Atom (print_hexs (fst kv)); enc_value (snd kv)]) m)
  end.

Definition ok : sexp := A "ok".
Definition bad (v : value) : sexp := SList [A "bad"; enc_value v].
Definition expect (want got : value) : sexp := if value_eqb want got then ok else bad want.
Definition enc_cmp (c : comparison) : Z := match c with Lt => -1 | Eq => 0 | Gt => 1 end.
Definition vbool (b : bool) : value := VBool b.
Definition vnat (n : nat) : value := VNum (NInt (Z.of_nat n)).
Definition vopt_nat (o : option nat) : value := match o with Some n => vnat n | None => VNull end.

(* ---------- running the builtins on decoded values ---------- *)
Definition as_arr (v : value) : option (list value) := match v with VArr l => Some l | _ => None end.
Definition self_items (l : list value) : list (value * value) := map (fun x => (x, x)) l.
(* builtin.jq `def sort_by(f): _sort_by(map([f]))`: the key of A[i] is the array KS[i] of f's outputs *)
Fixpoint zip_items (l ks : list value) : option (list (value * value)) :=
  match l, ks with
  | [], [] => Some []
  | v :: l', k :: ks' => option_map (cons (v, k)) (zip_items l' ks')
  | _, _ => None
  end.

Section Judge.
  Context (cmp : value -> value -> comparison).

  Definition minmax_value (is_min : bool) (items : list (value * value)) : value :=
    match min_max_by cmp is_min items with Some (_, it) => fst it | None => VNull end.

  (* expected result of a one-array builtin *)
  Definition run_items (k : sexp) (items : list (value * value)) : option value :=
    if atom_is "sort" k || atom_is "sort_by" k then Some (VArr (sort_by cmp items))
    else if atom_is "group_by" k then Some (VArr (map VArr (group_by cmp items)))
    else if atom_is "unique" k || atom_is "unique_by" k then Some (VArr (unique_by cmp items))
    else if atom_is "min" k || atom_is "min_by" k then Some (minmax_value true items)
    else if atom_is "max" k || atom_is "max_by" k then Some (minmax_value false items)
    else None.

  Definition is_by (k : sexp) : bool :=
    atom_is "sort_by" k || atom_is "group_by" k || atom_is "unique_by" k || atom_is "min_by" k || atom_is "max_by" k.

  Definition run2 (k : sexp) (a r : value) : sexp :=
    if atom_is "keys" k then match keys_of a with Some ks => expect (VArr ks) r | None => A "undecodable" end
    else if atom_is "iter" k then match iter_of a with Some vs => expect (VArr vs) r | None => A "undecodable" end
    else if atom_is "jsonkeys" k then expect a r
    else match as_arr a with
         | Some l =>
             if is_by k then A "undecodable"
             else match run_items k (self_items l) with Some want => expect want r | None => A "undecodable" end
         | None => A "undecodable"
         end.

  Definition run3 (k : sexp) (a b r : value) : sexp :=
    match as_arr a with
    | Some l =>
        if atom_is "bsearch" k then expect (VNum (NInt (bsearch cmp l b))) r
        else if atom_is "sub" k then
          match as_arr b with Some l2 => expect (VArr (arr_sub cmp l l2)) r | None => A "undecodable" end
        else if atom_is "indices" k then expect (VArr (map vnat (indices cmp l (needle b)))) r
        else if atom_is "index" k then expect (vopt_nat (index_first cmp l (needle b))) r
        else if atom_is "rindex" k then expect (vopt_nat (index_last cmp l (needle b))) r
        else A "undecodable"
    | None => A "undecodable"
    end.

  Definition run_by (k : sexp) (a ks r : value) : sexp :=
    match as_arr a, as_arr ks with
    | Some l, Some kl =>
        match zip_items l kl with
        | Some items => match run_items k items with Some want => expect want r | None => A "undecodable" end
        | None => A "undecodable"
        end
    | _, _ => A "undecodable"
    end.

  Definition ops_expected (a b : value) : list bool :=
    let c := cmp a b in
    [is_eq c; negb (is_eq c); is_lt c; negb (is_gt c); is_gt c; negb (is_lt c)].
End Judge.

Definition dec_bool (e : sexp) : option bool :=
  if atom_is "true" e then Some true else if atom_is "false" e then Some false else None.
Fixpoint dec_bools (l : list sexp) : option (list bool) :=
  match l with
  | [] => Some []
  | x :: r => match dec_bool x, dec_bools r with Some b, Some bs => Some (b :: bs) | _, _ => None end
  end.
Fixpoint bools_eqb (a b : list bool) : bool :=
  match a, b with
  | [], [] => true
  | x :: a', y :: b' => Bool.eqb x y && bools_eqb a' b'
  | _, _ => false
  end.

Definition run_with (cmp : value -> value -> comparison) (e : sexp) : sexp :=
  match e with
  | SList (k :: a :: b :: rest) =>
      if atom_is "cmp" k then
        match dec_input a, dec_input b, rest with
        | Some x, Some y, Atom r :: bools =>
            match parse_Z r, dec_bools bools with
            | Some i, Some bs =>
                if negb (enc_cmp (cmp x y) =? i) then SList [A "bad"; Atom (print_Z (enc_cmp (cmp x y)))]
                else match bs with
                     | [] => ok
                     | _ => if bools_eqb (ops_expected cmp x y) bs then ok
                            else SList (A "bad" :: map (fun b : bool => if b then A "true" else A "false") (ops_expected cmp x y))
                     end
            | _, _ => A "undecodable"
            end
        | _, _, _ => A "undecodable"
        end
      else match rest with
           | [] => match dec_input a, dec_value b with
                   | Some x, Some r => run2 cmp k x r
                   | Some _, None => A "bad-result"
                   | _, _ => A "undecodable"
                   end
           | [c] => match dec_input a, dec_input b, dec_value c with
                    | Some x, Some y, Some r => run3 cmp k x y r
                    | Some _, Some _, None => A "bad-result"
                    | _, _, _ => A "undecodable"
                    end
           | [_; c] => if is_by k then
                         match dec_input a, dec_input b, dec_value c with
                         | Some x, Some y, Some r => run_by cmp k x y r
                         | Some _, Some _, None => A "bad-result"
                         | _, _, _ => A "undecodable"
                         end
                       else A "undecodable"
           | _ => A "undecodable"
           end
  | _ => A "undecodable"
  end.

Definition run_sexp : sexp -> sexp := run_with compare.

(* ---------- the specification oracle ---------- *)
Fixpoint sortedb (cmp : value -> value -> comparison) (l : list value) : bool :=
  match l with
  | x :: ((y :: _) as r) => negb (is_gt (cmp x y)) && sortedb cmp r
  | _ => true
  end.

(* bsearch on a sorted array: index of an equal element, or -1-p with p the insertion point
   (everything before p is smaller than t, everything from p on is greater) *)
Definition bsearch_ok (l : list value) (t : value) (r : Z) : bool :=
  if 0 <=? r then
    match nth_error l (Z.to_nat r) with Some x => is_eq (spec_compare x t) | None => false end
  else
    let p := Z.to_nat (- r - 1) in
    (p <=? List.length l)%nat
    && forallb (fun x => is_lt (spec_compare x t)) (firstn p l)
    && forallb (fun x => is_gt (spec_compare x t)) (skipn p l).

Definition all_good (l : list sexp) : bool :=
  forallb (fun e => match dec_input e with Some v => goodb v | None => false end) l.

Definition spec_sexp (e : sexp) : sexp :=
  match e with
  | SList (k :: args) =>
      let ins := if atom_is "cmp" k then firstn 2 args else removelast args in
      if negb (all_good ins) then ok
      else if atom_is "bsearch" k then
        match args with
        | [a; t; r] =>
            match dec_input a, dec_input t, dec_value r with
            | Some (VArr l), Some tv, Some (VNum (NInt z)) =>
                if sortedb spec_compare l then (if bsearch_ok l tv z then ok else A "bad-bsearch") else ok
            | Some (VArr _), Some _, _ => A "bad-result"
            | _, _, _ => A "undecodable"
            end
        | _ => A "undecodable"
        end
      else run_with spec_compare e
  | _ => A "undecodable"
  end.

(* Sexp.tokens_aux binds `flush := [TA (rev cur)]` with a let at every character; extracted to strict
   OCaml that is a reversal per character (quadratic in the atom length, 10 ms for a 300-digit atom).
   Same tokenizer with the reversal only where an atom ends. *)
Definition flush_tok (cur : list N) (k : list tok) : list tok :=
  match cur with [] => k | _ => TA (rev cur) :: k end.
Fixpoint tokens_fast (cur : list N) (l : list N) : list tok :=
  match l with
  | [] => flush_tok cur []
  | c :: r =>
      if is_space c then flush_tok cur (tokens_fast [] r)
      else if (c =? lparen)%N then flush_tok cur (TL :: tokens_fast [] r)
      else if (c =? rparen)%N then flush_tok cur (TR :: tokens_fast [] r)
      else tokens_fast (c :: cur) r
  end.
Definition parse_fast (l : list N) : option sexp := parse_toks (tokens_fast [] l) [[]].

Definition run_line (l : list N) : list N :=
  match parse_fast l with
  | Some (SList [k; e]) => if atom_is "spec" k then print (spec_sexp e) else print (run_sexp (SList [k; e]))
  | Some e => print (run_sexp e)
  | None => codes "unparsable"
  end.
