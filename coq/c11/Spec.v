(* C11 specification order, as the property text states it: null < false < true < numbers < strings
   by code point < arrays lexicographically < objects by sorted key list, then by values; numbers
   compared as EXACT rationals.  It is used as the (spec ...) oracle of the correspondence check and is
   independent of float64 conversion/rounding and of Flocq's Bcompare:
     a finite float is the dyadic m * 2^e, an integer z is z * 2^0, two dyadics are compared after
     scaling both to the smaller exponent (integer arithmetic only).
   Strings: when both are valid UTF-8 they are decoded and compared by code point, otherwise bytewise.
   Definitions only. *)
From Coq Require Import List ZArith NArith Bool.
From Flocq Require Import Core IEEE754.BinarySingleNaN.
From Verif Require Import c11.Value.
Import ListNotations.

Definition dyadic := (Z * Z)%type.

Definition flt_dyadic (f : f64) : option dyadic :=
  match f with
  | B754_zero _ => Some (0, 0)%Z
  | B754_finite s m e _ => Some (cond_Zopp s (Zpos m), e)
  | _ => None
  end.
Definition num_dyadic (n : num) : option dyadic :=
  match n with NInt z => Some (z, 0%Z) | NBig z => Some (z, 0%Z) | NFlt f => flt_dyadic f end.

Definition dy_compare (a b : dyadic) : comparison :=
  let '(m1, e1) := a in let '(m2, e2) := b in
  let e := Z.min e1 e2 in
  Z.compare (m1 * 2 ^ (e1 - e)) (m2 * 2 ^ (e2 - e)).

(* outside the property's domain (NaN, infinities) the specification says nothing: fall back to the model *)
Definition spec_num (a b : num) : comparison :=
  match num_dyadic a, num_dyadic b with
  | Some x, Some y => dy_compare x y
  | _, _ => cmp_num a b
  end.

(* strict UTF-8 decoding (no overlong forms, no surrogates, at most U+10FFFF) *)
Open Scope N_scope.
Definition is_cont (b : N) : bool := (128 <=? b) && (b <=? 191).
Fixpoint utf8_decode (l : list N) : option (list N) :=
  match l with
  | [] => Some []
  | b0 :: r =>
      if b0 <? 128 then option_map (cons b0) (utf8_decode r)
      else if (194 <=? b0) && (b0 <=? 223) then
        match r with
        | b1 :: r1 => if is_cont b1 then option_map (cons ((b0 - 192) * 64 + (b1 - 128))) (utf8_decode r1) else None
        | _ => None
        end
      else if (224 <=? b0) && (b0 <=? 239) then
        match r with
        | b1 :: b2 :: r2 =>
            let c := (b0 - 224) * 4096 + (b1 - 128) * 64 + (b2 - 128) in
            if is_cont b1 && is_cont b2 && (2048 <=? c) && negb ((55296 <=? c) && (c <=? 57343))
            then option_map (cons c) (utf8_decode r2) else None
        | _ => None
        end
      else if (240 <=? b0) && (b0 <=? 244) then
        match r with
        | b1 :: b2 :: b3 :: r3 =>
            let c := (b0 - 240) * 262144 + (b1 - 128) * 4096 + (b2 - 128) * 64 + (b3 - 128) in
            if is_cont b1 && is_cont b2 && is_cont b3 && (65536 <=? c) && (c <=? 1114111)
            then option_map (cons c) (utf8_decode r3) else None
        | _ => None
        end
      else None
  end.

Definition spec_str (a b : list N) : comparison :=
  match utf8_decode a, utf8_decode b with
  | Some x, Some y => lex N.compare x y
  | _, _ => lex N.compare a b
  end.

Definition spec_compare : value -> value -> comparison := compare_with spec_num spec_str.
