(* C20: the certificate of the erased VM (c20/EVM.v) is sound: a closed set of states containing the
   initial state contains every reachable state, for every resolution of the nondeterminism. *)
From Coq Require Import List ZArith Bool Lia.
From Verif Require Import vm.Stack vm.StackProofs c20.Frames c20.FramesProofs c20.EVM.
Import ListNotations.
Open Scope Z_scope.

(* s' is reachable from s: along ANY choices of the data-dependent alternatives, through Next returns
   (values, error values) and re-entries *)
Inductive ereach (code : list einstr) : est -> est -> Prop :=
| er_refl : forall s, ereach code s s
| er_step : forall s l s' s'', In (l, s') (estep code s) -> ereach code s' s'' -> ereach code s s''.

Lemma ememb_In : forall s l, ememb s l = true -> In s l.
Proof.
  unfold ememb. intros s l H. apply existsb_exists in H. destruct H as (y & Hy & E).
  destruct (est_eq_dec s y); [subst; auto|discriminate].
Qed.

Lemma closed_step : forall code R s l s', closed code R = true -> In s R -> In (l, s') (estep code s) -> In s' R.
Proof.
  unfold closed. intros code R s l s' H Hs Hs'. rewrite forallb_forall in H. specialize (H s Hs).
  rewrite forallb_forall in H. apply ememb_In. apply (H (l, s')). exact Hs'.
Qed.

Lemma closed_reach : forall code R, closed code R = true -> forall s s', ereach code s s' -> In s R -> In s' R.
Proof. intros code R Hc s s' Hr. induction Hr; intros; auto. apply IHHr. eapply closed_step; eauto. Qed.

Lemma efp_le_max : forall R s, In s R -> efp s <= max_efp R.
Proof. induction R; simpl; intros s H; [tauto|]. destruct H; [subst; lia|]. apply IHR in H. lia. Qed.

Theorem certify_sound : forall code nvars fuel C, certify code nvars fuel = Some C ->
  forall s, ereach code (einit code nvars) s -> efp s <= C.
Proof.
  unfold certify. intros code nvars fuel C H s Hr.
  destruct (explore code fuel [einit code nvars] []) as [R|]; [|discriminate].
  destruct (closed code R) eqn:Hc; [|discriminate]. destruct (ememb (einit code nvars) R) eqn:Hm; [|discriminate].
  inversion H; subst. apply efp_le_max. eapply closed_reach; eauto. apply ememb_In. exact Hm.
Qed.

Lemma ereach_snoc : forall code a b l c, ereach code a b -> In (l, c) (estep code b) -> ereach code a c.
Proof. intros code a b l c H. induction H; intros; [econstructor; eauto; constructor|econstructor; eauto]. Qed.

(* the same as an instance of loop_bound (K = 1) for any deterministic resolution [pick] of the choices *)
Theorem certify_loop_bound : forall code nvars fuel C, certify code nvars fuel = Some C ->
  forall (pick : est -> option est), (forall s s', pick s = Some s' -> exists l, In (l, s') (estep code s)) ->
  forall n s, iter est pick n (einit code nvars) = Some s -> efp s <= C.
Proof.
  intros code nvars fuel C H pick Hp n s Hit.
  apply (loop_bound est pick efp (fun s => ereach code (einit code nvars) s) 1 C) with (n := n) (s := einit code nvars);
    [|constructor|exact Hit].
  intros s0 Hs. exists 1%nat. split; [lia|]. split.
  - intros i s' Hi Hi2. destruct i as [|[|i]]; try lia; simpl in Hi2.
    + inversion Hi2; subst. eapply certify_sound; eauto.
    + destruct (pick s0) eqn:E; inversion Hi2; subst. destruct (Hp _ _ E) as (l & Hl).
      eapply certify_sound; eauto. eapply ereach_snoc; eauto.
  - simpl. destruct (pick s0) eqn:E; [|exact I]. destruct (Hp _ _ E) as (l & Hl). eapply ereach_snoc; eauto.
Qed.

(* the frame step of this machine is c20/Frames.v's: a self tail call (Ecallrec, then the Escope it
   jumps to) on a state that meets the hypotheses of tailcall_frame_reuse keeps the scope chain, the
   scope array length, offset and len(values) *)
Theorem evm_tailcall_reuse : forall code s t id cnt b s1 s2,
  zget code (pc s) = Some (Ecallrec t) -> zget code t = Some (Escope id cnt) ->
  pc s < zlen code -> t < zlen code ->
  WF scope (sstk s) -> limit (sstk s) < index (sstk s) ->
  get (data (sstk s)) (index (sstk s)) = Some b -> sid (bvalue b) = id ->
  EVM.offset s = soffset (bvalue b) + cnt -> EVM.offset s <= zlen (values s) ->
  estep code s = [(LNext, s1)] -> estep code s1 = [(LNext, s2)] ->
  view (sstk s2) = view (sstk s) /\ len (data (sstk s2)) = len (data (sstk s))
  /\ EVM.offset s2 = EVM.offset s /\ values s2 = values s /\ pc s2 = t + 1.
Proof.
  intros code s t id cnt b s1 s2 Hi Ht Hpc Htl Hwf Hlim Hget Hid Hoff Hval H1 H2.
  unfold estep in H1. replace (ncodes code <=? pc s) with false in H1 by (symmetry; apply Z.leb_gt; exact Hpc).
  rewrite Hi in H1. unfold docall in H1. inversion H1; subst s1; clear H1.
  unfold estep in H2. cbn [pc] in H2.
  replace (ncodes code <=? t) with false in H2 by (symmetry; apply Z.leb_gt; exact Htl).
  rewrite Ht in H2. cbn [lcallpc lindex frames_of sstk EVM.offset values] in H2.
  destruct (tailcall_frame_reuse id cnt (mkFrames (sstk s) (EVM.offset s) (zlen (values s))) b Hwf Hlim Hget Hid Hoff Hval)
    as (f & Hf & Hview & _ & _ & Hlen & Hoff' & Hnv).
  unfold tail_call in Hf. cbn [Frames.scopes] in Hf. unfold frames_of in H2. cbn [sstk EVM.offset values] in H2. rewrite Hf in H2. inversion H2; subst s2; clear H2.
  unfold with_frames. cbn. cbn in Hview, Hlen, Hoff', Hnv. rewrite Hnv, Z.sub_diag. cbn. rewrite app_nil_r.
  repeat split; auto.
Qed.
