(* C20 correspondence: one harness line -> verdict.

   (stk <v|s> (ops (p <n>) o s r t e ...) (obs (<index> <limit> <len data> <ret> (<view>...)) ... [panic]))
       the same operation sequence is run on vm/Stack.v (cell type Z); after every operation index,
       limit, len(data), the returned value and the chain from index must be equal; a Go panic must be
       a model [None] at the same operation.
   (fp <prog-hex> <n> <mode> (a <9 peaks at n>) (b <9 peaks at 8n>) ...)
       the property oracle on the implementation's measurements: every component of the peak footprint
       at 8n is at most the one at n plus a constant slack (components: forks, len stack.data,
       len scopes.data, len paths.data, len values, stack depth, scope depth, path depth, offset).
       mode [pend] = forms whose tail call is made with a choice point pending: informational.
   Verdict: ok | (bad ...). *)
From Coq Require Import List NArith ZArith Bool String.
From Verif Require Import common.Sexp vm.Stack.
From Verif Require c01vm.Run.
From Verif Require Import c01vm.Syntax c01vm.Code c01vm.VM c01vm.Compile c01vm.Natives c20.AbsVM c20.VMForms.
From Verif Require c20.Frames c20.EVM gen.GenEvmForms.
Import ListNotations.
Open Scope Z_scope.

(* ---- stk ------------------------------------------------------------------------------------ *)
Inductive sop := SPush (v : Z) | SPop | SSave | SRestore | STop | SEmpty.

Definition dec_op (e : sexp) : option sop :=
  match e with
  | SList [t; Atom n] => if atom_is "p" t then option_map SPush (parse_Z n) else None
  | Atom _ => if atom_is "o" e then Some SPop else if atom_is "s" e then Some SSave
              else if atom_is "r" e then Some SRestore else if atom_is "t" e then Some STop
              else if atom_is "e" e then Some SEmpty else None
  | _ => None
  end.

(* returns (printed return value, new configuration); None = panic *)
Definition dash : list N := codes "-".
Definition sstep (o : sop) (c : cfg Z) : option (list N * cfg Z) :=
  let (s, pend) := c in
  match o with
  | SPush v => Some (dash, (push v s, pend))
  | SPop => match pop s with Some (v, s') => Some (print_Z v, (s', pend)) | None => None end
  | SSave => let (p, s') := save s in Some (dash, (s', p :: pend))
  | SRestore => match pend with p :: r => Some (dash, (restore p s, r)) | [] => None end
  | STop => match top s with Some v => Some (print_Z v, c) | None => None end
  | SEmpty => Some ((if empty s then codes "1" else codes "0"), c)
  end.

Definition enc_state (ret : list N) (s : stack Z) : sexp :=
  SList [Atom (print_Z (index s)); Atom (print_Z (limit s)); Atom (print_Z (len (data s))); Atom ret;
         SList (map (fun v => Atom (print_Z v)) (view s))].

Fixpoint sexp_eqb (a b : sexp) : bool :=
  match a, b with
  | Atom x, Atom y => list_N_eqb x y
  | SList l, SList m =>
      (fix go (l m : list sexp) : bool :=
         match l, m with
         | [], [] => true
         | x :: l', y :: m' => sexp_eqb x y && go l' m'
         | _, _ => false
         end) l m
  | _, _ => false
  end.

Fixpoint judge_stk (i : N) (ops obs : list sexp) (c : cfg Z) : sexp :=
  match ops, obs with
  | [], [] => A "ok"
  | o :: ops', ob :: obs' =>
      match dec_op o with
      | None => A "undecodable-op"
      | Some o =>
          match sstep o c with
          | None => if atom_is "panic" ob then A "ok"   (* the harness stops at the panic *)
                    else SList [A "bad"; SList [A "at"; Atom (print_N i)]; A "expected-panic"]
          | Some (ret, c') =>
              let e := enc_state ret (fst c') in
              if sexp_eqb e ob then judge_stk (N.succ i) ops' obs' c'
              else SList [A "bad"; SList [A "at"; Atom (print_N i)]; SList [A "expected"; e]]
          end
      end
  | _, _ => SList [A "bad"; A "length"]
  end.

(* ---- fp ------------------------------------------------------------------------------------- *)
Fixpoint atoms_Z (l : list sexp) : option (list Z) :=
  match l with
  | [] => Some []
  | Atom a :: r => match parse_Z a, atoms_Z r with Some z, Some zs => Some (z :: zs) | _, _ => None end
  | _ => None
  end.

Definition comp_names : list string :=
  ["forks"; "stack.data"; "scopes.data"; "paths.data"; "values"; "stack-depth"; "scope-depth"; "path-depth"; "offset"]%string.

(* constant slack per component; len(values) is doubled on growth, so it gets twice the offset slack *)
Definition slack (name : string) : Z := if String.eqb name "values" then 4 else 2.

Fixpoint judge_fp (names : list string) (a b : list Z) : sexp :=
  match names, a, b with
  | [], [], [] => A "ok"
  | nm :: names', x :: a', y :: b' =>
      if y <=? x + slack nm then judge_fp names' a' b'
      else SList [A "bad"; SList [A "grows"; A nm; Atom (print_Z x); Atom (print_Z y)]]
  | _, _, _ => A "undecodable-fp"
  end.

(* ---- vmform / vmfoot: the forms of c20/VMForms.v on the concrete VM model (coq/c01vm) ---------- *)
(*  (vmform <name> <ast> (<instr>...))            the implementation's instruction list (VerifDumpCode)
      ok iff  compile (the AST the harness ran) = the implementation's code = compile (the named Coq term
      the theorem vm_forms_bounded is about), and the certificate of that term is computed again.
    (vmfoot <name> <ast> <input> (seq (f s c v)... (out val)...) <end>)
      per polled instruction: len forks, stack depth, scope depth, len values of the implementation;
      ok iff the c01vm VM (natives: c01vm.Natives.cnat) on compile(ast) goes through exactly the same
      sequence, emits the same values at the same places, ends the same way, and every tuple is within
      the certified bound. *)
Definition form_by_name (e : sexp) : option query :=
  if atom_is "reduce" e then Some f_reduce else if atom_is "reduce_last" e then Some f_reduce_last
  else if atom_is "foreach" e then Some f_foreach else if atom_is "foreach3" e then Some f_foreach3
  else if atom_is "map" e then Some f_map else if atom_is "iter_comma" e then Some f_iter_comma
  else if atom_is "iter_if" e then Some f_iter_if else if atom_is "iter_elif" e then Some f_iter_elif
  else if atom_is "label_break" e then Some f_label_break else if atom_is "limit_shape" e then Some f_limit_shape
  else if atom_is "first_shape" e then Some f_first_shape else if atom_is "isempty_shape" e then Some f_isempty_shape
  else if atom_is "nested" e then Some f_nested else if atom_is "reduce_nested" e then Some f_reduce_nested
  else if atom_is "bind" e then Some f_bind else if atom_is "try" e then Some f_try
  else if atom_is "alt" e then Some f_alt else if atom_is "opt" e then Some f_opt
  else if atom_is "reduce_if" e then Some f_reduce_if else if atom_is "foreach_select" e then Some f_foreach_select
  else None.

Definition enc_code (c : list instr) : sexp := SList (map c01vm.Run.enc_instr c).
Definition natA (n : nat) : sexp := Atom (print_N (N.of_nat n)).

Definition judge_vmform (name ast : sexp) (impl : list sexp) : sexp :=
  match form_by_name name, c01vm.Run.dec_q ast with
  | Some qf, Some q =>
      match compile q, compile qf with
      | Some c, Some cf =>
          if negb (c01vm.Run.sexp_eqb (enc_code c) (SList impl)) then SList [A "bad"; A "code"; enc_code c]
          else if negb (c01vm.Run.sexp_eqb (enc_code c) (enc_code cf)) then SList [A "bad"; A "named-term-differs"; enc_code cf]
          else match certify cf cert_fuel with
               | Some _ => A "ok"
               | None => SList [A "bad"; A "no-certificate"]
               end
      | _, _ => A "notinfragment"
      end
  | _, _ => A "undecodable"
  end.

Definition foot_tuple (m : mem) : sexp :=
  SList [natA (List.length (forks m)); natA (List.length (stk m)); natA (List.length (scopes m)); natA (List.length (vars m))].

(* the model's per-instruction sequence; Brk states are not instruction fetches *)
Fixpoint vm_foot (code : list instr) (fuel : nat) (s : state) : list sexp * sexp :=
  match fuel with
  | O => ([], A "fuel")
  | S f =>
      let here := match s with Run _ _ _ m => [foot_tuple m] | Brk _ _ _ _ => [] end in
      match step cnat code s with
      | Next s' => let '(l, e) := vm_foot code f s' in (here ++ l, e)
      | Emit v s' => let '(l, e) := vm_foot code f s' in (here ++ SList [A "out"; c01vm.Run.enc_val v] :: l, e)
      | Halt None => (here, A "end")
      | Halt (Some _) => (here, A "err")
      | Stuck => (here, A "stuck")
      end
  end.

Definition tuple_within (C : nat) (e : sexp) : bool :=
  match e with
  | SList [Atom a; Atom b; Atom c; Atom d] =>
      match parse_N a, parse_N b, parse_N c, parse_N d with
      | Some a, Some b, Some c, Some d => (N.to_nat (a + b + c + d) <=? C)%nat
      | _, _, _, _ => false
      end
  | _ => true      (* (out v) markers *)
  end.

Definition judge_vmfoot (name ast inp : sexp) (seq : list sexp) (fin : sexp) : sexp :=
  match form_by_name name, c01vm.Run.dec_q ast, c01vm.Run.dec_val inp with
  | Some qf, Some q, Some v =>
      match compile q, cert_of qf with
      | Some c, Some C =>
          let '(l, e) := vm_foot c (1000 * 1000) (init v) in
          if negb (c01vm.Run.sexp_eqb (SList [SList l; e]) (SList [SList seq; fin])) then
            SList [A "bad"; A "trace"; e; natA (List.length l)]
          else if forallb (tuple_within C) seq then A "ok"
          else SList [A "bad"; A "exceeds-certified-bound"; natA C]
      | _, _ => A "notinfragment"
      end
  | _, _, _ => A "undecodable"
  end.

(* ---- evmtrace: the erased VM (c20/EVM.v) against the implementation, per instruction --------- *)
(*  (evmtrace <name> <nvars> (code <einstr>...) (obs <item>...))
      <item> = (<pc> <bt> <forks> <stack index> <limit> <len data> <scopes index> <limit> <len data> <offset> <len values>)
             | out | err | end
    one tuple per instruction fetch of the implementation (pc and backtrack from the interpreter's own debug
    trace, the rest from VerifFootprint at the poll of the same loop iteration); out / err / end = Next
    returned a value / an error value / (nil,false).
    ok iff  (1) the code equals the generated constant gen.GenEvmForms.code_<name> the theorem is about,
            (2) the observation sequence is a PATH of the nondeterministic erased machine from einit
                (set simulation: the states consistent with the observations so far never become empty),
            (3) the constant is certified and every observed footprint is within the certified bound. *)

Definition dec_einstr (e : sexp) : option EVM.einstr :=
  let z (a : sexp) := match a with Atom x => parse_Z x | _ => None end in
  match e with
  | Atom _ =>
      if atom_is "Enop" e then Some EVM.Enop else if atom_is "Epush" e then Some EVM.Epush
      else if atom_is "Epop" e then Some EVM.Epop else if atom_is "Edup" e then Some EVM.Edup
      else if atom_is "Econst" e then Some EVM.Econst else if atom_is "Eforktryend" e then Some EVM.Eforktryend
      else if atom_is "Ebacktrack" e then Some EVM.Ebacktrack else if atom_is "Eindex" e then Some EVM.Eindex
      else if atom_is "Ecallpc" e then Some EVM.Ecallpc else if atom_is "Eret" e then Some EVM.Eret
      else if atom_is "Eiter" e then Some EVM.Eiter else if atom_is "Eexpbegin" e then Some EVM.Eexpbegin
      else if atom_is "Eexpend" e then Some EVM.Eexpend else if atom_is "Eunsupported" e then Some EVM.Eunsupported
      else None
  | SList [t; a] =>
      match z a with
      | Some a =>
          if atom_is "Eobject" t then Some (EVM.Eobject a) else if atom_is "Efork" t then Some (EVM.Efork a)
          else if atom_is "Eforktrybegin" t then Some (EVM.Eforktrybegin a) else if atom_is "Eforkalt" t then Some (EVM.Eforkalt a)
          else if atom_is "Ejump" t then Some (EVM.Ejump a) else if atom_is "Ejumpifnot" t then Some (EVM.Ejumpifnot a)
          else if atom_is "Ecallnative" t then Some (EVM.Ecallnative a) else if atom_is "Ecall" t then Some (EVM.Ecall a)
          else if atom_is "Ecallrec" t then Some (EVM.Ecallrec a) else if atom_is "Epushpc" t then Some (EVM.Epushpc a)
          else None
      | None => None
      end
  | SList [t; a; b] =>
      match z a, z b with
      | Some a, Some b =>
          if atom_is "Eload" t then Some (EVM.Eload a b) else if atom_is "Estore" t then Some (EVM.Estore a b)
          else if atom_is "Eappend" t then Some (EVM.Eappend a b) else if atom_is "Eforklabel" t then Some (EVM.Eforklabel a b)
          else if atom_is "Escope" t then Some (EVM.Escope a b) else None
      | _, _ => None
      end
  | _ => None
  end.

Fixpoint dec_einstrs (l : list sexp) : option (list EVM.einstr) :=
  match l with
  | [] => Some []
  | e :: r => match dec_einstr e, dec_einstrs r with Some i, Some is => Some (i :: is) | _, _ => None end
  end.

Definition einstr_eq_dec : forall a b : EVM.einstr, {a = b} + {a <> b}.
Proof. decide equality; apply Z.eq_dec. Defined.
Definition code_eqb (a b : list EVM.einstr) : bool := if list_eq_dec einstr_eq_dec a b then true else false.

Fixpoint find_form (name : list N) (l : list (string * list EVM.einstr)) : option (list EVM.einstr) :=
  match l with
  | [] => None
  | (n, c) :: r => if list_N_eqb name (codes n) then Some c else find_form name r
  end.

Definition obs_matches (o : list Z) (s : EVM.est) : bool :=
  match o with
  | [p; b; f; si; sl; sd; ci; cl; cd; off; nv] =>
      (EVM.pc s =? p) && Bool.eqb (EVM.bt s) (b =? 1) && (EVM.zlen (EVM.forks s) =? f)
      && (index (EVM.dstk s) =? si) && (limit (EVM.dstk s) =? sl) && (len (data (EVM.dstk s)) =? sd)
      && (index (EVM.sstk s) =? ci) && (limit (EVM.sstk s) =? cl) && (len (data (EVM.sstk s)) =? cd)
      && (EVM.offset s =? off) && (EVM.zlen (EVM.values s) =? nv)
  | _ => false
  end.

Fixpoint dedup (l : list EVM.est) : list EVM.est :=
  match l with
  | [] => []
  | s :: r => if EVM.ememb s r then dedup r else s :: dedup r
  end.

Definition lab_is (a b : EVM.elabel) : bool :=
  match a, b with
  | EVM.LNext, EVM.LNext | EVM.LEmit, EVM.LEmit | EVM.LErr, EVM.LErr | EVM.LDone, EVM.LDone => true
  | _, _ => false
  end.
Definition succs (code : list EVM.einstr) (lab : EVM.elabel) (cands : list EVM.est) : list EVM.est :=
  dedup (flat_map (fun s => map snd (filter (fun ls => lab_is (fst ls) lab) (EVM.estep code s))) cands).

(* fresh = the candidates are successors still waiting to be matched with the next tuple *)
Fixpoint simulate (code : list EVM.einstr) (C : Z) (i : N) (items : list sexp) (fresh : bool) (cands : list EVM.est) : sexp :=
  match items with
  | [] => A "ok"
  | it :: rest =>
      let fail (what : sexp) := SList [A "bad"; what; SList [A "at"; Atom (print_N i)]] in
      match it with
      | SList l =>
          match atoms_Z l with
          | Some o =>
              let next := filter (obs_matches o) (if fresh then cands else succs code EVM.LNext cands) in
              match next with
              | [] => fail (A "not-a-path-of-the-erased-machine")
              | _ => if forallb (fun s => EVM.efp s <=? C) next then simulate code C (N.succ i) rest false next
                     else fail (A "exceeds-certified-bound")
              end
          | None => fail (A "undecodable-item")
          end
      | Atom _ =>
          let lab := if atom_is "out" it then Some EVM.LEmit else if atom_is "err" it then Some EVM.LErr
                     else if atom_is "end" it then Some EVM.LDone else None in
          match lab with
          | Some lab =>
              if fresh then fail (A "marker-without-instruction") else
              match succs code lab cands with
              | [] => fail (A "return-not-possible-in-the-erased-machine")
              | next => simulate code C (N.succ i) rest true next
              end
          | None => fail (A "undecodable-item")
          end
      end
  end.

Definition judge_evmtrace (name nv : sexp) (codeS obs : list sexp) : sexp :=
  match name, nv, dec_einstrs codeS with
  | Atom nm, Atom nva, Some code =>
      match find_form nm GenEvmForms.evm_forms, parse_N nva with
      | Some gen, Some nvars =>
          if negb (code_eqb code gen) then SList [A "bad"; A "generated-constant-differs-from-the-implementation-code"]
          else match EVM.certify gen (N.to_nat nvars) (3 * 1000) with
               | Some C => simulate gen C 0 obs true [EVM.einit gen (N.to_nat nvars)]
               | None => SList [A "bad"; A "no-certificate"]
               end
      | _, _ => SList [A "bad"; A "unknown-form"]
      end
  | _, _, _ => A "undecodable"
  end.

(* (evmbound <name> <nvars>) -> (bound <C>) | none : the certified bound of a generated constant (for the evidence) *)
Definition evm_bound (name nv : sexp) : sexp :=
  match name, nv with
  | Atom nm, Atom nva =>
      match find_form nm (GenEvmForms.evm_forms ++ GenEvmForms.evm_unbounded_forms), parse_N nva with
      | Some gen, Some nvars =>
          match EVM.certify gen (N.to_nat nvars) (3 * 1000) with
          | Some C => SList [A "bound"; Atom (print_Z C)]
          | None => A "none"
          end
      | _, _ => A "unknown-form"
      end
  | _, _ => A "undecodable"
  end.

(* (evmcert <hex src> <nvars> <sumA> <sumB> (code <einstr>...)) : the verified certifier applied to the compiled code of ONE
   generated program (any program the fp stream measures).  certify_sound (EVMProofs.v) quantifies over all code, so a
   certificate is a proof that this program's footprint (forks + stack.data + scopes.data + values) is bounded by C for every
   loop count; the implementation's measured peaks of that sum at n and 8n must lie within C.
   Verdicts: (certified C) | uncertified | (skip unsupported) | (bad exceeds-certified-bound C a b) *)
Definition has_unsupported (code : list EVM.einstr) : bool :=
  existsb (fun i => match i with EVM.Eunsupported => true | _ => false end) code.

Definition judge_evmcert (nv sa sb : sexp) (codeS : list sexp) : sexp :=
  match nv, sa, sb, dec_einstrs codeS with
  | Atom nva, Atom saa, Atom sba, Some code =>
      match parse_N nva, parse_Z saa, parse_Z sba with
      | Some nvars, Some a, Some b =>
          if has_unsupported code then SList [A "skip"; A "unsupported"]
          else match EVM.certify code (N.to_nat nvars) (3 * 1000) with
               | Some C => if (a <=? C) && (b <=? C) then SList [A "certified"; Atom (print_Z C)]
                           else SList [A "bad"; A "exceeds-certified-bound"; Atom (print_Z C); Atom (print_Z a); Atom (print_Z b)]
               | None => A "uncertified"
               end
      | _, _, _ => A "undecodable"
      end
  | _, _, _, _ => A "undecodable"
  end.

Definition run_sexp (e : sexp) : sexp :=
  match e with
  | SList [t; _; nv; Atom sa; Atom sb; SList (tc :: codeS)] =>
      if atom_is "evmcert" t && atom_is "code" tc then judge_evmcert nv (Atom sa) (Atom sb) codeS else A "undecodable"
  | SList [t; name; nv] => if atom_is "evmbound" t then evm_bound name nv else A "undecodable"
  | SList [t; name; nv; SList (tc :: codeS); SList (to :: obs)] =>
      if atom_is "evmtrace" t && atom_is "code" tc && atom_is "obs" to then judge_evmtrace name nv codeS obs
      else A "undecodable"
  | SList [t; name; ast; SList impl] =>
      if atom_is "vmform" t then judge_vmform name ast impl else
      match e with
      | SList [t; k; SList (to :: ops); SList (tb :: obs)] =>
          if atom_is "stk" t && atom_is "ops" to && atom_is "obs" tb then judge_stk 0 ops obs (new_stack, [])
          else A "undecodable"
      | _ => A "undecodable"
      end
  | SList [t; name; ast; inp; SList (ts :: seq); fin] =>
      if atom_is "vmfoot" t && atom_is "seq" ts then judge_vmfoot name ast inp seq fin else A "undecodable"
  | SList (t :: _ :: _ :: mode :: SList (ta :: a) :: SList (tb :: b) :: _) =>
      if atom_is "fp" t && atom_is "a" ta && atom_is "b" tb then
        if atom_is "pend" mode then A "ok"
        else match atoms_Z a, atoms_Z b with
             | Some a, Some b => judge_fp comp_names a b
             | _, _ => A "undecodable-fp"
             end
      else A "undecodable"
  | _ => A "undecodable"
  end.

Definition run_line (l : list N) : list N :=
  match parse l with
  | Some (SList [k; e]) => if atom_is "spec" k then print (run_sexp e) else print (run_sexp (SList [k; e]))
  | Some e => print (run_sexp e)
  | None => codes "unparsable"
  end.
