(* C20 correspondence: one harness line -> verdict.

   (stk <v|s> (ops (p <n>) o s r t e ...) (obs (<index> <limit> <len data> <ret> (<view>...)) ... [panic]))
       the same operation sequence is run on vm/Stack.v (cell type Z); after every operation index,
       limit, len(data), the returned value and the chain from index must be equal; a Go panic must be
       a model [None] at the same operation.
   (fp <prog-hex> <n> <mode> (a <9 peaks at n>) (b <9 peaks at 8n>) ...)
       the property oracle on the implementation's measurements: every component of the peak footprint
       at 8n is at most the one at n plus a constant slack (components: forks, len stack.data,
       len scopes.data, len paths.data, len values, stack depth, scope depth, path depth, offset).
       mode [pend] = forms whose tail call is made with a choice point pending: informational.
   Verdict: ok | (bad ...). *)
From Coq Require Import List NArith ZArith Bool String.
From Verif Require Import common.Sexp vm.Stack.
Import ListNotations.
Open Scope Z_scope.

(* ---- stk ------------------------------------------------------------------------------------ *)
Inductive sop := SPush (v : Z) | SPop | SSave | SRestore | STop | SEmpty.

Definition dec_op (e : sexp) : option sop :=
  match e with
  | SList [t; Atom n] => if atom_is "p" t then option_map SPush (parse_Z n) else None
  | Atom _ => if atom_is "o" e then Some SPop else if atom_is "s" e then Some SSave
              else if atom_is "r" e then Some SRestore else if atom_is "t" e then Some STop
              else if atom_is "e" e then Some SEmpty else None
  | _ => None
  end.

(* returns (printed return value, new configuration); None = panic *)
Definition dash : list N := codes "-".
Definition sstep (o : sop) (c : cfg Z) : option (list N * cfg Z) :=
  let (s, pend) := c in
  match o with
  | SPush v => Some (dash, (push v s, pend))
  | SPop => match pop s with Some (v, s') => Some (print_Z v, (s', pend)) | None => None end
  | SSave => let (p, s') := save s in Some (dash, (s', p :: pend))
  | SRestore => match pend with p :: r => Some (dash, (restore p s, r)) | [] => None end
  | STop => match top s with Some v => Some (print_Z v, c) | None => None end
  | SEmpty => Some ((if empty s then codes "1" else codes "0"), c)
  end.

Definition enc_state (ret : list N) (s : stack Z) : sexp :=
  SList [Atom (print_Z (index s)); Atom (print_Z (limit s)); Atom (print_Z (len (data s))); Atom ret;
         SList (map (fun v => Atom (print_Z v)) (view s))].

Fixpoint sexp_eqb (a b : sexp) : bool :=
  match a, b with
  | Atom x, Atom y => list_N_eqb x y
  | SList l, SList m =>
      (fix go (l m : list sexp) : bool :=
         match l, m with
         | [], [] => true
         | x :: l', y :: m' => sexp_eqb x y && go l' m'
         | _, _ => false
         end) l m
  | _, _ => false
  end.

Fixpoint judge_stk (i : N) (ops obs : list sexp) (c : cfg Z) : sexp :=
  match ops, obs with
  | [], [] => A "ok"
  | o :: ops', ob :: obs' =>
      match dec_op o with
      | None => A "undecodable-op"
      | Some o =>
          match sstep o c with
          | None => if atom_is "panic" ob then A "ok"   (* the harness stops at the panic *)
                    else SList [A "bad"; SList [A "at"; Atom (print_N i)]; A "expected-panic"]
          | Some (ret, c') =>
              let e := enc_state ret (fst c') in
              if sexp_eqb e ob then judge_stk (N.succ i) ops' obs' c'
              else SList [A "bad"; SList [A "at"; Atom (print_N i)]; SList [A "expected"; e]]
          end
      end
  | _, _ => SList [A "bad"; A "length"]
  end.

(* ---- fp ------------------------------------------------------------------------------------- *)
Fixpoint atoms_Z (l : list sexp) : option (list Z) :=
  match l with
  | [] => Some []
  | Atom a :: r => match parse_Z a, atoms_Z r with Some z, Some zs => Some (z :: zs) | _, _ => None end
  | _ => None
  end.

Definition comp_names : list string :=
  ["forks"; "stack.data"; "scopes.data"; "paths.data"; "values"; "stack-depth"; "scope-depth"; "path-depth"; "offset"]%string.

(* constant slack per component; len(values) is doubled on growth, so it gets twice the offset slack *)
Definition slack (name : string) : Z := if String.eqb name "values" then 4 else 2.

Fixpoint judge_fp (names : list string) (a b : list Z) : sexp :=
  match names, a, b with
  | [], [], [] => A "ok"
  | nm :: names', x :: a', y :: b' =>
      if y <=? x + slack nm then judge_fp names' a' b'
      else SList [A "bad"; SList [A "grows"; A nm; Atom (print_Z x); Atom (print_Z y)]]
  | _, _, _ => A "undecodable-fp"
  end.

Definition run_sexp (e : sexp) : sexp :=
  match e with
  | SList [t; k; SList (to :: ops); SList (tb :: obs)] =>
      if atom_is "stk" t && atom_is "ops" to && atom_is "obs" tb then
        (* a trailing panic marker has no operation result: pad so that lengths agree *)
        judge_stk 0 ops obs (new_stack, [])
      else A "undecodable"
  | SList (t :: _ :: _ :: mode :: SList (ta :: a) :: SList (tb :: b) :: _) =>
      if atom_is "fp" t && atom_is "a" ta && atom_is "b" tb then
        if atom_is "pend" mode then A "ok"
        else match atoms_Z a, atoms_Z b with
             | Some a, Some b => judge_fp comp_names a b
             | _, _ => A "undecodable-fp"
             end
      else A "undecodable"
  | _ => A "undecodable"
  end.

Definition run_line (l : list N) : list N :=
  match parse l with
  | Some (SList [k; e]) => if atom_is "spec" k then print (run_sexp e) else print (run_sexp (SList [k; e]))
  | Some e => print (run_sexp e)
  | None => codes "unparsable"
  end.
