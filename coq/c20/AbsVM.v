(* C20 over the concrete VM model coq/c01vm (VM.v: the Next loop of execute.go for fragment F, Compile.v:
   compiler.go for F).  An ABSTRACT INTERPRETER of that VM that forgets every value and keeps only
   what the footprint and the control flow need: pc, backtrack flag, "an error is pending", the DEPTH
   of the data stack, the scope frames, the fork stack as (pc, saved depth, saved scopes), and the
   NUMBER of variable slots.  Where the concrete machine's control depends on data (truthiness at
   jumpifnot, a native returning a value or an error, an enumeration being empty / a singleton /
   longer, the kind of a pending error at forktrybegin / forklabel) the abstract step returns ALL
   alternatives.  Definitions only (extracted: the check certifies programs with it). *)
From Coq Require Import List Arith Bool.
From Verif Require Import c01vm.Syntax c01vm.Code c01vm.VM.
Import ListNotations.

Definition afork := (nat * nat * list frame)%type.          (* pc, depth of the saved stack, saved scopes *)
Record amem := mkAmem { adepth : nat; ascopes : list frame; aforks : list afork; anvars : nat }.
Inductive astate :=
| ARun (pc : nat) (bt : bool) (e : bool) (m : amem)
| ABrk (e : bool) (fk : list afork) (nv : nat).

(* ---- abstraction of a concrete state -------------------------------------------------------- *)
Definition is_some {A} (o : option A) : bool := match o with Some _ => true | None => false end.
Definition abs_fork (f : fork) : afork := (f_pc f, length (f_stk f), f_scopes f).
Definition abs_mem (m : mem) : amem :=
  mkAmem (length (stk m)) (scopes m) (map abs_fork (forks m)) (length (vars m)).
Definition abs (s : state) : astate :=
  match s with
  | Run pc bt e m => ARun pc bt (is_some e) (abs_mem m)
  | Brk e fk vs _ => ABrk (is_some e) (map abs_fork fk) (length vs)
  end.

(* ---- the abstract step ---------------------------------------------------------------------- *)
Definition aset_depth (m : amem) (d : nat) : amem := mkAmem d (ascopes m) (aforks m) (anvars m).
Definition apushfork (pc d : nat) (m : amem) : amem :=
  mkAmem (adepth m) (ascopes m) ((pc, d, ascopes m) :: aforks m) (anvars m).
Definition abrk (e : bool) (m : amem) : astate := ABrk e (aforks m) (anvars m).

Section AStep.
Variable code : list instr.

Definition astep (s : astate) : list astate :=
  match s with
  | ABrk e fk nv =>
      match fk with
      | [] => []
      | (pc, d, sc) :: r => [ARun pc true e (mkAmem d sc r nv)]
      end
  | ARun pc bt e m =>
      let cont m' := ARun (S pc) bt e m' in
      let d := adepth m in
      match nth_error code pc with
      | None => [abrk e m]
      | Some i =>
        match i with
        | Inop | Iexpbegin | Iexpend => [cont m]
        | Ipush _ => [cont (aset_depth m (S d))]
        | Ipop => match d with S d' => [cont (aset_depth m d')] | O => [] end
        | Idup => match d with S d' => [cont (aset_depth m (S (S d')))] | O => [] end
        | Iconst _ => match d with S d' => [cont (aset_depth m (S d'))] | O => [] end
        | Iload _ => [cont (aset_depth m (S d))]
        | Istore _ | Iappend _ => match d with S d' => [cont (aset_depth m d')] | O => [] end
        | Ifork t =>
            if bt then (if e then [abrk e m] else [ARun t false false m])
            else [cont (apushfork pc d m)]
        | Iforktrybegin t =>
            if bt then
              (if e then abrk true m :: match d with S d' => [ARun t false false (aset_depth m (S d'))] | O => [] end
               else [abrk false m])
            else [cont (apushfork pc d m)]
        | Iforktryend => if bt then [abrk e m] else [cont (apushfork pc d m)]
        | Iforklabel _ =>
            if bt then match d with
                       | S _ => if e then [abrk false m; abrk true m] else [abrk false m]
                       | O => [] end
            else [cont (apushfork pc (S d) m)]
        | Ibacktrack => [abrk e m]
        | Ijump t => [ARun t bt e m]
        | Ijumpifnot t => match d with S d' => [ARun t bt e (aset_depth m d'); cont (aset_depth m d')] | O => [] end
        | Iindex _ =>
            if bt then [abrk e m] else
            match d with S d' => [cont (aset_depth m (S d')); abrk true m] | O => [] end
        | Icall f =>
            if bt then [abrk e m] else
            match f with
            | NF0 _ => match d with S d' => [cont (aset_depth m (S d')); abrk true m] | O => [] end
            | NF2 _ => match d with S (S (S d')) => [cont (aset_depth m (S d')); abrk true m] | _ => [] end
            | NBreak => match d with S _ => [abrk true m] | O => [] end
            end
        | Iscope id nv na =>
            match ascopes m, na with
            | [], O => [cont (mkAmem d [(id, length code - 1)] (aforks m) (anvars m + (2 * nv - anvars m)))]
            | _, _ => []
            end
        | Iret =>
            if bt then [abrk e m] else
            match ascopes m with
            | [(_, rpc)] => match d with
                            | S d' => [ARun rpc true false (mkAmem d' [] (aforks m) (anvars m))]
                            | O => [] end
            | _ => []
            end
        | Iiter =>
            if e then [abrk e m] else
            match d with
            | S d' => [abrk false m; abrk true m;
                       ARun (S pc) false false (aset_depth m (S d'));
                       ARun (S pc) false false (aset_depth (apushfork pc (S d') m) (S d'))]
            | O => []
            end
        end
      end
  end.

(* ---- decidable equality and membership ------------------------------------------------------ *)
Definition frame_eq_dec : forall a b : frame, {a = b} + {a <> b}.
Proof. decide equality; apply Nat.eq_dec. Defined.
Definition afork_eq_dec : forall a b : afork, {a = b} + {a <> b}.
Proof. decide equality; [apply (list_eq_dec frame_eq_dec)|decide equality; apply Nat.eq_dec]. Defined.
Definition amem_eq_dec : forall a b : amem, {a = b} + {a <> b}.
Proof.
  decide equality; try apply Nat.eq_dec; [apply (list_eq_dec afork_eq_dec)|apply (list_eq_dec frame_eq_dec)].
Defined.
Definition astate_eq_dec : forall a b : astate, {a = b} + {a <> b}.
Proof.
  decide equality; try apply Nat.eq_dec; try apply bool_dec; try apply amem_eq_dec; apply (list_eq_dec afork_eq_dec).
Defined.

Definition memb (s : astate) (l : list astate) : bool :=
  existsb (fun y => if astate_eq_dec s y then true else false) l.

(* the set of abstract states reachable from [todo]; None = fuel exhausted *)
Fixpoint explore (fuel : nat) (todo seen : list astate) : option (list astate) :=
  match fuel with
  | O => None
  | S f =>
      match todo with
      | [] => Some seen
      | s :: r => if memb s seen then explore f r seen else explore f (astep s ++ r) (s :: seen)
      end
  end.

(* S is closed under the abstract step *)
Definition closed (R : list astate) : bool :=
  forallb (fun s => forallb (fun s' => memb s' R) (astep s)) R.

End AStep.

(* ---- footprint ------------------------------------------------------------------------------ *)
(* len(env.forks) + live stack cells (current chain and every chain a pending fork can restore)
   + scope frames + variable slots: an upper bound of everything the array stacks must retain *)
Definition fork_cells (fk : list afork) : nat := fold_right (fun f a => snd (fst f) + length (snd f) + a) 0 fk.
Definition afp (s : astate) : nat :=
  match s with
  | ARun _ _ _ m => length (aforks m) + fork_cells (aforks m) + adepth m + length (ascopes m) + anvars m
  | ABrk _ fk nv => length fk + fork_cells fk + nv
  end.
Definition fp (s : state) : nat := afp (abs s).

Definition max_afp (R : list astate) : nat := fold_right (fun s a => Nat.max (afp s) a) 0 R.

(* abs (init v) does not depend on v *)
Definition ainit : astate := ARun 0 false false (mkAmem 1 [] [] 0).

(* the certificate: explore from the initial state, re-check closure, return the bound *)
Definition certify (code : list instr) (fuel : nat) : option nat :=
  match explore code fuel [ainit] [] with
  | Some R => if closed code R && memb ainit R then Some (max_afp R) else None
  | None => None
  end.
