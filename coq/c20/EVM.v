(* C20: the ERASED VM — execute.go's Next loop with every JSON value forgotten.

   What is kept is exactly what the footprint and the control flow are made of: pc, backtrack, "err is
   set", the locals callpc/index, the three machine stacks as the ARRAY stacks of stack.go /
   scope_stack.go (vm/Stack.v: data, index, limit), env.forks, env.values (as a slot array), env.offset,
   and closures (pc, scope index) — the only values that steer control.  Everything that depends on
   data in execute.go (truthiness at jumpifnot, a native returning a value or an error, an enumeration
   being empty / a singleton / longer, object keys being strings, the kind of a pending error at the
   try / alt / label forks) is a NONDETERMINISTIC choice: [estep] returns all successors.  One step =
   one loop iteration of Next = one instruction fetch, including what follows a `break loop`
   (popfork, or the return from Next and the re-entry by the following Next call).
   The frame logic is c20/Frames.v (op_scope, popscope), so tailcall_frame_reuse is a statement about
   this machine's opcallrec/opscope step.
   Not covered: the paths stack (oppathbegin/oppathend: no successor, such code is not certified),
   env.expdepth (a counter), env.label (a counter).  Definitions only (extracted). *)
From Coq Require Import List ZArith Bool.
From Verif Require Import vm.Stack c20.Frames.
Import ListNotations.
Open Scope Z_scope.

Inductive ev := EAny | EClos (pc idx : Z).

Inductive einstr :=
| Enop | Epush | Epop | Edup | Econst
| Eload (id k : Z) | Estore (id k : Z) | Eobject (n : Z) | Eappend (id k : Z)
| Efork (t : Z) | Eforktrybegin (t : Z) | Eforktryend | Eforkalt (t : Z) | Eforklabel (id k : Z)
| Ebacktrack | Ejump (t : Z) | Ejumpifnot (t : Z) | Eindex
| Ecallnative (argc : Z) | Ecall (t : Z) | Ecallrec (t : Z) | Epushpc (t : Z) | Ecallpc
| Escope (id cnt : Z) | Eret | Eiter | Eexpbegin | Eexpend | Eunsupported.

Record efork := mkFork { fpc : Z; fsi : Z; fsl : Z; fci : Z; fcl : Z; foff : Z }.

Record est := mkEst {
  pc : Z; bt : bool; err : bool; lcallpc : Z; lindex : Z;           (* locals of Next *)
  dstk : stack ev; sstk : stack scope; forks : list efork;
  values : list ev; offset : Z }.

Inductive elabel := LNext | LEmit | LErr | LDone.     (* loop goes on | (v,true) | (err,true) | (nil,false) *)

Definition zlen {A} (l : list A) : Z := Z.of_nat (length l).
Definition zget {A} (l : list A) (i : Z) : option A := if i <? 0 then None else nth_error l (Z.to_nat i).
Fixpoint lset {A} (n : nat) (a : A) (l : list A) : list A :=
  match l, n with [], _ => [] | _ :: r, O => a :: r | x :: r, S m => x :: lset m a r end.
Definition zset {A} (l : list A) (i : Z) (a : A) : option (list A) :=
  if (i <? 0) || (zlen l <=? i) then None else Some (lset (Z.to_nat i) a l).

(* env.index: walk the scope chain through outerindex, reading scopes.data directly *)
Fixpoint env_index (fuel : nat) (d : list (block scope)) (id k : Z) (i : Z) : option Z :=
  match fuel with
  | O => None
  | S f =>
      if i <? 0 then None          (* panic("env.index") *)
      else match get d i with
           | Some b => if sid (bvalue b) =? id then Some (soffset (bvalue b) + k)
                       else env_index f d id k (souterindex (bvalue b))
           | None => None
           end
  end.
Definition eindex (s : est) (id k : Z) : option Z :=
  env_index (S (length (data (sstk s)))) (data (sstk s)) id k (index (sstk s)).

Section EVM.
Variable code : list einstr.
Definition ncodes : Z := zlen code.

Definition upd (s : est) (pc' : Z) (st : stack ev) : est :=
  mkEst pc' (bt s) (err s) (lcallpc s) (lindex s) st (sstk s) (forks s) (values s) (offset s).
Definition upd_vals (s : est) (pc' : Z) (st : stack ev) (vs : list ev) : est :=
  mkEst pc' (bt s) (err s) (lcallpc s) (lindex s) st (sstk s) (forks s) vs (offset s).
Definition next (s : est) (st : stack ev) : list (elabel * est) := [(LNext, upd s (pc s + 1) st)].

(* func (env *env) pushfork(pc int): both save() calls raise the limits *)
Definition pushfork (s : est) : est :=
  let '(ps, st') := save (dstk s) in
  let '(pc_, sc') := save (sstk s) in
  mkEst (pc s) (bt s) (err s) (lcallpc s) (lindex s) st' sc'
        (mkFork (pc s) (fst ps) (snd ps) (fst pc_) (snd pc_) (offset s) :: forks s) (values s) (offset s).

(* break loop: popfork and go on with backtrack = true, or return from Next.  After (err,true) the
   consumer may call Next again: it resumes at the same pc with backtrack = true, err = nil and
   fresh locals.  After (nil,false) the pc is parked at len(codes). *)
Definition brk (e : bool) (s : est) : list (elabel * est) :=
  match forks s with
  | f :: r =>
      [(LNext, mkEst (fpc f) true e (lcallpc s) (lindex s)
                     (restore (fsi f, fsl f) (dstk s)) (restore (fci f, fcl f) (sstk s)) r (values s) (foff f))]
  | [] =>
      if e then [(LErr, mkEst (pc s) true false (ncodes - 1) (-1) (dstk s) (sstk s) [] (values s) (offset s))]
      else [(LDone, mkEst ncodes true false (ncodes - 1) (-1) (dstk s) (sstk s) [] (values s) (offset s))]
  end.

Fixpoint popn (n : nat) (st : stack ev) : option (stack ev) :=
  match n with
  | O => Some st
  | S m => match pop st with Some (_, st') => popn m st' | None => None end
  end.

(* goto loop with new pc / locals *)
Definition goto (s : est) (pc' : Z) (bt' e' : bool) (st : stack ev) : est :=
  mkEst pc' bt' e' (lcallpc s) (lindex s) st (sstk s) (forks s) (values s) (offset s).
Definition docall (s : est) (pc' cpc idx : Z) (st : stack ev) : list (elabel * est) :=
  [(LNext, mkEst pc' (bt s) (err s) cpc idx st (sstk s) (forks s) (values s) (offset s))].

Definition frames_of (s : est) : frames := mkFrames (sstk s) (offset s) (zlen (values s)).
Definition with_frames (s : est) (pc' : Z) (f : frames) : est :=
  mkEst pc' (bt s) (err s) (lcallpc s) (lindex s) (dstk s) (Frames.scopes f) (forks s)
        (values s ++ repeat EAny (Z.to_nat (nvalues f - zlen (values s)))) (Frames.offset f).

Definition estep (s : est) : list (elabel * est) :=
  if ncodes <=? pc s then
    (* the for loop is not entered *)
    brk (err s) s
  else
  match zget code (pc s) with
  | None => []
  | Some i =>
    match i with
    | Enop | Eexpbegin | Eexpend => next s (dstk s)
    | Epush => next s (push EAny (dstk s))
    | Epop => match pop (dstk s) with Some (_, st) => next s st | None => [] end
    | Edup => match pop (dstk s) with Some (v, st) => next s (push v (push v st)) | None => [] end
    | Econst => match pop (dstk s) with Some (_, st) => next s (push EAny st) | None => [] end
    | Eload id k =>
        match eindex s id k with
        | Some j => match zget (values s) j with Some v => next s (push v (dstk s)) | None => [] end
        | None => []
        end
    | Estore id k =>
        match eindex s id k, pop (dstk s) with
        | Some j, Some (v, st) =>
            match zset (values s) j v with Some vs => [(LNext, upd_vals s (pc s + 1) st vs)] | None => [] end
        | _, _ => []
        end
    | Eobject n =>
        if bt s then brk (err s) s else
        match popn (Z.to_nat (2 * n)) (dstk s) with
        | Some st => next s (push EAny st) ++ brk true (upd s (pc s) st)     (* a key is not a string *)
        | None => []
        end
    | Eappend id k =>
        match eindex s id k, pop (dstk s) with
        | Some j, Some (_, st) => match zget (values s) j with Some _ => next s st | None => [] end
        | _, _ => []
        end
    | Efork t =>
        if bt s then (if err s then brk true s else [(LNext, goto s t false false (dstk s))])
        else [(LNext, let s' := pushfork s in upd s' (pc s + 1) (dstk s'))]
    | Eforktrybegin t =>
        if bt s then
          (if err s then
             brk true s ++                                         (* tryEndError / break / halt *)
             match pop (dstk s) with
             | Some (_, st) => [(LNext, goto s t false false (push EAny st))]
             | None => [] end
           else brk false s)
        else [(LNext, let s' := pushfork s in upd s' (pc s + 1) (dstk s'))]
    | Eforktryend =>
        if bt s then brk (err s) s
        else [(LNext, let s' := pushfork s in upd s' (pc s + 1) (dstk s'))]
    | Eforkalt t =>
        if bt s then (if err s then [(LNext, goto s t false false (dstk s))] else brk false s)
        else [(LNext, let s' := pushfork s in upd s' (pc s + 1) (dstk s'))]
    | Eforklabel id k =>
        if bt s then
          match pop (dstk s) with
          | Some (_, st) =>
              let s1 := upd s (pc s) st in
              if err s then brk false s1 ++ brk true s1 else brk false s1
          | None => []
          end
        else
          let s1 := pushfork (upd s (pc s) (push EAny (dstk s))) in
          match pop (dstk s1), eindex s1 id k with
          | Some (_, st), Some j =>
              match zset (values s1) j EAny with
              | Some vs => [(LNext, upd_vals s1 (pc s + 1) st vs)]
              | None => [] end
          | _, _ => []
          end
    | Ebacktrack => brk (err s) s
    | Ejump t => [(LNext, upd s t (dstk s))]
    | Ejumpifnot t =>
        match pop (dstk s) with
        | Some (_, st) => [(LNext, upd s t st); (LNext, upd s (pc s + 1) st)]
        | None => []
        end
    | Eindex =>
        if bt s then brk (err s) s else
        match pop (dstk s) with
        | Some (_, st) => next s (push EAny st) ++ brk true (upd s (pc s) st)
        | None => []
        end
    | Ecallnative argc =>
        if bt s then brk (err s) s else
        match popn (S (Z.to_nat argc)) (dstk s) with
        | Some st => next s (push EAny st) ++ brk true (upd s (pc s) st)
        | None => []
        end
    | Ecall t => if bt s then brk (err s) s else docall s t (pc s) (index (sstk s)) (dstk s)
    | Ecallrec t => docall s t (-1) (index (sstk s)) (dstk s)
    | Epushpc t => next s (push (EClos t (index (sstk s))) (dstk s))
    | Ecallpc =>
        match pop (dstk s) with
        | Some (EClos p i, st) => docall s p (pc s) i st
        | _ => []
        end
    | Escope id cnt =>
        match op_scope id cnt (lcallpc s) (lindex s) (frames_of s) with
        | Some f => [(LNext, with_frames s (pc s + 1) f)]     (* callpc / saveindex are consumed *)
        | None => []
        end
    | Eret =>
        if bt s then brk (err s) s else
        match popscope (frames_of s) with
        | Some ((rpc, sv), f) =>
            let sc := restore (sv, limit (Frames.scopes f)) (Frames.scopes f) in
            if empty sc then
              match pop (dstk s) with
              | Some (_, st) =>
                  (* return env.pop(), true ; the following Next call starts at rpc with backtrack = true *)
                  [(LEmit, mkEst rpc true false (ncodes - 1) (-1) st sc (forks s) (values s) (Frames.offset f))]
              | None => []
              end
            else [(LNext, mkEst (rpc + 1) (bt s) (err s) (lcallpc s) (lindex s) (dstk s) sc (forks s) (values s) (Frames.offset f))]
        | None => []
        end
    | Eiter =>
        if err s then brk true s else
        match pop (dstk s) with
        | Some (_, st) =>
            let s0 := goto s (pc s) false false st in
            (* empty / exhausted: break; not iterable: push emptyIter{}, err; one element; more elements
               (push the rest or the Iter, pushfork, pop, push the element); an Iter yielding an error *)
            brk false s0
            ++ brk true (upd s0 (pc s) (push EAny st))
            ++ [(LNext, upd s0 (pc s + 1) (push EAny st))]
            ++ (let s1 := pushfork (upd s0 (pc s) (push EAny st)) in
                match pop (dstk s1) with
                | Some (_, st1) => (LNext, upd s1 (pc s + 1) (push EAny st1)) :: brk true (upd s1 (pc s) st1)
                | None => []
                end)
        | None => []
        end
    | Eunsupported => []
    end
  end.

(* ---- decidable equality, exploration, certificate -------------------------------------------- *)
Definition ev_eq_dec : forall a b : ev, {a = b} + {a <> b}.
Proof. decide equality; apply Z.eq_dec. Defined.
Definition scope_eq_dec : forall a b : scope, {a = b} + {a <> b}.
Proof. decide equality; apply Z.eq_dec. Defined.
Definition block_eq_dec {A} (d : forall a b : A, {a = b} + {a <> b}) : forall a b : block A, {a = b} + {a <> b}.
Proof. decide equality; try apply Z.eq_dec; apply d. Defined.
Definition stack_eq_dec {A} (d : forall a b : A, {a = b} + {a <> b}) : forall a b : Stack.stack A, {a = b} + {a <> b}.
Proof. decide equality; try apply Z.eq_dec. apply (list_eq_dec (block_eq_dec d)). Defined.
Definition efork_eq_dec : forall a b : efork, {a = b} + {a <> b}.
Proof. decide equality; apply Z.eq_dec. Defined.
Definition est_eq_dec : forall a b : est, {a = b} + {a <> b}.
Proof.
  decide equality; try apply Z.eq_dec; try apply bool_dec.
  - apply (list_eq_dec ev_eq_dec).
  - apply (list_eq_dec efork_eq_dec).
  - apply (stack_eq_dec scope_eq_dec).
  - apply (stack_eq_dec ev_eq_dec).
Defined.

Definition ememb (s : est) (l : list est) : bool :=
  existsb (fun y => if est_eq_dec s y then true else false) l.

Fixpoint explore (fuel : nat) (todo seen : list est) : option (list est) :=
  match fuel with
  | O => None
  | S f =>
      match todo with
      | [] => Some seen
      | s :: r => if ememb s seen then explore f r seen
                  else explore f (map snd (estep s) ++ r) (s :: seen)
      end
  end.

Definition closed (R : list est) : bool :=
  forallb (fun s => forallb (fun ls => ememb (snd ls) R) (estep s)) R.

End EVM.

(* env.execute: push the input and the variable values (erased); pc = 0; Next's initial locals *)
Fixpoint pushn (n : nat) (st : stack ev) : stack ev := match n with O => st | S m => pushn m (push EAny st) end.
Definition einit (code : list einstr) (nvars : nat) : est :=
  mkEst 0 false false (zlen code - 1) (-1) (pushn (S nvars) new_stack) new_stack [] [] 0.

(* the footprint: everything env retains *)
Definition efp (s : est) : Z :=
  zlen (forks s) + len (data (dstk s)) + len (data (sstk s)) + zlen (values s).
Definition max_efp (R : list est) : Z := fold_right (fun s a => Z.max (efp s) a) 0 R.

Definition certify (code : list einstr) (nvars fuel : nat) : option Z :=
  match explore code fuel [einit code nvars] [] with
  | Some R => if closed code R && ememb (einit code nvars) R then Some (max_efp R) else None
  | None => None
  end.
