(* C20 model: the scope-frame logic of execute.go (opcall with a pc operand, opcallrec, opscope, opret,
   popscope) as functions on the frame part of the machine state:  scopes (a vm/Stack.v stack of
   [scope] records), env.offset, len(env.values).  Definitions only.

     type scope struct { id, offset, pc, saveindex, outerindex int }

     func (env *env) popscope() (int, int) {
       free := env.scopes.index > env.scopes.limit
       s := env.scopes.pop()
       if free { env.offset = s.offset }
       return s.pc, s.saveindex }

     case opcall (int operand):  pc, callpc, index = v, pc, env.scopes.index ; goto loop
     case opcallrec:             pc, callpc, index = code.v.(int), -1, env.scopes.index ; goto loop
     case opscope:
       xs := code.v.([3]int)
       if index == env.scopes.index {
         if callpc >= 0 { saveindex = index } else { callpc, saveindex = env.popscope() }
       } else { saveindex = env.scopes.index }
       if outerindex = index; outerindex >= 0 {
         if s := env.scopes.data[outerindex].value; s.id == xs[0] { outerindex = s.outerindex } }
       env.scopes.push(scope{xs[0], env.offset, callpc, saveindex, outerindex})
       env.offset += xs[1]
       if env.offset > len(env.values) { vs := make([]any, env.offset*2); copy(vs, env.values); env.values = vs }
     case opret:
       pc, env.scopes.index = env.popscope()
       (if env.scopes.empty() return the value)

   A call reaches its opscope through [goto loop] with the locals (callpc, index) just set, so
   "call + opscope" is one function here.  The tail call compiled to opjump (functions without
   variables) jumps BEHIND the opscope: it touches none of this state. *)
From Coq Require Import List ZArith Bool.
From Verif Require Import vm.Stack.
Import ListNotations.
Open Scope Z_scope.

Record scope := mkScope { sid : Z; soffset : Z; spc : Z; ssaveindex : Z; souterindex : Z }.

Record frames := mkFrames { scopes : stack scope; offset : Z; nvalues : Z }.

Definition popscope (s : frames) : option ((Z * Z) * frames) :=
  let free := index (scopes s) >? limit (scopes s) in
  match pop (scopes s) with
  | Some (sc, st') => Some ((spc sc, ssaveindex sc), mkFrames st' (if free then soffset sc else offset s) (nvalues s))
  | None => None
  end.

(* opscope with operand (id, variablecnt) entered with the locals callpc and index *)
Definition op_scope (id cnt : Z) (callpc idx : Z) (s : frames) : option frames :=
  match (if idx =? index (scopes s)
         then if callpc >=? 0 then Some (callpc, idx, s)
              else match popscope s with Some ((pc, sv), s') => Some (pc, sv, s') | None => None end
         else Some (callpc, index (scopes s), s)) with
  | None => None
  | Some (callpc', saveindex, s1) =>
      match (if idx >=? 0
             then match get (data (scopes s1)) idx with
                  | Some b => Some (if sid (bvalue b) =? id then souterindex (bvalue b) else idx)
                  | None => None
                  end
             else Some idx) with
      | None => None
      | Some outerindex =>
          let sc := push (mkScope id (offset s1) callpc' saveindex outerindex) (scopes s1) in
          let off := offset s1 + cnt in
          Some (mkFrames sc off (if off >? nvalues s1 then off * 2 else nvalues s1))
      end
  end.

(* opcall <pc of an opscope> executed at program counter [pc] >= 0, then the opscope *)
Definition call (id cnt pc : Z) (s : frames) : option frames := op_scope id cnt pc (index (scopes s)) s.

(* opcallrec, then the opscope *)
Definition tail_call (id cnt : Z) (s : frames) : option frames := op_scope id cnt (-1) (index (scopes s)) s.

(* opret: returns the new pc *)
Definition ret (s : frames) : option (Z * frames) :=
  match popscope s with
  | Some ((pc, sv), s') => Some (pc, mkFrames (restore (sv, limit (scopes s')) (scopes s')) (offset s') (nvalues s'))
  | None => None
  end.
