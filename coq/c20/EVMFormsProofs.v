(* C20: every generated form (gen/GenEvmForms.v = the code the compiler of the current tree emits for
   range, while, until, repeat, recurse, limit, first, last, isempty, reduce, foreach, inputs and the
   tail-recursive definitions) runs in bounded space on the erased VM: there is a constant C such that
   every state reachable from the initial state — whatever the input, the value of $n, the results of
   the natives, however often Next is called — has footprint
   len forks + len stack.data + len scopes.data + len values <= C.
   Proved by computing the certificate on the generated constant: when the compiler changes, this file
   is re-proved about the new code, and fails if the new code is no longer certifiable. *)
From Coq Require Import List ZArith String.
From Verif Require Import c20.EVM c20.EVMProofs gen.GenEvmForms.
Import ListNotations.
Open Scope Z_scope.

Definition evm_bounded (code : list einstr) : Prop :=
  exists C, forall s, ereach code (einit code 1) s -> efp s <= C.

Theorem evm_forms_bounded : Forall (fun nc => evm_bounded (snd nc)) evm_forms.
Proof.
  unfold evm_forms.
  repeat (constructor; [eexists; eapply (certify_sound _ 1 3000); vm_compute; reflexivity|]).
  constructor.
Qed.

