(* C20 proofs: frame replacement by tail calls (execute.go opcallrec/opscope/popscope over the array
   stack of scope_stack.go) and the generic loop bound. *)
From Coq Require Import List ZArith Bool Lia.
From Verif Require Import vm.Stack vm.StackProofs c20.Frames.
Import ListNotations.
Open Scope Z_scope.

Notation WFs := (WF scope).

Lemma scope_eta : forall f, mkScope (sid f) (soffset f) (spc f) (ssaveindex f) (souterindex f) = f.
Proof. destruct f; reflexivity. Qed.

(* A self tail call (opcallrec + opscope of the function whose activation [f] is the top frame) with
   no pending fork above the frame (scopes.index > scopes.limit) REPLACES the frame: the popped
   frame's slot (or a lower one) is reused, the new frame inherits return pc, saveindex and
   outerindex, the register-file offset and size are unchanged.  In fact the scope chain afterwards
   is the same list as before: nothing is retained per call. *)
Theorem tailcall_frame_reuse : forall id cnt s b,
  WFs (scopes s) ->
  limit (scopes s) < index (scopes s) ->
  get (data (scopes s)) (index (scopes s)) = Some b ->
  sid (bvalue b) = id ->
  offset s = soffset (bvalue b) + cnt -> offset s <= nvalues s ->
  exists s', tail_call id cnt s = Some s'
    /\ view (scopes s') = view (scopes s)
    /\ index (scopes s') <= index (scopes s)
    /\ limit (scopes s') = limit (scopes s)
    /\ len (data (scopes s')) = len (data (scopes s))
    /\ offset s' = offset s /\ nvalues s' = nvalues s.
Proof.
  intros id cnt s b Hwf Hlim Hget Hid Hoff Hval.
  pose proof (pop_spec scope (scopes s) Hwf) as P.
  assert (Hpop : pop (scopes s) = Some (bvalue b, mkStack (data (scopes s)) (bnext b) (limit (scopes s)))).
  { unfold pop. rewrite Hget. reflexivity. }
  rewrite Hpop in P. destruct P as (Hv & _ & _ & Hwf1 & Hlt).
  set (st1 := mkStack (data (scopes s)) (bnext b) (limit (scopes s))) in *.
  assert (Hidx : 0 <= index (scopes s)) by (destruct Hwf as (_ & ? & ?); lia).
  unfold tail_call, op_scope. rewrite Z.eqb_refl.
  replace (-1 >=? 0) with false by reflexivity.
  unfold popscope. rewrite Hpop.
  replace (index (scopes s) >? limit (scopes s)) with true by (symmetry; apply Z.gtb_lt; lia).
  cbn [scopes offset nvalues].
  replace (index (scopes s) >=? 0) with true by (symmetry; apply Z.geb_le; lia).
  assert (Hg1 : get (data st1) (index (scopes s)) = Some b) by exact Hget. rewrite Hg1.
  rewrite Hid, Z.eqb_refl.
  replace (soffset (bvalue b) + cnt >? nvalues s) with false
    by (symmetry; rewrite Z.gtb_ltb; apply Z.ltb_ge; lia).
  eexists. split; [reflexivity|]. cbn [scopes offset nvalues].
  split.
  - rewrite (push_view scope _ st1 Hwf1). rewrite Hv. f_equal. rewrite <- Hid. apply scope_eta.
  - destruct (push_after_pop_reuses scope (scopes s) (bvalue b) st1
               (mkScope id (soffset (bvalue b)) (spc (bvalue b)) (ssaveindex (bvalue b)) (souterindex (bvalue b)))
               Hwf Hlim Hpop) as (Hlen & Hindex & Hlimit).
    repeat split; auto; lia.
Qed.

(* An ordinary call (opcall at program counter pc >= 0, then opscope) stacks a new frame on top. *)
Theorem call_stacks_frame : forall id cnt pc s,
  WFs (scopes s) -> 0 <= pc -> 0 <= cnt ->
  exists s' fr, call id cnt pc s = Some s'
    /\ view (scopes s') = fr :: view (scopes s)
    /\ sid fr = id /\ soffset fr = offset s /\ spc fr = pc /\ ssaveindex fr = index (scopes s)
    /\ offset s' = offset s + cnt.
Proof.
  intros id cnt pc s Hwf Hpc Hcnt. unfold call, op_scope. rewrite Z.eqb_refl.
  replace (pc >=? 0) with true by (symmetry; apply Z.geb_le; lia).
  destruct (index (scopes s) >=? 0) eqn:Hi.
  - apply Z.geb_le in Hi. pose proof Hwf as (Hok & Hr & Hl).
    destruct (get_in_range scope (data (scopes s)) (index (scopes s))) as (b & Hb); [lia|]. rewrite Hb.
    eexists. eexists. split; [reflexivity|]. cbn [scopes offset].
    split; [apply push_view; exact Hwf|]. cbn [sid soffset spc ssaveindex]. repeat split; reflexivity.
  - eexists. eexists. split; [reflexivity|]. cbn [scopes offset].
    split; [apply push_view; exact Hwf|]. cbn [sid soffset spc ssaveindex]. repeat split; reflexivity.
Qed.

(* The boundary: with a fork pending above the frame (scopes.index <= scopes.limit) the same tail
   call cannot free the frame (the fork may restore it): the new frame goes to limit+1 and the
   register-file offset advances.  This is why a "tail" call made while a choice point of the body is
   still pending (try, label, first(...)) costs space per turn. *)
Theorem tailcall_under_fork_grows : forall id cnt s b,
  WFs (scopes s) ->
  0 <= index (scopes s) <= limit (scopes s) ->
  get (data (scopes s)) (index (scopes s)) = Some b ->
  exists s', tail_call id cnt s = Some s'
    /\ index (scopes s') = limit (scopes s) + 1
    /\ offset s' = offset s + cnt
    /\ length (view (scopes s')) = length (view (scopes s)).
Proof.
  intros id cnt s b Hwf Hlim Hget.
  pose proof (pop_spec scope (scopes s) Hwf) as P.
  assert (Hpop : pop (scopes s) = Some (bvalue b, mkStack (data (scopes s)) (bnext b) (limit (scopes s)))).
  { unfold pop. rewrite Hget. reflexivity. }
  rewrite Hpop in P. destruct P as (Hv & _ & _ & Hwf1 & Hlt).
  set (st1 := mkStack (data (scopes s)) (bnext b) (limit (scopes s))) in *.
  unfold tail_call, op_scope. rewrite Z.eqb_refl.
  replace (-1 >=? 0) with false by reflexivity.
  unfold popscope. rewrite Hpop.
  replace (index (scopes s) >? limit (scopes s)) with false
    by (symmetry; rewrite Z.gtb_ltb; apply Z.ltb_ge; lia).
  cbn [scopes offset nvalues].
  replace (index (scopes s) >=? 0) with true by (symmetry; apply Z.geb_le; lia).
  assert (Hg1 : get (data st1) (index (scopes s)) = Some b) by exact Hget. rewrite Hg1.
  eexists. split; [reflexivity|]. cbn [scopes offset nvalues].
  split; [|split; [reflexivity|]].
  - unfold push, st1. cbn [index limit]. cbn in Hlt. lia.
  - rewrite (push_view scope _ st1 Hwf1). rewrite Hv. reflexivity.
Qed.

(* ---- the generic loop bound ----------------------------------------------------------------- *)
Section LoopBound.
Variable T : Type.
Variable step : T -> option T.      (* None: the machine has stopped *)
Variable fp : T -> Z.               (* any footprint measure *)
Variable H : T -> Prop.             (* the loop-head predicate *)
Variables (K : nat) (C : Z).

Fixpoint iter (n : nat) (s : T) : option T :=
  match n with
  | O => Some s
  | S m => match step s with Some s' => iter m s' | None => None end
  end.

Lemma iter_add : forall a b s, iter (a + b) s = match iter a s with Some s' => iter b s' | None => None end.
Proof. induction a; intros; simpl; auto. destruct (step s); auto. Qed.

(* from every loop-head state the machine is back at a loop head (or has stopped) within K >= 1
   steps, and the footprint is at most C at every state on the way (including both ends) *)
Definition returns_within (s : T) : Prop :=
  exists m, (1 <= m <= K)%nat
    /\ (forall i s', (i <= m)%nat -> iter i s = Some s' -> fp s' <= C)
    /\ match iter m s with Some s' => H s' | None => True end.

Hypothesis loop : forall s, H s -> returns_within s.

Theorem loop_bound : forall n s s', H s -> iter n s = Some s' -> fp s' <= C.
Proof.
  induction n as [n IH] using lt_wf_ind. intros s s' Hs Hn.
  destruct (loop s Hs) as (m & Hm & Hfp & Hback).
  destruct (le_lt_dec n m) as [L|L].
  - eapply Hfp; eauto.
  - replace n with (m + (n - m))%nat in Hn by lia. rewrite iter_add in Hn.
    destruct (iter m s) as [s1|] eqn:E; [|discriminate].
    apply (IH (n - m)%nat) with (s := s1); auto. lia.
Qed.

End LoopBound.

(* An instance over vm/Stack.v (shows the hypotheses of loop_bound are satisfiable by a real piece of
   the model): a loop whose body pushes a value and pops it again, on any well-formed stack with or
   without pending forks, runs in the space it starts with. *)
Section PushPopLoop.
Variable A : Type.
Variable v : A.

Definition pp_step (c : bool * stack A) : option (bool * stack A) :=
  let (phase, s) := c in
  if phase then match pop s with Some (_, s') => Some (false, s') | None => None end
  else Some (true, push v s).

Definition pp_head (C : Z) (c : bool * stack A) : Prop :=
  fst c = false /\ WF A (snd c) /\ len (data (snd c)) <= C /\ hi (snd c) + 1 <= C.

Lemma pp_returns : forall C c, pp_head C c ->
  returns_within (bool * stack A) pp_step (fun c => len (data (snd c))) (pp_head C) 2 C c.
Proof.
  intros C (phase, s) (Hph & Hwf & Hlen & Hhi). simpl in Hph, Hwf, Hlen, Hhi. subst phase.
  exists 2%nat. split; [lia|].
  pose proof (push_WF A v s Hwf) as Hwf1.
  pose proof (push_len A v s Hwf) as Hlen1.
  pose proof (pop_spec A (push v s) Hwf1) as P.
  assert (Hg : get (data (push v s)) (index (push v s)) = Some (mkBlock v (index s))) by (apply push_data_at; auto).
  assert (Hpop : pop (push v s) = Some (v, mkStack (data (push v s)) (index s) (limit (push v s)))).
  { unfold pop. rewrite Hg. reflexivity. }
  rewrite Hpop in P. destruct P as (_ & _ & _ & Hwf2 & _).
  split.
  - intros i s' Hi Hit. destruct i as [|[|[|i]]]; try lia; cbn [iter pp_step] in Hit.
    + injection Hit as <-. cbn [snd]. lia.
    + injection Hit as <-. cbn [snd]. lia.
    + rewrite Hpop in Hit. injection Hit as <-. change (len (data (push v s)) <= C). lia.
  - cbn [iter pp_step]. rewrite Hpop. unfold pp_head; cbn [fst snd]. split; [reflexivity|]. split; [exact Hwf2|].
    split; [change (len (data (push v s)) <= C); lia|].
    change (Z.max (index s) (limit s) + 1 + 1 <= C). exact Hhi.
Qed.

Theorem push_pop_loop_bounded : forall C c n c', pp_head C c ->
  iter (bool * stack A) pp_step n c = Some c' -> len (data (snd c')) <= C.
Proof.
  intros C c n c' Hh Hit.
  exact (loop_bound (bool * stack A) pp_step (fun c => len (data (snd c))) (pp_head C) 2 C
                    (pp_returns C) n c c' Hh Hit).
Qed.

End PushPopLoop.
