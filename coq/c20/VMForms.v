(* C20: the loop forms that lie inside the concrete VM model coq/c01vm, as c01vm [query] terms.
   Definitions only; the bounds are computed (certify) in props/C20.v and by the check. *)
From Coq Require Import List NArith ZArith Bool.
From Verif Require Import c01vm.Syntax c01vm.Code c01vm.Compile c20.AbsVM.
Import ListNotations.

Definition x : vname := 0%N.
Definition y : vname := 1%N.
Definition out : lname := 0%N.
Definition num (z : Z) : query := QConst (VNum z).
Definition inc : query := QBinop OAdd AId (AConst (VNum 1)).            (* . + 1 *)
Definition gt3 : query := QBinop OGt AId (AConst (VNum 3)).             (* . > 3 *)
Definition key_a : jv := VStr [97%N].

(* reduce .[] as $x (0; . + 1) *)
Definition f_reduce : query := QReduce (QIter QId) x (num 0) inc.
(* reduce .[] as $x (null; $x) *)
Definition f_reduce_last : query := QReduce (QIter QId) x (QConst VNull) (QVar x).
(* foreach .[] as $x (0; . + 1) *)
Definition f_foreach : query := QForeach (QIter QId) x (num 0) inc None.
(* foreach .[] as $x (0; . + 1; [$x, .]) *)
Definition f_foreach3 : query := QForeach (QIter QId) x (num 0) inc (Some (QArray (QComma (QVar x) QId))).
(* [.[] | . + 1] *)
Definition f_map : query := QArray (QPipe (QIter QId) inc).
(* .[] | (., 1) *)
Definition f_iter_comma : query := QPipe (QIter QId) (QComma QId (num 1)).
(* .[] | if . then 1 else . end *)
Definition f_iter_if : query := QPipe (QIter QId) (QIf QId (num 1) QId).
(* .[] | if . > 3 then empty elif . then ., 1 else 2 end *)
Definition f_iter_elif : query :=
  QPipe (QIter QId) (QIf gt3 QEmpty (QIf QId (QComma QId (num 1)) (num 2))).
(* label $out | .[] | if . > 3 then break $out else . end *)
Definition f_label_break : query := QLabel out (QPipe (QIter QId) (QIf gt3 (QBreak out) QId)).
(* label $out | foreach .[] as $x (0; . + 1; if . > 3 then ., break $out else . end)    -- the shape of limit *)
Definition f_limit_shape : query :=
  QLabel out (QForeach (QIter QId) x (num 0) inc (Some (QIf gt3 (QComma QId (QBreak out)) QId))).
(* label $out | .[] | ., break $out                                                      -- the shape of first *)
Definition f_first_shape : query := QLabel out (QPipe (QIter QId) (QComma QId (QBreak out))).
(* label $out | (.[] | false, break $out), true                                          -- the shape of isempty *)
Definition f_isempty_shape : query :=
  QLabel out (QComma (QPipe (QIter QId) (QComma (QConst (VBool false)) (QBreak out))) (QConst (VBool true))).
(* [.[] | .[]] *)
Definition f_nested : query := QArray (QPipe (QIter QId) (QIter QId)).
(* reduce .[] as $x (0; reduce $x[] as $y (.; . + 1)) *)
Definition f_reduce_nested : query :=
  QReduce (QIter QId) x (num 0) (QReduce (QIter (QVar x)) y QId inc).
(* .[] as $x | $x *)
Definition f_bind : query := QBind (QIter QId) x (QVar x).
(* [.[] | try error catch .] *)
Definition f_try : query := QArray (QPipe (QIter QId) (QTry (QCall0 F0Error) (Some QId))).
(* [.[] | .a // 0] *)
Definition f_alt : query := QArray (QPipe (QIter QId) (QAlt (QIndex QId key_a) (num 0))).
(* [.[] | (.a)?] *)
Definition f_opt : query := QArray (QPipe (QIter QId) (QTry (QIndex QId key_a) None)).
(* reduce .[] as $x (0; if $x then . + 1 else . end)   -- select-like body *)
Definition f_reduce_if : query := QReduce (QIter QId) x (num 0) (QIf (QVar x) inc QId).
(* foreach .[] as $x (0; . + 1; select(. > 3)) = if . > 3 then . else empty end *)
Definition f_foreach_select : query :=
  QForeach (QIter QId) x (num 0) inc (Some (QIf gt3 QId QEmpty)).

Definition all_forms : list query :=
  [f_reduce; f_reduce_last; f_foreach; f_foreach3; f_map; f_iter_comma; f_iter_if; f_iter_elif; f_label_break;
   f_limit_shape; f_first_shape; f_isempty_shape; f_nested; f_reduce_nested; f_bind; f_try; f_alt; f_opt;
   f_reduce_if; f_foreach_select].

Definition cert_fuel : nat := 4000.
Definition cert_of (q : query) : option nat :=
  match compile q with Some c => certify c cert_fuel | None => None end.
