(* C20: the bound of every form of c20/VMForms.v, by computation of the certificate. *)
From Coq Require Import List Arith Bool.
From Verif Require Import c01vm.Syntax c01vm.Code c01vm.VM c01vm.Compile c20.AbsVM c20.AbsVMProofs c20.FramesProofs c20.VMForms.
Import ListNotations.
Local Open Scope nat_scope.

(* "the actual compiled code of q runs in footprint <= C": for every instance of the natives, every
   input value, after any number of machine steps (Next calls included) *)
Definition bounded_by (q : query) (C : nat) : Prop :=
  exists code, compile q = Some code /\
    forall nt v n s, iter state (vstep nt code) n (init v) = Some s -> fp s <= C.

Lemma cert_of_sound : forall q C, cert_of q = Some C -> bounded_by q C.
Proof.
  unfold cert_of, bounded_by. intros q C H. destruct (compile q) as [code|]; [|discriminate].
  exists code. split; [reflexivity|]. intros. eapply certify_sound; eauto.
Qed.

Definition forms_table : list (query * nat) :=
  [ (f_reduce, 16); (f_reduce_last, 12); (f_foreach, 13); (f_foreach3, 19); (f_map, 14); (f_iter_comma, 8);
    (f_iter_if, 6); (f_iter_elif, 10); (f_label_break, 16); (f_limit_shape, 22); (f_first_shape, 14);
    (f_isempty_shape, 17); (f_nested, 13); (f_reduce_nested, 26); (f_bind, 9); (f_try, 16); (f_alt, 16);
    (f_opt, 16); (f_reduce_if, 16); (f_foreach_select, 16) ].

Theorem vm_forms_bounded : Forall (fun qc => bounded_by (fst qc) (snd qc)) forms_table.
Proof. unfold forms_table. repeat constructor; apply cert_of_sound; vm_compute; reflexivity. Qed.

Theorem vm_reduce_bounded : bounded_by f_reduce 16.
Proof. apply cert_of_sound. vm_compute. reflexivity. Qed.
Theorem vm_foreach_bounded : bounded_by f_foreach 13.
Proof. apply cert_of_sound. vm_compute. reflexivity. Qed.
Theorem vm_map_bounded : bounded_by f_map 14.
Proof. apply cert_of_sound. vm_compute. reflexivity. Qed.
Theorem vm_limit_shape_bounded : bounded_by f_limit_shape 22.
Proof. apply cert_of_sound. vm_compute. reflexivity. Qed.
