(* Soundness of the abstract interpreter c20/AbsVM.v w.r.t. the concrete VM coq/c01vm/VM.v, for EVERY
   instance of the natives and every code, and the resulting footprint bound. *)
From Coq Require Import List Arith Bool Lia ZArith.
From Verif Require Import c01vm.Syntax c01vm.Code c01vm.VM c20.AbsVM c20.FramesProofs.
Import ListNotations.
Local Open Scope nat_scope.

Lemma update_length : forall {A} (l : list A) k a l', update l k a = Some l' -> length l' = length l.
Proof.
  induction l; intros k x l' H; simpl in H; [discriminate|].
  destruct k; [inversion H; reflexivity|].
  destruct (update l k x) eqn:E; [|discriminate]. inversion H; subst. simpl. f_equal. eauto.
Qed.

(* the successor relation of the concrete machine: Next, or Emit (Next returned a value; the saved
   state is where the following Next call resumes) *)
Definition succ (nt : natives) (code : list instr) (s s' : state) : Prop :=
  step nt code s = Next s' \/ exists v, step nt code s = Emit v s'.

Ltac inv H := destruct H as [H|[? H]]; try discriminate; inversion H; subst; clear H.
Ltac mem_solve := cbn; unfold abs_mem, aset_depth, apushfork, abrk; cbn;
  repeat first [left; reflexivity | right]; try tauto.

Theorem abs_sound : forall nt code s s', succ nt code s s' -> In (abs s') (astep code (abs s)).
Proof.
  intros nt code s s' H. unfold succ in H. destruct s as [pc bt e m | e fk vs l].
  2: { destruct fk as [|f r]; simpl in H; [inv H|]. inv H. destruct f. cbn. left. reflexivity. }
  cbn [abs astep]. cbn [step] in H.
  destruct (nth_error code pc) as [i|] eqn:Hi; [|inv H; mem_solve].
  destruct m as [st sc fk vs lb].
  destruct i; cbn [stk scopes forks vars lbl set_stk set_vars pushfork brk] in H.
  - (* nop *) inv H. mem_solve.
  - (* push *) inv H. mem_solve.
  - (* pop *) destruct st; inv H. mem_solve.
  - (* dup *) destruct st; inv H. mem_solve.
  - (* const *) destruct st; inv H. mem_solve.
  - (* load *) destruct (index_of sc x); [|inv H]. destruct (nth_error vs n); inv H. mem_solve.
  - (* store *) destruct (index_of sc x); [|inv H]. destruct st; [inv H|].
    destruct (update vs n s) eqn:U; inv H. apply update_length in U. cbn. unfold abs_mem, aset_depth. cbn. rewrite U. left. reflexivity.
  - (* append *) destruct (index_of sc x); [|inv H]. destruct st as [|[v| |] st]; try (inv H; fail).
    destruct (nth_error vs n) as [[[| | | |a|]| |]|]; try (inv H; fail).
    destruct (update vs n (SV (VArr (a ++ [v])))) eqn:U; inv H. apply update_length in U.
    cbn. unfold abs_mem, aset_depth. cbn. rewrite U. left. reflexivity.
  - (* fork *) destruct bt; [destruct e; inv H; mem_solve|inv H; mem_solve].
  - (* forktrybegin *)
    destruct bt; [|inv H; mem_solve].
    destruct e as [[[v|s|n]|x]|]; try (inv H; mem_solve; fail).
    + destruct st; inv H. mem_solve.
    + destruct st; inv H. mem_solve.
  - (* forktryend *) destruct bt; [|inv H; mem_solve]. inv H. destruct e; mem_solve.
  - (* forklabel *)
    destruct bt.
    + destruct st as [|l0 st]; [inv H|].
      destruct e as [[[v|s|n]|x0]|]; destruct l0; try (inv H; mem_solve; fail).
      destruct (Nat.eqb n n0); inv H; mem_solve.
    + destruct (index_of sc x); [|inv H]. destruct (update vs n (SLbl lb)) eqn:U; inv H.
      apply update_length in U. cbn. unfold abs_mem, aset_depth, apushfork. cbn. rewrite U. left. reflexivity.
  - (* backtrack *) inv H. mem_solve.
  - (* jump *) inv H. mem_solve.
  - (* jumpifnot *) destruct st as [|v st]; [inv H|]. destruct v as [[|[|]| | | |]| |]; inv H; mem_solve.
  - (* index *) destruct bt; [inv H; mem_solve|]. destruct st as [|[v| |] st]; try (inv H; fail).
    destruct (n_index nt v k); inv H; mem_solve.
  - (* call *) destruct bt; [inv H; mem_solve|]. destruct f.
    + destruct st as [|[v| |] st]; try (inv H; fail). destruct (n_fn0 nt f v); inv H; mem_solve.
    + destruct st as [|[v| |] [|[a0| |] [|[a1| |] st]]]; try (inv H; fail).
      destruct (n_fn2 nt o v a0 a1); inv H; mem_solve.
    + destruct st as [|[v| |n] st]; inv H. mem_solve.
  - (* scope *) destruct sc; [|inv H]. destruct nargs; inv H.
    cbn. unfold abs_mem. cbn. rewrite app_length, repeat_length. left. reflexivity.
  - (* ret *) destruct bt; [inv H; mem_solve|]. destruct sc as [|[id rpc] [|f sc]]; try (inv H; fail).
    destruct st as [|[v| |] st]; inv H. mem_solve.
  - (* iter *)
    destruct e; [inv H; mem_solve|]. destruct st as [|top st]; [inv H|].
    destruct top as [v|xs|n].
    + destruct (n_iter nt v) as [[|x [|y r]]|x]; inv H; mem_solve.
    + destruct xs as [|x [|y r]]; inv H; mem_solve.
    + inv H.
  - (* expbegin *) inv H. mem_solve.
  - (* expend *) inv H. mem_solve.
Qed.

(* ---- closure -------------------------------------------------------------------------------- *)
Lemma memb_In : forall s l, memb s l = true -> In s l.
Proof.
  unfold memb. intros s l H. apply existsb_exists in H. destruct H as (y & Hy & E).
  destruct (astate_eq_dec s y); [subst; auto|discriminate].
Qed.

Lemma closed_step : forall code R a a', closed code R = true -> In a R -> In a' (astep code a) -> In a' R.
Proof.
  unfold closed. intros code R a a' H Ha Ha'. rewrite forallb_forall in H. specialize (H a Ha).
  rewrite forallb_forall in H. apply memb_In. apply H. exact Ha'.
Qed.

(* the machine as a partial step function for c20's [iter]/[loop_bound]: both Next and Emit go on
   (the consumer keeps calling Next); Halt and Stuck stop *)
Definition vstep (nt : natives) (code : list instr) (s : state) : option state :=
  match step nt code s with Next s' => Some s' | Emit _ s' => Some s' | _ => None end.

Lemma vstep_succ : forall nt code s s', vstep nt code s = Some s' -> succ nt code s s'.
Proof. unfold vstep, succ. intros. destruct (step nt code s); inversion H; subst; eauto. Qed.

Lemma afp_le_max : forall R a, In a R -> afp a <= max_afp R.
Proof. induction R; simpl; intros a0 H; [tauto|]. destruct H; [subst; lia|]. apply IHR in H. lia. Qed.

(* the invariant "abs s is in the closed set R" is a loop-head predicate that comes back after ONE
   step: the bound is the instance K = 1 of c20's loop_bound *)
Theorem closed_bound : forall nt code R, closed code R = true ->
  forall n s s', In (abs s) R -> iter state (vstep nt code) n s = Some s' -> (Z.of_nat (fp s') <= Z.of_nat (max_afp R))%Z.
Proof.
  intros nt code R Hc.
  apply (loop_bound state (vstep nt code) (fun s => Z.of_nat (fp s)) (fun s => In (abs s) R) 1 (Z.of_nat (max_afp R))).
  intros s Hs. exists 1. split; [lia|]. split.
  - intros i s' Hi Hit. destruct i as [|[|i]]; try lia; simpl in Hit.
    + inversion Hit; subst. apply inj_le. apply afp_le_max. exact Hs.
    + destruct (vstep nt code s) eqn:E; inversion Hit; subst. apply inj_le. apply afp_le_max.
      eapply closed_step; eauto. apply (abs_sound nt). apply vstep_succ. exact E.
  - simpl. destruct (vstep nt code s) eqn:E; [|exact I].
    eapply closed_step; eauto. apply (abs_sound nt). apply vstep_succ. exact E.
Qed.

Lemma abs_init : forall v, abs (init v) = ainit.
Proof. reflexivity. Qed.

(* a successful certificate bounds the footprint of every state the program can reach, for every
   instance of the natives, every input and any number of steps *)
Theorem certify_sound : forall code fuel C, certify code fuel = Some C ->
  forall nt v n s, iter state (vstep nt code) n (init v) = Some s -> fp s <= C.
Proof.
  unfold certify. intros code fuel C H nt v n s Hit.
  destruct (explore code fuel [ainit] []) as [R|]; [|discriminate].
  destruct (closed code R) eqn:Hc; [|discriminate]. destruct (memb ainit R) eqn:Hm; [|discriminate].
  inversion H; subst. apply Nat2Z.inj_le.
  eapply closed_bound; eauto. rewrite abs_init. apply memb_In. exact Hm.
Qed.
