(* C17 proofs, part 2: trimLastInvalidRune.
   - on any bytes it removes at most 3 trailing bytes and only looks at the last 3 (locality);
   - on a prefix of well-formed UTF-8 it removes exactly the cut character, nothing else. *)
From Coq Require Import List ZArith NArith Bool Lia.
From Verif Require Import c17.ErrPos c17.Spec c17.ScanProofs.
Import ListNotations.
Open Scope Z_scope.

(* ---- zipper form of the loop -------------------------------------------------------------------- *)
Fixpoint trim_z (n : nat) (rpre post : list N) : list N :=
  match n, rpre with
  | S n', b :: rp =>
      if (b <? 128)%N then rev rpre
      else if rune_start b then
        (if (fst (decode_rune (b :: post)) =? RuneError)%N then rev rp else rev rpre ++ post)
      else trim_z n' rp (b :: post)
  | _, _ => rev rpre ++ post
  end.

Lemma firstn_app_len : forall (a b : list N), firstn (length a) (a ++ b) = a.
Proof. induction a; cbn; intros; [reflexivity|now rewrite IHa]. Qed.
Lemma skipn_app_len : forall (a b : list N), skipn (length a) (a ++ b) = b.
Proof. induction a; cbn; intros; [reflexivity|now rewrite IHa]. Qed.

Lemma trim_loop_z : forall n m rpre post, (n + length post = 3)%nat -> (n < m)%nat ->
  trim_loop m (rev rpre ++ post) (zlen rpre - 1) = trim_z n rpre post.
Proof.
  induction n as [|n IH]; intros m rpre post Hn Hm; (destruct m as [|m]; [lia|]); cbn [trim_loop].
  - replace (zlen (rev rpre ++ post) - 4 <? zlen rpre - 1) with false.
    + rewrite andb_false_r. destruct rpre; reflexivity.
    + symmetry. apply Z.ltb_ge. rewrite zlen_app. unfold zlen. rewrite rev_length. lia.
  - destruct rpre as [|b rp].
    + cbn. reflexivity.
    + rewrite zlen_cons. replace (zlen rp + 1 - 1) with (zlen rp) by lia.
      replace ((0 <=? zlen rp) && (zlen (rev (b :: rp) ++ post) - 4 <? zlen rp)) with true.
      2:{ symmetry. apply andb_true_iff. split; [apply Z.leb_le; apply zlen_nonneg|].
          apply Z.ltb_lt. rewrite zlen_app. unfold zlen. rewrite rev_length. cbn [length]. lia. }
      cbn [rev]. rewrite <- app_assoc. cbn [app].
      assert (L : Z.to_nat (zlen rp) = length (rev rp)) by (unfold zlen; rewrite rev_length; lia).
      unfold zidx, ztake, zdrop. rewrite L, nth_middle.
      replace (Z.to_nat (zlen rp + 1)) with (length (rev rp ++ [b])) by (rewrite app_length; cbn; lia).
      cbn [trim_z].
      destruct (b <? 128)%N.
      * change (rev rp ++ b :: post) with (rev rp ++ [b] ++ post). rewrite app_assoc, firstn_app_len.
        reflexivity.
      * destruct (rune_start b).
        -- rewrite skipn_app_len, firstn_app_len. cbn [rev]. rewrite <- app_assoc. reflexivity.
        -- replace (zlen rp - 1) with (zlen rp - 1) by lia.
           apply (IH m rp (b :: post)); cbn [length]; lia.
Qed.

Lemma trim_is_z : forall s, trimLastInvalidRune s = trim_z 3 (rev s) [].
Proof.
  intros s. unfold trimLastInvalidRune.
  replace s with (rev (rev s) ++ []) at 1 by (rewrite app_nil_r; apply rev_involutive).
  replace (zlen s) with (zlen (rev s)) by (unfold zlen; now rewrite rev_length).
  apply trim_loop_z; cbn; lia.
Qed.

(* ---- any bytes: a prefix, at most 3 bytes shorter ------------------------------------------------ *)
Lemma trim_z_split : forall n rpre post,
  exists t2, rev rpre ++ post = trim_z n rpre post ++ t2 /\ (length t2 <= length post + n)%nat.
Proof.
  induction n as [|n IH]; intros rpre post.
  - exists []. cbn. destruct rpre; rewrite app_nil_r; split; try reflexivity; lia.
  - destruct rpre as [|b rp].
    + exists []. cbn. rewrite app_nil_r. split; [reflexivity|lia].
    + cbn [trim_z]. destruct (b <? 128)%N.
      * exists post. split; [reflexivity|lia].
      * destruct (rune_start b).
        -- destruct (fst (decode_rune (b :: post)) =? RuneError)%N.
           ++ exists (b :: post). cbn [rev]. rewrite <- app_assoc. split; [reflexivity|cbn; lia].
           ++ exists []. rewrite app_nil_r. split; [reflexivity|cbn; lia].
        -- destruct (IH rp (b :: post)) as (t2 & E & L). exists t2.
           cbn [rev]. rewrite <- app_assoc. cbn [app]. split; [exact E|cbn [length] in L; lia].
Qed.

Lemma trim_split : forall s, exists t2, s = trimLastInvalidRune s ++ t2 /\ (length t2 <= 3)%nat.
Proof.
  intros s. rewrite trim_is_z. destruct (trim_z_split 3 (rev s) []) as (t2 & E & L).
  exists t2. rewrite app_nil_r, rev_involutive in E. split; [exact E|cbn in L; lia].
Qed.

(* locality: only the last 3 bytes matter *)
Lemma trim_z_extra : forall n rpre post extra, (n <= length rpre)%nat ->
  trim_z n (rpre ++ extra) post = rev extra ++ trim_z n rpre post.
Proof.
  induction n as [|n IH]; intros rpre post extra H.
  - cbn. destruct (rpre ++ extra) eqn:E; destruct rpre eqn:E'; rewrite <- ?E, <- ?E';
      rewrite ?rev_app_distr, <- ?app_assoc; reflexivity.
  - destruct rpre as [|b rp]; [cbn in H; lia|]. cbn [app trim_z]. cbn [length] in H.
    destruct (b <? 128)%N; [cbn [rev]; now rewrite rev_app_distr, <- app_assoc|].
    destruct (rune_start b).
    + destruct (fst (decode_rune (b :: post)) =? RuneError)%N.
      * apply rev_app_distr.
      * cbn [rev]. now rewrite rev_app_distr, <- !app_assoc.
    + apply IH. lia.
Qed.

Lemma trim_local : forall x y, (3 <= length y)%nat ->
  trimLastInvalidRune (x ++ y) = x ++ trimLastInvalidRune y.
Proof.
  intros x y H. rewrite !trim_is_z, rev_app_distr, trim_z_extra by (rewrite rev_length; lia).
  now rewrite rev_involutive.
Qed.

(* ---- byte classes, by enumeration ---------------------------------------------------------------- *)
Definition rng (lo hi : N) : list N :=
  map (fun i => (lo + N.of_nat i)%N) (seq 0 (N.to_nat (hi - lo + 1))).
Lemma rng_In : forall lo hi b, in_rng lo hi b = true -> In b (rng lo hi).
Proof.
  intros lo hi b H. unfold in_rng in H. apply andb_true_iff in H. destruct H as [A B].
  apply N.leb_le in A, B. unfold rng. apply in_map_iff. exists (N.to_nat (b - lo)). split; [lia|].
  apply in_seq. lia.
Qed.

Definition isErr (s : list N) : bool := (fst (decode_rune s) =? RuneError)%N.

Lemma lead_class : forall a, in_rng 194 244 a = true ->
  (a <? 128)%N = false /\ rune_start a = true /\ isErr [a] = true.
Proof.
  intros a H. apply rng_In in H. revert a H. apply Forall_forall.
  apply forallb_forall' with (f := fun a => negb (a <? 128)%N && rune_start a && isErr [a]).
  - intros a Ha. apply andb_true_iff in Ha. destruct Ha as [Ha C]. apply andb_true_iff in Ha.
    destruct Ha as [A B]. apply negb_true_iff in A. auto.
  - vm_compute. reflexivity.
Qed.
