(* C17 proofs, part 2: trimLastInvalidRune.
   - on any bytes it removes at most 3 trailing bytes and only looks at the last 3 (locality);
   - on a prefix of well-formed UTF-8 it removes exactly the cut character, nothing else. *)
From Coq Require Import List ZArith NArith Bool Lia.
From Verif Require Import c17.ErrPos c17.Spec c17.ScanProofs.
Import ListNotations.
Open Scope Z_scope.

(* ---- zipper form of the loop -------------------------------------------------------------------- *)
Fixpoint trim_z (n : nat) (rpre post : list N) : list N :=
  match n, rpre with
  | S n', b :: rp =>
      if (b <? 128)%N then rev rpre
      else if rune_start b then
        (if (fst (decode_rune (b :: post)) =? RuneError)%N then rev rp else rev rpre ++ post)
      else trim_z n' rp (b :: post)
  | _, _ => rev rpre ++ post
  end.

Lemma firstn_app_len : forall (a b : list N), firstn (length a) (a ++ b) = a.
Proof. induction a; cbn; intros; [reflexivity|now rewrite IHa]. Qed.
Lemma skipn_app_len : forall (a b : list N), skipn (length a) (a ++ b) = b.
Proof. induction a; cbn; intros; [reflexivity|now rewrite IHa]. Qed.

Lemma trim_loop_z : forall n m rpre post, (n + length post = 3)%nat -> (n < m)%nat ->
  trim_loop m (rev rpre ++ post) (zlen rpre - 1) = trim_z n rpre post.
Proof.
  induction n as [|n IH]; intros m rpre post Hn Hm; (destruct m as [|m]; [lia|]); cbn [trim_loop].
  - replace (zlen (rev rpre ++ post) - 4 <? zlen rpre - 1) with false.
    + rewrite andb_false_r. destruct rpre; reflexivity.
    + symmetry. apply Z.ltb_ge. rewrite zlen_app. unfold zlen. rewrite rev_length. lia.
  - destruct rpre as [|b rp].
    + cbn. reflexivity.
    + rewrite zlen_cons. replace (zlen rp + 1 - 1) with (zlen rp) by lia.
      replace ((0 <=? zlen rp) && (zlen (rev (b :: rp) ++ post) - 4 <? zlen rp)) with true.
      2:{ symmetry. apply andb_true_iff. split; [apply Z.leb_le; apply zlen_nonneg|].
          apply Z.ltb_lt. rewrite zlen_app. unfold zlen. rewrite rev_length. cbn [length]. lia. }
      cbn [rev]. rewrite <- app_assoc. cbn [app].
      assert (L : Z.to_nat (zlen rp) = length (rev rp)) by (unfold zlen; rewrite rev_length; lia).
      unfold zidx, ztake, zdrop. rewrite L, nth_middle.
      replace (Z.to_nat (zlen rp + 1)) with (length (rev rp ++ [b])) by (unfold zlen; rewrite app_length, rev_length; cbn [length]; lia).
      cbn [trim_z].
      destruct (b <? 128)%N.
      * change (rev rp ++ b :: post) with (rev rp ++ [b] ++ post). rewrite app_assoc, firstn_app_len.
        reflexivity.
      * destruct (rune_start b).
        -- rewrite skipn_app_len, firstn_app_len. cbn [rev]. rewrite <- app_assoc. reflexivity.
        -- replace (zlen rp - 1) with (zlen rp - 1) by lia.
           apply (IH m rp (b :: post)); cbn [length]; lia.
Qed.

Lemma trim_is_z : forall s, trimLastInvalidRune s = trim_z 3 (rev s) [].
Proof.
  intros s. unfold trimLastInvalidRune.
  replace s with (rev (rev s) ++ []) at 1 by (rewrite app_nil_r; apply rev_involutive).
  replace (zlen s) with (zlen (rev s)) by (unfold zlen; now rewrite rev_length).
  apply trim_loop_z; cbn; lia.
Qed.

(* ---- any bytes: a prefix, at most 3 bytes shorter ------------------------------------------------ *)
Lemma trim_z_split : forall n rpre post,
  exists t2, rev rpre ++ post = trim_z n rpre post ++ t2 /\ (length t2 <= length post + n)%nat.
Proof.
  induction n as [|n IH]; intros rpre post.
  - exists []. cbn. destruct rpre; rewrite app_nil_r; split; try reflexivity; lia.
  - destruct rpre as [|b rp].
    + exists []. cbn. rewrite app_nil_r. split; [reflexivity|lia].
    + cbn [trim_z]. destruct (b <? 128)%N.
      * exists post. split; [reflexivity|lia].
      * destruct (rune_start b).
        -- destruct (fst (decode_rune (b :: post)) =? RuneError)%N.
           ++ exists (b :: post). cbn [rev]. rewrite <- app_assoc. split; [reflexivity|cbn; lia].
           ++ exists []. rewrite app_nil_r. split; [reflexivity|cbn; lia].
        -- destruct (IH rp (b :: post)) as (t2 & E & L). exists t2.
           cbn [rev]. rewrite <- app_assoc. cbn [app]. split; [exact E|cbn [length] in L; lia].
Qed.

Lemma trim_split : forall s, exists t2, s = trimLastInvalidRune s ++ t2 /\ (length t2 <= 3)%nat.
Proof.
  intros s. rewrite trim_is_z. destruct (trim_z_split 3 (rev s) []) as (t2 & E & L).
  exists t2. rewrite app_nil_r, rev_involutive in E. split; [exact E|cbn in L; lia].
Qed.

(* locality: only the last 3 bytes matter *)
Lemma trim_z_0 : forall r p, trim_z 0 r p = rev r ++ p.
Proof. destruct r; reflexivity. Qed.

Lemma trim_z_extra : forall n rpre post extra, (n <= length rpre)%nat ->
  trim_z n (rpre ++ extra) post = rev extra ++ trim_z n rpre post.
Proof.
  induction n as [|n IH]; intros rpre post extra H.
  - rewrite !trim_z_0, rev_app_distr, <- app_assoc. reflexivity.
  - destruct rpre as [|b rp]; [cbn in H; lia|]. cbn [app trim_z]. cbn [length] in H.
    destruct (b <? 128)%N; [cbn [rev]; now rewrite rev_app_distr, <- app_assoc|].
    destruct (rune_start b).
    + destruct (fst (decode_rune (b :: post)) =? RuneError)%N.
      * apply rev_app_distr.
      * cbn [rev]. now rewrite rev_app_distr, <- !app_assoc.
    + apply IH. lia.
Qed.

Lemma trim_local : forall x y, (3 <= length y)%nat ->
  trimLastInvalidRune (x ++ y) = x ++ trimLastInvalidRune y.
Proof.
  intros x y H. rewrite !trim_is_z, rev_app_distr, trim_z_extra by (rewrite rev_length; lia).
  now rewrite rev_involutive.
Qed.

(* ---- byte classes, by enumeration ---------------------------------------------------------------- *)
Definition rng (lo hi : N) : list N :=
  map (fun i => (lo + N.of_nat i)%N) (seq 0 (N.to_nat (hi - lo + 1))).
Lemma rng_In : forall lo hi b, in_rng lo hi b = true -> In b (rng lo hi).
Proof.
  intros lo hi b H. unfold in_rng in H. apply andb_true_iff in H. destruct H as [A B].
  apply N.leb_le in A, B. unfold rng. apply in_map_iff. exists (N.to_nat (b - lo)). split; [lia|].
  apply in_seq. lia.
Qed.

Definition isErr (s : list N) : bool := (fst (decode_rune s) =? RuneError)%N.

Lemma lead_class : forall a, in_rng 194 244 a = true ->
  (a <? 128)%N = false /\ rune_start a = true /\ isErr [a] = true.
Proof.
  intros a H. apply rng_In in H.
  assert (F : forallb (fun a => negb (a <? 128)%N && rune_start a && isErr [a]) (rng 194 244) = true)
    by (vm_compute; reflexivity).
  rewrite forallb_forall in F. specialize (F a H).
  apply andb_true_iff in F. destruct F as [F C]. apply andb_true_iff in F. destruct F as [A B].
  apply negb_true_iff in A. auto.
Qed.

Lemma cont_class : forall b, contb b = true -> (b <? 128)%N = false /\ rune_start b = false.
Proof.
  intros b H. split.
  - unfold contb, in_rng in H. apply andb_true_iff in H. destruct H as [A _]. apply N.leb_le in A.
    apply N.ltb_ge. lia.
  - unfold rune_start, is_cont. unfold contb, in_rng in H. now rewrite H.
Qed.

Lemma dec2_ok : forall a b, in_rng 194 223 a = true -> contb b = true -> isErr [a; b] = false.
Proof.
  intros a b Ha Hb. apply rng_In in Ha. apply rng_In in Hb.
  assert (F : forallb (fun a => forallb (fun b => negb (isErr [a; b])) (rng 128 191)) (rng 194 223) = true)
    by (vm_compute; reflexivity).
  rewrite forallb_forall in F. specialize (F a Ha). rewrite forallb_forall in F. specialize (F b Hb).
  now apply negb_true_iff in F.
Qed.

Lemma dec3_ok : forall a b c, in_rng 224 239 a = true -> contb b = true -> contb c = true ->
  ok3 a b c = true -> isErr [a; b; c] = false.
Proof.
  intros a b c Ha Hb Hc Hk. apply rng_In in Ha. apply rng_In in Hb. apply rng_In in Hc.
  assert (F : forallb (fun a => forallb (fun b => forallb (fun c =>
                implb (ok3 a b c) (negb (isErr [a; b; c]))) (rng 128 191)) (rng 128 191)) (rng 224 239) = true)
    by (vm_compute; reflexivity).
  rewrite forallb_forall in F. specialize (F a Ha). rewrite forallb_forall in F. specialize (F b Hb).
  rewrite forallb_forall in F. specialize (F c Hc). rewrite Hk in F. cbn in F.
  now apply negb_true_iff in F.
Qed.

Lemma part2_err : forall a b, in_rng 224 244 a = true -> contb b = true -> isErr [a; b] = true.
Proof.
  intros a b Ha Hb. apply rng_In in Ha. apply rng_In in Hb.
  assert (F : forallb (fun a => forallb (fun b => isErr [a; b]) (rng 128 191)) (rng 224 244) = true)
    by (vm_compute; reflexivity).
  rewrite forallb_forall in F. specialize (F a Ha). rewrite forallb_forall in F. exact (F b Hb).
Qed.

Lemma part3_err : forall a b c, in_rng 240 244 a = true -> contb b = true -> contb c = true ->
  isErr [a; b; c] = true.
Proof.
  intros a b c Ha Hb Hc. apply rng_In in Ha. apply rng_In in Hb. apply rng_In in Hc.
  assert (F : forallb (fun a => forallb (fun b => forallb (fun c => isErr [a; b; c])
                (rng 128 191)) (rng 128 191)) (rng 240 244) = true)
    by (vm_compute; reflexivity).
  rewrite forallb_forall in F. specialize (F a Ha). rewrite forallb_forall in F. specialize (F b Hb).
  rewrite forallb_forall in F. exact (F c Hc).
Qed.

Lemma rng_widen : forall lo hi lo' hi' b, (lo' <= lo)%N -> (hi <= hi')%N ->
  in_rng lo hi b = true -> in_rng lo' hi' b = true.
Proof.
  unfold in_rng. intros. apply andb_true_iff in H1. destruct H1 as [A B].
  apply N.leb_le in A, B. apply andb_true_iff. split; apply N.leb_le; lia.
Qed.

(* ---- shapes of a well-formed encoding ------------------------------------------------------------ *)
Inductive enc_shape : list N -> Prop :=
| sh1 : forall a, (a <? 128)%N = true -> enc_shape [a]
| sh2 : forall a b, in_rng 194 223 a = true -> contb b = true -> enc_shape [a; b]
| sh3 : forall a b c, in_rng 224 239 a = true -> contb b = true -> contb c = true -> ok3 a b c = true ->
        enc_shape [a; b; c]
| sh4 : forall a b c d, in_rng 240 244 a = true -> contb b = true -> contb c = true -> contb d = true ->
        enc_shape [a; b; c; d].

Lemma wf_enc_shape : forall e, wf_enc e = true -> enc_shape e.
Proof.
  intros e H. destruct e as [|a [|b [|c [|d [|x t]]]]]; cbn [wf_enc] in H; try discriminate.
  - now constructor.
  - apply andb_true_iff in H. destruct H. now constructor.
  - apply andb_true_iff in H. destruct H as [H K]. apply andb_true_iff in H. destruct H as [H C].
    apply andb_true_iff in H. destruct H as [A B]. now constructor.
  - apply andb_true_iff in H. destruct H as [H K]. apply andb_true_iff in H. destruct H as [H D].
    apply andb_true_iff in H. destruct H as [H C]. apply andb_true_iff in H. destruct H as [A B].
    now constructor.
Qed.

Lemma wf_enc_nonempty : forall e, wf_enc e = true -> e <> [].
Proof. intros e H. destruct e; [discriminate|congruence]. Qed.

(* ---- utf8 closure properties ---------------------------------------------------------------------- *)
Lemma utf8_app2 : forall a b, utf8 a -> utf8 b -> utf8 (a ++ b).
Proof. intros a b Ha Hb. induction Ha; [exact Hb|]. rewrite <- app_assoc. now constructor. Qed.
Lemma utf8_one : forall e, wf_enc e = true -> utf8 e.
Proof. intros. rewrite <- (app_nil_r e). constructor; [assumption|constructor]. Qed.

Lemma utf8_snoc : forall s, utf8 s -> s = [] \/ exists w e, s = w ++ e /\ utf8 w /\ wf_enc e = true.
Proof.
  intros s H. induction H as [|e s He Hs IH]; [now left|]. right.
  destruct IH as [->|(w & e' & -> & Hw & He')].
  - exists [], e. rewrite app_nil_r. repeat split; [constructor|assumption].
  - exists (e ++ w), e'. rewrite app_assoc. repeat split; [|assumption].
    apply utf8_app2; [now apply utf8_one|assumption].
Qed.

(* ---- trim on well-formed text --------------------------------------------------------------------- *)
Lemma trim_utf8 : forall s, utf8 s -> trimLastInvalidRune s = s.
Proof.
  intros s H. destruct (utf8_snoc s H) as [->|(w & e & -> & Hw & He)]; [reflexivity|].
  rewrite trim_is_z, rev_app_distr. apply wf_enc_shape in He.
  destruct He as [a Ha|a b Ha Hb|a b c Ha Hb Hc Hk|a b c d Ha Hb Hc Hd]; cbn [rev app trim_z].
  - rewrite Ha. cbn [rev]. now rewrite rev_involutive.
  - destruct (cont_class b Hb) as [B1 B2]. rewrite B1, B2.
    destruct (lead_class a ltac:(eapply rng_widen; [ | | exact Ha]; lia)) as (A1 & A2 & _).
    rewrite A1, A2. pose proof (dec2_ok a b Ha Hb) as D. unfold isErr in D. rewrite D.
    cbn [rev]. rewrite rev_involutive, <- app_assoc. reflexivity.
  - destruct (cont_class b Hb) as [B1 B2]. destruct (cont_class c Hc) as [C1 C2]. rewrite C1, C2, B1, B2.
    destruct (lead_class a ltac:(eapply rng_widen; [ | | exact Ha]; lia)) as (A1 & A2 & _).
    rewrite A1, A2. pose proof (dec3_ok a b c Ha Hb Hc Hk) as D. unfold isErr in D. rewrite D.
    cbn [rev]. rewrite rev_involutive, <- app_assoc. reflexivity.
  - destruct (cont_class b Hb) as [B1 B2]. destruct (cont_class c Hc) as [C1 C2].
    destruct (cont_class d Hd) as [D1 D2]. rewrite D1, D2, C1, C2, B1, B2.
    cbn [rev]. rewrite rev_involutive, <- app_assoc. reflexivity.
Qed.

(* t is a cut character: a nonempty proper prefix of a well-formed encoding *)
Definition cut_enc (t : list N) : Prop :=
  t <> [] /\ exists t', t' <> [] /\ wf_enc (t ++ t') = true.

Lemma trim_cut : forall w t, cut_enc t -> trimLastInvalidRune (w ++ t) = w.
Proof.
  intros w t (Ht & t' & Ht' & He). rewrite trim_is_z, rev_app_distr. apply wf_enc_shape in He.
  remember (t ++ t') as e eqn:E. destruct He as [a Ha|a b Ha Hb|a b c Ha Hb Hc Hk|a b c d Ha Hb Hc Hd].
  - destruct t as [|x [|y t0]]; try congruence; cbn in E; inversion E; destruct t'; try congruence; discriminate.
  - destruct (lead_class a ltac:(eapply rng_widen; [ | | exact Ha]; lia)) as (A1 & A2 & A3).
    unfold isErr in A3.
    destruct t as [|x [|y t0]]; try congruence; cbn in E; inversion E; subst.
    + cbn [rev app trim_z]. rewrite A1, A2, A3. apply rev_involutive.
    + destruct t0; destruct t'; try congruence; discriminate.
  - destruct (lead_class a ltac:(eapply rng_widen; [ | | exact Ha]; lia)) as (A1 & A2 & A3).
    destruct (cont_class b Hb) as [B1 B2].
    pose proof (part2_err a b ltac:(eapply rng_widen; [ | | exact Ha]; lia) Hb) as P.
    unfold isErr in A3, P.
    destruct t as [|x [|y [|z t0]]]; try congruence; cbn in E; inversion E; subst.
    + cbn [rev app trim_z]. rewrite A1, A2, A3. apply rev_involutive.
    + cbn [rev app trim_z]. rewrite B1, B2, A1, A2, P. apply rev_involutive.
    + destruct t0; destruct t'; try congruence; discriminate.
  - destruct (lead_class a ltac:(eapply rng_widen; [ | | exact Ha]; lia)) as (A1 & A2 & A3).
    destruct (cont_class b Hb) as [B1 B2]. destruct (cont_class c Hc) as [C1 C2].
    pose proof (part2_err a b ltac:(eapply rng_widen; [ | | exact Ha]; lia) Hb) as P.
    pose proof (part3_err a b c Ha Hb Hc) as P3.
    unfold isErr in A3, P, P3.
    destruct t as [|x [|y [|z [|u t0]]]]; try congruence; cbn in E; inversion E; subst.
    + cbn [rev app trim_z]. rewrite A1, A2, A3. apply rev_involutive.
    + cbn [rev app trim_z]. rewrite B1, B2, A1, A2, P. apply rev_involutive.
    + cbn [rev app trim_z]. rewrite C1, C2, B1, B2, A1, A2, P3. apply rev_involutive.
    + destruct t0; destruct t'; try congruence; discriminate.
Qed.

Lemma wf_enc_len : forall e, wf_enc e = true -> (1 <= length e <= 4)%nat.
Proof. intros e H. apply wf_enc_shape in H. destruct H; cbn; lia. Qed.

(* ---- cutting well-formed text at byte n ------------------------------------------------------------ *)
Lemma utf8_cut : forall s, utf8 s -> forall n, (n <= length s)%nat ->
  exists w t rem, s = w ++ t ++ rem /\ (length w + length t = n)%nat /\ utf8 w /\ utf8 (t ++ rem) /\
    ((t = []) \/ (cut_enc t /\ exists t' rest, rem = t' ++ rest /\ t' <> [] /\ wf_enc (t ++ t') = true /\ utf8 rest)).
Proof.
  intros s H. induction H as [|e s He Hs IH]; intros n Hn.
  - assert (n = 0)%nat by (cbn [length] in Hn; lia). subst. exists [], [], [].
    split; [reflexivity|]. split; [reflexivity|]. split; [constructor|]. split; [constructor|]. now left.
  - rewrite app_length in Hn. destruct (Nat.le_gt_cases (length e) n) as [L|L].
    + destruct (IH (n - length e)%nat ltac:(lia)) as (w & t & rem & -> & Hl & Hw & Htr & Hc).
      exists (e ++ w), t, rem. rewrite <- app_assoc. repeat split; try assumption.
      * rewrite app_length. lia.
      * apply utf8_app2; [now apply utf8_one|assumption].
    + destruct n as [|n].
      * exists [], [], (e ++ s). split; [reflexivity|]. split; [reflexivity|]. split; [constructor|].
        split; [cbn [app]; now constructor|]. now left.
      * exists [], (firstn (S n) e), (skipn (S n) e ++ s).
        assert (E : e = firstn (S n) e ++ skipn (S n) e) by (symmetry; apply firstn_skipn).
        repeat split.
        -- cbn [app]. rewrite app_assoc, <- E. reflexivity.
        -- cbn [length]. rewrite firstn_length. lia.
        -- constructor.
        -- rewrite app_assoc, <- E. now constructor.
        -- right. assert (N1 : firstn (S n) e <> []).
           { destruct e; [cbn in L; lia|cbn; congruence]. }
           assert (N2 : skipn (S n) e <> []).
           { intro Z0. assert (length (skipn (S n) e) = 0%nat) by now rewrite Z0.
             rewrite skipn_length in H. lia. }
           split.
           ++ split; [exact N1|]. exists (skipn (S n) e). split; [exact N2|]. now rewrite <- E.
           ++ exists (skipn (S n) e), s. repeat split; try assumption. now rewrite <- E.
Qed.

(* the key fact used three times by getLineByOffset *)
Lemma trim_prefix_utf8 : forall s n, utf8 s -> (n <= length s)%nat ->
  exists w rem, s = w ++ rem /\ trimLastInvalidRune (firstn n s) = w /\ utf8 w /\ utf8 rem /\
    (length w <= n <= length w + 3)%nat /\
    (length w = n \/ exists e rest, rem = e ++ rest /\ wf_enc e = true /\ utf8 rest /\
                                    (length w < n < length w + length e)%nat).
Proof.
  intros s n H Hn. destruct (utf8_cut s H n Hn) as (w & t & rem & -> & Hl & Hw & Htr & Hc).
  exists w, (t ++ rem). split; [reflexivity|].
  assert (F : firstn n (w ++ t ++ rem) = w ++ t).
  { rewrite app_assoc. replace n with (length (w ++ t)) by (rewrite app_length; lia). apply firstn_app_len. }
  rewrite F. destruct Hc as [->|(Hc & t' & rest & -> & Nt' & He & Hr)].
  - rewrite app_nil_r. split; [now apply trim_utf8|]. cbn in Hl. repeat split; try assumption; try lia.
  - split; [now apply trim_cut|]. pose proof (wf_enc_len _ He) as Le. rewrite app_length in Le.
    assert (length t <> 0)%nat by (destruct Hc as [Hc _]; destruct t; [congruence|cbn; lia]).
    assert (length t' <> 0)%nat by (destruct t'; [congruence|cbn; lia]).
    repeat split; try assumption; try lia.
    right. exists (t ++ t'), rest. rewrite <- app_assoc. repeat split; try assumption; try lia.
    rewrite app_length. lia.
Qed.
