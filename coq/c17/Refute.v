(* C17: the window bookkeeping of cli/inputs.go does NOT meet the specification.
   Witnesses are the canonical cases of checks/c17.py (reproduced on the real command). *)
From Coq Require Import List ZArith NArith Bool Lia String.
From Verif Require Import common.Sexp c17.ErrPos c17.Spec c17.Window.
Import ListNotations.
Open Scope Z_scope.

Fixpoint rep_app (n : nat) (b tail : list N) : list N :=
  match n with O => tail | S n' => b ++ rep_app n' b tail end.

(* {"a":"xxxxxxxx…x"}\n : 100 bytes *)
Definition doc100 (term : N) : list N := codes "{""a"":""" ++ repeat 120%N 91 ++ codes """}" ++ [term].
Definition bad_doc (term : N) : list N := codes "{""b"": tru }" ++ [term].

(* 164 documents of 100 bytes, the faulty document, then 1 2 3 on their own lines *)
Definition d7_input : list N := rep_app 164 (doc100 10) (bad_doc 10 ++ codes "1" ++ [10%N] ++ codes "2" ++ [10%N] ++ codes "3" ++ [10%N]).
Definition d7_ends : list Z := map (fun i => 100 * Z.of_nat i) (seq 1 164).
(* the reads of encoding/json observed on this input with a reader that returns as much as asked *)
Definition d7_reads : list Z :=
  repeat 512 5 ++ repeat 2035 15 ++ repeat 3535 15 ++ repeat 5035 15 ++ repeat 6535 15 ++ repeat 8035 15
  ++ repeat 9535 15 ++ repeat 11035 15 ++ repeat 12535 15 ++ repeat 14035 15 ++ repeat 15535 15 ++ repeat 16418 9.
Definition d7_steps : list (Z * Z) := combine d7_reads d7_ends.     (* (bytes read, bytes consumed) *)
Definition d7_rerr : Z := 16418.
Definition d7_E : Z := 16410.     (* the space after "tru": byte index 16409 *)

Lemma d7_chunking : chunking_ok d7_input d7_steps d7_rerr d7_E.
Proof. vm_compute. reflexivity. Qed.

(* regression (D7): the arithmetic BEFORE the repair reports line 168 and an empty excerpt *)
Lemma d7_old_wrong : forall swidth,
  ~ pos_ok swidth d7_input (Z.to_nat (d7_E - 1))
      (report_of swidth (old_pipe_report d7_input d7_steps d7_rerr (Some d7_E))).
Proof.
  intros sw H.
  assert (R : report_of sw (old_pipe_report d7_input d7_steps d7_rerr (Some d7_E)) = ([], 168, sw [])).
  { vm_compute. reflexivity. }
  rewrite R in H. clear R. destruct H as [H _]. vm_compute in H. discriminate H.
Qed.

(* the current arithmetic on the same input and the same reads: line 165, the faulty line quoted *)
Lemma d7_now_right : forall swidth,
  report_of swidth (pipe_report d7_input d7_steps d7_rerr (Some d7_E)) =
  (codes "{""b"": tru }", 165, swidth (codes "{""b"": tru")).
Proof. intros sw. vm_compute. reflexivity. Qed.

(* 200 documents of 100 bytes terminated by a lone CR, then the faulty document *)
Definition cr_input : list N := rep_app 200 (doc100 13) (bad_doc 13).
Definition cr_E : Z := 20010.

Lemma cr_seek_wrong : forall swidth,
  ~ pos_ok swidth cr_input (Z.to_nat (cr_E - 1)) (report_of swidth (seek_report cr_input (Some cr_E))).
Proof.
  intros sw H.
  assert (L : snd (fst (report_of sw (seek_report cr_input (Some cr_E)))) = 42) by (vm_compute; reflexivity).
  destruct (report_of sw (seek_report cr_input (Some cr_E))) as [[ex line] col].
  cbn [fst snd] in L. subst line. destruct H as [H _]. vm_compute in H. discriminate H.
Qed.

(* the same input on the non-seekable path, every value delivered with everything already read *)
Definition cr_steps : list (Z * Z) := map (fun i => (20012, 100 * Z.of_nat i)) (seq 1 200).
Lemma cr_chunking : chunking_ok cr_input cr_steps 20012 cr_E.
Proof. vm_compute. reflexivity. Qed.
Lemma cr_pipe_wrong : forall swidth,
  ~ pos_ok swidth cr_input (Z.to_nat (cr_E - 1)) (report_of swidth (pipe_report cr_input cr_steps 20012 (Some cr_E))).
Proof.
  intros sw H.
  assert (L : snd (fst (report_of sw (pipe_report cr_input cr_steps 20012 (Some cr_E)))) = 164) by (vm_compute; reflexivity).
  destruct (report_of sw (pipe_report cr_input cr_steps 20012 (Some cr_E))) as [[ex line] col].
  cbn [fst snd] in L. subst line. destruct H as [H _]. vm_compute in H. discriminate H.
Qed.
