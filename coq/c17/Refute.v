(* C17: regression examples — earlier versions of the window bookkeeping of cli/inputs.go that do NOT meet the
   specification (D7: whole buffer dropped; cr-window: only LF counted in the dropped bytes), on the canonical
   cases of checks/c17.py, next to the current code on the same inputs. *)
From Coq Require Import List ZArith NArith Bool Lia String.
From Verif Require Import common.Sexp c17.ErrPos c17.Spec c17.Window.
Import ListNotations.
Open Scope Z_scope.

Fixpoint rep_app (n : nat) (b tail : list N) : list N :=
  match n with O => tail | S n' => b ++ rep_app n' b tail end.

(* {"a":"xxxxxxxx…x"}\n : 100 bytes *)
Definition doc100 (term : N) : list N := codes "{""a"":""" ++ repeat 120%N 91 ++ codes """}" ++ [term].
Definition bad_doc (term : N) : list N := codes "{""b"": tru }" ++ [term].

(* 164 documents of 100 bytes, the faulty document, then 1 2 3 on their own lines *)
Definition d7_input : list N := rep_app 164 (doc100 10) (bad_doc 10 ++ codes "1" ++ [10%N] ++ codes "2" ++ [10%N] ++ codes "3" ++ [10%N]).
Definition d7_ends : list Z := map (fun i => 100 * Z.of_nat i) (seq 1 164).
(* the reads of encoding/json observed on this input with a reader that returns as much as asked *)
Definition d7_reads : list Z :=
  repeat 512 5 ++ repeat 2035 15 ++ repeat 3535 15 ++ repeat 5035 15 ++ repeat 6535 15 ++ repeat 8035 15
  ++ repeat 9535 15 ++ repeat 11035 15 ++ repeat 12535 15 ++ repeat 14035 15 ++ repeat 15535 15 ++ repeat 16418 9.
Definition d7_steps : list (Z * Z) := combine d7_reads d7_ends.     (* (bytes read, bytes consumed) *)
Definition d7_rerr : Z := 16418.
Definition d7_E : Z := 16410.     (* the space after "tru": byte index 16409 *)

Lemma d7_chunking : chunking_ok d7_input d7_steps d7_rerr d7_E.
Proof. vm_compute. reflexivity. Qed.

(* regression (D7): the arithmetic BEFORE the repair reports line 168 and an empty excerpt *)
Lemma d7_old_wrong : forall swidth,
  ~ pos_ok swidth d7_input (Z.to_nat (d7_E - 1))
      (report_of swidth (old_pipe_report d7_input d7_steps d7_rerr (Some d7_E))).
Proof.
  intros sw H.
  assert (R : report_of sw (old_pipe_report d7_input d7_steps d7_rerr (Some d7_E)) = ([], 168, sw [])).
  { vm_compute. reflexivity. }
  rewrite R in H. clear R. destruct H as [H _]. vm_compute in H. discriminate H.
Qed.

(* the current arithmetic on the same input and the same reads: line 165, the faulty line quoted *)
Lemma d7_now_right : forall swidth,
  report_of swidth (pipe_report d7_input d7_steps d7_rerr (Some d7_E)) =
  (codes "{""b"": tru }", 165, swidth (codes "{""b"": tru")).
Proof. intros sw. vm_compute. reflexivity. Qed.

(* 200 documents of 100 bytes terminated by a lone CR, then the faulty document: finding "cr-window".
   The counting BEFORE the repair (crfix = false: bytes.Count(dropped, "\n")) reports line 42 resp. 164 instead of
   201; the current code (crfix = true) reports 201 — regression examples, the general statements are
   seek_window_correct / pipe_window_kept. *)
Definition cr_input : list N := rep_app 200 (doc100 13) (bad_doc 13).
Definition cr_E : Z := 20010.

Lemma cr_seek_old_wrong : forall swidth,
  ~ pos_ok swidth cr_input (Z.to_nat (cr_E - 1)) (report_of swidth (lf_seek_report cr_input (Some cr_E))).
Proof.
  intros sw H.
  assert (L : snd (fst (report_of sw (lf_seek_report cr_input (Some cr_E)))) = 42) by (vm_compute; reflexivity).
  destruct (report_of sw (lf_seek_report cr_input (Some cr_E))) as [[ex line] col].
  cbn [fst snd] in L. subst line. destruct H as [H _]. vm_compute in H. discriminate H.
Qed.

Lemma cr_seek_now_right : forall swidth,
  report_of swidth (seek_report cr_input (Some cr_E)) = (codes "{""b"": tru }", 201, swidth (codes "{""b"": tru")).
Proof. intros sw. vm_compute. reflexivity. Qed.

(* the same input on the non-seekable path, every value delivered with everything already read *)
Definition cr_steps : list (Z * Z) := map (fun i => (20012, 100 * Z.of_nat i)) (seq 1 200).
Lemma cr_chunking : chunking_ok cr_input cr_steps 20012 cr_E.
Proof. vm_compute. reflexivity. Qed.
Lemma cr_pipe_old_wrong : forall swidth,
  ~ pos_ok swidth cr_input (Z.to_nat (cr_E - 1)) (report_of swidth (lf_pipe_report cr_input cr_steps 20012 (Some cr_E))).
Proof.
  intros sw H.
  assert (L : snd (fst (report_of sw (lf_pipe_report cr_input cr_steps 20012 (Some cr_E)))) = 164) by (vm_compute; reflexivity).
  destruct (report_of sw (lf_pipe_report cr_input cr_steps 20012 (Some cr_E))) as [[ex line] col].
  cbn [fst snd] in L. subst line. destruct H as [H _]. vm_compute in H. discriminate H.
Qed.

Lemma cr_pipe_now_right : forall swidth,
  report_of swidth (pipe_report cr_input cr_steps 20012 (Some cr_E)) =
  (codes "{""b"": tru }", 201, swidth (codes "{""b"": tru")).
Proof. intros sw. vm_compute. reflexivity. Qed.

(* a CR LF pair exactly at the end of the first 16384-byte chunk of getContents (CR = byte 16383, LF = byte 16384),
   a lone CR and a CR CR LF later: the CR is kept in the window, the pair is counted once (by getLineByOffset) *)
Definition split_input : list N :=
  repeat 97%N 16383 ++ [13; 10]%N ++ repeat 98%N 3000 ++ [13]%N ++ repeat 99%N 2000 ++ [13; 13; 10]%N ++ codes "{""b"": tru }" ++ [10%N].
Definition split_E : Z := 16383 + 2 + 3000 + 1 + 2000 + 3 + 10.
Lemma split_seek_right : forall swidth,
  zidx split_input 16383 = 13%N /\ zidx split_input 16384 = 10%N /\
  report_of swidth (seek_report split_input (Some split_E)) = (codes "{""b"": tru }", 5, swidth (codes "{""b"": tru")) /\
  spec_line split_input (Z.to_nat (split_E - 1)) = 5.
Proof. intros sw. vm_compute. repeat split; reflexivity. Qed.
(* the same pair at the end of the consumed bytes on the non-seekable path: the decoder has consumed 16384 bytes
   (up to and including the CR) and read 17000 when the buffer is trimmed *)
Lemma split_pipe_right : forall swidth,
  chunking_ok split_input [(17000, 16384)] (zlen split_input) split_E /\
  p_start (pipe_run split_input [(17000, 16384)]) = 16383 /\
  report_of swidth (pipe_report split_input [(17000, 16384)] (zlen split_input) (Some split_E)) =
    (codes "{""b"": tru }", 5, swidth (codes "{""b"": tru")).
Proof. intros sw. vm_compute. repeat split; reflexivity. Qed.
