(* C17 correspondence: one harness line -> verdict ("ok" or (bad ...)).  See harness/c17/main.go.

   (lbo <hexstr> <offset> <hexlinestr> <line> <column> <wtab>)
        getLineByOffset called directly through the hook.
   (json <transport> <fname-hex> <input> <err> <chunks> <state> <stderr-hex> <rep> <wtab>)
        the command run on a JSON stream with one injected fault.
          transport: (seek [stream]) | (file) | (pipe <read policy> [stream]) | (whole)   stream = --stream;
                     whole = data module: contents is the whole file ("compile error: " stripped by the harness)
          input: (in (r <count> <hex>) ...)  (concatenation of repeated blocks)
          err: (syn <E> <Eraw>) | eof      E = 1-based offset of the offending byte (independent plain
               encoding/json decoder); Eraw = the offset encoding/json gave the command (differs from E
               only under --stream, where Token() does not report absolute offsets)
          chunks: (c (<r1> <p1>) ... (<rn> <pn>) <rerr>)  bytes read / consumed (dec.InputOffset) when the
                  i-th value was delivered, bytes read when the error was reported (pipe); (c) otherwise
          state: (st <i.offset> <i.line>) observed at the error (pipe); (st) otherwise
          rep: (rep <line or -> <hexexcerpt> <column>) parsed from stderr by the harness
   (query <fname-hex> <contents-hex> <perr> <stderr-hex> <rep> <wtab>)   perr: (pe <Offset> <len Token>) | none
   (yaml <transport> <fname-hex> <contents-read-hex> <index> <stderr-hex> <rep> <wtab>)
   wtab: (sw w0 ... wn), wi = go-runewidth StringWidth of the first i bytes of the excerpt the implementation printed.
   A line wrapped as (spec <line>) is judged against Spec (Oracle.v) instead of against the model; then
   the verdict of a violation is (bad <family> ...) where <family> names the model-side explanation
   (stream-offset, pipe-reset, cr-window, yaml-char-index) or "other". *)
From Coq Require Import List ZArith NArith Bool String.
From Verif Require Import common.Sexp c17.FastSexp c17.ErrPos c17.Spec c17.Oracle c17.Window c17.Yaml.
Import ListNotations.
Open Scope Z_scope.

(* ---- width oracle from the per-case table ----------------------------------------------------------
   (sw w0 w1 ... wn): wi = runewidth.StringWidth(x[:i]) for the excerpt x the implementation printed.
   The model and the oracle only ever need the width of a prefix of the excerpt; for any other string
   (then the excerpts differ anyway) the oracle answers a poison value. *)
Fixpoint prefixb (p s : list N) : bool :=
  match p, s with
  | [], _ => true
  | x :: p', y :: s' => (x =? y)%N && prefixb p' s'
  | _, [] => false
  end.
Definition swidth_of (tbl : list N * list Z) (s : list N) : Z :=
  let '(x, ws) := tbl in
  if prefixb s x then nth (List.length s) ws (-1000000) else -1000000.

Fixpoint dec_Zs (l : list sexp) : option (list Z) :=
  match l with
  | [] => Some []
  | Atom a :: t => match parse_Z a, dec_Zs t with Some z, Some r => Some (z :: r) | _, _ => None end
  | _ => None
  end.
Definition wtab_of (x : list N) (e : sexp) : list N * list Z :=
  match e with
  | SList (_ :: l) => match dec_Zs l with Some ws => (x, ws) | None => (x, []) end
  | _ => (x, [])
  end.

(* ---- input blocks --------------------------------------------------------------------------------- *)
Fixpoint repeat_app (n : nat) (b : list N) (tail : list N) : list N :=
  match n with O => tail | S n' => b ++ repeat_app n' b tail end.
Fixpoint dec_input (l : list sexp) : option (list N) :=
  match l with
  | [] => Some []
  | SList [_; Atom n; Atom h] :: t =>
      match parse_N n, parse_hexs_fast h, dec_input t with
      | Some n, Some b, Some rest => Some (repeat_app (N.to_nat n) b rest)
      | _, _, _ => None
      end
  | _ => None
  end.
Definition input_of (e : sexp) : option (list N) :=
  match e with SList (_ :: l) => dec_input l | _ => None end.

Definition hexa (l : list N) : sexp := Atom (print_hexs l).
Definition bad (l : list sexp) : sexp := SList (A "bad" :: l).
Definition zat (z : Z) : sexp := Atom (print_Z z).

(* ---- lbo ------------------------------------------------------------------------------------------ *)
Definition run_lbo (spec : bool) (str : list N) (off : Z) (ls : list N) (line col : Z) (tbl : list N * list Z) : sexp :=
  let sw := swidth_of tbl in
  if spec then
    let okb :=
      if off <=? 1 then
        (* offsets <= 1 are reported like the first byte (theorem glbo_low); nothing to point at if empty *)
        match str with
        | [] => list_N_eqb ls [] && (line =? 0) && (col =? sw [])
        | _ => pos_chk sw true str 0 ls line col
        end
      else if off <=? zlen str then pos_chk sw true str (Z.to_nat (off - 1)) ls line col
      else pos_eof_chk sw true str ls line col in
    if okb then A "ok" else bad [A "other"]
  else
    let '(ls', line', col') := getLineByOffset sw str off in
    if list_N_eqb ls ls' && (line =? line') && (col =? col') then A "ok"
    else bad [hexa ls'; zat line'; zat col'].

(* ---- the three renderers ---------------------------------------------------------------------------- *)
Definition gojq_prefix : list N := codes "gojq: ".

(* (rep <line or -> <hexexcerpt> <column>) *)
Definition dec_rep (e : sexp) : option (option Z * list N * Z) :=
  match e with
  | SList [_; Atom l; Atom x; Atom c] =>
      match parse_hexs_fast x, parse_Z c with
      | Some x, Some c =>
          if list_N_eqb l (codes "-") then Some (None, x, c)
          else match parse_Z l with Some l => Some (Some l, x, c) | None => None end
      | _, _ => None
      end
  | _ => None
  end.

(* what the harness parsed must re-render to exactly the bytes the command printed *)
Definition rep_faithful (kind fname shown : list N) (rep : option Z * list N * Z) (stderr : list N) : bool :=
  let '(l, x, c) := rep in
  match l with
  | Some l => prefixb (gojq_prefix ++ render kind fname [] true shown x l c) stderr
  | None => prefixb (gojq_prefix ++ render kind fname [] false shown x 1 c) stderr
  end.

Fixpoint dec_steps (l : list sexp) : option (list (Z * Z) * Z) :=
  match l with
  | [Atom a] => match parse_Z a with Some z => Some ([], z) | None => None end
  | SList [Atom r; Atom p] :: t =>
      match parse_Z r, parse_Z p, dec_steps t with
      | Some r, Some p, Some (st, e) => Some ((r, p) :: st, e)
      | _, _, _ => None
      end
  | [] => Some ([], 0)
  | _ => None
  end.

Fixpoint has_atom (s : string) (l : list sexp) : bool :=
  match l with [] => false | x :: t => atom_is s x || has_atom s t end.

Definition run_json (spec : bool) (transport : sexp) (fname c : list N) (err : sexp) (chunks : list sexp)
                    (state : list sexp) (stderr : list N) (rep : option Z * list N * Z)
                    (tbl : list N * list Z) : sexp :=
  let sw := swidth_of tbl in
  let tl := match transport with SList l => l | _ => [] end in
  let pipe := has_atom "pipe" tl in
  let stream := has_atom "stream" tl in
  (* which counting of the dropped bytes the implementation under test uses, as observed by the harness probe
     (harness/c17 probeCounting): atom lfcount = the code before the repair of cr-window (crfix = false) *)
  let crfix := negb (has_atom "lfcount" tl) in
  let e := match err with
           | SList [_; Atom v; Atom w] =>
               match parse_Z v, parse_Z w with Some z, Some y => Some (Some (z, y)) | _, _ => None end
           | _ => if atom_is "eof" err then Some None else None
           end in
  match e, dec_steps chunks with
  | Some e, Some (steps, rerr) =>
      let etrue := option_map fst e in
      let eraw := option_map snd e in
      if spec then
        let '(l, x, col) := rep in
        (* without a printed line number the line is 1 (the renderer omits it only then) *)
        let line := match l with Some l => l | None => 1 end in
        let ctx := negb pipe in
        let chk := fun line => match etrue with
                   | Some E => if (1 <=? E) && (E <=? zlen c) then pos_chk sw ctx c (Z.to_nat (E - 1)) x line col
                               else false
                   | None => pos_eof_chk sw ctx c x line col
                   end in
        let disc := if pipe then pipe_discarded crfix c steps else if has_atom "whole" tl then 0 else seek_discarded crfix c eraw in
        let lone := count_lone_cr c (Z.to_nat disc) in
        let family :=
          if stream && negb (match etrue, eraw with Some a, Some b => a =? b | _, _ => true end)
          then A "stream-offset"
          else if pipe && (match etrue with Some E => E <=? disc | None => zlen c <=? disc end) then A "pipe-reset"
          else if (0 <? lone) && chk (line + lone) then A "cr-window"
          else A "other" in
        if negb (rep_faithful (codes "invalid json: ") fname fname rep stderr) then bad [A "unparsed-stderr"]
        else if chk line then A "ok"
        else bad [family]
      else
        let '(contents, errline, je) :=
          if pipe then pipe_report_g crfix c steps rerr eraw
          else if has_atom "whole" tl then
            (* data module (module_loader.go LoadJSONWithMeta): the whole file, no window, line base 0 *)
            (c, 0, match eraw with Some E => JSyntax E | None => JUnexpectedEOF end)
          else seek_report_g crfix c eraw in
        let h := gojq_prefix ++ json_error_header sw fname contents errline je in
        let state_ok :=
          match state with
          | [Atom o; Atom l] =>
              match parse_Z o, parse_Z l with
              | Some o, Some l => let st := pipe_run_g crfix c steps in (p_start st =? o) && (p_line st =? l)
              | _, _ => false
              end
          | _ => true
          end in
        if negb state_ok then bad [A "state"; zat (p_start (pipe_run_g crfix c steps)); zat (p_line (pipe_run_g crfix c steps))]
        else if prefixb h stderr then A "ok" else bad [hexa h]
  | _, _ => A "undecodable"
  end.

Definition run_query (spec : bool) (fname contents : list N) (perr : sexp) (stderr : list N)
                     (rep : option Z * list N * Z) (tbl : list N * list Z) : sexp :=
  let sw := swidth_of tbl in
  let pe := match perr with
            | SList [_; Atom o; Atom t] =>
                match parse_Z o, parse_Z t with Some o, Some t => Some (o, t) | _, _ => None end
            | _ => None
            end in
  if spec then
    let '(l, x, col) := rep in
    let line := match l with Some l => l | None => 1 end in
    let off := match pe with Some (o, t) => o - t + 1 | None => 0 end in
    let okb := if (1 <=? off) && (off <=? zlen contents) then pos_chk sw true contents (Z.to_nat (off - 1)) x line col
               else if zlen contents <? off then pos_eof_chk sw true contents x line col
               else false in
    if negb (rep_faithful (codes "invalid query: ") fname contents rep stderr) then bad [A "unparsed-stderr"]
    else if okb then A "ok" else bad [A "other"]
  else
    let h := gojq_prefix ++ query_error_header sw fname contents pe in
    if prefixb h stderr then A "ok" else bad [hexa h].

Definition run_yaml (spec : bool) (fname contents : list N) (index : Z) (stderr : list N)
                    (rep : option Z * list N * Z) (tbl : list N * list Z) : sexp :=
  let sw := swidth_of tbl in
  if spec then
    let '(l, x, col) := rep in
    let line := match l with Some l => l | None => 1 end in
    (* go-yaml's index counts characters: the offending byte is the first byte of character number index *)
    let o := char_offset contents (Z.to_nat index) in
    let chk := fun o => if (0 <=? index) && (Z.of_nat o <? zlen contents) then pos_chk sw true contents o x line col
                        else pos_eof_chk sw true contents x line col in
    if negb (rep_faithful (codes "invalid yaml: ") fname fname rep stderr) then bad [A "unparsed-stderr"]
    else if chk o then A "ok"
    else bad [if negb (Nat.eqb o (Z.to_nat index)) && chk (Z.to_nat index) then A "yaml-char-index" else A "other"]
  else
    let h := gojq_prefix ++ yaml_error_header sw fname contents index in
    if prefixb h stderr then A "ok" else bad [hexa h].

Definition run_sexp (spec : bool) (e : sexp) : sexp :=
  match e with
  | SList [k; Atom s; Atom off; Atom ls; Atom line; Atom col; wt] =>
      if atom_is "lbo" k then
        match parse_hexs_fast s, parse_Z off, parse_hexs_fast ls, parse_Z line, parse_Z col with
        | Some s, Some off, Some ls, Some line, Some col => run_lbo spec s off ls line col (wtab_of ls wt)
        | _, _, _, _, _ => A "undecodable"
        end
      else if atom_is "query" k then
        (* (query fname contents perr stderr rep wtab): perr is not an Atom, handled below *)
        A "undecodable"
      else A "undecodable"
  | SList [k; transport; Atom fname; inp; err; SList (_ :: chunks); SList (_ :: state); Atom stderr; rep; wt] =>
      if atom_is "json" k then
        match parse_hexs_fast fname, input_of inp, parse_hexs_fast stderr, dec_rep rep with
        | Some fname, Some c, Some stderr, Some rep =>
            run_json spec transport fname c err chunks state stderr rep (wtab_of (snd (fst rep)) wt)
        | _, _, _, _ => A "undecodable"
        end
      else A "undecodable"
  | SList [k; Atom fname; Atom contents; perr; Atom stderr; rep; wt] =>
      if atom_is "query" k then
        match parse_hexs_fast fname, parse_hexs_fast contents, parse_hexs_fast stderr, dec_rep rep with
        | Some fname, Some contents, Some stderr, Some rep =>
            run_query spec fname contents perr stderr rep (wtab_of (snd (fst rep)) wt)
        | _, _, _, _ => A "undecodable"
        end
      else A "undecodable"
  | SList [k; transport; Atom fname; Atom contents; Atom index; Atom stderr; rep; wt] =>
      if atom_is "yaml" k then
        match parse_hexs_fast fname, parse_hexs_fast contents, parse_Z index, parse_hexs_fast stderr, dec_rep rep with
        | Some fname, Some contents, Some index, Some stderr, Some rep =>
            run_yaml spec fname contents index stderr rep (wtab_of (snd (fst rep)) wt)
        | _, _, _, _, _ => A "undecodable"
        end
      else A "undecodable"
  | _ => A "undecodable"
  end.

Definition run_line (l : list N) : list N :=
  match parse_fast l with
  | Some (SList [Atom k; e]) =>
      if list_N_eqb k (codes "spec") then print (run_sexp true e) else print (run_sexp false (SList [Atom k; e]))
  | Some e => print (run_sexp false e)
  | None => codes "unparsable"
  end.
