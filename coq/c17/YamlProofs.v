(* C17, YAML: what the gojq side does with go-yaml's index. *)
From Coq Require Import List ZArith NArith Bool Lia String.
From Verif Require Import common.Sexp c17.ErrPos c17.Spec c17.Yaml c17.ScanProofs c17.ErrPosProofs.
Import ListNotations.
Open Scope Z_scope.

Lemma char_offset_ascii : forall fuel s n, (n <= List.length s)%nat -> (List.length s <= fuel)%nat ->
  forallb is_ascii (firstn n s) = true -> char_offset_aux fuel s n = n.
Proof.
  induction fuel as [|f IH]; intros s n Hn Hf Ha.
  - destruct s; [|cbn in Hf; lia]. cbn in Hn. assert (n = 0)%nat by lia. subst. reflexivity.
  - destruct n as [|n]; [destruct s; reflexivity|].
    destruct s as [|b r]; [cbn in Hn; lia|]. cbn [firstn forallb] in Ha. apply andb_true_iff in Ha.
    destruct Ha as [Hb Ha]. unfold is_ascii in Hb. cbn [char_offset_aux decode_rune]. rewrite Hb. cbn [snd].
    change (Z.to_nat (Z.max 1 1)) with 1%nat. cbn [skipn]. cbn [List.length] in Hn, Hf.
    rewrite IH; [reflexivity| | |assumption]; lia.
Qed.

(* utf8.DecodeRuneInString never claims more bytes than there are *)
Lemma decode_size : forall s, s <> [] -> 1 <= snd (decode_rune s) <= zlen s.
Proof.
  intros s Hs. destruct s as [|a t]; [congruence|]. unfold decode_rune.
  destruct (a <? 128)%N; [unfold zlen; cbn; lia|].
  destruct (first_info a) as [[[sz lo] hi]|]; [|unfold zlen; cbn; lia].
  destruct (zlen (a :: t) <? sz); [unfold zlen; cbn; lia|].
  destruct t as [|b t]; [unfold zlen; cbn; lia|].
  destruct ((b <? lo) || (hi <? b))%N; [unfold zlen; cbn [List.length snd]; lia|].
  destruct (sz <=? 2); [unfold zlen; cbn [List.length snd]; lia|].
  destruct t as [|c t]; [unfold zlen; cbn [List.length snd]; lia|].
  destruct (negb (is_cont c)); [unfold zlen; cbn [List.length snd]; lia|].
  destruct (sz <=? 3); [unfold zlen; cbn [List.length snd]; lia|].
  destruct t as [|d t]; [unfold zlen; cbn [List.length snd]; lia|].
  destruct (negb (is_cont d)); unfold zlen; cbn [List.length snd]; lia.
Qed.

(* the range loop computes the byte offset of character number index (len(contents) when there is none) *)
Lemma yaml_loop_char_offset : forall fuel s i n total, (List.length s <= fuel)%nat -> total = i + zlen s ->
  yaml_offset_loop fuel s i (Z.of_nat n) total = i + Z.of_nat (char_offset_aux fuel s n).
Proof.
  induction fuel as [|f IH]; intros s i n total Hf Ht.
  - destruct s; [|cbn in Hf; lia]. cbn. unfold zlen in Ht. cbn in Ht. lia.
  - destruct s as [|b r]; [destruct n; cbn; unfold zlen in Ht; cbn in Ht; lia|].
    cbn [yaml_offset_loop char_offset_aux]. destruct n as [|n].
    + cbn. lia.
    + replace (Z.of_nat (S n) =? 0) with false by (symmetry; apply Z.eqb_neq; lia).
      pose proof (decode_size (b :: r) ltac:(congruence)) as D.
      set (w := Z.max (snd (decode_rune (b :: r))) 1) in *.
      assert (Hw : 1 <= w <= zlen (b :: r)) by (unfold w; lia).
      replace (Z.of_nat (S n) - 1) with (Z.of_nat n) by lia.
      unfold zdrop. unfold zlen in *.
      rewrite IH; [lia| rewrite skipn_length; lia | rewrite skipn_length; lia].
Qed.

Lemma yaml_offset_is_char_offset : forall contents n,
  yaml_offset contents (Z.of_nat n) = Z.of_nat (char_offset contents n).
Proof.
  intros. unfold yaml_offset, char_offset. rewrite yaml_loop_char_offset; [lia|lia|reflexivity].
Qed.

Lemma char_offset_le : forall fuel s n, (List.length s <= fuel)%nat -> (char_offset_aux fuel s n <= List.length s)%nat.
Proof.
  induction fuel as [|f IH]; intros s n Hf; [cbn; lia|].
  destruct n as [|n]; [cbn; lia|]. destruct s as [|b r]; [cbn; lia|].
  cbn [char_offset_aux]. pose proof (decode_size (b :: r) ltac:(congruence)) as D. unfold zlen in D.
  set (w := Z.to_nat (Z.max (snd (decode_rune (b :: r))) 1)) in *.
  assert (1 <= w <= List.length (b :: r))%nat by (unfold w; lia).
  specialize (IH (skipn w (b :: r)) n). rewrite skipn_length in IH. lia.
Qed.

Section Yaml.
Variable swidth : list N -> Z.

(* yamlParseError.Error (current code), for every contents and every index >= 0: the report is correct for
   CHARACTER number index of the contents (its first byte), or for the end of the contents when there is no such
   character; the text printed is `render` of that report *)
Theorem yaml_report_correct : forall fname contents index,
  let o := char_offset contents index in
  let rep := getLineByOffset swidth contents (yaml_offset contents (Z.of_nat index) + 1) in
  ((o < List.length contents)%nat -> pos_ok swidth contents o rep) /\
  ((o >= List.length contents)%nat -> pos_ok_eof swidth contents rep) /\
  yaml_error_header swidth fname contents (Z.of_nat index) =
    (let '(ls, line, col) := rep in render (codes "invalid yaml: ") fname contents true fname ls line col).
Proof.
  intros fname contents index. cbv zeta. rewrite yaml_offset_is_char_offset.
  split; [intros H; now apply glbo_in_range|]. split; [|unfold yaml_error_header; rewrite yaml_offset_is_char_offset; reflexivity].
  intros H. pose proof (char_offset_le (List.length contents) contents index (le_n _)) as L. fold (char_offset contents index) in L.
  apply glbo_past_end. unfold zlen. lia.
Qed.

(* for ASCII text characters are bytes *)
Theorem char_offset_ascii_text : forall contents index, (index <= List.length contents)%nat ->
  forallb is_ascii (firstn index contents) = true -> char_offset contents index = index.
Proof. intros. unfold char_offset. apply char_offset_ascii; try assumption; lia. Qed.
End Yaml.

(* ... and not otherwise: `世界: 1\n  x: 2\n`, go-yaml: "mapping values are not allowed in this context" at
   line 2 column 4, index 9 (characters); byte 9 is the LF of line 1, the character is byte 13 on line 2 *)
Definition yaml_wide : list N :=
  [228; 184; 150; 231; 149; 140]%N ++ codes ": 1" ++ [10%N] ++ codes "  x: 2" ++ [10%N].
(* regression: the arithmetic before commit 652e0ad used Index+1 as a byte offset *)
Lemma yaml_wide_wrong : forall swidth,
  char_offset yaml_wide 9 = 13%nat /\
  ~ pos_ok swidth yaml_wide (char_offset yaml_wide 9) (getLineByOffset swidth yaml_wide (Z.of_nat 9 + 1)).
Proof.
  intros sw. split; [vm_compute; reflexivity|]. intros H.
  assert (L : snd (fst (getLineByOffset sw yaml_wide (Z.of_nat 9 + 1))) = 1) by (vm_compute; reflexivity).
  destruct (getLineByOffset sw yaml_wide (Z.of_nat 9 + 1)) as [[ex line] col]. cbn [fst snd] in L. subst line.
  destruct H as [H _]. vm_compute in H. discriminate H.
Qed.

Lemma yaml_wide_now_right : forall swidth,
  getLineByOffset swidth yaml_wide (yaml_offset yaml_wide 9 + 1) = (codes "  x: 2", 2, swidth (codes "  x")).
Proof. intros. vm_compute. reflexivity. Qed.
