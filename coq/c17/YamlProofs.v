(* C17, YAML: what the gojq side does with go-yaml's index. *)
From Coq Require Import List ZArith NArith Bool Lia String.
From Verif Require Import common.Sexp c17.ErrPos c17.Spec c17.Yaml c17.ScanProofs c17.ErrPosProofs.
Import ListNotations.
Open Scope Z_scope.

Lemma char_offset_ascii : forall fuel s n, (n <= List.length s)%nat -> (List.length s <= fuel)%nat ->
  forallb is_ascii (firstn n s) = true -> char_offset_aux fuel s n = n.
Proof.
  induction fuel as [|f IH]; intros s n Hn Hf Ha.
  - destruct s; [|cbn in Hf; lia]. cbn in Hn. assert (n = 0)%nat by lia. subst. reflexivity.
  - destruct n as [|n]; [destruct s; reflexivity|].
    destruct s as [|b r]; [cbn in Hn; lia|]. cbn [firstn forallb] in Ha. apply andb_true_iff in Ha.
    destruct Ha as [Hb Ha]. unfold is_ascii in Hb. cbn [char_offset_aux decode_rune]. rewrite Hb. cbn [snd].
    change (Z.to_nat (Z.max 1 1)) with 1%nat. cbn [skipn]. cbn [List.length] in Hn, Hf.
    rewrite IH; [reflexivity| | |assumption]; lia.
Qed.

Section Yaml.
Variable swidth : list N -> Z.

(* gojq's side, for every contents and every index inside it: the report is correct for BYTE number index *)
Theorem yaml_report_is_for_byte : forall contents index, (index < List.length contents)%nat ->
  pos_ok swidth contents index (getLineByOffset swidth contents (Z.of_nat index + 1)) /\
  yaml_error_header swidth (codes "<stdin>") contents (Z.of_nat index) =
    (let '(ls, line, col) := getLineByOffset swidth contents (Z.of_nat index + 1) in
     render (codes "invalid yaml: ") (codes "<stdin>") contents true (codes "<stdin>") ls line col).
Proof. intros. split; [now apply glbo_in_range|reflexivity]. Qed.

(* hence it points at go-yaml's CHARACTER number index whenever everything before it is ASCII ... *)
Theorem yaml_report_ascii : forall contents index, (index < List.length contents)%nat ->
  forallb is_ascii (firstn index contents) = true ->
  pos_ok swidth contents (char_offset contents index) (getLineByOffset swidth contents (Z.of_nat index + 1)).
Proof.
  intros contents index Hi Ha. unfold char_offset. rewrite char_offset_ascii; try assumption; try lia.
  now apply glbo_in_range.
Qed.
End Yaml.

(* ... and not otherwise: `世界: 1\n  x: 2\n`, go-yaml: "mapping values are not allowed in this context" at
   line 2 column 4, index 9 (characters); byte 9 is the LF of line 1, the character is byte 13 on line 2 *)
Definition yaml_wide : list N :=
  [228; 184; 150; 231; 149; 140]%N ++ codes ": 1" ++ [10%N] ++ codes "  x: 2" ++ [10%N].
Lemma yaml_wide_wrong : forall swidth,
  char_offset yaml_wide 9 = 13%nat /\
  ~ pos_ok swidth yaml_wide (char_offset yaml_wide 9) (getLineByOffset swidth yaml_wide (Z.of_nat 9 + 1)).
Proof.
  intros sw. split; [vm_compute; reflexivity|]. intros H.
  assert (L : snd (fst (getLineByOffset sw yaml_wide (Z.of_nat 9 + 1))) = 1) by (vm_compute; reflexivity).
  destruct (getLineByOffset sw yaml_wide (Z.of_nat 9 + 1)) as [[ex line] col]. cbn [fst snd] in L. subst line.
  destruct H as [H _]. vm_compute in H. discriminate H.
Qed.
