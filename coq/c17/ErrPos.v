(* C17 model, part 1: cli/error.go transcribed over byte lists.  Definitions only.

   Go strings are [list N] (bytes 0..255), Go ints are Z.  A Go slice expression s[a:b] is
   [ztake]/[zdrop]; a (string, index) pair that the code only ever uses as the suffix s[index:]
   (stringScanner) is carried as that suffix together with the numeric index.
   External code: go-runewidth's StringWidth is the Section variable [swidth] (v0.0.19 works on
   grapheme clusters, so it is a function of the byte string, not a sum over runes);
   unicode/utf8 (DecodeRuneInString, RuneStart) is modelled from the Go sources. *)
From Coq Require Import List ZArith NArith Bool String.
From Verif Require Import common.Sexp.
Import ListNotations.
Open Scope Z_scope.

Definition zlen (s : list N) : Z := Z.of_nat (List.length s).
Definition ztake (n : Z) (s : list N) : list N := firstn (Z.to_nat n) s.   (* s[:n] *)
Definition zdrop (n : Z) (s : list N) : list N := skipn (Z.to_nat n) s.    (* s[n:] *)
Definition zidx (s : list N) (i : Z) : N := nth (Z.to_nat i) s 0%N.         (* s[i]  *)

(* ---- unicode/utf8 ------------------------------------------------------------------------ *)
Definition RuneError : N := 65533.
(* utf8.RuneStart(b) = b&0xC0 != 0x80, i.e. b is not a continuation byte 0x80..0xBF *)
Definition is_cont (b : N) : bool := ((128 <=? b) && (b <=? 191))%N.
Definition rune_start (b : N) : bool := negb (is_cont b).

(* utf8.first[] / acceptRanges[]: size and the accepted range of the second byte; None = xx *)
Definition first_info (b : N) : option (Z * N * N) :=
  (if (194 <=? b) && (b <=? 223) then Some (2%Z, 128, 191)
   else if b =? 224 then Some (3%Z, 160, 191)
   else if (225 <=? b) && (b <=? 236) then Some (3%Z, 128, 191)
   else if b =? 237 then Some (3%Z, 128, 159)
   else if (238 <=? b) && (b <=? 239) then Some (3%Z, 128, 191)
   else if b =? 240 then Some (4%Z, 144, 191)
   else if (241 <=? b) && (b <=? 243) then Some (4%Z, 128, 191)
   else if b =? 244 then Some (4%Z, 128, 143)
   else None)%N.

(* utf8.DecodeRuneInString: (rune, size) *)
Definition decode_rune (s : list N) : N * Z :=
  match s with
  | [] => (RuneError, 0)
  | s0 :: t =>
      if (s0 <? 128)%N then (s0, 1)
      else match first_info s0 with
           | None => (RuneError, 1)
           | Some (sz, lo, hi) =>
               if zlen s <? sz then (RuneError, 1)
               else match t with
                    | [] => (RuneError, 1)
                    | s1 :: t1 =>
                        if ((s1 <? lo) || (hi <? s1))%N then (RuneError, 1)
                        else if sz <=? 2 then (N.lor (N.shiftl (N.land s0 31) 6) (N.land s1 63), 2)
                        else match t1 with
                             | [] => (RuneError, 1)
                             | s2 :: t2 =>
                                 if negb (is_cont s2) then (RuneError, 1)
                                 else if sz <=? 3 then
                                   (N.lor (N.lor (N.shiftl (N.land s0 15) 12) (N.shiftl (N.land s1 63) 6))
                                          (N.land s2 63), 3)
                                 else match t2 with
                                      | [] => (RuneError, 1)
                                      | s3 :: _ =>
                                          if negb (is_cont s3) then (RuneError, 1)
                                          else (N.lor (N.lor (N.lor (N.shiftl (N.land s0 7) 18)
                                                                    (N.shiftl (N.land s1 63) 12))
                                                             (N.shiftl (N.land s2 63) 6))
                                                      (N.land s3 63), 4)
                                      end
                             end
                    end
           end
  end.

(* ---- trimLastInvalidRune -------------------------------------------------------------------
   for i := len(s) - 1; i >= 0 && i > len(s)-utf8.UTFMax; i-- {
     if b := s[i]; b < utf8.RuneSelf { return s[:i+1] }
     else if utf8.RuneStart(b) { if r, _ := DecodeRuneInString(s[i:]); r == RuneError { return s[:i] }; break }
   }
   return s
   The loop condition is kept; [n] only bounds the recursion (4 > number of possible iterations). *)
Fixpoint trim_loop (n : nat) (s : list N) (i : Z) : list N :=
  match n with
  | O => s
  | S n' =>
      if (0 <=? i) && (zlen s - 4 <? i) then
        let b := zidx s i in
        if (b <? 128)%N then ztake (i + 1) s
        else if rune_start b then
          (if (fst (decode_rune (zdrop i s)) =? RuneError)%N then ztake i s else s)
        else trim_loop n' s (i - 1)
      else s
  end.
Definition trimLastInvalidRune (s : list N) : list N := trim_loop 4 s (zlen s - 1).

(* ---- indexNewline, stringScanner ---------------------------------------------------------- *)
(* strings.IndexByte *)
Fixpoint index_byte (b : N) (s : list N) : Z :=
  match s with
  | [] => -1
  | x :: r => if (x =? b)%N then 0 else let i := index_byte b r in if i <? 0 then -1 else i + 1
  end.

(* if i = IndexByte(str,'\n'); i >= 0 { str = str[:i] }; if j := IndexByte(str,'\r'); j >= 0 { i = j } *)
Definition indexNewline (str : list N) : Z :=
  let i := index_byte 10 str in
  let str' := if 0 <=? i then ztake i str else str in
  let j := index_byte 13 str' in
  if 0 <=? j then j else i.

Definition containsNewline (str : list N) : bool :=
  (0 <=? index_byte 10 str) || (0 <=? index_byte 13 str).

(* strings.HasPrefix(s, "\r\n") *)
Definition has_prefix_crlf (s : list N) : bool :=
  match s with 13%N :: 10%N :: _ => true | _ => false end.

(* stringScanner{str, offset}: [ss_rest] = str[offset:] *)
Record scanner := { ss_rest : list N; ss_offset : Z }.

(* next(): None is ok = false (then line = "", start = 0) *)
Definition ss_next (ss : scanner) : option (list N * Z * scanner) :=
  match ss_rest ss with
  | [] => None
  | _ =>
      let start := ss_offset ss in
      let line := ss_rest ss in
      let i := indexNewline line in
      if i <? 0 then Some (line, start, {| ss_rest := []; ss_offset := start + zlen line |})
      else
        let i' := if has_prefix_crlf (zdrop i line) then i + 1 else i in
        Some (ztake i line, start, {| ss_rest := zdrop (i' + 1) line; ss_offset := start + (i' + 1) |})
  end.

(* the for-loop of getLineByOffset; result (linestr, line, offset) *)
Fixpoint glbo_loop (fuel : nat) (ss : scanner) (offset line : Z) (linestr : list N) : list N * Z * Z :=
  match fuel with
  | O => (linestr, line, offset)
  | S f =>
      match ss_next ss with
      | None => (linestr, line, offset - 0)
      | Some (str, start, ss') =>
          if offset <=? ss_offset ss' then (str, line + 1, offset - start)
          else glbo_loop f ss' offset (line + 1) str
      end
  end.

(* the range loop of yamlParseError.Error: i = byte index of the current rune, total = len(contents) *)
Fixpoint yaml_offset_loop (fuel : nat) (s : list N) (i index total : Z) : Z :=
  match fuel, s with
  | S f, _ :: _ =>
      if index =? 0 then i
      else let w := Z.max (snd (decode_rune s)) 1 in
           yaml_offset_loop f (zdrop w s) (i + w) (index - 1) total
  | _, _ => total
  end.
Definition yaml_offset (contents : list N) (index : Z) : Z :=
  yaml_offset_loop (List.length contents) contents 0 index (zlen contents).

Section Width.
Variable swidth : list N -> Z.     (* runewidth.StringWidth *)

(* the part of getLineByOffset after the loop *)
Definition glbo_post (linestr : list N) (offset : Z) : list N * Z :=
  let offset := Z.min (Z.max (offset - 1) 0) (zlen linestr) in
  let '(linestr, offset) :=
    if 48 <? offset then
      let skip := zlen (trimLastInvalidRune (ztake (offset - 48) linestr)) in
      (zdrop skip linestr, offset - skip)
    else (linestr, offset) in
  let linestr := trimLastInvalidRune (ztake (Z.min 64 (zlen linestr)) linestr) in
  let offset := if offset <? zlen linestr then zlen (trimLastInvalidRune (ztake offset linestr))
                else zlen linestr in
  (linestr, swidth (ztake offset linestr)).

(* getLineByOffset(str, offset) = (linestr, line, column) *)
Definition getLineByOffset (str : list N) (offset : Z) : list N * Z * Z :=
  let '(linestr, line, offset) :=
    glbo_loop (S (List.length str)) {| ss_rest := str; ss_offset := 0 |} offset 0 [] in
  let '(linestr, column) := glbo_post linestr offset in
  (linestr, line, column).

(* ---- renderers (everything up to the library's message text) ------------------------------- *)
Definition spaces (n : Z) : list N := repeat 32%N (Z.to_nat n).
(* fmt "%*c" with '^': right-aligned in a field of width w *)
Definition pad_caret (w : Z) : list N := spaces (w - 1) ++ [94%N].

(* formatLineInfo: "    %s | %s\n    %*c" with width column+len(l)+4 *)
Definition formatLineInfo (linestr : list N) (line column : Z) : list N :=
  let l := print_Z line in
  codes "    " ++ l ++ codes " | " ++ linestr ++ [10%N] ++ codes "    " ++ pad_caret (column + zlen l + 4).

Definition render (kind fname contents : list N) (with_line : bool) (shown : list N)
                  (linestr : list N) (line column : Z) : list N :=
  if with_line then
    kind ++ fname ++ codes ":" ++ print_Z line ++ [10%N] ++ formatLineInfo linestr line column ++ codes "  "
  else
    kind ++ shown ++ [10%N] ++ codes "    " ++ linestr ++ [10%N] ++ codes "    " ++ pad_caret (column + 1) ++ codes "  ".

(* queryParseError.Error(); [perr] = Some (Offset, len(Token)) when errors.As finds a *gojq.ParseError *)
Definition query_error_header (fname contents : list N) (perr : option (Z * Z)) : list N :=
  let offset := match perr with Some (off, tl) => off - tl + 1 | None => 0 end in
  let '(linestr, line, column) := getLineByOffset contents offset in
  render (codes "invalid query: ") fname contents
         (negb (list_N_eqb fname (codes "<arg>")) || containsNewline contents) contents linestr line column.

(* jsonParseError.Error() *)
Inductive json_err := JSyntax (offset : Z) | JUnexpectedEOF | JOther.
Definition json_error_header (fname contents : list N) (errline : Z) (e : json_err) : list N :=
  let offset := match e with JSyntax o => o | JUnexpectedEOF => zlen contents + 1 | JOther => 0 end in
  let '(linestr, line, column) := getLineByOffset contents offset in
  let line := line + errline in
  render (codes "invalid json: ") fname contents (1 <? line) fname linestr line column.

(* yamlParseError.Error(); index = pe.Index / ue.Index (0 when neither error type matches).
   The index counts characters:  offset := len(contents); for i := range contents { if index == 0 { offset = i;
   break }; index-- }  (range: one iteration per rune, i = its first byte; invalid bytes advance by 1) *)
Definition yaml_error_header (fname contents : list N) (index : Z) : list N :=
  let '(linestr, line, column) := getLineByOffset contents (yaml_offset contents index + 1) in
  render (codes "invalid yaml: ") fname contents true fname linestr line column.
End Width.
