(* C17 proofs, part 3: the excerpt window and caret of getLineByOffset (the code after the loop)
   meet Spec.excerpt_spec, for any bytes and — without cutting characters — for well-formed UTF-8. *)
From Coq Require Import List ZArith NArith Bool Lia.
From Verif Require Import c17.ErrPos c17.Spec c17.ScanProofs c17.TrimProofs.
Import ListNotations.
Open Scope Z_scope.

Section Post.
Variable swidth : list N -> Z.

(* the same computation with nat indices *)
Definition post_tail (l1 : list N) (o1 : nat) : list N * Z :=
  let ex := trimLastInvalidRune (firstn (Nat.min 64 (length l1)) l1) in
  let o2 := if (o1 <? length ex)%nat then length (trimLastInvalidRune (firstn o1 ex)) else length ex in
  (ex, swidth (firstn o2 ex)).

Definition post_n (lc : list N) (k : nat) : list N * Z :=
  if (48 <? k)%nat then
    let skip := length (trimLastInvalidRune (firstn (k - 48) lc)) in
    post_tail (skipn skip lc) (k - skip)
  else post_tail lc k.

Lemma trim_length_le : forall s, (length (trimLastInvalidRune s) <= length s)%nat.
Proof.
  intros s. destruct (trim_split s) as (t2 & E & L). rewrite E at 2. rewrite app_length. lia.
Qed.

Lemma post_tail_Z : forall l1 o1,
  (let linestr := trimLastInvalidRune (ztake (Z.min 64 (zlen l1)) l1) in
   let offset := if Z.of_nat o1 <? zlen linestr
                 then zlen (trimLastInvalidRune (ztake (Z.of_nat o1) linestr)) else zlen linestr in
   (linestr, swidth (ztake offset linestr))) = post_tail l1 o1.
Proof.
  intros. unfold post_tail. cbv zeta.
  assert (E : ztake (Z.min 64 (zlen l1)) l1 = firstn (Nat.min 64 (length l1)) l1).
  { unfold ztake, zlen. f_equal. lia. }
  rewrite E.
  set (ex := trimLastInvalidRune (firstn (Nat.min 64 (length l1)) l1)).
  unfold zlen. rewrite ztake_nat.
  destruct (Z.ltb_spec (Z.of_nat o1) (Z.of_nat (length ex))); destruct (Nat.ltb_spec o1 (length ex)); try lia;
    rewrite ztake_nat; reflexivity.
Qed.

Lemma glbo_post_nat : forall lc offset,
  glbo_post swidth lc offset = post_n lc (Z.to_nat (Z.min (Z.max (offset - 1) 0) (zlen lc))).
Proof.
  intros. unfold glbo_post, post_n.
  set (k := Z.to_nat (Z.min (Z.max (offset - 1) 0) (zlen lc))).
  assert (Hk : Z.min (Z.max (offset - 1) 0) (zlen lc) = Z.of_nat k) by (unfold k, zlen; lia).
  rewrite Hk.
  destruct (Z.ltb_spec 48 (Z.of_nat k)); destruct (Nat.ltb_spec 48 k); try lia.
  - assert (E1 : ztake (Z.of_nat k - 48) lc = firstn (k - 48) lc) by (unfold ztake; f_equal; lia).
    rewrite E1.
    set (X := trimLastInvalidRune (firstn (k - 48) lc)).
    assert (length X <= k - 48)%nat.
    { unfold X. etransitivity; [apply trim_length_le|]. rewrite firstn_length. lia. }
    assert (E2 : zdrop (zlen X) lc = skipn (length X) lc) by (unfold zlen; apply zdrop_nat).
    assert (E3 : Z.of_nat k - zlen X = Z.of_nat (k - length X)) by (unfold zlen; lia).
    rewrite E2, E3. exact (post_tail_Z _ _).
  - exact (post_tail_Z _ _).
Qed.

(* ---- any bytes -------------------------------------------------------------------------------- *)
Lemma prefix_of_firstn : forall (w t : list N) n s, firstn n s = w ++ t -> s = w ++ t ++ skipn n s.
Proof. intros. rewrite app_assoc, <- H. symmetry. apply firstn_skipn. Qed.

Lemma skipn_prefix : forall (w r : list N), skipn (length w) (w ++ r) = r.
Proof. apply skipn_app_len. Qed.

Lemma post_tail_any : forall (pre : list N) l1 o1 ex col,
  post_tail l1 o1 = (ex, col) -> (o1 <= length l1)%nat ->
  ((pre = [] /\ o1 <= 48) \/ (48 <= o1 <= 51))%nat ->
  exists w r post,
    l1 = w ++ r ++ post /\ ex = w ++ r /\ col = swidth w /\
    (length w <= o1 <= length w + 3)%nat /\ (length ex <= 64)%nat /\ (length w <= 51)%nat /\
    (pre = [] \/ 45 <= length w)%nat /\ (length post <= 3 \/ 61 <= length ex)%nat.
Proof.
  intros pre l1 o1 ex col H Ho Hp. unfold post_tail in H. cbv zeta in H.
  set (m := Nat.min 64 (length l1)) in *.
  destruct (trim_split (firstn m l1)) as (t3 & E3 & L3).
  set (ex0 := trimLastInvalidRune (firstn m l1)) in *.
  assert (Fm : length (firstn m l1) = m) by (rewrite firstn_length; unfold m; lia).
  assert (Lex : (length ex0 + length t3 = m)%nat) by (rewrite <- Fm, E3, app_length; reflexivity).
  pose proof (prefix_of_firstn _ _ _ _ E3) as D1.
  destruct (Nat.ltb_spec o1 (length ex0)) as [C|C].
  - destruct (trim_split (firstn o1 ex0)) as (t4 & E4 & L4).
    set (w3 := trimLastInvalidRune (firstn o1 ex0)) in *.
    assert (Fo : length (firstn o1 ex0) = o1) by (rewrite firstn_length; lia).
    assert (Lw : (length w3 + length t4 = o1)%nat) by (rewrite <- Fo, E4, app_length; reflexivity).
    pose proof (prefix_of_firstn _ _ _ _ E4) as D2.
    inversion H; subst ex col; clear H.
    exists w3, (t4 ++ skipn o1 ex0), (t3 ++ skipn m l1).
    assert (F : firstn (length w3) ex0 = w3) by (rewrite D2 at 1; apply firstn_app_len).
    rewrite F. repeat split; try lia.
    + rewrite app_assoc, <- D2. exact D1.
    + exact D2.
    + destruct Hp as [[-> _]|Hp]; [now left|right; lia].
    + rewrite app_length, skipn_length. unfold m in *. lia.
  - inversion H; subst ex col; clear H.
    exists ex0, [], (t3 ++ skipn m l1).
    rewrite firstn_all, app_nil_r. cbn [app].
    assert (m = length l1) by (unfold m in *; lia).
    repeat split; try lia.
    + exact D1.
    + destruct Hp as [[-> _]|Hp]; [now left|right; lia].
    + rewrite app_length, skipn_length. lia.
Qed.

Theorem post_any : forall lc k ex col, (k <= length lc)%nat ->
  post_n lc k = (ex, col) -> excerpt_ok swidth lc k ex col.
Proof.
  intros lc k ex col Hk H. unfold excerpt_ok. rewrite Nat.min_l by lia.
  unfold post_n in H. destruct (Nat.ltb_spec 48 k) as [C|C].
  - destruct (trim_split (firstn (k - 48) lc)) as (t2 & E2 & L2).
    set (w1 := trimLastInvalidRune (firstn (k - 48) lc)) in *.
    assert (F : length (firstn (k - 48) lc) = (k - 48)%nat) by (rewrite firstn_length; lia).
    assert (Lw : (length w1 + length t2 = k - 48)%nat) by (rewrite <- F, E2, app_length; reflexivity).
    pose proof (prefix_of_firstn _ _ _ _ E2) as D.
    assert (S1 : skipn (length w1) lc = t2 ++ skipn (k - 48) lc) by (rewrite D at 1; apply skipn_app_len).
    destruct (post_tail_any w1 _ _ _ _ H) as (w & r & post & A1 & A2 & A3 & A4 & A5 & A6 & A7 & A8).
    + rewrite skipn_length. lia.
    + right. lia.
    + exists w1, w, r, post. repeat split; try assumption; try lia.
      rewrite <- A1, S1. exact D.
  - destruct (post_tail_any [] _ _ _ _ H Hk) as (w & r & post & A1 & A2 & A3 & A4 & A5 & A6 & A7 & A8).
    + left. split; [reflexivity|lia].
    + exists [], w, r, post. cbn [app length]. repeat split; try assumption; try lia.
Qed.

(* ---- well-formed UTF-8 -------------------------------------------------------------------------- *)
Lemma utf8_head : forall s, utf8 s -> s <> [] ->
  exists e rest, s = e ++ rest /\ wf_enc e = true /\ utf8 rest.
Proof. intros s H Hn. destruct H; [congruence|]. now exists e, s. Qed.

Lemma post_tail_utf8 : forall (pre : list N) l1 o1 ex col,
  utf8 l1 -> post_tail l1 o1 = (ex, col) -> (o1 <= length l1)%nat ->
  ((pre = [] /\ o1 <= 48) \/ (48 <= o1 <= 51))%nat ->
  exists w r post,
    l1 = w ++ r ++ post /\ ex = w ++ r /\ col = swidth w /\ utf8 w /\ utf8 r /\ utf8 post /\
    ((o1 < length l1)%nat -> exists e rest, r = e ++ rest /\ wf_enc e = true /\
                                           (length w <= o1 < length w + length e)%nat) /\
    (o1 = length l1 -> r = [] /\ post = [] /\ length w = o1) /\
    (length ex <= 64)%nat /\ (length w <= 51)%nat /\
    (pre = [] \/ 45 <= length w)%nat /\ (post = [] \/ 61 <= length ex)%nat.
Proof.
  intros pre l1 o1 ex col U H Ho Hp. unfold post_tail in H. cbv zeta in H.
  set (m := Nat.min 64 (length l1)) in *.
  destruct (trim_prefix_utf8 l1 m U ltac:(unfold m; lia)) as (ex0 & rem2 & D1 & T1 & U1 & U2 & L1 & C1).
  rewrite T1 in H.
  assert (Ll : length l1 = (length ex0 + length rem2)%nat) by (rewrite D1 at 1; apply app_length).
  assert (R2 : m = length l1 -> rem2 = []).
  { intros Hm. destruct C1 as [C1|(e & rest & -> & He & Hr & Lt)].
    - destruct rem2; [reflexivity|cbn [length] in Ll; lia].
    - rewrite app_length in Ll. lia. }
  destruct (Nat.ltb_spec o1 (length ex0)) as [C|C].
  - destruct (trim_prefix_utf8 ex0 o1 U1 ltac:(lia)) as (w3 & rem3 & D2 & T2 & U3 & U4 & L2 & C2).
    rewrite T2 in H.
    assert (F : firstn (length w3) ex0 = w3) by (rewrite D2 at 1; apply firstn_app_len).
    rewrite F in H. inversion H; subst ex col; clear H.
    assert (Le : length ex0 = (length w3 + length rem3)%nat) by (rewrite D2 at 1; apply app_length).
    exists w3, rem3, rem2.
    split; [rewrite app_assoc, <- D2; exact D1|]. split; [exact D2|]. split; [reflexivity|].
    split; [assumption|]. split; [assumption|]. split; [assumption|].
    split.
    { intros _. destruct C2 as [C2|(e & rest & -> & He & Hr & Lt)].
      - destruct (utf8_head rem3 U4) as (e & rest & -> & He & Hr).
        + destruct rem3; [cbn [length] in Le; lia|congruence].
        + exists e, rest. split; [reflexivity|]. split; [assumption|].
          pose proof (wf_enc_len _ He). lia.
      - exists e, rest. split; [reflexivity|]. split; [assumption|]. lia. }
    split; [intros; lia|]. split; [unfold m in *; lia|]. split; [lia|].
    split; [destruct Hp as [[-> _]|Hp]; [now left|right; lia]|].
    destruct (Nat.eq_dec m (length l1)) as [Em|Em]; [left; now apply R2|right; unfold m in *; lia].
  - rewrite firstn_all in H. inversion H; subst ex col; clear H.
    assert (Em : m = length l1) by (unfold m in *; lia).
    pose proof (R2 Em) as ->. cbn [length] in Ll. rewrite app_nil_r in D1.
    exists ex0, [], []. rewrite !app_nil_r.
    split; [exact D1|]. split; [reflexivity|]. split; [reflexivity|].
    split; [assumption|]. split; [constructor|]. split; [constructor|].
    split; [intros; lia|]. split; [intros; repeat split; lia|].
    split; [unfold m in *; lia|]. split; [lia|].
    split; [destruct Hp as [[-> _]|Hp]; [now left|right; lia]|]. now left.
Qed.

Theorem post_utf8 : forall lc k ex col, utf8 lc -> (k <= length lc)%nat ->
  post_n lc k = (ex, col) -> excerpt_ok_utf8 swidth lc k ex col.
Proof.
  intros lc k ex col U Hk H. unfold excerpt_ok_utf8. rewrite Nat.min_l by lia.
  unfold post_n in H. destruct (Nat.ltb_spec 48 k) as [C|C].
  - destruct (trim_prefix_utf8 lc (k - 48) U ltac:(lia)) as (w1 & rem1 & D & T & U1 & U2 & L & _).
    rewrite T in H.
    assert (S1 : skipn (length w1) lc = rem1) by (rewrite D; apply skipn_app_len).
    rewrite S1 in H.
    assert (Ll : length lc = (length w1 + length rem1)%nat) by (rewrite D at 1; apply app_length).
    destruct (post_tail_utf8 w1 _ _ _ _ U2 H) as
      (w & r & post & A1 & A2 & A3 & B1 & B2 & B3 & A4 & A5 & A6 & A7 & A8 & A9).
    + lia.
    + right. lia.
    + exists w1, w, r, post.
      split; [rewrite <- A1; exact D|]. split; [exact A2|]. split; [exact A3|].
      split; [assumption|]. split; [assumption|]. split; [assumption|]. split; [assumption|].
      split.
      { intros Hlt. destruct A4 as (e & rest & -> & He & Lt); [lia|].
        exists e, rest. split; [reflexivity|]. split; [assumption|]. lia. }
      split.
      { intros Heq. destruct A5 as (-> & -> & Lw); [lia|]. repeat split; lia. }
      split; [assumption|]. split; [assumption|]. split; assumption.
  - destruct (post_tail_utf8 [] _ _ _ _ U H Hk) as
      (w & r & post & A1 & A2 & A3 & B1 & B2 & B3 & A4 & A5 & A6 & A7 & A8 & A9).
    + left. split; [reflexivity|lia].
    + exists [], w, r, post. cbn [app length].
      split; [exact A1|]. split; [exact A2|]. split; [exact A3|].
      split; [constructor|]. split; [assumption|]. split; [assumption|]. split; [assumption|].
      split; [exact A4|]. split; [exact A5|].
      split; [assumption|]. split; [assumption|]. split; assumption.
Qed.

Theorem post_spec : forall lc offset ex col,
  glbo_post swidth lc offset = (ex, col) ->
  excerpt_spec swidth lc (Z.to_nat (Z.min (Z.max (offset - 1) 0) (zlen lc))) ex col.
Proof.
  intros lc offset ex col H. rewrite glbo_post_nat in H.
  set (k := Z.to_nat (Z.min (Z.max (offset - 1) 0) (zlen lc))) in *.
  assert (Hk : (k <= length lc)%nat) by (unfold k, zlen; lia).
  split; [now apply post_any|]. intros U. now apply post_utf8.
Qed.
End Post.
