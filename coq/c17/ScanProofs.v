(* C17 proofs, part 1: the line scanner of getLineByOffset (stringScanner.next, indexNewline and the
   for-loop) finds the line that [Spec.locate] defines. *)
From Coq Require Import List ZArith NArith Bool Lia.
From Verif Require Import c17.ErrPos c17.Spec.
Import ListNotations.
Open Scope Z_scope.

(* ---- list plumbing --------------------------------------------------------------------------- *)
Lemma zlen_nonneg : forall s, 0 <= zlen s.
Proof. intros; unfold zlen; lia. Qed.
Lemma zlen_cons : forall b s, zlen (b :: s) = zlen s + 1.
Proof. intros; unfold zlen; cbn [length]; lia. Qed.
Lemma zlen_app : forall a b, zlen (a ++ b) = zlen a + zlen b.
Proof. intros; unfold zlen; rewrite app_length; lia. Qed.
Lemma zlen_nil : zlen [] = 0.
Proof. reflexivity. Qed.
Lemma ztake_nat : forall n s, ztake (Z.of_nat n) s = firstn n s.
Proof. intros; unfold ztake; now rewrite Nat2Z.id. Qed.
Lemma zdrop_nat : forall n s, zdrop (Z.of_nat n) s = skipn n s.
Proof. intros; unfold zdrop; now rewrite Nat2Z.id. Qed.
Lemma ztake_succ : forall i b s, 0 <= i -> ztake (i + 1) (b :: s) = b :: ztake i s.
Proof. intros; unfold ztake. replace (Z.to_nat (i + 1)) with (S (Z.to_nat i)) by lia. reflexivity. Qed.
Lemma zdrop_succ : forall i b s, 0 <= i -> zdrop (i + 1) (b :: s) = zdrop i s.
Proof. intros; unfold zdrop. replace (Z.to_nat (i + 1)) with (S (Z.to_nat i)) by lia. reflexivity. Qed.

(* ---- structural view of a line ---------------------------------------------------------------- *)
Fixpoint find_b (b : N) (s : list N) : option nat :=
  match s with [] => None | x :: r => if (x =? b)%N then Some O else option_map S (find_b b r) end.
Fixpoint find_nl (s : list N) : option nat :=
  match s with [] => None | x :: r => if is_nl x then Some O else option_map S (find_nl r) end.
Definition oz (o : option nat) : Z := match o with None => -1 | Some n => Z.of_nat n end.

(* bytes of the first line including its terminator *)
Fixpoint line_extent (s : list N) : nat :=
  match s with
  | [] => O
  | b :: r => if (b =? 10)%N then 1%nat
              else if (b =? 13)%N then match r with 10%N :: _ => 2%nat | _ => 1%nat end
              else S (line_extent r)
  end.

Lemma index_byte_find : forall b s, index_byte b s = oz (find_b b s).
Proof.
  induction s as [|x r IH]; cbn [index_byte find_b]; [reflexivity|].
  destruct (x =? b)%N; [reflexivity|]. rewrite IH. destruct (find_b b r); cbn [oz option_map].
  - destruct (Z.ltb_spec (Z.of_nat n) 0); lia.
  - reflexivity.
Qed.

Lemma leb0_nat : forall n, (0 <=? Z.of_nat n) = true.
Proof. intros; apply Z.leb_le; lia. Qed.

Lemma find_nl_two_pass : forall s,
  find_nl s = match find_b 13 (match find_b 10 s with Some n => firstn n s | None => s end) with
              | Some j => Some j
              | None => find_b 10 s
              end.
Proof.
  induction s as [|x r IH]; [reflexivity|].
  cbn [find_nl find_b]. unfold is_nl.
  destruct (x =? 10)%N eqn:E10; [reflexivity|]. cbn [orb].
  destruct (find_b 10 r) as [n|]; cbn [option_map firstn find_b] in *.
  - destruct (x =? 13)%N; [reflexivity|]. rewrite IH.
    destruct (find_b 13 (firstn n r)); reflexivity.
  - destruct (x =? 13)%N; [reflexivity|]. rewrite IH.
    destruct (find_b 13 r); reflexivity.
Qed.

Lemma indexNewline_find : forall s, indexNewline s = oz (find_nl s).
Proof.
  intros s. unfold indexNewline. rewrite find_nl_two_pass, (index_byte_find 10 s).
  destruct (find_b 10 s) as [n|]; cbn [oz].
  - rewrite leb0_nat, ztake_nat, index_byte_find.
    destruct (find_b 13 (firstn n s)); cbn [oz]; [now rewrite leb0_nat|reflexivity].
  - cbn. rewrite index_byte_find.
    destruct (find_b 13 s); cbn [oz]; [now rewrite leb0_nat|reflexivity].
Qed.

Lemma find_nl_none : forall s, find_nl s = None -> take_line s = s /\ line_extent s = length s.
Proof.
  induction s as [|x r IH]; cbn [find_nl take_line line_extent length]; [auto|].
  unfold is_nl. destruct (x =? 10)%N eqn:E10; cbn [orb]; [discriminate|].
  destruct (x =? 13)%N eqn:E13; [discriminate|].
  destruct (find_nl r); [discriminate|]. intros _. destruct IH as [A B]; [reflexivity|]. now rewrite A, B.
Qed.

Lemma find_nl_some : forall s n, find_nl s = Some n ->
  take_line s = firstn n s /\ n = length (take_line s) /\
  line_extent s = (if has_prefix_crlf (skipn n s) then n + 2 else n + 1)%nat /\ (n < length s)%nat.
Proof.
  induction s as [|x r IH]; cbn [find_nl take_line line_extent length]; [discriminate|].
  unfold is_nl. intros n. destruct (x =? 10)%N eqn:E10; cbn [orb].
  - intros [= <-]. cbn. apply N.eqb_eq in E10. subst x. cbn. repeat split; lia.
  - destruct (x =? 13)%N eqn:E13.
    + intros [= <-]. cbn. apply N.eqb_eq in E13. subst x.
      destruct r as [|y r']; cbn; [repeat split; lia|].
      destruct y as [|p]; [repeat split; lia|].
      repeat split; try lia. do 4 (destruct p; try reflexivity).
    + destruct (find_nl r) as [m|]; cbn [option_map]; [|discriminate].
      intros [= <-]. destruct (IH m eq_refl) as (A & B & C & D).
      cbn [firstn skipn length]. rewrite A. repeat split; try lia.
      * rewrite <- A. lia.
      * rewrite C. destruct (has_prefix_crlf (skipn m r)); lia.
Qed.

Definition starts_lf (r : list N) : bool := match r with 10%N :: _ => true | _ => false end.
Lemma match_lf : forall (A : Type) (x y : A) r,
  match r with 10%N :: _ => x | _ => y end = if starts_lf r then x else y.
Proof.
  intros. destruct r as [|[|p] r']; try reflexivity. do 4 (destruct p; try reflexivity).
Qed.
Lemma starts_lf_true : forall r, starts_lf r = true -> exists r', r = 10%N :: r'.
Proof.
  intros r H. destruct r as [|[|p] r']; try discriminate.
  do 4 (destruct p; try discriminate). now exists r'.
Qed.

Lemma line_extent_le : forall s, (line_extent s <= length s)%nat.
Proof.
  induction s as [|a s IH]; cbn [line_extent length]; [lia|].
  destruct (a =? 10)%N; [lia|]. destruct (a =? 13)%N; [|lia].
  destruct s as [|y r']; [lia|]. cbn [length]. destruct y as [|p]; [lia|]. do 4 (destruct p; try lia).
Qed.

Lemma line_extent_pos : forall b r, (1 <= line_extent (b :: r))%nat.
Proof.
  intros. cbn [line_extent]. destruct (b =? 10)%N; [lia|]. destruct (b =? 13)%N; [|lia].
  destruct r as [|y r']; [lia|]. destruct y as [|p]; [lia|]. do 4 (destruct p; try lia).
Qed.

(* stringScanner.next in structural terms *)
Lemma ss_next_eq : forall b r off,
  ss_next {| ss_rest := b :: r; ss_offset := off |} =
  Some (take_line (b :: r), off,
        {| ss_rest := skipn (line_extent (b :: r)) (b :: r);
           ss_offset := off + Z.of_nat (line_extent (b :: r)) |}).
Proof.
  intros. unfold ss_next. cbn [ss_rest ss_offset]. set (s := b :: r).
  rewrite indexNewline_find. destruct (find_nl s) as [n|] eqn:E; cbn [oz].
  - destruct (find_nl_some _ _ E) as (A & B & C & D).
    destruct (Z.ltb_spec (Z.of_nat n) 0) as [F|F]; [lia|].
    rewrite ztake_nat, zdrop_nat, A, C.
    destruct (has_prefix_crlf (skipn n s)).
    + replace (Z.of_nat n + 1 + 1) with (Z.of_nat (n + 2)) by lia. rewrite zdrop_nat. reflexivity.
    + replace (Z.of_nat n + 1) with (Z.of_nat (n + 1)) by lia. rewrite zdrop_nat. reflexivity.
  - destruct (find_nl_none _ E) as [A B]. change (-1 <? 0) with true. cbv iota. rewrite A, B.
    rewrite skipn_all. unfold zlen. reflexivity.
Qed.

(* ---- locate along a line ---------------------------------------------------------------------- *)
Lemma locate_in_line : forall c ln cur k o, (o < line_extent c)%nat ->
  locate ln cur k c o = (ln, cur, (k + o)%nat).
Proof.
  induction c as [|b r IH]; intros ln cur k o H; [cbn in H; lia|].
  destruct o as [|o']; [cbn; f_equal; lia|].
  cbn [locate]. cbn [line_extent] in H.
  destruct (b =? 10)%N; [lia|]. destruct (b =? 13)%N.
  - destruct r as [|y r']; [lia|]. destruct y as [|p]; [lia|].
    do 4 (destruct p; try lia). assert (o' = O) by lia. subst. cbn. f_equal; lia.
  - rewrite IH by lia. f_equal; lia.
Qed.

Lemma locate_next_line : forall c ln cur k o, (o < length c)%nat -> (line_extent c <= o)%nat ->
  locate ln cur k c o =
  locate (ln + 1) (skipn (line_extent c) c) 0 (skipn (line_extent c) c) (o - line_extent c).
Proof.
  induction c as [|b r IH]; intros ln cur k o Hl H; [cbn in Hl; lia|].
  destruct o as [|o']; [pose proof (line_extent_pos b r); lia|]. cbn [length] in Hl.
  cbn [locate]. cbn [line_extent] in *. rewrite !match_lf in *.
  destruct (b =? 10)%N; [cbn; now rewrite Nat.sub_0_r|]. destruct (b =? 13)%N.
  - destruct (starts_lf r) eqn:S.
    + destruct (starts_lf_true _ S) as [r' ->].
      destruct o' as [|o'']; [lia|]. cbn. now rewrite Nat.sub_0_r.
    + cbn. now rewrite Nat.sub_0_r.
  - cbn [skipn]. replace (S o' - S (line_extent r))%nat with (o' - line_extent r)%nat by lia.
    apply IH; lia.
Qed.

(* ---- the for-loop ------------------------------------------------------------------------------ *)
Lemma loop_in_range : forall fuel rest pos o ln ls,
  (o < length rest)%nat -> (length rest < fuel)%nat ->
  glbo_loop fuel {| ss_rest := rest; ss_offset := pos |} (pos + Z.of_nat o + 1) ln ls =
  let '(l, cur, k) := locate (ln + 1) rest 0 rest o in (take_line cur, l, Z.of_nat k + 1).
Proof.
  induction fuel as [|f IH]; intros rest pos o ln ls Ho Hf; [lia|].
  destruct rest as [|b r]; [cbn in Ho; lia|].
  cbn [glbo_loop]. rewrite ss_next_eq. cbn [ss_offset].
  set (s := b :: r) in *. set (e := line_extent s).
  pose proof (line_extent_le s) as Le. pose proof (line_extent_pos b r) as Lp. fold s in Lp. fold e in Le, Lp.
  destruct (Z.leb_spec (pos + Z.of_nat o + 1) (pos + Z.of_nat e)) as [C|C].
  - rewrite locate_in_line by (fold e; lia). cbn. f_equal; try reflexivity; lia.
  - rewrite (locate_next_line s) by (fold e; lia). fold e.
    replace (pos + Z.of_nat o + 1) with ((pos + Z.of_nat e) + Z.of_nat (o - e) + 1) by lia.
    rewrite IH; [reflexivity| |]; rewrite skipn_length; lia.
Qed.

Lemma loop_past_end : forall fuel rest pos offset ln ls,
  pos + zlen rest < offset -> (length rest < fuel)%nat ->
  glbo_loop fuel {| ss_rest := rest; ss_offset := pos |} offset ln ls =
  match rest with
  | [] => (ls, ln, offset)
  | _ => let '(l, cur, k) := locate (ln + 1) rest 0 rest (length rest - 1) in (take_line cur, l, offset)
  end.
Proof.
  induction fuel as [|f IH]; intros rest pos offset ln ls Ho Hf; [lia|].
  destruct rest as [|b r]; [cbn; f_equal; lia|].
  cbn [glbo_loop]. rewrite ss_next_eq. cbn [ss_offset].
  set (s := b :: r) in *. set (e := line_extent s).
  pose proof (line_extent_le s) as Le. pose proof (line_extent_pos b r) as Lp. fold s in Lp. fold e in Le, Lp.
  unfold zlen in Ho.
  destruct (Z.leb_spec offset (pos + Z.of_nat e)) as [C|C]; [lia|].
  rewrite IH; [| unfold zlen; rewrite skipn_length; lia | rewrite skipn_length; lia].
  destruct (skipn e s) as [|b' r'] eqn:Sk.
  - assert (length (skipn e s) = 0%nat) by now rewrite Sk. rewrite skipn_length in H.
    rewrite locate_in_line by (fold e; lia). reflexivity.
  - assert (length (skipn e s) = length (b' :: r')) by now rewrite Sk. rewrite skipn_length in H.
    cbn [length] in H. rewrite (locate_next_line s) by (fold e; lia). fold e. rewrite Sk.
    replace (length s - 1 - e)%nat with (length (b' :: r') - 1)%nat by (cbn [length]; lia). reflexivity.
Qed.
