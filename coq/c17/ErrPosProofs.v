(* C17 proofs, part 4: getLineByOffset meets the specification for every contents and every offset. *)
From Coq Require Import List ZArith NArith Bool Lia.
From Verif Require Import c17.ErrPos c17.Spec c17.ScanProofs c17.TrimProofs c17.PostProofs.
Import ListNotations.
Open Scope Z_scope.

Section Main.
Variable swidth : list N -> Z.

Lemma excerpt_spec_min : forall lc k ex col,
  excerpt_spec swidth lc (Nat.min k (length lc)) ex col -> excerpt_spec swidth lc k ex col.
Proof.
  intros lc k ex col [A B]. unfold excerpt_spec, excerpt_ok, excerpt_ok_utf8 in *.
  replace (Nat.min (Nat.min k (length lc)) (length lc)) with (Nat.min k (length lc)) in * by lia.
  split; assumption.
Qed.

Lemma take_line_length : forall s, (length (take_line s) <= length s)%nat.
Proof. induction s as [|b r IH]; cbn; [lia|]. destruct (is_nl b); cbn; lia. Qed.

Lemma locate_cur_length : forall c ln cur k o,
  (length (snd (fst (locate ln cur k c o))) <= Nat.max (length cur) (length c))%nat.
Proof.
  induction c as [|b r IH]; intros ln cur k o; destruct o as [|o']; cbn [locate fst snd length]; try lia.
  destruct (b =? 10)%N.
  - specialize (IH (ln + 1) r 0%nat o'). lia.
  - destruct (b =? 13)%N.
    + rewrite match_lf. destruct (starts_lf r).
      * specialize (IH ln cur (S k) o'). lia.
      * specialize (IH (ln + 1) r 0%nat o'). lia.
    + specialize (IH ln cur (S k) o'). lia.
Qed.

(* an offending byte inside the contents: offset = o + 1 (offsets are 1-based) *)
Theorem glbo_in_range : forall c o, (o < length c)%nat ->
  pos_ok swidth c o (getLineByOffset swidth c (Z.of_nat o + 1)).
Proof.
  intros c o Ho. unfold getLineByOffset.
  replace (Z.of_nat o + 1) with (0 + Z.of_nat o + 1) by lia.
  rewrite loop_in_range by lia.
  unfold pos_ok, spec_line, spec_content, spec_index. change (0 + 1) with 1.
  destruct (locate 1 c 0 c o) as [[l cur] k]. cbn [fst snd].
  destruct (glbo_post swidth (take_line cur) (Z.of_nat k + 1)) as [ex col] eqn:P.
  split; [reflexivity|]. apply post_spec in P. apply excerpt_spec_min.
  replace (Nat.min k (length (take_line cur)))
    with (Z.to_nat (Z.min (Z.max (Z.of_nat k + 1 - 1) 0) (zlen (take_line cur)))) by (unfold zlen; lia).
  exact P.
Qed.

(* offsets <= 1 (including 0 and negative ones) are treated like the first byte *)
Theorem glbo_low : forall c off, off <= 1 -> getLineByOffset swidth c off = getLineByOffset swidth c 1.
Proof.
  intros c off H. unfold getLineByOffset. destruct c as [|b r].
  - cbn [length glbo_loop ss_next ss_rest]. rewrite !glbo_post_nat. rewrite zlen_nil.
    replace (Z.to_nat (Z.min (Z.max (off - 0 - 1) 0) 0)) with 0%nat by lia.
    replace (Z.to_nat (Z.min (Z.max (1 - 0 - 1) 0) 0)) with 0%nat by lia. reflexivity.
  - cbn [glbo_loop]. rewrite ss_next_eq. cbn [ss_offset].
    pose proof (line_extent_pos b r).
    destruct (Z.leb_spec off (0 + Z.of_nat (line_extent (b :: r)))); [|lia].
    destruct (Z.leb_spec 1 (0 + Z.of_nat (line_extent (b :: r)))); [|lia].
    rewrite !glbo_post_nat.
    replace (Z.to_nat (Z.min (Z.max (off - 0 - 1) 0) (zlen (take_line (b :: r))))) with 0%nat
      by (pose proof (zlen_nonneg (take_line (b :: r))); lia).
    replace (Z.to_nat (Z.min (Z.max (1 - 0 - 1) 0) (zlen (take_line (b :: r))))) with 0%nat
      by (pose proof (zlen_nonneg (take_line (b :: r))); lia).
    reflexivity.
Qed.

(* offsets after the end (unexpected EOF: len(contents)+1) *)
Theorem glbo_past_end : forall c off, zlen c < off ->
  pos_ok_eof swidth c (getLineByOffset swidth c off).
Proof.
  intros c off H. unfold getLineByOffset. rewrite loop_past_end by (cbn; lia).
  destruct c as [|b r].
  - rewrite glbo_post_nat. rewrite zlen_nil.
    replace (Z.to_nat (Z.min (Z.max (off - 1) 0) 0)) with 0%nat by lia. cbn. auto.
  - set (c := b :: r) in *. unfold pos_ok_eof. fold c.
    unfold spec_line, spec_content. change (0 + 1) with 1.
    pose proof (locate_cur_length c 1 c 0 (length c - 1)) as Lc.
    destruct (locate 1 c 0 c (length c - 1)) as [[l cur] k]. cbn [fst snd] in *.
    destruct (glbo_post swidth (take_line cur) off) as [ex col] eqn:P.
    change (match c with [] => ex = [] /\ l = 0 /\ col = swidth [] | _ :: _ =>
              l = l /\ excerpt_spec swidth (take_line cur) (length (take_line cur)) ex col end)
      with (l = l /\ excerpt_spec swidth (take_line cur) (length (take_line cur)) ex col).
    split; [reflexivity|]. apply post_spec in P.
    pose proof (take_line_length cur). unfold zlen in *.
    replace (Z.to_nat (Z.min (Z.max (off - 1) 0) (Z.of_nat (length (take_line cur)))))
      with (length (take_line cur)) in P by lia.
    exact P.
Qed.
End Main.
