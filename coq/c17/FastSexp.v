(* Linear-time, tail-recursive reader for the transport s-expressions of common/Sexp.v (same [sexp]
   type, same syntax).  common/Sexp.parse re-reverses its accumulator at every character when run as
   extracted (strict) OCaml, which is cubic in the length of an atom; C17 lines carry whole inputs
   (tens of kilobytes of hex).  No proofs in this file. *)
From Coq Require Import List NArith Bool.
From Verif Require Import common.Sexp.
Import ListNotations.
Open Scope N_scope.

Fixpoint rev_acc {A : Type} (l acc : list A) : list A :=
  match l with [] => acc | x :: r => rev_acc r (x :: acc) end.

Definition flushr (cur : list N) (acc : list tok) : list tok :=
  match cur with [] => acc | _ => TA (rev_acc cur []) :: acc end.

(* acc is the reversed token list *)
Fixpoint tok_loop (cur : list N) (acc : list tok) (l : list N) : list tok :=
  match l with
  | [] => rev_acc (flushr cur acc) []
  | c :: r =>
      if is_space c then tok_loop [] (flushr cur acc) r
      else if c =? lparen then tok_loop [] (TL :: flushr cur acc) r
      else if c =? rparen then tok_loop [] (TR :: flushr cur acc) r
      else tok_loop (c :: cur) acc r
  end.

Fixpoint parse_toks_fast (ts : list tok) (stack : list (list sexp)) : option sexp :=
  match ts with
  | [] => match stack with [[x]] => Some x | _ => None end
  | TA s :: r => match stack with
                 | top :: st => parse_toks_fast r ((Atom s :: top) :: st)
                 | [] => None end
  | TL :: r => parse_toks_fast r ([] :: stack)
  | TR :: r => match stack with
               | top :: nxt :: st => parse_toks_fast r ((SList (rev_acc top []) :: nxt) :: st)
               | _ => None end
  end.
Definition parse_fast (l : list N) : option sexp := parse_toks_fast (tok_loop [] [] l) [[]].

(* hex strings, tail-recursive *)
Fixpoint parse_hex_acc (l : list N) (acc : list N) : option (list N) :=
  match l with
  | [] => Some (rev_acc acc [])
  | a :: b :: r =>
      match hex_val a, hex_val b with
      | Some x, Some y => parse_hex_acc r (x * 16 + y :: acc)
      | _, _ => None
      end
  | _ => None
  end.
Definition parse_hexs_fast (l : list N) : option (list N) :=
  match l with [45] => Some [] | _ => parse_hex_acc l [] end.
