(* C17: executable restatement of Spec.pos_ok / pos_ok_eof, used by Run.v to judge what the
   IMPLEMENTATION printed against the specification (no model involved).  Definitions only; proved
   equivalent to the Prop specification in OracleProofs.v.
   [excerpt_chk] searches the (few) admissible placements of the quoted excerpt in the line.
   ctx = true also demands the amount of context proved for getLineByOffset on the whole contents
   (>= 45 bytes before the caret unless the excerpt starts the line, >= 61 bytes unless it reaches the
   line's end); the property text does not ask for it, so it is off where the command legitimately
   sees only part of the line (pipe window). *)
From Coq Require Import List ZArith NArith Bool Arith.
From Verif Require Import common.Sexp c17.ErrPos c17.Spec.
Import ListNotations.
Local Open Scope nat_scope.

Fixpoint utf8b_aux (fuel : nat) (s : list N) : bool :=
  match fuel with
  | O => match s with [] => true | _ => false end
  | S f =>
      match s with
      | [] => true
      | _ => wf_enc (firstn 1 s) && utf8b_aux f (skipn 1 s)
             || wf_enc (firstn 2 s) && utf8b_aux f (skipn 2 s)
             || wf_enc (firstn 3 s) && utf8b_aux f (skipn 3 s)
             || wf_enc (firstn 4 s) && utf8b_aux f (skipn 4 s)
      end
  end.
Definition utf8b (s : list N) : bool := utf8b_aux (length s) s.

Definition slice (s : list N) (a b : nat) : list N := firstn (b - a) (skipn a s).

Section Width.
Variable swidth : list N -> Z.

(* one placement: pre = lc[:a], w = lc[a:p], r = lc[p:b], post = lc[b:], b = a + |ex|.
   (No let-bound pre/post: extracted OCaml is strict and they can be long; && is lazy.) *)
Definition placement_ok (ctx strict : bool) (lc : list N) (k' : nat) (ex : list N) (col : Z) (a p : nat) : bool :=
  let n := length lc in
  let b := a + length ex in
  let w := slice lc a p in
  let r := slice lc p b in
  (a <=? p) && (p <=? k') && (k' <=? p + 3) && (p <=? b) && (b <=? n)
  && list_N_eqb (slice lc a b) ex
  && Z.eqb col (swidth w)
  && (length ex <=? 64) && (length w <=? 51)
  && (negb ctx || (a =? 0) || (45 <=? length w))
  && (negb ctx || (n - b <=? 3) || (61 <=? length ex))
  && (negb strict
      || (utf8b w && utf8b r
          && (if k' <? n then
                existsb (fun e => wf_enc (firstn e r) && (e <=? length r) && (k' <? p + e)) [1; 2; 3; 4]
              else (length r =? 0) && (n - b =? 0) && (p =? k'))
          && (negb ctx || (n - b =? 0) || (61 <=? length ex))
          && utf8b (firstn a lc) && utf8b (skipn b lc))).

Definition excerpt_chk (ctx : bool) (lc : list N) (k : nat) (ex : list N) (col : Z) : bool :=
  let k' := Nat.min k (length lc) in
  let strict := utf8b lc in
  existsb (fun a => existsb (fun d => placement_ok ctx strict lc k' ex col a (k' - d)) [0; 1; 2; 3])
          (0 :: seq (k' - 54) 55).

Definition pos_chk (ctx : bool) (c : list N) (o : nat) (ex : list N) (line col : Z) : bool :=
  Z.eqb line (spec_line c o) && excerpt_chk ctx (spec_content c o) (spec_index c o) ex col.

Definition pos_eof_chk (ctx : bool) (c : list N) (ex : list N) (line col : Z) : bool :=
  match c with
  | [] => list_N_eqb ex [] && Z.eqb line 0%Z && Z.eqb col (swidth [])
  | _ => let o := length c - 1 in
         Z.eqb line (spec_line c o)
         && excerpt_chk ctx (spec_content c o) (length (spec_content c o)) ex col
  end.
End Width.
