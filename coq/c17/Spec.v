(* C17 specification vocabulary (independent of the model in ErrPos.v / Window.v).  Definitions only.

   For contents c and an offending byte index o (0-based):
     spec_line c o    = 1 + number of line terminators that END at or before o
                        (LF, CR LF counted once, lone CR); a terminator belongs to the line it ends;
     spec_content c o = the bytes of the line containing byte o, without its terminator;
     spec_index c o   = index of byte o within that line.
   The excerpt clauses say which part of that line may be quoted and where the caret stands. *)
From Coq Require Import List ZArith NArith Bool Lia.
Import ListNotations.

Definition is_nl (b : N) : bool := ((b =? 10) || (b =? 13))%N.

(* the line's bytes up to (excluding) its terminator *)
Fixpoint take_line (s : list N) : list N :=
  match s with
  | [] => []
  | b :: r => if is_nl b then [] else b :: take_line r
  end.

(* walk over the first o bytes of c; ln = current line number, cur = input suffix at which the current
   line began, k = index of the next byte within the current line *)
Fixpoint locate (ln : Z) (cur : list N) (k : nat) (c : list N) (o : nat) : Z * list N * nat :=
  match o, c with
  | O, _ => (ln, cur, k)
  | S _, [] => (ln, cur, k)
  | S o', b :: r =>
      if (b =? 10)%N then locate (ln + 1) r 0 r o'
      else if (b =? 13)%N then
        match r with
        | 10%N :: _ => locate ln cur (S k) r o'          (* CR of a CR LF: the LF still belongs to this line *)
        | _ => locate (ln + 1) r 0 r o'
        end
      else locate ln cur (S k) r o'
  end.

Definition spec_line (c : list N) (o : nat) : Z := fst (fst (locate 1 c 0 c o)).
Definition spec_content (c : list N) (o : nat) : list N := take_line (snd (fst (locate 1 c 0 c o))).
Definition spec_index (c : list N) (o : nat) : nat := snd (locate 1 c 0 c o).

(* ---- well-formed UTF-8 (Unicode Table 3-7), U+FFFD itself excluded --------------------------- *)
Definition in_rng (lo hi b : N) : bool := ((lo <=? b) && (b <=? hi))%N.
Definition contb (b : N) : bool := in_rng 128 191 b.
Definition ok3 (a b c : N) : bool :=
  ((negb (a =? 224) || (160 <=? b)) && (negb (a =? 237) || (b <=? 159))
   && negb ((a =? 239) && (b =? 191) && (c =? 189)))%N.
Definition ok4 (a b : N) : bool :=
  ((negb (a =? 240) || (144 <=? b)) && (negb (a =? 244) || (b <=? 143)))%N.
Definition wf_enc (e : list N) : bool :=
  match e with
  | [a] => (a <? 128)%N
  | [a; b] => in_rng 194 223 a && contb b
  | [a; b; c] => in_rng 224 239 a && contb b && contb c && ok3 a b c
  | [a; b; c; d] => in_rng 240 244 a && contb b && contb c && contb d && ok4 a b
  | _ => false
  end.
Inductive utf8 : list N -> Prop :=
| utf8_nil : utf8 []
| utf8_app : forall e s, wf_enc e = true -> utf8 s -> utf8 (e ++ s).

Section Width.
Variable swidth : list N -> Z.      (* display width of a byte string (go-runewidth StringWidth) *)

(* lc = line content, k = index of the offending byte in the line (k >= length lc: the offending byte
   is the line's terminator or the end of input; the caret then stands after the excerpt's end).
   For ANY bytes: the line is pre ++ w ++ r ++ post, the quoted excerpt is w ++ r, the caret column
   is the display width of w, and w ends at most 3 bytes (a cut multi-byte sequence) before k. *)
Definition excerpt_ok (lc : list N) (k : nat) (ex : list N) (col : Z) : Prop :=
  let k' := Nat.min k (length lc) in
  exists pre w r post,
    lc = pre ++ w ++ r ++ post /\ ex = w ++ r /\ col = swidth w /\
    length pre + length w <= k' <= length pre + length w + 3 /\
    length ex <= 64 /\ length w <= 51 /\
    (pre = [] \/ 45 <= length w) /\ (length post <= 3 \/ 61 <= length ex).

(* For a well-formed UTF-8 line: all four pieces are well formed (no character is cut), r starts with
   the very character that contains the offending byte, so the caret (after w) stands under it. *)
Definition excerpt_ok_utf8 (lc : list N) (k : nat) (ex : list N) (col : Z) : Prop :=
  let k' := Nat.min k (length lc) in
  exists pre w r post,
    lc = pre ++ w ++ r ++ post /\ ex = w ++ r /\ col = swidth w /\
    utf8 pre /\ utf8 w /\ utf8 r /\ utf8 post /\
    (k' < length lc -> exists e rest, r = e ++ rest /\ wf_enc e = true /\
                                      length pre + length w <= k' < length pre + length w + length e) /\
    (k' = length lc -> r = [] /\ post = [] /\ length pre + length w = k') /\
    length ex <= 64 /\ length w <= 51 /\
    (pre = [] \/ 45 <= length w) /\ (post = [] \/ 61 <= length ex).

Definition excerpt_spec (lc : list N) (k : nat) (ex : list N) (col : Z) : Prop :=
  excerpt_ok lc k ex col /\ (utf8 lc -> excerpt_ok_utf8 lc k ex col).

(* a report (excerpt, line, column) is correct for offending byte o of c *)
Definition pos_ok (c : list N) (o : nat) (rep : list N * Z * Z) : Prop :=
  let '(ex, line, col) := rep in
  line = spec_line c o /\ excerpt_spec (spec_content c o) (spec_index c o) ex col.

(* end of input as the offending position (unexpected EOF): the report is for the line holding the
   last byte, caret after its content *)
Definition pos_ok_eof (c : list N) (rep : list N * Z * Z) : Prop :=
  let '(ex, line, col) := rep in
  match c with
  | [] => ex = [] /\ line = 0%Z /\ col = swidth []
  | _ => let o := length c - 1 in
         line = spec_line c o /\
         excerpt_spec (spec_content c o) (length (spec_content c o)) ex col
  end.
(* the same without the two clauses about the AMOUNT of context quoted (the property text does not ask for
   them; a pipe window legitimately sees only part of the line) *)
Definition excerpt_ok_w (lc : list N) (k : nat) (ex : list N) (col : Z) : Prop :=
  let k' := Nat.min k (length lc) in
  exists pre w r post,
    lc = pre ++ w ++ r ++ post /\ ex = w ++ r /\ col = swidth w /\
    length pre + length w <= k' <= length pre + length w + 3 /\
    length ex <= 64 /\ length w <= 51.
Definition excerpt_ok_utf8_w (lc : list N) (k : nat) (ex : list N) (col : Z) : Prop :=
  let k' := Nat.min k (length lc) in
  exists pre w r post,
    lc = pre ++ w ++ r ++ post /\ ex = w ++ r /\ col = swidth w /\
    utf8 pre /\ utf8 w /\ utf8 r /\ utf8 post /\
    (k' < length lc -> exists e rest, r = e ++ rest /\ wf_enc e = true /\
                                      length pre + length w <= k' < length pre + length w + length e) /\
    (k' = length lc -> r = [] /\ post = [] /\ length pre + length w = k') /\
    length ex <= 64 /\ length w <= 51.
Definition excerpt_spec_w (lc : list N) (k : nat) (ex : list N) (col : Z) : Prop :=
  excerpt_ok_w lc k ex col /\ (utf8 lc -> excerpt_ok_utf8_w lc k ex col).
Definition pos_ok_w (c : list N) (o : nat) (rep : list N * Z * Z) : Prop :=
  let '(ex, line, col) := rep in
  line = spec_line c o /\ excerpt_spec_w (spec_content c o) (spec_index c o) ex col.
Definition pos_ok_eof_w (c : list N) (rep : list N * Z * Z) : Prop :=
  let '(ex, line, col) := rep in
  match c with
  | [] => ex = [] /\ line = 0%Z /\ col = swidth []
  | _ => let o := length c - 1 in
         line = spec_line c o /\
         excerpt_spec_w (spec_content c o) (length (spec_content c o)) ex col
  end.

End Width.

(* ---- window bookkeeping vocabulary ----------------------------------------------------------- *)
Fixpoint count_lf (s : list N) : Z :=
  match s with [] => 0%Z | b :: r => ((if (b =? 10)%N then 1 else 0) + count_lf r)%Z end.
(* every CR is immediately followed by LF *)
Fixpoint crlf_only (s : list N) : bool :=
  match s with
  | [] => true
  | b :: r => (if (b =? 13)%N then match r with 10%N :: _ => true | _ => false end else true) && crlf_only r
  end.

(* number of line terminators that END within the first n bytes of c, in the sense of [locate] (LF; CR LF once,
   at its LF; a CR that is not followed by LF in c): spec_line c o = 1 + terms_before c o *)
Fixpoint terms_before (c : list N) (n : nat) : Z :=
  match n, c with
  | S n', b :: r =>
      ((if (b =? 10)%N then 1
        else if (b =? 13)%N then match r with 10%N :: _ => 0 | _ => 1 end
        else 0) + terms_before r n')%Z
  | _, _ => 0%Z
  end.
