(* C17: the executable oracle of Oracle.v IS the specification of Spec.v:
     pos_chk swidth true  c o ex line col = true <-> pos_ok   swidth c o (ex, line, col)
     pos_chk swidth false c o ex line col = true <-> pos_ok_w swidth c o (ex, line, col)
   and likewise for the end-of-input variants. *)
From Coq Require Import List ZArith NArith Bool Lia Arith.
From Verif Require Import common.Sexp c17.ErrPos c17.Spec c17.Oracle c17.ScanProofs c17.TrimProofs.
Import ListNotations.
Local Open Scope nat_scope.

(* ---- small reflections ---------------------------------------------------------------------------------- *)
Lemma list_N_eqb_eq : forall a b, list_N_eqb a b = true <-> a = b.
Proof.
  induction a as [|x a IH]; destruct b as [|y b]; cbn; split; intros H; try reflexivity; try discriminate.
  - apply andb_true_iff in H. destruct H as [H1 H2]. apply N.eqb_eq in H1. apply IH in H2. congruence.
  - inversion H; subst. apply andb_true_iff. split; [apply N.eqb_refl|now apply IH].
Qed.

Lemma utf8b_aux_sound : forall fuel s, utf8b_aux fuel s = true -> utf8 s.
Proof.
  induction fuel as [|f IH]; intros s H; cbn [utf8b_aux] in H.
  - destruct s; [constructor|discriminate].
  - destruct s as [|x s']; [constructor|]. set (s := x :: s') in *.
    assert (G : forall n, wf_enc (firstn n s) && utf8b_aux f (skipn n s) = true -> utf8 s).
    { intros n G. apply andb_true_iff in G. destruct G as [G1 G2].
      rewrite <- (firstn_skipn n s). constructor; [assumption|now apply IH]. }
    apply orb_true_iff in H. destruct H as [H|H]; [|now apply (G 4%nat)].
    apply orb_true_iff in H. destruct H as [H|H]; [|now apply (G 3%nat)].
    apply orb_true_iff in H. destruct H as [H|H]; [now apply (G 1%nat)|now apply (G 2%nat)].
Qed.

Lemma utf8b_aux_complete : forall s, utf8 s -> forall fuel, (length s <= fuel)%nat -> utf8b_aux fuel s = true.
Proof.
  intros s H. induction H as [|e s He Hs IH]; intros fuel Hf.
  - destruct fuel; reflexivity.
  - pose proof (wf_enc_len e He) as Le. rewrite app_length in Hf.
    destruct fuel as [|f]; [lia|]. cbn [utf8b_aux].
    destruct (e ++ s) as [|x t] eqn:E; [reflexivity|]. rewrite <- E.
    assert (F : firstn (length e) (e ++ s) = e) by apply firstn_app_len.
    assert (K : skipn (length e) (e ++ s) = s) by apply skipn_app_len.
    assert (G : wf_enc (firstn (length e) (e ++ s)) && utf8b_aux f (skipn (length e) (e ++ s)) = true).
    { rewrite F, K, He. cbn. apply IH. lia. }
    destruct (length e) as [|[|[|[|[|n]]]]] eqn:L; try lia; rewrite G; rewrite ?orb_true_r; reflexivity.
Qed.

Lemma utf8b_iff : forall s, utf8b s = true <-> utf8 s.
Proof.
  intros s. split; [apply utf8b_aux_sound|]. intros H. now apply utf8b_aux_complete.
Qed.

(* ---- slices ------------------------------------------------------------------------------------------------ *)
Lemma slice_length : forall s a b, (a <= b)%nat -> (b <= length s)%nat -> length (slice s a b) = (b - a)%nat.
Proof. intros. unfold slice. rewrite firstn_length, skipn_length. lia. Qed.

Lemma skipn_skipn_add : forall (A : Type) a b (l : list A), skipn b (skipn a l) = skipn (a + b) l.
Proof.
  induction a as [|a IH]; intros b l; [reflexivity|]. destruct l as [|x l]; cbn [Nat.add skipn].
  - now rewrite skipn_nil.
  - apply IH.
Qed.

Lemma split4 : forall (s : list N) a p b, (a <= p)%nat -> (p <= b)%nat -> (b <= length s)%nat ->
  s = firstn a s ++ slice s a p ++ slice s p b ++ skipn b s.
Proof.
  intros s a p b H1 H2 H3. unfold slice.
  rewrite <- (firstn_skipn a s) at 1. f_equal.
  rewrite <- (firstn_skipn (p - a) (skipn a s)) at 1. f_equal.
  rewrite skipn_skipn_add. replace (a + (p - a))%nat with p by lia.
  rewrite <- (firstn_skipn (b - p) (skipn p s)) at 1. f_equal.
  rewrite skipn_skipn_add. f_equal. lia.
Qed.

Lemma firstn_plus : forall (A : Type) a b (l : list A), firstn (a + b) l = firstn a l ++ firstn b (skipn a l).
Proof.
  induction a as [|a IH]; intros b l; [reflexivity|]. destruct l as [|x l]; cbn [Nat.add firstn skipn app].
  - now rewrite firstn_nil.
  - now rewrite IH.
Qed.

Lemma slice_join : forall (s : list N) a p b, (a <= p)%nat -> (p <= b)%nat ->
  slice s a b = slice s a p ++ slice s p b.
Proof.
  intros s a p b H1 H2. unfold slice.
  replace (b - a)%nat with ((p - a) + (b - p))%nat by lia.
  rewrite firstn_plus. rewrite skipn_skipn_add. repeat f_equal. lia.
Qed.

Lemma slices_of_app : forall (pre w r post : list N),
  let a := length pre in let p := (a + length w)%nat in let b := (p + length r)%nat in
  let s := pre ++ w ++ r ++ post in
  firstn a s = pre /\ slice s a p = w /\ slice s p b = r /\ skipn b s = post /\ slice s a b = w ++ r.
Proof.
  intros pre w r post. cbv zeta. unfold slice.
  assert (S1 : skipn (length pre) (pre ++ w ++ r ++ post) = w ++ r ++ post) by apply skipn_app_len.
  assert (S2 : skipn (length pre + length w) (pre ++ w ++ r ++ post) = r ++ post).
  { rewrite <- skipn_skipn_add, S1. apply skipn_app_len. }
  assert (S3 : skipn (length pre + length w + length r) (pre ++ w ++ r ++ post) = post).
  { rewrite <- skipn_skipn_add, S2. apply skipn_app_len. }
  repeat split.
  - apply firstn_app_len.
  - rewrite S1. replace (length pre + length w - length pre)%nat with (length w) by lia. apply firstn_app_len.
  - rewrite S2. replace (length pre + length w + length r - (length pre + length w))%nat with (length r) by lia.
    apply firstn_app_len.
  - exact S3.
  - rewrite S1. replace (length pre + length w + length r - length pre)%nat with (length (w ++ r))
      by (rewrite app_length; lia).
    rewrite app_assoc. apply firstn_app_len.
Qed.

Section Equiv.
Variable swidth : list N -> Z.

(* the specification with the context clauses and the UTF-8 clauses switched by booleans *)
Definition P (ctx strict : bool) (lc : list N) (k' : nat) (ex : list N) (col : Z) : Prop :=
  exists pre w r post,
    lc = pre ++ w ++ r ++ post /\ ex = w ++ r /\ col = swidth w /\
    (length pre + length w <= k' <= length pre + length w + 3)%nat /\
    (length ex <= 64)%nat /\ (length w <= 51)%nat /\
    (ctx = true -> pre = [] \/ (45 <= length w)%nat) /\
    (ctx = true -> (length post <= 3)%nat \/ (61 <= length ex)%nat) /\
    (strict = true ->
       utf8 pre /\ utf8 w /\ utf8 r /\ utf8 post /\
       ((k' < length lc)%nat -> exists e rest, r = e ++ rest /\ wf_enc e = true /\
                                             (k' < length pre + length w + length e)%nat) /\
       (k' = length lc -> r = [] /\ post = [] /\ (length pre + length w)%nat = k') /\
       (ctx = true -> post = [] \/ (61 <= length ex)%nat)).

Lemma enc_search : forall (r : list N) (k' p : nat),
  existsb (fun e => wf_enc (firstn e r) && (e <=? length r) && (k' <? p + e)) [1; 2; 3; 4]%nat = true <->
  exists e rest, r = e ++ rest /\ wf_enc e = true /\ (k' < p + length e)%nat.
Proof.
  intros r k' p. rewrite existsb_exists. split.
  - intros (n & Hin & H). apply andb_true_iff in H. destruct H as [H H3]. apply andb_true_iff in H.
    destruct H as [H1 H2]. apply Nat.leb_le in H2. apply Nat.ltb_lt in H3.
    exists (firstn n r), (skipn n r). rewrite firstn_skipn, firstn_length. split; [reflexivity|]. split; [assumption|lia].
  - intros (e & rest & -> & He & Hk). pose proof (wf_enc_len e He) as Le.
    exists (length e). split.
    + destruct (length e) as [|[|[|[|[|n]]]]]; cbn; try lia; tauto.
    + rewrite firstn_app_len, He, app_length. cbn [andb].
      apply andb_true_iff. split; [apply Nat.leb_le; lia|apply Nat.ltb_lt; lia].
Qed.

Lemma length_zero_nil : forall (l : list N), length l = 0%nat <-> l = [].
Proof. intros l. destruct l; cbn; split; intros; try reflexivity; try discriminate. Qed.

Lemma placement_sound : forall ctx strict lc k' ex col a p, (k' <= length lc)%nat ->
  placement_ok swidth ctx strict lc k' ex col a p = true -> P ctx strict lc k' ex col.
Proof.
  intros ctx strict lc k' ex col a p Hk H. unfold placement_ok in H. cbv zeta in H.
  set (n := length lc) in *. set (b := (a + length ex)%nat) in *.
  Ltac peel H n := apply andb_true_iff in H; destruct H as [H n].
  peel H Hstrict. peel H Hc2. peel H Hc1. peel H Hw51. peel H Hex64. peel H Hcol. peel H Heq.
  peel H Hbn. peel H Hpb. peel H Hkp3. peel H Hpk.
  apply Nat.leb_le in H, Hpk, Hkp3, Hpb, Hbn, Hex64, Hw51. apply list_N_eqb_eq in Heq. apply Z.eqb_eq in Hcol.
  assert (Lw : length (slice lc a p) = p - a) by (apply slice_length; lia).
  assert (Lr : length (slice lc p b) = b - p) by (apply slice_length; lia).
  assert (Lp : length (firstn a lc) = a) by (rewrite firstn_length; lia).
  assert (Lq : length (skipn b lc) = n - b) by apply skipn_length.
  exists (firstn a lc), (slice lc a p), (slice lc p b), (skipn b lc).
  split; [apply split4; lia|]. split; [rewrite <- Heq; apply slice_join; lia|]. split; [assumption|].
  rewrite Lw, Lp, Lq. split; [lia|]. split; [assumption|]. split; [lia|].
  split.
  { intros ->. cbn [negb orb] in Hc1. apply orb_true_iff in Hc1. destruct Hc1 as [Hc1|Hc1].
    - apply Nat.eqb_eq in Hc1. left. apply length_zero_nil. lia.
    - apply Nat.leb_le in Hc1. right. lia. }
  split.
  { intros ->. cbn [negb orb] in Hc2. apply orb_true_iff in Hc2. destruct Hc2 as [Hc2|Hc2].
    - apply Nat.leb_le in Hc2. left. lia.
    - apply Nat.leb_le in Hc2. right. lia. }
  intros ->. cbn [negb orb] in Hstrict.
  peel Hstrict Hupost. peel Hstrict Hupre. peel Hstrict Hc3. peel Hstrict Hif. peel Hstrict Hur.
  apply utf8b_iff in Hstrict, Hur, Hupre, Hupost.
  split; [assumption|]. split; [assumption|]. split; [assumption|]. split; [assumption|].
  split.
  { intros Hlt. replace (k' <? n) with true in Hif by (symmetry; apply Nat.ltb_lt; exact Hlt).
    apply enc_search in Hif. destruct Hif as (e & rest & E & He & Hke). exists e, rest.
    split; [assumption|]. split; [assumption|]. lia. }
  split.
  { intros Heq'. replace (k' <? n) with false in Hif by (symmetry; apply Nat.ltb_ge; unfold n; lia).
    peel Hif Hpk'. peel Hif Hnb.
    apply Nat.eqb_eq in Hif, Hnb, Hpk'.
    split; [apply length_zero_nil; lia|]. split; [apply length_zero_nil; lia|]. lia. }
  intros ->. cbn [negb orb] in Hc3. apply orb_true_iff in Hc3. destruct Hc3 as [Hc3|Hc3].
  - apply Nat.eqb_eq in Hc3. left. apply length_zero_nil. lia.
  - apply Nat.leb_le in Hc3. right. lia.
Qed.

Lemma orb3_intro : forall c x y : bool, (c = true -> x = true \/ y = true) -> negb c || x || y = true.
Proof. intros [|] x y H; [|reflexivity]. cbn. apply orb_true_iff. now apply H. Qed.

Lemma placement_complete : forall ctx strict lc k' ex col, (k' <= length lc) ->
  P ctx strict lc k' ex col ->
  exists a p, (a = 0 \/ (k' - 54 <= a <= k')) /\ (k' - 3 <= p <= k') /\
              placement_ok swidth ctx strict lc k' ex col a p = true.
Proof.
  intros ctx strict lc k' ex col Hk (pre & w & r & post & -> & -> & -> & Hkp & Hex & Hw & C1 & C2 & S).
  exists (length pre), (length pre + length w). split; [lia|]. split; [lia|].
  unfold placement_ok. cbv zeta.
  destruct (slices_of_app pre w r post) as (F1 & F2 & F3 & F4 & F5). cbv zeta in F1, F2, F3, F4, F5.
  assert (B : length pre + length (w ++ r) = length pre + length w + length r) by (rewrite app_length; lia).
  rewrite B, F1, F2, F3, F4, F5.
  set (n := length (pre ++ w ++ r ++ post)) in *.
  assert (Ln : n = length pre + length w + length r + length post) by (unfold n; rewrite !app_length; lia).
  rewrite app_length in Hex.
  repeat (apply andb_true_iff; split);
    try (apply Nat.leb_le; rewrite ?app_length; lia).
  - now apply list_N_eqb_eq.
  - apply Z.eqb_eq. reflexivity.
  - apply orb3_intro. intros E. destruct (C1 E) as [->|G]; [left; reflexivity|right; apply Nat.leb_le; lia].
  - apply orb3_intro. intros E. rewrite app_length.
    destruct (C2 E) as [G|G]; [left|right]; apply Nat.leb_le; rewrite ?app_length in *; lia.
  - destruct strict; [|reflexivity]. cbn [negb orb].
    destruct (S eq_refl) as (U1 & U2 & U3 & U4 & Slt & Seq & C3).
    repeat (apply andb_true_iff; split); try (now apply utf8b_iff).
    + destruct (Nat.ltb_spec k' n) as [Lt|Ge].
      * apply enc_search. destruct (Slt Lt) as (e & rest & E & He & Hke). exists e, rest. auto.
      * destruct (Seq ltac:(lia)) as (-> & -> & Q). cbn [length] in *.
        repeat (apply andb_true_iff; split); apply Nat.eqb_eq; lia.
    + apply orb3_intro. intros E. rewrite app_length.
      destruct (C3 E) as [->|G]; [left; apply Nat.eqb_eq; cbn [length] in *; lia|right; apply Nat.leb_le; rewrite ?app_length in *; lia].
Qed.

Lemma range_in : forall k' a, (a = 0 \/ (k' - 54 <= a <= k')) -> In a (0 :: seq (k' - 54) 55).
Proof. intros k' a [->|H]; [now left|right]. apply in_seq. lia. Qed.

Lemma excerpt_chk_iff : forall ctx lc k ex col,
  excerpt_chk swidth ctx lc k ex col = true <-> P ctx (utf8b lc) lc (Nat.min k (length lc)) ex col.
Proof.
  intros ctx lc k ex col. unfold excerpt_chk. cbv zeta. set (k' := Nat.min k (length lc)).
  assert (Hk : k' <= length lc) by (unfold k'; lia).
  split.
  - intros H. apply existsb_exists in H. destruct H as (a & _ & H).
    apply existsb_exists in H. destruct H as (d & _ & H). now apply placement_sound in H.
  - intros H. destruct (placement_complete _ _ _ _ _ _ Hk H) as (a & p & Ra & Rp & G).
    apply existsb_exists. exists a. split; [now apply range_in|].
    apply existsb_exists. exists (k' - p). split.
    + assert (D : k' - p = 0 \/ k' - p = 1 \/ k' - p = 2 \/ k' - p = 3) by lia.
      cbn. destruct D as [-> | [-> | [-> | ->]]]; tauto.
    + replace (k' - (k' - p)) with p by lia. exact G.
Qed.

(* ---- P versus the specification ----------------------------------------------------------------------------- *)
Lemma P_true_iff : forall lc k ex col,
  P true (utf8b lc) lc (Nat.min k (length lc)) ex col <-> excerpt_spec swidth lc k ex col.
Proof.
  intros lc k ex col. unfold excerpt_spec, excerpt_ok, excerpt_ok_utf8. cbv zeta.
  set (k' := Nat.min k (length lc)). assert (Hk : k' <= length lc) by (unfold k'; lia).
  destruct (utf8b lc) eqn:U.
  - assert (Ul : utf8 lc) by now apply utf8b_iff. split.
    + intros (pre & w & r & post & E1 & E2 & E3 & Hkp & Hex & Hw & C1 & C2 & S).
      destruct (S eq_refl) as (U1 & U2 & U3 & U4 & Slt & Seq & C3). split.
      * exists pre, w, r, post. repeat split; auto; lia.
      * intros _. exists pre, w, r, post.
        split; [assumption|]. split; [assumption|]. split; [assumption|].
        split; [assumption|]. split; [assumption|]. split; [assumption|]. split; [assumption|].
        split.
        { intros Lt. destruct (Slt Lt) as (e & rest & A & B & D). exists e, rest. repeat split; auto; lia. }
        split; [assumption|]. split; [assumption|]. split; [assumption|]. split; auto.
    + intros [_ H]. destruct (H Ul) as (pre & w & r & post & E1 & E2 & E3 & U1 & U2 & U3 & U4 & Slt & Seq & Hex & Hw & C1 & C3).
      exists pre, w, r, post.
      assert (Hkp : length pre + length w <= k' <= length pre + length w + 3).
      { destruct (Nat.lt_ge_cases k' (length lc)) as [Lt|Ge].
        - destruct (Slt Lt) as (e & rest & A & B & D). pose proof (wf_enc_len e B). lia.
        - destruct (Seq ltac:(lia)) as (_ & _ & Q). lia. }
      split; [assumption|]. split; [assumption|]. split; [assumption|]. split; [assumption|].
      split; [assumption|]. split; [assumption|]. split; [auto|].
      split.
      { intros _. destruct C3 as [->|G]; [left; cbn; lia|right; assumption]. }
      intros _. split; [assumption|]. split; [assumption|]. split; [assumption|]. split; [assumption|].
      split.
      { intros Lt. destruct (Slt Lt) as (e & rest & A & B & D). exists e, rest. repeat split; auto; lia. }
      split; auto.
  - assert (Ul : ~ utf8 lc) by (intros Q; apply utf8b_iff in Q; congruence). split.
    + intros (pre & w & r & post & E1 & E2 & E3 & Hkp & Hex & Hw & C1 & C2 & _). split; [|tauto].
      exists pre, w, r, post. repeat split; auto; lia.
    + intros [(pre & w & r & post & E1 & E2 & E3 & Hkp & Hex & Hw & C1 & C2) _].
      exists pre, w, r, post. repeat split; auto; try lia; discriminate.
Qed.

Lemma P_false_iff : forall lc k ex col,
  P false (utf8b lc) lc (Nat.min k (length lc)) ex col <-> excerpt_spec_w swidth lc k ex col.
Proof.
  intros lc k ex col. unfold excerpt_spec_w, excerpt_ok_w, excerpt_ok_utf8_w. cbv zeta.
  set (k' := Nat.min k (length lc)). assert (Hk : k' <= length lc) by (unfold k'; lia).
  destruct (utf8b lc) eqn:U.
  - assert (Ul : utf8 lc) by now apply utf8b_iff. split.
    + intros (pre & w & r & post & E1 & E2 & E3 & Hkp & Hex & Hw & C1 & C2 & S).
      destruct (S eq_refl) as (U1 & U2 & U3 & U4 & Slt & Seq & C3). split.
      * exists pre, w, r, post. repeat split; auto; lia.
      * intros _. exists pre, w, r, post.
        split; [assumption|]. split; [assumption|]. split; [assumption|].
        split; [assumption|]. split; [assumption|]. split; [assumption|]. split; [assumption|].
        split.
        { intros Lt. destruct (Slt Lt) as (e & rest & A & B & D). exists e, rest. repeat split; auto; lia. }
        split; [assumption|]. split; assumption.
    + intros [_ H]. destruct (H Ul) as (pre & w & r & post & E1 & E2 & E3 & U1 & U2 & U3 & U4 & Slt & Seq & Hex & Hw).
      exists pre, w, r, post.
      assert (Hkp : length pre + length w <= k' <= length pre + length w + 3).
      { destruct (Nat.lt_ge_cases k' (length lc)) as [Lt|Ge].
        - destruct (Slt Lt) as (e & rest & A & B & D). pose proof (wf_enc_len e B). lia.
        - destruct (Seq ltac:(lia)) as (_ & _ & Q). lia. }
      split; [assumption|]. split; [assumption|]. split; [assumption|]. split; [assumption|].
      split; [assumption|]. split; [assumption|]. split; [discriminate|]. split; [discriminate|].
      intros _. split; [assumption|]. split; [assumption|]. split; [assumption|]. split; [assumption|].
      split.
      { intros Lt. destruct (Slt Lt) as (e & rest & A & B & D). exists e, rest. repeat split; auto; lia. }
      split; [assumption|discriminate].
  - assert (Ul : ~ utf8 lc) by (intros Q; apply utf8b_iff in Q; congruence). split.
    + intros (pre & w & r & post & E1 & E2 & E3 & Hkp & Hex & Hw & _). split; [|tauto].
      exists pre, w, r, post. repeat split; auto; lia.
    + intros [(pre & w & r & post & E1 & E2 & E3 & Hkp & Hex & Hw) _].
      exists pre, w, r, post. repeat split; auto; try lia; discriminate.
Qed.

(* ---- the oracle is the specification ---------------------------------------------------------------------------- *)
Theorem pos_chk_iff : forall c o ex line col,
  pos_chk swidth true c o ex line col = true <-> pos_ok swidth c o (ex, line, col).
Proof.
  intros. unfold pos_chk, pos_ok. rewrite andb_true_iff, Z.eqb_eq, excerpt_chk_iff, P_true_iff. reflexivity.
Qed.

Theorem pos_chk_w_iff : forall c o ex line col,
  pos_chk swidth false c o ex line col = true <-> pos_ok_w swidth c o (ex, line, col).
Proof.
  intros. unfold pos_chk, pos_ok_w. rewrite andb_true_iff, Z.eqb_eq, excerpt_chk_iff, P_false_iff. reflexivity.
Qed.

Theorem pos_eof_chk_iff : forall c ex line col,
  pos_eof_chk swidth true c ex line col = true <-> pos_ok_eof swidth c (ex, line, col).
Proof.
  intros. unfold pos_eof_chk, pos_ok_eof. destruct c as [|b r].
  - rewrite !andb_true_iff, list_N_eqb_eq, !Z.eqb_eq. tauto.
  - rewrite andb_true_iff, Z.eqb_eq, excerpt_chk_iff, P_true_iff. reflexivity.
Qed.

Theorem pos_eof_chk_w_iff : forall c ex line col,
  pos_eof_chk swidth false c ex line col = true <-> pos_ok_eof_w swidth c (ex, line, col).
Proof.
  intros. unfold pos_eof_chk, pos_ok_eof_w. destruct c as [|b r].
  - rewrite !andb_true_iff, list_N_eqb_eq, !Z.eqb_eq. tauto.
  - rewrite andb_true_iff, Z.eqb_eq, excerpt_chk_iff, P_false_iff. reflexivity.
Qed.

(* the weak specification is implied by the full one *)
Theorem pos_ok_weaken : forall c o rep, pos_ok swidth c o rep -> pos_ok_w swidth c o rep.
Proof.
  intros c o [[ex line] col] [H1 [H2 H3]]. split; [assumption|]. split.
  - destruct H2 as (pre & w & r & post & A). exists pre, w, r, post. tauto.
  - intros U. destruct (H3 U) as (pre & w & r & post & A). exists pre, w, r, post. tauto.
Qed.

Theorem oracle_weak : forall c o ex line col,
  (pos_chk swidth false c o ex line col = true <-> pos_ok_w swidth c o (ex, line, col)) /\
  (pos_eof_chk swidth false c ex line col = true <-> pos_ok_eof_w swidth c (ex, line, col)) /\
  (pos_ok swidth c o (ex, line, col) -> pos_ok_w swidth c o (ex, line, col)).
Proof.
  intros. split; [apply pos_chk_w_iff|]. split; [apply pos_eof_chk_w_iff|apply pos_ok_weaken].
Qed.
End Equiv.
