(* C17 proofs, part 5: the windows of cli/inputs.go.
   - a window that starts at byte s and is cut after byte t of the input gives the same report as the whole
     input (same excerpt, same column, line number shifted by [terms_before c s], the number of line terminators
     LF / CR LF / CR that end before s) when the window starts >= 52 bytes before the offending byte (or at 0)
     and extends >= 64 bytes after; NO hypothesis on the terminators, the window may even start with the LF of a
     CR LF pair (the code never produces such a window, see [keep_cr_ok]);
   - countNewlines of a dropped chunk = terms_before, provided the chunk does not end with the CR of a CR LF
     pair, which `if n > 0 && buf[n-1] == 13 { n-- }` guarantees;
   - the seekable path (getContents' loop) always produces such a window;
   - the non-seekable path has the right line number whenever the offending byte was not discarded. *)
From Coq Require Import List ZArith NArith Bool Lia.
From Verif Require Import c17.ErrPos c17.Spec c17.Window c17.ScanProofs c17.TrimProofs c17.PostProofs c17.ErrPosProofs.
Import ListNotations.
Open Scope Z_scope.

(* ---- count_lf, crlf_only ----------------------------------------------------------------------------- *)
Lemma count_lf_app : forall a b, count_lf (a ++ b) = count_lf a + count_lf b.
Proof. induction a as [|x a IH]; intros; cbn [count_lf app]; [lia|rewrite IH; lia]. Qed.

Lemma firstn_add : forall (A : Type) a b (l : list A), firstn (a + b) l = firstn a l ++ firstn b (skipn a l).
Proof.
  induction a as [|a IH]; intros b l; [reflexivity|]. destruct l as [|x l]; cbn [Nat.add firstn skipn app].
  - now rewrite firstn_nil.
  - now rewrite IH.
Qed.

Lemma skipn_add : forall (A : Type) a b (l : list A), skipn (a + b) l = skipn b (skipn a l).
Proof.
  induction a as [|a IH]; intros b l; [reflexivity|]. destruct l as [|x l]; cbn [Nat.add skipn].
  - now rewrite skipn_nil.
  - apply IH.
Qed.

Lemma crlf_only_skipn : forall n s, crlf_only s = true -> crlf_only (skipn n s) = true.
Proof.
  induction n as [|n IH]; intros s H; [exact H|]. destruct s as [|b r]; [reflexivity|].
  cbn [skipn]. apply IH. cbn [crlf_only] in H. apply andb_true_iff in H. tauto.
Qed.

(* ---- terms_before: the specification's count of the terminators before a position --------------------------- *)
Lemma terms_before_add : forall c a b,
  terms_before c (a + b) = terms_before c a + terms_before (skipn a c) b.
Proof.
  induction c as [|x r IH]; intros a b.
  - destruct a, b; reflexivity.
  - destruct a as [|a]; [cbn [Nat.add terms_before skipn]; lia|].
    cbn [Nat.add terms_before skipn]. rewrite IH. lia.
Qed.

Lemma terms_before_0 : forall c, terms_before c 0 = 0.
Proof. destruct c; reflexivity. Qed.

Lemma terms_before_over : forall c n, (length c <= n)%nat -> terms_before c n = terms_before c (length c).
Proof.
  induction c as [|x r IH]; intros n H; [destruct n; reflexivity|].
  destruct n as [|n]; [cbn in H; lia|]. cbn [length terms_before]. cbn [length] in H. rewrite (IH n) by lia. reflexivity.
Qed.

Lemma locate_terms : forall c ln cur k o, fst (fst (locate ln cur k c o)) = ln + terms_before c o.
Proof.
  induction c as [|b r IH]; intros ln cur k o; destruct o as [|o]; cbn [locate terms_before fst]; try lia.
  destruct (b =? 10)%N; [rewrite IH; lia|]. destruct (b =? 13)%N; [|rewrite IH; lia].
  rewrite !match_lf. destruct (starts_lf r); rewrite IH; lia.
Qed.

Lemma spec_line_terms : forall c o, spec_line c o = 1 + terms_before c o.
Proof. intros. unfold spec_line. apply locate_terms. Qed.

Lemma terms_before_in_line : forall rest s, (s < line_extent rest)%nat -> terms_before rest s = 0.
Proof.
  induction rest as [|b r IH]; intros s H; [cbn in H; lia|].
  destruct s as [|s]; [reflexivity|]. cbn [terms_before]. cbn [line_extent] in H.
  destruct (b =? 10)%N; [lia|]. destruct (b =? 13)%N.
  - rewrite match_lf in *. destruct (starts_lf r) eqn:S; [|lia].
    assert (s = 0)%nat by lia. subst. destruct r; reflexivity.
  - rewrite IH by lia. reflexivity.
Qed.

Lemma terms_before_extent : forall rest, (line_extent rest < length rest)%nat ->
  terms_before rest (line_extent rest) = 1.
Proof.
  induction rest as [|b r IH]; intros H; [cbn in H; lia|].
  cbn [line_extent] in *.
  destruct (b =? 10)%N eqn:E10; [cbn [terms_before]; rewrite E10; destruct r; reflexivity|].
  destruct (b =? 13)%N eqn:E13.
  - rewrite match_lf in *. destruct (starts_lf r) eqn:S.
    + destruct (starts_lf_true _ S) as [r' ->]. cbn [terms_before]. rewrite E10, E13. cbn. destruct r'; reflexivity.
    + cbn [terms_before]. rewrite E10, E13, match_lf, S. destruct r; reflexivity.
  - cbn [terms_before]. rewrite E10, E13. cbn [length] in H. rewrite IH by lia. reflexivity.
Qed.

Lemma starts_lf_firstn : forall m r, (1 <= m)%nat -> starts_lf (firstn m r) = starts_lf r.
Proof. intros m r H. destruct m as [|m]; [lia|]. destruct r; reflexivity. Qed.

(* ---- countNewlines (the code) against terms_before (the specification) --------------------------------------- *)
Lemma countNewlines_terms : forall s, countNewlines s = terms_before s (length s).
Proof.
  unfold countNewlines. induction s as [|b r IH]; [reflexivity|].
  cbn [count_byte count_crlf length terms_before]. rewrite <- IH.
  destruct (N.eqb_spec b 10) as [->|N10]; [change (10 =? 13)%N with false; cbv iota; lia|].
  destruct (b =? 13)%N; cbv iota; [|lia]. rewrite !match_lf. destruct (starts_lf r); cbv iota; lia.
Qed.

(* position n of c separates the CR and the LF of a CR LF pair *)
Definition splits_crlf (c : list N) (n : nat) : bool :=
  match n with O => false | S m => (nth m c 0 =? 13)%N && (nth n c 0 =? 10)%N end.

Lemma starts_lf_nth : forall r, starts_lf r = (nth 0 r 0 =? 10)%N.
Proof. intros r. destruct r as [|[|q] r']; reflexivity. Qed.

Lemma terms_before_firstn : forall c n, splits_crlf c n = false ->
  terms_before (firstn n c) n = terms_before c n.
Proof.
  induction c as [|b r IH]; intros n H; [destruct n; reflexivity|].
  destruct n as [|m]; [reflexivity|]. cbn [firstn terms_before].
  assert (T : terms_before (firstn m r) m = terms_before r m).
  { apply IH. destruct m as [|m']; [reflexivity|exact H]. }
  rewrite T. destruct (b =? 10)%N; [reflexivity|]. destruct (b =? 13)%N eqn:E13; [|reflexivity].
  rewrite !match_lf. destruct m as [|m'].
  - cbn [firstn starts_lf]. cbn [splits_crlf nth] in H. rewrite E13 in H. cbn [andb] in H.
    rewrite starts_lf_nth, H. reflexivity.
  - rewrite starts_lf_firstn by lia. reflexivity.
Qed.

(* the lines the repaired code adds for a dropped chunk of n bytes *)
Lemma dropped_terms : forall c n, splits_crlf c n = false ->
  countNewlines (firstn n c) = terms_before c n.
Proof.
  intros c n H. rewrite countNewlines_terms, <- (terms_before_firstn c n H).
  symmetry. apply terms_before_over. rewrite firstn_length. lia.
Qed.

(* `if n > 0 && buf[n-1] == 13 { n-- }`: at most one byte is kept back, and the new end of the dropped bytes does
   not separate a CR from its LF — whatever follows buf in the input ([tl]), also when the byte before is another CR *)
Lemma keep_cr_ok : forall n buf, 0 <= n <= zlen buf ->
  let n' := keep_cr n buf in
  n - 1 <= n' <= n /\ 0 <= n' /\ forall tl, splits_crlf (buf ++ tl) (Z.to_nat n') = false.
Proof.
  intros n buf Hn. unfold zlen in Hn. unfold keep_cr. cbv zeta.
  destruct (Z.ltb_spec 0 n) as [P|P]; cbn [andb].
  - unfold zidx. destruct (N.eqb_spec (nth (Z.to_nat (n - 1)) buf 0%N) 13) as [C|C].
    + split; [lia|]. split; [lia|]. intros tl. unfold splits_crlf.
      destruct (Z.to_nat (n - 1)) as [|k] eqn:K; [reflexivity|].
      rewrite (app_nth1 buf tl 0%N (n := S k)) by lia. rewrite C. apply andb_false_r.
    + split; [lia|]. split; [lia|]. intros tl. unfold splits_crlf.
      replace (Z.to_nat n) with (S (Z.to_nat (n - 1))) by lia.
      rewrite (app_nth1 buf tl 0%N (n := Z.to_nat (n - 1))) by lia.
      apply N.eqb_neq in C. rewrite C. reflexivity.
  - split; [lia|]. split; [lia|]. intros. replace (Z.to_nat n) with 0%nat by lia. reflexivity.
Qed.

(* a terminator exists when something follows the first line *)
Lemma extent_lt_length : forall rest o, (line_extent rest <= o)%nat -> (o < length rest)%nat ->
  (line_extent rest < length rest)%nat.
Proof. intros. lia. Qed.

(* ---- the first line seen from inside -------------------------------------------------------------------- *)
Lemma take_line_skipn : forall rest s, (s < line_extent rest)%nat ->
  take_line (skipn s rest) = skipn s (take_line rest) /\ line_extent (skipn s rest) = (line_extent rest - s)%nat.
Proof.
  induction rest as [|b r IH]; intros s H; [cbn in H; lia|].
  destruct s as [|s]; [cbn [skipn]; split; [reflexivity|lia]|].
  cbn [line_extent] in H. cbn [skipn take_line line_extent]. unfold is_nl.
  destruct (b =? 10)%N eqn:E10; [lia|]. destruct (b =? 13)%N eqn:E13.
  - rewrite match_lf in *. destruct (starts_lf r) eqn:S; [|lia].
    assert (s = 0)%nat by lia. subst. destruct (starts_lf_true _ S) as [r' ->]. cbn. split; reflexivity.
  - cbn [orb skipn]. destruct (IH s ltac:(lia)) as [A B]. rewrite A, B. split; [reflexivity|lia].
Qed.

Lemma take_line_firstn : forall j x, take_line (firstn j x) = firstn j (take_line x).
Proof.
  induction j as [|j IH]; intros x; [reflexivity|]. destruct x as [|b r]; [reflexivity|].
  cbn [firstn take_line]. destruct (is_nl b); [reflexivity|]. cbn [firstn]. now rewrite IH.
Qed.

(* ---- locate: shifting the line counter, bound on the index ----------------------------------------------- *)
Lemma locate_ln_shift : forall c ln d cur k o,
  locate (ln + d) cur k c o = let '(l, cu, kk) := locate ln cur k c o in (l + d, cu, kk).
Proof.
  induction c as [|b r IH]; intros ln d cur k o; destruct o as [|o]; cbn [locate]; try reflexivity.
  destruct (b =? 10)%N.
  - replace (ln + d + 1) with (ln + 1 + d) by lia. apply IH.
  - destruct (b =? 13)%N; [|apply IH]. rewrite !match_lf. destruct (starts_lf r); [apply IH|].
    replace (ln + d + 1) with (ln + 1 + d) by lia. apply IH.
Qed.

Lemma locate_k_le : forall c ln cur k o, (snd (locate ln cur k c o) <= k + o)%nat.
Proof.
  induction c as [|b r IH]; intros ln cur k o; destruct o as [|o]; cbn [locate snd]; try lia.
  destruct (b =? 10)%N; [specialize (IH (ln + 1) r 0%nat o); lia|].
  destruct (b =? 13)%N; [|specialize (IH ln cur (S k) o); lia].
  rewrite match_lf. destruct (starts_lf r); [specialize (IH ln cur (S k) o); lia|].
  specialize (IH (ln + 1) r 0%nat o); lia.
Qed.

(* ---- window start ------------------------------------------------------------------------------------------ *)
Lemma locate_window : forall n rest s o ln, (length rest <= n)%nat -> (s <= o)%nat -> (o < length rest)%nat ->
  let '(L, cur, k) := locate ln rest 0 rest o in
  let '(L', cur', k') := locate 1 (skipn s rest) 0 (skipn s rest) (o - s) in
  L = ln + (L' - 1) + terms_before rest s /\
  (((s <= o - k)%nat /\ cur' = cur /\ k' = k) \/
   ((o - k < s)%nat /\ k' = (o - s)%nat /\ (k' = k - (s - (o - k)))%nat /\
    take_line cur' = skipn (s - (o - k)) (take_line cur))).
Proof.
  induction n as [|n IH]; intros rest s o ln Hn Hs Ho; [lia|].
  set (e := line_extent rest).
  destruct (Nat.lt_ge_cases o e) as [Lt|Ge].
  - (* o in the first line *)
    rewrite (locate_in_line rest) by exact Lt. cbn [Nat.add].
    destruct (take_line_skipn rest s ltac:(fold e; lia)) as [T E]. fold e in E.
    rewrite (locate_in_line (skipn s rest)) by (rewrite E; lia). cbn [Nat.add].
    rewrite terms_before_in_line by (fold e; lia).
    split; [lia|]. destruct s as [|s].
    + left. cbn [skipn]. repeat split; lia.
    + right. rewrite Nat.sub_diag, !Nat.sub_0_r. repeat split; try lia. exact T.
  - (* o after the first line *)
    assert (El : (e < length rest)%nat) by lia.
    rewrite (locate_next_line rest) by (fold e; lia). fold e.
    set (rest' := skipn e rest).
    assert (Lr : (length rest' = length rest - e)%nat) by (unfold rest'; apply skipn_length).
    assert (Ep : (1 <= e)%nat).
    { destruct rest as [|b r]; [cbn in Ho; lia|]. apply line_extent_pos. }
    destruct (Nat.le_gt_cases e s) as [Se|Se].
    + (* the window starts in a later line *)
      replace (skipn s rest) with (skipn (s - e) rest')
        by (unfold rest'; rewrite <- skipn_add; f_equal; lia).
      specialize (IH rest' (s - e)%nat (o - e)%nat (ln + 1) ltac:(lia) ltac:(lia) ltac:(lia)).
      replace (o - e - (s - e))%nat with (o - s)%nat in IH by lia.
      pose proof (locate_k_le rest' (ln + 1) rest' 0 (o - e)) as Kl.
      destruct (locate (ln + 1) rest' 0 rest' (o - e)) as [[L cur] k]. cbn [snd] in Kl.
      destruct (locate 1 (skipn (s - e) rest') 0 (skipn (s - e) rest') (o - s)) as [[L' cur'] k'].
      destruct IH as [A B]. split.
      * replace s with (e + (s - e))%nat at 1 by lia. rewrite terms_before_add.
        pose proof (terms_before_extent rest El) as Q. fold e in Q. fold rest'. rewrite Q. lia.
      * destruct B as [(B1 & B2 & B3)|(B1 & B2 & B3 & B4)]; [left|right].
        -- repeat split; try assumption; lia.
        -- replace (s - (o - k))%nat with (s - e - (o - e - k))%nat by lia.
           repeat split; try assumption; lia.
    + (* the window starts inside the first line, o is in a later one *)
      destruct (take_line_skipn rest s ltac:(fold e; lia)) as [_ E]. fold e in E.
      rewrite (locate_next_line (skipn s rest)) by (rewrite ?E, ?skipn_length; lia).
      rewrite E. replace (skipn (e - s) (skipn s rest)) with rest'
        by (unfold rest'; rewrite <- skipn_add; f_equal; lia).
      replace (o - s - (e - s))%nat with (o - e)%nat by lia.
      change (1 + 1) with (1 + 1).
      pose proof (locate_ln_shift rest' 1 ln rest' 0 (o - e)) as Sh.
      replace (1 + ln) with (ln + 1) in Sh by lia.
      pose proof (locate_ln_shift rest' 1 1 rest' 0 (o - e)) as Sh2.
      pose proof (locate_k_le rest' 1 rest' 0 (o - e)) as Kl.
      destruct (locate 1 rest' 0 rest' (o - e)) as [[L0 cur0] k0]. cbn [snd] in Kl.
      rewrite Sh, Sh2. rewrite terms_before_in_line by (fold e; lia).
      split; [lia|]. left. repeat split; lia.
Qed.

(* ---- window end --------------------------------------------------------------------------------------------- *)
Lemma locate_0 : forall c ln cur k, locate ln cur k c 0 = (ln, cur, k).
Proof. destruct c; reflexivity. Qed.

Lemma locate_firstn : forall c ln cur k m o, (o < m)%nat -> (o < length c)%nat ->
  locate ln (firstn (k + m) cur) k (firstn m c) o =
  let '(L, cu, kk) := locate ln cur k c o in (L, firstn (kk + (m - o)) cu, kk).
Proof.
  induction c as [|b r IH]; intros ln cur k m o H Hc; [cbn in Hc; lia|].
  destruct o as [|o]; [rewrite !locate_0; now rewrite Nat.sub_0_r|].
  destruct m as [|m]; [lia|]. cbn [firstn locate]. cbn [length] in Hc.
  assert (G : forall ln' cur' k', locate ln' (firstn (k' + m) cur') k' (firstn m r) o =
            let '(L, cu, kk) := locate ln' cur' k' r o in (L, firstn (kk + (m - o)) cu, kk)).
  { intros. apply IH; lia. }
  change (S m - S o)%nat with (m - o)%nat.
  destruct (b =? 10)%N; [apply (G (ln + 1) r 0%nat)|].
  destruct (b =? 13)%N.
  - rewrite !match_lf, starts_lf_firstn by lia. destruct (starts_lf r).
    + replace (k + S m)%nat with (S k + m)%nat by lia. apply G.
    + apply (G (ln + 1) r 0%nat).
  - replace (k + S m)%nat with (S k + m)%nat by lia. apply G.
Qed.

(* ---- excerpt locality ------------------------------------------------------------------------------------------ *)
Section Locality.
Variable swidth : list N -> Z.

Lemma firstn_firstn_min : forall (A : Type) a b (l : list A), firstn a (firstn b l) = firstn (Nat.min a b) l.
Proof. intros. apply firstn_firstn. Qed.

Lemma post_tail_trunc : forall l1 o1 j, (64 <= j)%nat -> post_tail swidth (firstn j l1) o1 = post_tail swidth l1 o1.
Proof.
  intros l1 o1 j H. unfold post_tail. rewrite firstn_length, firstn_firstn.
  replace (Nat.min (Nat.min 64 (Nat.min j (length l1))) j) with (Nat.min 64 (length l1)) by lia.
  reflexivity.
Qed.

Lemma skipn_firstn_swap : forall (A : Type) a j (l : list A), skipn a (firstn j l) = firstn (j - a) (skipn a l).
Proof. intros. apply skipn_firstn_comm. Qed.

(* cutting the line >= 64 bytes after the caret position changes nothing *)
Lemma post_n_trunc : forall lc k j, (k + 64 <= j)%nat -> post_n swidth (firstn j lc) k = post_n swidth lc k.
Proof.
  intros lc k j H. unfold post_n. destruct (Nat.ltb_spec 48 k) as [C|C].
  - rewrite firstn_firstn. replace (Nat.min (k - 48) j) with (k - 48)%nat by lia.
    set (X := trimLastInvalidRune (firstn (k - 48) lc)).
    assert (length X <= k - 48)%nat.
    { unfold X. etransitivity; [apply trim_length_le|]. rewrite firstn_length. lia. }
    rewrite skipn_firstn_comm. apply post_tail_trunc. lia.
  - apply post_tail_trunc. lia.
Qed.

(* dropping a prefix that ends >= 51 bytes before the caret position changes nothing *)
Lemma post_n_drop : forall lc k d, (k <= length lc)%nat -> (d + 51 <= k)%nat ->
  post_n swidth (skipn d lc) (k - d) = post_n swidth lc k.
Proof.
  intros lc k d Hk Hd. unfold post_n.
  destruct (Nat.ltb_spec 48 (k - d)) as [C|C]; [|lia]. destruct (Nat.ltb_spec 48 k) as [C'|C']; [|lia].
  replace (k - 48)%nat with (d + (k - d - 48))%nat by lia. rewrite firstn_add.
  assert (Ld : length (firstn d lc) = d) by (rewrite firstn_length; lia).
  rewrite trim_local by (rewrite firstn_length, skipn_length; lia).
  rewrite app_length, Ld.
  set (X := trimLastInvalidRune (firstn (k - d - 48) (skipn d lc))).
  rewrite skipn_add. replace (k - (d + length X))%nat with (k - d - length X)%nat by lia. reflexivity.
Qed.
End Locality.

(* ---- the offending byte is at most one byte past the line's content ------------------------------------------ *)
Lemma extent_content : forall rest, (line_extent rest <= length (take_line rest) + 2)%nat.
Proof.
  induction rest as [|b r IH]; cbn [line_extent take_line length]; [lia|]. unfold is_nl.
  destruct (b =? 10)%N; [cbn; lia|]. destruct (b =? 13)%N; cbn [orb length].
  - rewrite match_lf. destruct (starts_lf r); lia.
  - lia.
Qed.

Lemma locate_k_content : forall n rest o ln, (length rest <= n)%nat -> (o < length rest)%nat ->
  let '(L, cu, kk) := locate ln rest 0 rest o in (kk <= length (take_line cu) + 1)%nat.
Proof.
  induction n as [|n IH]; intros rest o ln Hn Ho; [lia|].
  destruct (Nat.lt_ge_cases o (line_extent rest)) as [Lt|Ge].
  - rewrite locate_in_line by exact Lt. pose proof (extent_content rest). cbn [Nat.add]. lia.
  - rewrite locate_next_line by lia.
    assert (1 <= line_extent rest)%nat.
    { destruct rest as [|b r]; [cbn in Ho; lia|]. apply line_extent_pos. }
    apply IH; rewrite skipn_length; lia.
Qed.

Lemma loop_past_end_ne : forall fuel rest pos offset ln ls,
  pos + zlen rest < offset -> (length rest < fuel)%nat -> (0 < length rest)%nat ->
  glbo_loop fuel {| ss_rest := rest; ss_offset := pos |} offset ln ls =
  let '(l, cur, k) := locate (ln + 1) rest 0 rest (length rest - 1) in (take_line cur, l, offset).
Proof. intros. rewrite loop_past_end by assumption. destruct rest; [cbn in *; lia|reflexivity]. Qed.

Lemma take_line_length : forall s, (length (take_line s) <= length s)%nat.
Proof. induction s as [|b r IH]; cbn; [lia|]. destruct (is_nl b); cbn; lia. Qed.

Lemma locate_cur_length_w : forall c ln cur k o,
  (length (snd (fst (locate ln cur k c o))) <= Nat.max (length cur) (length c))%nat.
Proof.
  induction c as [|b r IH]; intros ln cur k o; destruct o as [|o']; cbn [locate fst snd length]; try lia.
  destruct (b =? 10)%N.
  - specialize (IH (ln + 1) r 0%nat o'). lia.
  - destruct (b =? 13)%N.
    + rewrite match_lf. destruct (starts_lf r).
      * specialize (IH ln cur (S k) o'). lia.
      * specialize (IH (ln + 1) r 0%nat o'). lia.
    + specialize (IH ln cur (S k) o'). lia.
Qed.

Section WindowReports.
Variable swidth : list N -> Z.

(* the line number seen through any window that contains the offending byte *)
Lemma glbo_window_line : forall c s m o, (o < length c)%nat -> (s <= o)%nat -> (o - s < m)%nat ->
  snd (fst (getLineByOffset swidth (firstn m (skipn s c)) (Z.of_nat (o - s) + 1))) =
  spec_line c o - terms_before c s.
Proof.
  intros c s m o Ho Hs Hm. unfold getLineByOffset.
  set (x := skipn s c). assert (Lx : length x = (length c - s)%nat) by (unfold x; apply skipn_length).
  replace (Z.of_nat (o - s) + 1) with (0 + Z.of_nat (o - s) + 1) by lia.
  rewrite loop_in_range by (rewrite ?firstn_length; lia). change (0 + 1) with 1.
  pose proof (locate_firstn x 1 x 0 m (o - s) Hm ltac:(lia)) as F. cbn [Nat.add] in F. rewrite F.
  pose proof (locate_window (length c) c s o 1 (le_n _) Hs Ho) as W. fold x in W.
  unfold spec_line. destruct (locate 1 c 0 c o) as [[L cur] k].
  destruct (locate 1 x 0 x (o - s)) as [[L' cur'] k']. destruct W as [W _].
  destruct (glbo_post swidth (take_line (firstn (k' + (m - (o - s))) cur')) (Z.of_nat k' + 1)).
  cbn [fst snd]. lia.
Qed.

(* the whole report seen through a window with enough room on both sides *)
Lemma glbo_window : forall c s m o, (o < length c)%nat -> (s <= o)%nat ->
  (s = 0 \/ s + 52 <= o)%nat -> (o - s + 64 <= m)%nat ->
  getLineByOffset swidth (firstn m (skipn s c)) (Z.of_nat (o - s) + 1) =
  let '(ls, L, col) := getLineByOffset swidth c (Z.of_nat o + 1) in (ls, L - terms_before c s, col).
Proof.
  intros c s m o Ho Hs Hd Hm. unfold getLineByOffset.
  set (x := skipn s c). assert (Lx : length x = (length c - s)%nat) by (unfold x; apply skipn_length).
  replace (Z.of_nat (o - s) + 1) with (0 + Z.of_nat (o - s) + 1) by lia.
  replace (Z.of_nat o + 1) with (0 + Z.of_nat o + 1) by lia.
  rewrite !loop_in_range by (rewrite ?firstn_length; lia). change (0 + 1) with 1.
  pose proof (locate_firstn x 1 x 0 m (o - s) ltac:(lia) ltac:(lia)) as F. cbn [Nat.add] in F. rewrite F.
  pose proof (locate_window (length c) c s o 1 (le_n _) Hs Ho) as W. fold x in W.
  pose proof (locate_k_content (length c) c o 1 (le_n _) Ho) as Kc.
  pose proof (locate_k_le c 1 c 0 o) as Kl.
  destruct (locate 1 c 0 c o) as [[L cur] k]. cbn [snd] in Kl.
  destruct (locate 1 x 0 x (o - s)) as [[L' cur'] k']. destruct W as [WL W].
  rewrite take_line_firstn, !glbo_post_nat.
  set (lc := take_line cur) in *. set (lc' := take_line cur') in *.
  set (j := (k' + (m - (o - s)))%nat).
  assert (K2 : Z.to_nat (Z.min (Z.max (Z.of_nat k' + 1 - 1) 0) (zlen (firstn j lc'))) = Nat.min k' (length lc')).
  { unfold zlen. rewrite firstn_length. unfold j. lia. }
  assert (K1 : Z.to_nat (Z.min (Z.max (Z.of_nat k + 1 - 1) 0) (zlen lc)) = Nat.min k (length lc)).
  { unfold zlen. lia. }
  rewrite K1, K2. rewrite post_n_trunc by (unfold j; lia).
  assert (P : post_n swidth lc' (Nat.min k' (length lc')) = post_n swidth lc (Nat.min k (length lc))).
  { destruct W as [(W1 & W2 & W3)|(W1 & W2 & W3 & W4)].
    - unfold lc', lc. now rewrite W2, W3.
    - fold lc lc' in W4. rewrite W4. set (d := (s - (o - k))%nat) in *.
      assert (Dk : (d + 52 <= k)%nat) by lia.
      rewrite skipn_length.
      replace (Nat.min k' (length lc - d)) with (Nat.min k (length lc) - d)%nat by lia.
      apply post_n_drop; lia. }
  rewrite P. destruct (post_n swidth lc (Nat.min k (length lc))) as [ex col].
  f_equal. f_equal. lia.
Qed.

(* ---- seekable path ------------------------------------------------------------------------------------------------ *)
Lemma seek_loop_spec : forall fuel rest off line, 1 <= off <= zlen rest -> (length rest < fuel)%nat ->
  exists s : nat, Z.of_nat s < off /\
    seek_loop fuel rest off line = (skipn s rest, off - Z.of_nat s, line + terms_before rest s) /\
    off - Z.of_nat s <= 12288 /\ (s = 0%nat \/ 4096 <= off - Z.of_nat s).
Proof.
  induction fuel as [|f IH]; intros rest off line Ho Hf; [lia|].
  unfold seek_loop. cbn [seek_loop_g]. fold (seek_loop f).
  change (bufSize * 3 / 4) with 12288. change (bufSize / 4) with 4096. unfold bufSize.
  destruct (Z.ltb_spec 12288 off) as [C|C].
  - set (lim := Z.min 16384 (off - 4096)).
    assert (Ll : 8193 <= lim <= off - 4096) by (unfold lim; lia).
    unfold zlen in Ho.
    set (chunk := ztake lim rest).
    assert (Lc : zlen chunk = lim).
    { unfold chunk, zlen, ztake. rewrite firstn_length. lia. }
    unfold drop_len, dropped_lines.
    destruct (keep_cr_ok (zlen chunk) chunk ltac:(unfold zlen; lia)) as (K1 & K2 & K3).
    set (n := keep_cr (zlen chunk) chunk) in *. rewrite Lc in K1.
    destruct (Z.eqb_spec n 0) as [Z0|_]; [lia|].
    assert (Hc : ztake n chunk = firstn (Z.to_nat n) rest).
    { unfold chunk, ztake. rewrite firstn_firstn. f_equal. lia. }
    assert (Hd : countNewlines (ztake n chunk) = terms_before rest (Z.to_nat n)).
    { rewrite Hc. apply dropped_terms.
      rewrite <- (firstn_skipn (Z.to_nat lim) rest) at 1. apply K3. }
    rewrite Hd.
    destruct (IH (zdrop n rest) (off - n) (line + terms_before rest (Z.to_nat n))) as (s' & S1 & S2 & S3 & S4).
    + unfold zlen, zdrop. rewrite skipn_length. lia.
    + unfold zdrop. rewrite skipn_length. lia.
    + exists (Z.to_nat n + s')%nat. rewrite S2. split; [lia|]. split.
      * unfold zdrop. rewrite skipn_add, terms_before_add. f_equal; [f_equal; lia|lia].
      * split; [lia|]. right. lia.
  - exists 0%nat. rewrite terms_before_0. cbn [skipn]. repeat split; try lia. f_equal; [f_equal|]; lia.
Qed.

Theorem seek_window_correct : forall c E, 1 <= E <= zlen c ->
  report_of swidth (seek_report c (Some E)) = getLineByOffset swidth c E.
Proof.
  intros c E HE. unfold seek_report, seek_report_g. fold seek_loop.
  destruct (seek_loop_spec (S (length c)) c E 0 HE ltac:(lia)) as (s & S1 & S2 & S3 & S4).
  rewrite S2. unfold report_of.
  set (o := Z.to_nat (E - 1)). unfold zlen in HE.
  assert (EO : E = Z.of_nat o + 1) by (unfold o; lia).
  replace (E - Z.of_nat s) with (Z.of_nat (o - s) + 1) by lia.
  unfold ztake. set (m := Z.to_nat bufSize).
  assert (Hm : Z.of_nat m = 16384) by (unfold m, bufSize; lia).
  rewrite glbo_window; try assumption; try lia.
  rewrite EO. destruct (getLineByOffset swidth c (Z.of_nat o + 1)) as [[ls L] col]. f_equal. f_equal. lia.
Qed.

(* the property itself on the seekable path: the report is correct for the offending byte of the WHOLE input *)
Theorem seek_window_pos_ok : forall c E, 1 <= E <= zlen c ->
  pos_ok swidth c (Z.to_nat (E - 1)) (report_of swidth (seek_report c (Some E))).
Proof.
  intros c E HE. rewrite seek_window_correct by exact HE. unfold zlen in HE.
  replace E with (Z.of_nat (Z.to_nat (E - 1)) + 1) at 2 by lia. apply glbo_in_range. lia.
Qed.

(* ---- non-seekable path ---------------------------------------------------------------------------------------------- *)
Definition pinv (c : list N) (st : pstate) : Prop :=
  0 <= p_start st /\ p_rest st = skipn (Z.to_nat (p_start st)) c /\
  p_line st = terms_before c (Z.to_nat (p_start st)).

Lemma pinv_init : forall c, pinv c {| p_rest := c; p_start := 0; p_line := 0 |}.
Proof. intros c. unfold pinv. cbn [p_start p_rest p_line]. change (Z.to_nat 0) with 0%nat. rewrite terms_before_0. repeat split; lia. Qed.

Lemma pipe_step_inv : forall c st r p, pinv c st -> p_start st <= p -> p <= zlen c ->
  pinv c (pipe_step st (r, p)) /\ p_start (pipe_step st (r, p)) <= p.
Proof.
  intros c st r p (A & B & D) Hp Hc. unfold pipe_step, pipe_step_g. unfold bufSize.
  destruct (Z.leb_spec 16384 (r - p_start st)) as [G|G]; [|split; [repeat split; assumption|assumption]].
  unfold pinv, drop_len, dropped_lines. cbn [p_start p_rest p_line].
  assert (Lr : zlen (p_rest st) = zlen c - p_start st).
  { rewrite B. unfold zlen in *. rewrite skipn_length. lia. }
  destruct (keep_cr_ok (p - p_start st) (p_rest st) ltac:(lia)) as (K1 & K2 & K3).
  set (n := keep_cr (p - p_start st) (p_rest st)) in *.
  replace (Z.to_nat (p_start st + n)) with (Z.to_nat (p_start st) + Z.to_nat n)%nat by lia.
  split; [|lia]. split; [lia|]. split.
  - unfold zdrop. rewrite B, skipn_add. reflexivity.
  - unfold ztake. rewrite dropped_terms by (specialize (K3 []); now rewrite app_nil_r in K3).
    rewrite B, D, terms_before_add. reflexivity.
Qed.

Lemma pipe_fold_inv : forall c E steps st lo_r lo_p, pinv c st -> p_start st <= lo_p -> lo_p < E -> E <= zlen c ->
  steps_okb lo_r lo_p E steps = true ->
  pinv c (fold_left pipe_step steps st) /\ p_start (fold_left pipe_step steps st) < E.
Proof.
  induction steps as [|[r p] t IH]; intros st lo_r lo_p I Hs Hl HE Hk; [cbn; split; [assumption|lia]|].
  cbn [steps_okb] in Hk. repeat (apply andb_true_iff in Hk; destruct Hk as [Hk ?]).
  apply Z.leb_le in H1. apply Z.ltb_lt in H0.
  destruct (pipe_step_inv c st r p I ltac:(lia) ltac:(lia)) as [I' S'].
  cbn [fold_left]. apply (IH _ r p); assumption.
Qed.

Lemma pipe_run_inv : forall c steps rerr E, chunking_ok c steps rerr E ->
  pinv c (pipe_run c steps) /\ p_start (pipe_run c steps) < E /\ E <= rerr <= zlen c /\ 1 <= E.
Proof.
  intros c steps rerr E Hc. unfold chunking_ok, chunking_okb in Hc.
  repeat (apply andb_true_iff in Hc; destruct Hc as [Hc ?]).
  apply Z.leb_le in H, H0, H1.
  destruct (pipe_fold_inv c E steps {| p_rest := c; p_start := 0; p_line := 0 |} 0 0) as [I S];
    try assumption; try lia.
  - apply pinv_init.
  - cbn; lia.
  - unfold pipe_run, pipe_run_g. split; [exact I|]. split; [exact S|]. split; lia.
Qed.

(* for EVERY behaviour of the decoder: the offending byte is never dropped, the line number is right, the
   excerpt and caret are getLineByOffset's on the kept part of the input *)
Theorem pipe_window_kept : forall c steps rerr E,
  chunking_ok c steps rerr E ->
  let start := p_start (pipe_run c steps) in
  let '(ex, line, col) := report_of swidth (pipe_report c steps rerr (Some E)) in
  0 <= start < E /\ line = spec_line c (Z.to_nat (E - 1)) /\
  (ex, col) = (let '(ex', _, col') := getLineByOffset swidth (ztake (rerr - start) (zdrop start c)) (E - start)
               in (ex', col')).
Proof.
  intros c steps rerr E Hc start.
  destruct (pipe_run_inv c steps rerr E Hc) as ((I1 & I2 & I3) & Hs & Hr & HE). fold start in I1, I2, I3, Hs.
  unfold zlen in Hr. unfold pipe_report, pipe_report_g. fold (pipe_run c steps). fold start.
  unfold report_of. rewrite I2, I3. unfold zdrop.
  set (s := Z.to_nat start) in *. set (o := Z.to_nat (E - 1)).
  pose proof (glbo_window_line c s (Z.to_nat (rerr - start)) o ltac:(lia) ltac:(lia) ltac:(lia)) as WL.
  replace (Z.of_nat (o - s) + 1) with (E - start) in WL by lia. unfold ztake.
  destruct (getLineByOffset swidth (firstn (Z.to_nat (rerr - start)) (skipn s c)) (E - start)) as [[ex l] col].
  cbn [fst snd] in WL. split; [lia|]. split; [lia|reflexivity].
Qed.

(* ... and it is exactly the report for the whole input when the window leaves enough room: it starts at
   the beginning or >= 52 bytes before the offending byte, and >= 64 bytes after the offending byte have been
   read (or the input ends before that) *)
Theorem pipe_window_exact : forall c steps rerr E,
  chunking_ok c steps rerr E ->
  let start := p_start (pipe_run c steps) in
  (start = 0 \/ start + 52 <= E - 1) -> (E - 1 + 64 <= rerr \/ rerr = zlen c) ->
  report_of swidth (pipe_report c steps rerr (Some E)) = getLineByOffset swidth c E.
Proof.
  intros c steps rerr E Hc start Hd Hm.
  destruct (pipe_run_inv c steps rerr E Hc) as ((I1 & I2 & I3) & Hs & Hr & HE). fold start in I1, I2, I3, Hs.
  unfold zlen in Hr, Hm. unfold pipe_report, pipe_report_g. fold (pipe_run c steps). fold start.
  unfold report_of. rewrite I2, I3.
  set (s := Z.to_nat start) in *. set (o := Z.to_nat (E - 1)).
  assert (EO : E = Z.of_nat o + 1) by (unfold o; lia).
  replace (E - start) with (Z.of_nat (o - s) + 1) by lia. unfold ztake.
  set (m := Z.to_nat (rerr - start)).
  assert (W : firstn m (skipn s c) = firstn (m + (o - s + 64)) (skipn s c) \/ (o - s + 64 <= m)%nat).
  { destruct Hm as [Hm|Hm]; [right; unfold m; lia|left].
    rewrite !firstn_all2; [reflexivity| |]; rewrite skipn_length; unfold m; lia. }
  assert (G : forall m', (o - s + 64 <= m')%nat ->
     (let '(linestr, line, column) := getLineByOffset swidth (firstn m' (skipn s c)) (Z.of_nat (o - s) + 1) in
      (linestr, line + terms_before c s, column)) = getLineByOffset swidth c E).
  { intros m' Hm'. rewrite glbo_window; try assumption; try lia.
    rewrite EO. destruct (getLineByOffset swidth c (Z.of_nat o + 1)) as [[ls L] col]. f_equal. f_equal. lia. }
  destruct W as [W|W]; [rewrite W|]; apply G; lia.
Qed.

(* ---- unexpected EOF: the offending position is the end of the input -------------------------------------------- *)
(* getLineByOffset on the tail from byte s, asked for the position after the end *)
Lemma glbo_window_eof_line : forall c s, (s < length c)%nat ->
  snd (fst (getLineByOffset swidth (skipn s c) (zlen (skipn s c) + 1))) =
  spec_line c (length c - 1) - terms_before c s.
Proof.
  intros c s Hs. unfold getLineByOffset.
  set (x := skipn s c). assert (Lx : length x = (length c - s)%nat) by (unfold x; apply skipn_length).
  rewrite loop_past_end_ne by (unfold zlen; lia). change (0 + 1) with 1.
  pose proof (locate_window (length c) c s (length c - 1) 1 (le_n _) ltac:(lia) ltac:(lia)) as W. fold x in W.
  replace (length c - 1 - s)%nat with (length x - 1)%nat in W by lia.
  unfold spec_line. destruct (locate 1 c 0 c (length c - 1)) as [[L cur] k].
  destruct (locate 1 x 0 x (length x - 1)) as [[L' cur'] k']. destruct W as [W _].
  destruct (glbo_post swidth (take_line cur') (zlen x + 1)). cbn [fst snd]. lia.
Qed.

Lemma glbo_window_eof : forall c s, (s < length c)%nat -> (s = 0 \/ s + 53 <= length c)%nat ->
  getLineByOffset swidth (skipn s c) (zlen (skipn s c) + 1) =
  let '(ls, L, col) := getLineByOffset swidth c (zlen c + 1) in (ls, L - terms_before c s, col).
Proof.
  intros c s Hs Hd. unfold getLineByOffset.
  set (x := skipn s c). assert (Lx : length x = (length c - s)%nat) by (unfold x; apply skipn_length).
  rewrite !loop_past_end_ne by (unfold zlen; lia). change (0 + 1) with 1.
  set (o := (length c - 1)%nat).
  pose proof (locate_window (length c) c s o 1 (le_n _) ltac:(unfold o; lia) ltac:(unfold o; lia)) as W. fold x in W.
  pose proof (locate_k_content (length c) c o 1 (le_n _) ltac:(unfold o; lia)) as Kc.
  pose proof (locate_k_le c 1 c 0 o) as Kl.
  replace (o - s)%nat with (length x - 1)%nat in W by (unfold o; lia).
  destruct (locate 1 c 0 c o) as [[L cur] k] eqn:E1. cbn [snd] in Kl.
  destruct (locate 1 x 0 x (length x - 1)) as [[L' cur'] k'] eqn:E2. destruct W as [WL W].
  rewrite !glbo_post_nat.
  set (lc := take_line cur) in *. set (lc' := take_line cur') in *.
  pose proof (take_line_length cur') as T1. pose proof (take_line_length cur) as T2. fold lc' in T1. fold lc in T2.
  assert (Lcur' : (length lc' <= length x)%nat).
  { pose proof (locate_cur_length_w x 1 x 0 (length x - 1)) as Q. rewrite E2 in Q. cbn [fst snd] in Q. lia. }
  assert (K2 : Z.to_nat (Z.min (Z.max (zlen x + 1 - 1) 0) (zlen lc')) = length lc') by (unfold zlen in *; lia).
  assert (Lcur : (length lc <= length c)%nat).
  { pose proof (locate_cur_length_w c 1 c 0 o) as Q. rewrite E1 in Q. cbn [fst snd] in Q. lia. }
  assert (K1 : Z.to_nat (Z.min (Z.max (zlen c + 1 - 1) 0) (zlen lc)) = length lc) by (unfold zlen in *; lia).
  rewrite K1, K2.
  assert (P : post_n swidth lc' (length lc') = post_n swidth lc (length lc)).
  { destruct W as [(W1 & W2 & W3)|(W1 & W2 & W3 & W4)].
    - unfold lc', lc. now rewrite W2.
    - fold lc lc' in W4. rewrite W4. set (d := (s - (o - k))%nat) in *.
      rewrite skipn_length. apply post_n_drop; unfold o in *; lia. }
  rewrite P. destruct (post_n swidth lc (length lc)) as [ex col]. f_equal. f_equal. lia.
Qed.

Theorem seek_window_eof_correct : forall c,
  report_of swidth (seek_report c None) = getLineByOffset swidth c (zlen c + 1).
Proof.
  intros c. destruct c as [|b0 r0] eqn:Ec; [vm_compute; reflexivity|]. rewrite <- Ec in *.
  assert (Hl : 1 <= zlen c) by (rewrite Ec; unfold zlen; cbn [length]; lia).
  unfold seek_report, seek_report_g. fold seek_loop.
  destruct (seek_loop_spec (S (length c)) c (zlen c) 0 ltac:(lia) ltac:(lia)) as (s & S1 & S2 & S3 & S4).
  rewrite S2. unfold report_of. unfold zlen in *.
  assert (F : ztake bufSize (skipn s c) = skipn s c).
  { unfold ztake. apply firstn_all2. rewrite skipn_length. unfold bufSize. lia. }
  rewrite F. fold (zlen (skipn s c)).
  rewrite glbo_window_eof; try assumption; try lia.
  fold (zlen c). destruct (getLineByOffset swidth c (zlen c + 1)) as [[ls L] col]. f_equal. f_equal. lia.
Qed.

(* non-seekable: the values delivered before the truncated document consumed p_i < len c bytes *)
Definition chunking_eof_ok (c : list N) (steps : list (Z * Z)) : Prop :=
  steps_okb 0 0 (zlen c) steps && (fst (last steps (0, 0)) <=? zlen c) && (1 <=? zlen c) = true.

Theorem pipe_window_eof_kept : forall c steps, chunking_eof_ok c steps ->
  let start := p_start (pipe_run c steps) in
  let '(ex, line, col) := report_of swidth (pipe_report c steps (zlen c) None) in
  0 <= start < zlen c /\ line = spec_line c (length c - 1) /\
  (ex, col) = (let '(ex', _, col') := getLineByOffset swidth (zdrop start c) (zlen (zdrop start c) + 1)
               in (ex', col')).
Proof.
  intros c steps Hc start. unfold chunking_eof_ok in Hc.
  repeat (apply andb_true_iff in Hc; destruct Hc as [Hc ?]). apply Z.leb_le in H, H0.
  destruct (pipe_fold_inv c (zlen c) steps {| p_rest := c; p_start := 0; p_line := 0 |} 0 0) as [(I1 & I2 & I3) Hs];
    try assumption; try (cbn; lia); try apply pinv_init.
  change (fold_left pipe_step steps {| p_rest := c; p_start := 0; p_line := 0 |}) with (pipe_run c steps) in I1, I2, I3, Hs.
  fold start in I1, I2, I3, Hs.
  unfold pipe_report, pipe_report_g. fold (pipe_run c steps). fold start. unfold report_of. rewrite I2, I3. unfold zdrop.
  set (s := Z.to_nat start) in *. unfold zlen in *.
  assert (F : ztake (Z.of_nat (length c) - start) (skipn s c) = skipn s c).
  { unfold ztake. apply firstn_all2. rewrite skipn_length. lia. }
  rewrite F. fold (zlen (skipn s c)).
  pose proof (glbo_window_eof_line c s ltac:(lia)) as WL.
  destruct (getLineByOffset swidth (skipn s c) (zlen (skipn s c) + 1)) as [[ex l] col].
  cbn [fst snd] in WL. split; [lia|]. split; [lia|reflexivity].
Qed.

Theorem pipe_window_eof_exact : forall c steps, chunking_eof_ok c steps ->
  let start := p_start (pipe_run c steps) in
  (start = 0 \/ start + 53 <= zlen c) ->
  report_of swidth (pipe_report c steps (zlen c) None) = getLineByOffset swidth c (zlen c + 1).
Proof.
  intros c steps Hc start Hd. unfold chunking_eof_ok in Hc.
  repeat (apply andb_true_iff in Hc; destruct Hc as [Hc ?]). apply Z.leb_le in H, H0.
  destruct (pipe_fold_inv c (zlen c) steps {| p_rest := c; p_start := 0; p_line := 0 |} 0 0) as [(I1 & I2 & I3) Hs];
    try assumption; try (cbn; lia); try apply pinv_init.
  change (fold_left pipe_step steps {| p_rest := c; p_start := 0; p_line := 0 |}) with (pipe_run c steps) in I1, I2, I3, Hs.
  fold start in I1, I2, I3, Hs.
  unfold pipe_report, pipe_report_g. fold (pipe_run c steps). fold start. unfold report_of. rewrite I2, I3.
  set (s := Z.to_nat start) in *. unfold zlen in *.
  assert (F : ztake (Z.of_nat (length c) - start) (skipn s c) = skipn s c).
  { unfold ztake. apply firstn_all2. rewrite skipn_length. lia. }
  rewrite F. fold (zlen (skipn s c)).
  rewrite glbo_window_eof; try assumption; try lia.
  fold (zlen c). destruct (getLineByOffset swidth c (zlen c + 1)) as [[ls L] col]. f_equal. f_equal. lia.
Qed.
End WindowReports.
