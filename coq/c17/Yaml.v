(* C17, YAML: go-yaml (external) reports the position of an error as yaml_mark_t{index, line, column}; its
   scanner advances index and column once per CHARACTER (scannerc.go skip: mark.index++, buffer_pos += width),
   so ParserError.Index / UnmarshalError.Index is a 0-based character index into the decoded text.
   gojq (cli/error.go yamlParseError.Error) passes Index+1 to getLineByOffset, i.e. treats it as a 0-based BYTE
   offset.  [char_offset s n] is the byte offset of character number n (characters as Go's range loop decodes
   them).  Definitions only. *)
From Coq Require Import List ZArith NArith Bool.
From Verif Require Import c17.ErrPos.
Import ListNotations.

Fixpoint char_offset_aux (fuel : nat) (s : list N) (n : nat) : nat :=
  match fuel, n, s with
  | S f, S n', _ :: _ =>
      let w := Z.to_nat (Z.max (snd (decode_rune s)) 1) in
      w + char_offset_aux f (skipn w s) n'
  | _, _, _ => 0
  end.
Definition char_offset (s : list N) (n : nat) : nat := char_offset_aux (length s) s n.

Definition is_ascii (b : N) : bool := (b <? 128)%N.
