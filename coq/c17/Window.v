(* C17 model, part 2: cli/inputs.go — which bytes of the input are handed to jsonParseError as
   [contents], with which base line and rebased offset.  Definitions only.

   Non-seekable input (inputReader with io.TeeReader into buf; jsonInputIter.Next):
     every byte the decoder reads is appended to buf; after each successfully decoded value
       if buf.Len() >= 16*1024 { i.offset += buf.Len(); i.line += count(buf, '\n'); buf.Reset() }
     on a *json.SyntaxError:  e.Offset -= i.offset; contents = buf.String(); line base = i.line
     on io.ErrUnexpectedEOF:  contents = buf.String(); Error() uses len(contents)+1.
   The decoder's read-ahead is NOT modelled: the number of bytes it had read when a value was
   delivered is a parameter (the list [rs], any values the harness observed / any values at all in
   the theorems), see Run.v and props/C17.v.

   Seekable input (getContents with offset/line pointers): the re-reading loop
       for *offset > bufSize*3/4 { n = copy(min(bufSize, *offset-bufSize/4)); *offset -= n;
                                   *line += count('\n'); if n == 0 break }
       contents = next bufSize bytes. *)
From Coq Require Import List ZArith NArith Bool.
From Verif Require Import common.Sexp c17.ErrPos c17.Spec.
Import ListNotations.
Open Scope Z_scope.

Definition bufSize : Z := 16384.

(* ---- non-seekable ----------------------------------------------------------------------------- *)
Record pstate := { p_rest : list N;   (* the input from buf[0] on *)
                   p_start : Z;       (* i.offset = absolute index of buf[0] *)
                   p_line : Z }.      (* i.line *)

(* after a delivered value, the decoder having read r bytes in total: buf.Len() = r - i.offset *)
Definition pipe_step (st : pstate) (r : Z) : pstate :=
  let n := r - p_start st in
  if bufSize <=? n then
    {| p_rest := zdrop n (p_rest st); p_start := p_start st + n;
       p_line := p_line st + count_lf (ztake n (p_rest st)) |}
  else st.

Definition pipe_run (c : list N) (rs : list Z) : pstate :=
  fold_left pipe_step rs {| p_rest := c; p_start := 0; p_line := 0 |}.

(* chunks = rs ++ [rerr]; e = Some E (SyntaxError, absolute 1-based offset) | None (ErrUnexpectedEOF) *)
Definition pipe_report (c : list N) (chunks : list Z) (e : option Z) : list N * Z * json_err :=
  let rs := removelast chunks in
  let rerr := last chunks 0 in
  let st := pipe_run c rs in
  let contents := ztake (rerr - p_start st) (p_rest st) in
  (contents, p_line st, match e with Some E => JSyntax (E - p_start st) | None => JUnexpectedEOF end).

(* ---- seekable ----------------------------------------------------------------------------------- *)
Fixpoint seek_loop (fuel : nat) (rest : list N) (offset line : Z) : list N * Z * Z :=
  match fuel with
  | O => (rest, offset, line)
  | S f =>
      if bufSize * 3 / 4 <? offset then
        let lim := Z.min bufSize (offset - bufSize / 4) in
        let chunk := ztake lim rest in
        let n := zlen chunk in
        if n =? 0 then (zdrop lim rest, offset - n, line + count_lf chunk)
        else seek_loop f (zdrop lim rest) (offset - n) (line + count_lf chunk)
      else (rest, offset, line)
  end.

(* e = Some E: *offset = e.Offset (i.offset is 0: buf == nil, no resets); None: pos = file size *)
Definition seek_report (c : list N) (e : option Z) : list N * Z * json_err :=
  let off0 := match e with Some E => E | None => zlen c end in
  let '(rest, off, line) := seek_loop (S (List.length c)) c off0 0 in
  (ztake bufSize rest, line, match e with Some _ => JSyntax off | None => JUnexpectedEOF end).

(* ---- what the command reports (excerpt, line, column) --------------------------------------------- *)
Section Width.
Variable swidth : list N -> Z.
Definition report_of (r : list N * Z * json_err) : list N * Z * Z :=
  let '(contents, errline, je) := r in
  let offset := match je with JSyntax o => o | JUnexpectedEOF => zlen contents + 1 | JOther => 0 end in
  let '(linestr, line, column) := getLineByOffset swidth contents offset in
  (linestr, line + errline, column).
End Width.

(* ---- explanations of a wrong report (used only to name known families) ---------------------------- *)
Fixpoint count_lone_cr (c : list N) (n : nat) : Z :=
  match n, c with
  | O, _ => 0
  | _, [] => 0
  | S n', b :: r =>
      (if (b =? 13)%N then match r with 10%N :: _ => 0 | _ => 1 end else 0) + count_lone_cr r n'
  end.

Definition pipe_discarded (c : list N) (chunks : list Z) : Z := p_start (pipe_run c (removelast chunks)).
Definition seek_discarded (c : list N) (e : option Z) : Z :=
  let off0 := match e with Some E => E | None => zlen c end in
  let '(_, off, _) := seek_loop (S (List.length c)) c off0 0 in off0 - off.

(* ---- the read-ahead of the decoder, universally quantified ------------------------------------------
   ends = ends of the valid documents preceding the faulty one (increasing byte counts);
   rs   = bytes the decoder had read when it delivered each of them: at least the document (r_i >= e_i),
          otherwise ARBITRARY (monotone, within the input);
   rerr = bytes read when it reported the error at 1-based offset E (the offending byte was read). *)
Fixpoint increasing (lo : Z) (l : list Z) : bool :=
  match l with [] => true | x :: r => (lo <=? x) && increasing x r end.
Fixpoint all_le (a b : list Z) : bool :=
  match a, b with
  | [], [] => true
  | x :: a', y :: b' => (x <=? y) && all_le a' b'
  | _, _ => false
  end.
Definition chunking_okb (c : list N) (ends rs : list Z) (rerr E : Z) : bool :=
  increasing 1 ends && increasing 0 rs && all_le ends rs
  && (last ends 0 <? E) && (last rs 0 <=? rerr) && (E <=? rerr) && (rerr <=? zlen c) && (1 <=? E).
Definition chunking_ok (c : list N) (ends rs : list Z) (rerr E : Z) : Prop :=
  chunking_okb c ends rs rerr E = true.
