(* C17 model, part 2: cli/inputs.go — which bytes of the input are handed to jsonParseError as
   [contents], with which base line and rebased offset.  Definitions only.

   Non-seekable input (inputReader with io.TeeReader into buf; jsonInputIter.Next), CURRENT code:
     every byte the decoder reads is appended to buf; after each successfully delivered value
       if buf.Len() >= 16*1024 {
         n := int(i.pos() - i.offset)                       // i.pos = dec.InputOffset: consumed bytes
         i.line += bytes.Count(buf.Next(n), []byte{'\n'})    // drop what was consumed, keep the read-ahead
         i.offset += int64(n)
       }
     on a *json.SyntaxError:  e.Offset -= i.offset; contents = buf.String(); line base = i.line
     on io.ErrUnexpectedEOF:  contents = buf.String(); Error() uses len(contents)+1.
   The decoder is NOT modelled: for every delivered value the number of bytes it had read (r) and its
   position (p = InputOffset) are parameters — observed by the harness in the correspondence, universally
   quantified (any read-ahead r >= p) in the theorems.
   [old_pipe_step] is the arithmetic before commit e216f69 (i.offset += buf.Len(); buf.Reset()), kept for
   the regression example D7.

   Seekable input (getContents with offset/line pointers): the re-reading loop
       for *offset > bufSize*3/4 { n = copy(min(bufSize, *offset-bufSize/4));
                                   if n > 0 && buf[n-1] == '\r' { n--; Seek(-1, SeekCurrent) }
                                   *offset -= n; *line += countNewlines(buf[:n]); if n == 0 break }
       contents = next bufSize bytes.

   COUNTING OF THE DROPPED BYTES.  Every definition takes a flag [crfix]:
     crfix = true   the code after the repair of finding "cr-window":
                      countNewlines(b) = Count(b,"\n") + Count(b,"\r") - Count(b,"\r\n")
                    and a dropped chunk never ends with '\r' (both sites: `if n > 0 && buf[n-1] == '\r' { n-- }`,
                    the CR stays in the window, so a CR LF pair is never split between dropped bytes and what follows);
     crfix = false  the code before it: bytes.Count(dropped, "\n"), n as computed.
   The unsuffixed names ([pipe_step], [seek_loop], [pipe_report], [seek_report]) are the crfix = true instances and
   are what the theorems of props/C17.v are about; the crfix = false instances ([lf_pipe_report], [lf_seek_report])
   are kept for the regression Examples and for running the correspondence against a tree without the repair. *)
From Coq Require Import List ZArith NArith Bool.
From Verif Require Import common.Sexp c17.ErrPos c17.Spec.
Import ListNotations.
Open Scope Z_scope.

Definition bufSize : Z := 16384.

(* ---- counting the dropped bytes ------------------------------------------------------------------ *)
(* bytes.Count(b, []byte{x}) *)
Fixpoint count_byte (x : N) (s : list N) : Z :=
  match s with [] => 0 | b :: r => (if (b =? x)%N then 1 else 0) + count_byte x r end.
(* bytes.Count(b, "\r\n") (occurrences cannot overlap) *)
Fixpoint count_crlf (s : list N) : Z :=
  match s with
  | [] => 0
  | b :: r => (if (b =? 13)%N then match r with 10%N :: _ => 1 | _ => 0 end else 0) + count_crlf r
  end.
Definition countNewlines (b : list N) : Z := count_byte 10 b + count_byte 13 b - count_crlf b.

(* if n > 0 && buf.Bytes()[n-1] == '\r' { n-- } *)
Definition keep_cr (n : Z) (buf : list N) : Z :=
  if (0 <? n) && (zidx buf (n - 1) =? 13)%N then n - 1 else n.

Definition drop_len (crfix : bool) (n : Z) (buf : list N) : Z := if crfix then keep_cr n buf else n.
Definition dropped_lines (crfix : bool) (chunk : list N) : Z := if crfix then countNewlines chunk else count_lf chunk.

(* ---- non-seekable ----------------------------------------------------------------------------- *)
Record pstate := { p_rest : list N;   (* the input from buf's read position on *)
                   p_start : Z;       (* i.offset = absolute index of the first byte of buf *)
                   p_line : Z }.      (* i.line *)

(* after a delivered value: the decoder has read r bytes in total (buf.Len() = r - i.offset) and
   consumed p of them (dec.InputOffset); buf.Bytes() is a prefix of p_rest of length r - i.offset >= n *)
Definition pipe_step_g (crfix : bool) (st : pstate) (rp : Z * Z) : pstate :=
  let '(r, p) := rp in
  if bufSize <=? r - p_start st then
    let n := drop_len crfix (p - p_start st) (p_rest st) in
    {| p_rest := zdrop n (p_rest st); p_start := p_start st + n;
       p_line := p_line st + dropped_lines crfix (ztake n (p_rest st)) |}
  else st.

Definition pipe_run_g (crfix : bool) (c : list N) (steps : list (Z * Z)) : pstate :=
  fold_left (pipe_step_g crfix) steps {| p_rest := c; p_start := 0; p_line := 0 |}.

(* e = Some E: SyntaxError with (absolute) offset E as reported by encoding/json; None: ErrUnexpectedEOF.
   rerr = bytes read when the error was reported. *)
Definition pipe_report_g (crfix : bool) (c : list N) (steps : list (Z * Z)) (rerr : Z) (e : option Z)
  : list N * Z * json_err :=
  let st := pipe_run_g crfix c steps in
  let contents := ztake (rerr - p_start st) (p_rest st) in
  (contents, p_line st, match e with Some E => JSyntax (E - p_start st) | None => JUnexpectedEOF end).

Definition pipe_step := pipe_step_g true.
Definition pipe_run := pipe_run_g true.
Definition pipe_report := pipe_report_g true.
Definition lf_pipe_report := pipe_report_g false.

(* the arithmetic before the repair: the whole buffer, read-ahead included, was dropped *)
Definition old_pipe_step (st : pstate) (rp : Z * Z) : pstate :=
  let '(r, _) := rp in
  let n := r - p_start st in
  if bufSize <=? n then
    {| p_rest := zdrop n (p_rest st); p_start := p_start st + n;
       p_line := p_line st + count_lf (ztake n (p_rest st)) |}
  else st.
Definition old_pipe_report (c : list N) (steps : list (Z * Z)) (rerr : Z) (e : option Z) : list N * Z * json_err :=
  let st := fold_left old_pipe_step steps {| p_rest := c; p_start := 0; p_line := 0 |} in
  (ztake (rerr - p_start st) (p_rest st), p_line st,
   match e with Some E => JSyntax (E - p_start st) | None => JUnexpectedEOF end).

(* ---- seekable ----------------------------------------------------------------------------------- *)
Fixpoint seek_loop_g (crfix : bool) (fuel : nat) (rest : list N) (offset line : Z) : list N * Z * Z :=
  match fuel with
  | O => (rest, offset, line)
  | S f =>
      if bufSize * 3 / 4 <? offset then
        let lim := Z.min bufSize (offset - bufSize / 4) in
        let chunk := ztake lim rest in                      (* io.Copy(&buf, io.LimitReader(ir.rs, lim)) *)
        let n := drop_len crfix (zlen chunk) chunk in       (* n--; Seek(-1, SeekCurrent): the file position is n *)
        let line' := line + dropped_lines crfix (ztake n chunk) in
        if n =? 0 then (zdrop n rest, offset - n, line')
        else seek_loop_g crfix f (zdrop n rest) (offset - n) line'
      else (rest, offset, line)
  end.

(* e = Some E: *offset = e.Offset (i.offset is 0: buf == nil, no trimming); None: pos = file size *)
Definition seek_report_g (crfix : bool) (c : list N) (e : option Z) : list N * Z * json_err :=
  let off0 := match e with Some E => E | None => zlen c end in
  let '(rest, off, line) := seek_loop_g crfix (S (List.length c)) c off0 0 in
  (ztake bufSize rest, line, match e with Some _ => JSyntax off | None => JUnexpectedEOF end).

Definition seek_loop := seek_loop_g true.
Definition seek_report := seek_report_g true.
Definition lf_seek_report := seek_report_g false.

(* ---- what the command reports (excerpt, line, column) --------------------------------------------- *)
Section Width.
Variable swidth : list N -> Z.
Definition report_of (r : list N * Z * json_err) : list N * Z * Z :=
  let '(contents, errline, je) := r in
  let offset := match je with JSyntax o => o | JUnexpectedEOF => zlen contents + 1 | JOther => 0 end in
  let '(linestr, line, column) := getLineByOffset swidth contents offset in
  (linestr, line + errline, column).
End Width.

(* ---- explanations of a wrong report (used only to name known families) ---------------------------- *)
Fixpoint count_lone_cr (c : list N) (n : nat) : Z :=
  match n, c with
  | O, _ => 0
  | _, [] => 0
  | S n', b :: r =>
      (if (b =? 13)%N then match r with 10%N :: _ => 0 | _ => 1 end else 0) + count_lone_cr r n'
  end.

Definition pipe_discarded (crfix : bool) (c : list N) (steps : list (Z * Z)) : Z := p_start (pipe_run_g crfix c steps).
Definition seek_discarded (crfix : bool) (c : list N) (e : option Z) : Z :=
  let off0 := match e with Some E => E | None => zlen c end in
  let '(_, off, _) := seek_loop_g crfix (S (List.length c)) c off0 0 in off0 - off.

(* ---- the decoder's behaviour, universally quantified ------------------------------------------------
   steps = (r_i, p_i) for the values delivered before the error: p_i = bytes consumed (nondecreasing,
           all before the offending byte: p_i < E), r_i = bytes read, at least p_i, otherwise ARBITRARY
           (nondecreasing, within the input);
   rerr  = bytes read when the error at 1-based offset E was reported (the offending byte was read). *)
Fixpoint steps_okb (lo_r lo_p E : Z) (l : list (Z * Z)) : bool :=
  match l with
  | [] => true
  | (r, p) :: t => (lo_r <=? r) && (lo_p <=? p) && (p <=? r) && (p <? E) && steps_okb r p E t
  end.
Definition chunking_okb (c : list N) (steps : list (Z * Z)) (rerr E : Z) : bool :=
  steps_okb 0 0 E steps && (fst (last steps (0, 0)) <=? rerr) && (E <=? rerr) && (rerr <=? zlen c) && (1 <=? E).
Definition chunking_ok (c : list N) (steps : list (Z * Z)) (rerr E : Z) : Prop :=
  chunking_okb c steps rerr E = true.
