(* C18 proofs, part 2b: static visibility INCLUDING data variables, for module trees in which no included
   module brings data imports (where the code and the lexical reading are known to differ: finding 2). *)
From Coq Require Import List NArith Bool Lia Arith.
From Verif Require Import c18.ModModel c18.ModSpec c18.ModProofs.
Import ListNotations.
Open Scope N_scope.

(* closed, with data variables allowed *)
Fixpoint closedv (d : desc) : Prop :=
  match d with
  | DUnbound => False
  | DSelf _ => True
  | DVar _ => True
  | DFun _ cs => (fix all (l : list desc) : Prop := match l with [] => True | x :: r => closedv x /\ all r end) cs
  end.

Lemma closedv_fun : forall id cs, closedv (DFun id cs) <-> Forall closedv cs.
Proof.
  intros id cs. cbn. induction cs as [| c r IH]; split; intro H.
  - constructor.
  - exact I.
  - destruct H as [H1 H2]. constructor; [exact H1 | now apply IH].
  - inversion H; subst. split; [assumption | now apply IH].
Qed.

(* an included text brings no data import (directly or through its own includes) *)
Fixpoint nodata (m : module) : Prop :=
  match m with Mod is _ => nodata_imports is end
with nodata_imports (is : imports) : Prop :=
  match is with INil => True | ICons i r => nodata_import i /\ nodata_imports r end
with nodata_import (i : import) : Prop :=
  match i with Include m => nodata m | ImportAs _ _ => True | ImportData _ _ => False end.

(* every include anywhere in the tree targets such a text *)
Fixpoint wfv (m : module) : Prop :=
  match m with Mod is _ => wfv_imports is end
with wfv_imports (is : imports) : Prop :=
  match is with INil => True | ICons i r => wfv_import i /\ wfv_imports r end
with wfv_import (i : import) : Prop :=
  match i with Include m => nodata m /\ wfv m | ImportAs _ m => wfv m | ImportData _ _ => True end.

Lemma nodata_spec : (forall m, nodata m -> forall fs vs, snd (spec_module m fs vs) = [])
  /\ (forall is, nodata_imports is -> forall fs vs, snd (spec_imports is fs vs) = [])
  /\ (forall i, nodata_import i -> forall fs vs, snd (spec_import i fs vs) = []).
Proof.
  apply module_mutind.
  - intros is IH ds H fs vs. cbn in *. specialize (IH H fs vs). destruct (spec_imports is fs vs). exact IH.
  - reflexivity.
  - intros i IHi r IHr [Hi Hr] fs vs. cbn [spec_imports].
    specialize (IHi Hi fs vs). destruct (spec_import i fs vs) as [f1 v1]. cbn in IHi. subst v1.
    specialize (IHr Hr (fs ++ f1) (vs ++ [])). destruct (spec_imports r (fs ++ f1) (vs ++ [])) as [f2 v2].
    cbn in *. now subst.
  - intros m IH H fs vs. cbn in *. now apply IH.
  - reflexivity.
  - intros a id [].
Qed.

Definition vpair (v : ventry) : N * N := (valias v, vid v).

Definition agreev (s i : fentry) : Prop :=
  fq s = fq i /\ fname s = fname i /\ far s = far i /\ (closedv (fdesc s) -> fdesc i = fdesc s).

Lemma agreev_key : forall s i q n ar, agreev s i -> key_match q n ar s = key_match q n ar i.
Proof. intros s i q n ar (A & B & C & _). unfold key_match. now rewrite A, B, C. Qed.

Definition acc_relv (accs acci : option fentry) : Prop :=
  match accs with Some s => exists i, acci = Some i /\ agreev s i | None => True end.

Lemma lastmatch_agreev : forall Fs F', Forall2 agreev Fs F' -> forall p accs acci,
  (forall s i, agreev s i -> p s = p i) -> acc_relv accs acci ->
  acc_relv (lastmatch p Fs accs) (lastmatch p F' acci).
Proof.
  unfold lastmatch. induction 1 as [| s i Fs F' Hsi HF IH]; intros p accs acci Hp R; cbn; [exact R |].
  rewrite <- (Hp s i Hsi). destruct (p s); apply IH; auto. exists i. auto.
Qed.

Lemma lookup_agreev : forall Fs F' O q n ar ds, Forall2 agreev Fs F' ->
  lookup_f Fs q n ar = Some ds -> closedv ds -> lookup_f (O ++ F') q n ar = Some ds.
Proof.
  intros Fs F' O q n ar ds HF H Hc. unfold lookup_f in *.
  set (p := key_match (qlist q) n ar) in *.
  assert (E1 : find p (rev Fs) = lastmatch p Fs None) by (rewrite lastmatch_find; destruct (find p (rev Fs)); reflexivity).
  assert (E2 : find p (rev (O ++ F')) = lastmatch p F' (find p (rev O))).
  { rewrite lastmatch_find, rev_app_distr, find_app'. reflexivity. }
  rewrite E1 in H. rewrite E2.
  generalize (lastmatch_agreev Fs F' HF p None (find p (rev O)) (fun s i A => agreev_key s i _ _ _ A) I).
  destruct (lastmatch p Fs None) as [s |]; [| discriminate]. cbn in H. inversion H; subst.
  intros [i [-> (_ & _ & _ & Hd)]]. cbn. f_equal. now apply Hd.
Qed.

(* variables: the code's table is outer ++ local, the local part is the specification's list *)
Lemma lookup_v_local : forall OV V' Vs a id, map vpair V' = Vs ->
  slookup_v Vs a = Some id -> lookup_v (OV ++ V') a = Some id.
Proof.
  intros OV V' Vs a id <- H. unfold slookup_v in H. rewrite last_opt_filter in H.
  unfold lookup_v. rewrite rev_app_distr, find_app'.
  assert (E : find (fun p : N * N => fst p =? a) (rev (map vpair V'))
              = option_map vpair (find (fun v => valias v =? a) (rev V'))).
  { rewrite <- map_rev. induction (rev V') as [| v l IH]; [reflexivity |]. cbn.
    destruct (valias v =? a); [reflexivity | exact IH]. }
  rewrite E in H. destruct (find (fun v => valias v =? a) (rev V')) as [v |]; [| discriminate].
  cbn in *. now inversion H.
Qed.

Lemma resolve_agreev : forall Fs F' O vs OV V' c, Forall2 agreev Fs F' -> map vpair V' = vs ->
  closedv (sresolve Fs vs c) -> resolve (O ++ F') (OV ++ V') c = sresolve Fs vs c.
Proof.
  intros Fs F' O vs OV V' c HF HV Hc. destruct c as [q n ar | a b]; cbn in *.
  - rewrite slookup_f_eq in *. destruct (lookup_f Fs q n ar) as [ds |] eqn:L; [| contradiction].
    now rewrite (lookup_agreev Fs F' O q n ar ds HF L Hc).
  - destruct (slookup_v vs a) as [id |] eqn:L; [| contradiction].
    now rewrite (lookup_v_local OV V' vs a id HV L).
Qed.

Lemma agreev_self : forall d, agreev (self_entry d) (self_entry d).
Proof. intro d. repeat split. Qed.

Lemma defs_agreev : forall ds Fs F' O vs OV V', Forall2 agreev Fs F' -> map vpair V' = vs ->
  Forall2 agreev (spec_defs ds Fs vs) (impl_defs ds (O ++ F') (OV ++ V')).
Proof.
  induction ds as [| d r IH]; intros Fs F' O vs OV V' HF HV; cbn; [constructor |].
  assert (Ha : agreev (spec_def Fs vs d) (impl_def_entry (O ++ F') (OV ++ V') d)).
  { repeat split. cbn [fdesc spec_def impl_def_entry]. intro Hc. apply closedv_fun in Hc. f_equal.
    rewrite <- app_assoc.
    assert (HF' : Forall2 agreev (Fs ++ [self_entry d]) (F' ++ [self_entry d])).
    { apply Forall2_app; [exact HF | constructor; [apply agreev_self | constructor]]. }
    induction (d_calls d) as [| c cs IHc]; [reflexivity |]. cbn in *. inversion Hc; subst. f_equal.
    - now apply resolve_agreev.
    - now apply IHc. }
  constructor; [exact Ha |].
  rewrite <- app_assoc. apply IH; [| exact HV]. apply Forall2_app; [exact HF | constructor; [exact Ha | constructor]].
Qed.

Lemma agreev_prefix : forall a X Xs, Forall2 agreev Xs X ->
  Forall2 agreev (map (qualify a) Xs) (map (add_prefix (Some a)) X).
Proof.
  induction 1 as [| s i Xs X (A & B & C & E) H IH]; cbn; constructor; [| exact IH].
  repeat split; cbn; auto. now rewrite A.
Qed.

Definition Q_module (m : module) : Prop :=
  wfv m -> forall alias st Fs Vs O F' OV V', funcs st = O ++ F' -> Forall2 agreev Fs F' ->
    vars st = OV ++ V' -> map vpair V' = Vs ->
    exists X, impl_module m alias st
              = {| funcs := funcs st ++ map (add_prefix alias) X; vars := vars st; depth := depth st |}
              /\ Forall2 agreev (fst (spec_module m Fs Vs)) X.
Definition Q_imports (is : imports) : Prop :=
  wfv_imports is -> forall st Fs Vs O F' OV V', funcs st = O ++ F' -> Forall2 agreev Fs F' ->
    vars st = OV ++ V' -> map vpair V' = Vs ->
    exists X VX, impl_imports is st
                 = {| funcs := funcs st ++ X; vars := vars st ++ VX; depth := depth st |}
                 /\ Forall2 agreev (fst (spec_imports is Fs Vs)) X
                 /\ map vpair VX = snd (spec_imports is Fs Vs).
Definition Q_import (i : import) : Prop :=
  wfv_import i -> forall st Fs Vs O F' OV V', funcs st = O ++ F' -> Forall2 agreev Fs F' ->
    vars st = OV ++ V' -> map vpair V' = Vs ->
    exists X VX, impl_import i st
                 = {| funcs := funcs st ++ X; vars := vars st ++ VX; depth := depth st |}
                 /\ Forall2 agreev (fst (spec_import i Fs Vs)) X
                 /\ map vpair VX = snd (spec_import i Fs Vs).

Lemma surgeryv : (forall m, Q_module m) /\ (forall is, Q_imports is) /\ (forall i, Q_import i).
Proof.
  apply module_mutind.
  - (* Mod *)
    intros is IHis ds W alias st Fs Vs O F' OV V' Hst HF Hv HV. cbn in W.
    destruct (IHis W {| funcs := funcs st; vars := vars st; depth := S (depth st) |} Fs Vs O F' OV V' Hst HF Hv HV)
      as (X1 & VX1 & E1 & A1 & B1).
    cbn [funcs vars depth] in E1.
    exists (X1 ++ impl_defs ds (funcs st ++ X1) (vars st ++ VX1)). split.
    + cbn [impl_module]. rewrite E1, fold_compile_def. cbn [funcs vars depth].
      rewrite <- app_assoc.
      rewrite firstn_app, Nat.sub_diag, firstn_all, firstn_O, app_nil_r.
      rewrite skipn_app, Nat.sub_diag, skipn_all, skipn_O. cbn [app].
      rewrite firstn_app, Nat.sub_diag, firstn_all, firstn_O, app_nil_r.
      reflexivity.
    + cbn [spec_module]. destruct (spec_imports is Fs Vs) as [f1 v1] eqn:Es. cbn [fst snd] in *.
      apply Forall2_app; [exact A1 |].
      rewrite Hst, Hv, <- !app_assoc. apply defs_agreev; [now apply Forall2_app |].
      rewrite map_app. now rewrite HV, B1.
  - (* INil *)
    intros _ st Fs Vs O F' OV V' Hst HF Hv HV. exists [], []. split; [| split; [constructor | reflexivity]].
    cbn. rewrite !app_nil_r. now destruct st.
  - (* ICons *)
    intros i IHi r IHr [Wi Wr] st Fs Vs O F' OV V' Hst HF Hv HV.
    destruct (IHi Wi st Fs Vs O F' OV V' Hst HF Hv HV) as (X1 & VX1 & E1 & A1 & B1).
    cbn [spec_imports]. destruct (spec_import i Fs Vs) as [f1 v1] eqn:Es1. cbn [fst snd] in A1, B1.
    destruct (spec_imports r (Fs ++ f1) (Vs ++ v1)) as [f2 v2] eqn:Es2.
    destruct (IHr Wr {| funcs := funcs st ++ X1; vars := vars st ++ VX1; depth := depth st |}
                (Fs ++ f1) (Vs ++ v1) O (F' ++ X1) OV (V' ++ VX1)) as (X2 & VX2 & E2 & A2 & B2).
    { cbn. rewrite Hst. now rewrite app_assoc. }
    { now apply Forall2_app. }
    { cbn. rewrite Hv. now rewrite app_assoc. }
    { rewrite map_app. now rewrite HV, B1. }
    rewrite Es2 in A2, B2. cbn [fst snd funcs vars depth] in *.
    exists (X1 ++ X2), (VX1 ++ VX2). split; [| split].
    + cbn [impl_imports]. rewrite E1, E2. now rewrite <- !app_assoc.
    + now apply Forall2_app.
    + rewrite map_app. now rewrite B1, B2.
  - (* Include: the included text brings no data, so dropping its variables changes nothing *)
    intros m IHm [Nd W] st Fs Vs O F' OV V' Hst HF Hv HV.
    destruct (IHm W None st Fs Vs O F' OV V' Hst HF Hv HV) as (X & E & A).
    exists X, []. split; [| split; [exact A |]].
    + cbn [impl_import]. rewrite E, map_add_prefix_none, app_nil_r. reflexivity.
    + cbn [spec_import]. destruct nodata_spec as (H & _ & _). now rewrite (H m Nd).
  - (* ImportAs *)
    intros a m IHm W st Fs Vs O F' OV V' Hst HF Hv HV. cbn in W.
    destruct (IHm W (Some a) st [] [] (funcs st) [] (vars st) []) as (X & E & A);
      [now rewrite app_nil_r | constructor | now rewrite app_nil_r | reflexivity |].
    exists (map (add_prefix (Some a)) X), []. split; [| split].
    + cbn [impl_import]. rewrite E, app_nil_r. reflexivity.
    + cbn [spec_import fst]. now apply agreev_prefix.
    + reflexivity.
  - (* ImportData *)
    intros a id _ st Fs Vs O F' OV V' Hst HF Hv HV.
    exists [], [{| valias := a; vdepth := depth st; vid := id |}]. split; [| split; [constructor | reflexivity]].
    cbn. now rewrite app_nil_r.
Qed.

(* T1': for EVERY module tree in which included texts bring no data imports: whenever the specification binds
   a call of the main program (function or data variable) to a description without unbound call sites, the
   code binds it to exactly that description. *)
Lemma static_visibility_closedv : forall m c, wfv m -> closedv (spec_root m c) -> impl_root m c = spec_root m c.
Proof.
  intros [is ds] c W Hc. destruct surgeryv as (_ & Qis & _). cbn in W.
  destruct (Qis is W st0 [] [] [] [] [] []) as (X1 & VX1 & E1 & A1 & B1); try reflexivity; [constructor |].
  cbn [funcs vars depth st0 app] in E1.
  unfold impl_root. cbn [impl_main]. rewrite E1, fold_compile_def. cbn [funcs vars].
  unfold spec_root, spec_main in *. cbn [spec_module] in *.
  destruct (spec_imports is [] []) as [f1 v1]. cbn [fst snd app] in *.
  change (X1 ++ impl_defs ds X1 VX1) with ([] ++ (X1 ++ impl_defs ds X1 VX1)).
  change VX1 with ([] ++ VX1) at 2.
  apply resolve_agreev; [| exact B1 | exact Hc].
  apply Forall2_app; [exact A1 |].
  change X1 with ([] ++ X1) at 1. change VX1 with ([] ++ VX1). now apply defs_agreev.
Qed.
