(* C18 model, part 1 (definitions only): module_loader.go over an abstract file system.

   Paths are byte strings (list N).  path/filepath (Unix) is external code: Clean / Join / Base / Dir /
   IsAbs are modelled lexically here and VALIDATED against the Go implementation by the correspondence
   stream (lines (clean …) (join …) (base …) (dir …)); they are not proved against Go's source.

   module_loader.go  resolvePath       -> resolve_path
                     NewModuleLoader   -> new_loader
                     lookupModule      -> lookup_module  (loop as in the code)
                     parseModule       -> rewrite_search (the `search` metadata of a loaded file's imports)
                     LoadInitModules   -> init_modules *)
From Coq Require Import List NArith Bool.
Import ListNotations.
Open Scope N_scope.

Definition path := list N.
Definition slash : N := 47.
Definition dot : N := 46.

Fixpoint bytes_eqb (a b : list N) : bool :=
  match a, b with
  | [], [] => true
  | x :: a', y :: b' => (x =? y) && bytes_eqb a' b'
  | _, _ => false
  end.

(* strings.Split(p, "/") *)
Fixpoint split_aux (cur : list N) (p : path) : list (list N) :=
  match p with
  | [] => [rev cur]
  | c :: r => if c =? slash then rev cur :: split_aux [] r else split_aux (c :: cur) r
  end.
Definition split (p : path) : list (list N) := split_aux [] p.

Fixpoint join_sep (cs : list (list N)) : path :=
  match cs with
  | [] => []
  | [c] => c
  | c :: r => c ++ slash :: join_sep r
  end.

Definition is_abs (p : path) : bool := match p with c :: _ => c =? slash | [] => false end.
Definition is_dotdot (c : list N) : bool := bytes_eqb c [dot; dot].

(* filepath.Clean: drop empty and "." elements, cancel "x/..", drop ".." at the root, "" -> "." *)
Fixpoint clean_stack (rooted : bool) (stack : list (list N)) (cs : list (list N)) : list (list N) :=
  match cs with
  | [] => rev stack
  | c :: r =>
      if bytes_eqb c [] || bytes_eqb c [dot] then clean_stack rooted stack r
      else if is_dotdot c then
        match stack with
        | top :: st => if is_dotdot top then clean_stack rooted (c :: stack) r else clean_stack rooted st r
        | [] => if rooted then clean_stack rooted [] r else clean_stack rooted [c] r
        end
      else clean_stack rooted (c :: stack) r
  end.
Definition clean (p : path) : path :=
  let rooted := is_abs p in
  let body := join_sep (clean_stack rooted [] (split p)) in
  if rooted then slash :: body else match body with [] => [dot] | _ => body end.

(* filepath.Join: Clean of the "/"-joined elements from the first non-empty one; "" if all are empty *)
Fixpoint drop_empty_prefix (es : list path) : list path :=
  match es with
  | [] => []
  | e :: r => match e with [] => drop_empty_prefix r | _ => es end
  end.
Definition join (es : list path) : path :=
  match drop_empty_prefix es with
  | [] => []
  | l => clean (join_sep l)
  end.

(* strip trailing slashes *)
Fixpoint strip_trailing_rev (r : list N) : list N :=
  match r with c :: t => if c =? slash then strip_trailing_rev t else r | [] => [] end.
Definition last_elem (p : path) : list N := last (split p) [].
(* filepath.Base *)
Definition base (p : path) : path :=
  match p with
  | [] => [dot]
  | _ => let q := rev (strip_trailing_rev (rev p)) in
         match q with
         | [] => [slash]
         | _ => last_elem q
         end
  end.
(* filepath.Dir: Clean(p[:lastslash+1]) *)
Fixpoint upto_last_slash_rev (r : list N) : list N :=
  match r with c :: t => if c =? slash then r else upto_last_slash_rev t | [] => [] end.
Definition dir (p : path) : path := clean (rev (upto_last_slash_rev (rev p))).

Fixpoint has_prefix (pre p : list N) : bool :=
  match pre, p with
  | [], _ => true
  | a :: pre', b :: p' => (a =? b) && has_prefix pre' p'
  | _, [] => false
  end.

(* what the loader can ask the operating system *)
Record world := {
  w_home : option path;          (* os.UserHomeDir *)
  w_origin : option path;        (* filepath.Dir(EvalSymlinks(os.Executable())) *)
  w_exists : path -> bool;       (* os.Stat(p) succeeds (file or directory) *)
  w_is_dir : path -> bool
}.

Definition tilde_slash : list N := [126; slash].
Definition origin_slash : list N := [36; 79; 82; 73; 71; 73; 78; slash].   (* "$ORIGIN/" *)

(* resolvePath(path, dir); [] stands for "" *)
Definition resolve_path (w : world) (p dir_ : path) : path :=
  if is_abs p then p
  else if has_prefix tilde_slash p then
    match w_home w with Some h => join [h; skipn 2 p] | None => [] end
  else if has_prefix origin_slash p then
    match w_origin w with Some o => join [o; skipn 8 p] | None => [] end
  else join [dir_; p].

(* NewModuleLoader: resolve against "", drop empties *)
Fixpoint new_loader (w : world) (paths : list path) : list path :=
  match paths with
  | [] => []
  | p :: r => match resolve_path w p [] with [] => new_loader w r | q => q :: new_loader w r end
  end.

(* the loop of lookupModule *)
Definition cand1 (b name ext : path) : path := join [b; name ++ ext].
Definition cand2 (b name ext : path) : path := join [b; name; base name ++ ext].
Fixpoint lookup_in (w : world) (bases : list path) (name ext : path) : option path :=
  match bases with
  | [] => None
  | b :: r =>
      if w_exists w (cand1 b name ext) then Some (cand1 b name ext)
      else if w_exists w (cand2 b name ext) then Some (cand2 b name ext)
      else lookup_in w r name ext
  end.

(* meta["search"] (already rewritten when the importing file was loaded) is resolved against "" and tried first *)
Definition search_bases (w : world) (loader_paths : list path) (search : option path) : list path :=
  match search with
  | Some s => match resolve_path w s [] with [] => loader_paths | p => p :: loader_paths end
  | None => loader_paths
  end.
Definition lookup_module (w : world) (loader_paths : list path) (search : option path) (name ext : path) : option path :=
  lookup_in w (search_bases w loader_paths search) name ext.

(* the specification's candidate list, in order *)
Definition candidates (bases : list path) (name ext : path) : list path :=
  flat_map (fun b => [cand1 b name ext; cand2 b name ext]) bases.

(* parseModule(cnt, filepath.Dir(path)): a string `search` of an import is replaced by
   resolvePath(search, dir of the file that contains the import); "" becomes null (= no search) *)
Definition rewrite_search (w : world) (file : path) (search : path) : option path :=
  match resolve_path w search (dir file) with [] => None | p => Some p end.

(* LoadInitModules: the loader paths whose base is ".jq" and which are existing non-directories,
   in order (each is parsed as a module and included); a ".jq" directory is left as a search path *)
Definition dot_jq : list N := [dot; 106; 113].
Definition init_modules (w : world) (loader_paths : list path) : list path :=
  filter (fun p => bytes_eqb (base p) dot_jq && w_exists w p && negb (w_is_dir w p)) loader_paths.
