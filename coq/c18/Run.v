(* C18 correspondence: one harness line -> verdict.  Line forms (harness/c18/main.go); H = hex bytes, "-" empty:
     (clean H H) (base H H) (dir H H) (join (H…) H)             Go's path/filepath against PathModel
     (lookup (paths H…) (search none|H) (importer none|H) NAME EXT (home none|H) (cwd H) (exists H…) (dirs H…) RESULT)
           RESULT = none | H  (absolute path of the file whose marker the implementation returned)
     (init (paths H…) (home none|H) (cwd H) (exists H…) (dirs H…) (impl H…))   files auto-included, in order
     (vis TREE CALL IMPL)    TREE = (m (imps IMP…) (defs DEF…)); IMP = (inc TREE) | (imp a TREE) | (data a id)
           DEF = (d name ar id CALL…); CALL = (f q name ar) with q = - | alias, or (v alias qual)
           IMPL = cerr | unbound | (self id) | (fun id IMPL…) | (var id)
     (meta (defs (H ar)…) (impl (H ar)…))
   (spec <line>) judges vis lines by ModSpec instead of the table model (other lines: same verdict). *)
From Coq Require Import List NArith Bool String.
From Verif Require Import common.Sexp c18.PathModel c18.ModModel c18.ModSpec c18.MetaModel.
Import ListNotations.
Open Scope N_scope.

Definition dec_N (e : sexp) : option N := match e with Atom a => parse_N a | _ => None end.
Definition dec_hex (e : sexp) : option (list N) := match e with Atom a => parse_hexs a | _ => None end.
Fixpoint dec_list {A} (f : sexp -> option A) (l : list sexp) : option (list A) :=
  match l with
  | [] => Some []
  | x :: r => match f x, dec_list f r with Some a, Some t => Some (a :: t) | _, _ => None end
  end.
Definition tagged (t : string) (e : sexp) : option (list sexp) :=
  match e with SList (k :: r) => if atom_is t k then Some r else None | _ => None end.
Definition dec_hexs (t : string) (e : sexp) : option (list (list N)) :=
  match tagged t e with Some l => dec_list dec_hex l | None => None end.
Definition dec_opt_hex (t : string) (e : sexp) : option (option (list N)) :=
  match tagged t e with
  | Some [x] => if atom_is "none" x then Some None else option_map Some (dec_hex x)
  | _ => None
  end.
Definition bad (e : sexp) : sexp := SList [A "bad"; e].
Definition enc_hex (p : list N) : sexp := Atom (print_hexs p).

Definition path_verdict (model impl : list N) : sexp :=
  if PathModel.bytes_eqb model impl then A "ok" else bad (enc_hex model).

(* absolute form of a path the loader hands to the OS *)
Definition absolutize (cwd p : path) : path := if is_abs p then clean p else clean (cwd ++ slash :: p).
Definition mem_path (p : path) (l : list path) : bool := existsb (PathModel.bytes_eqb p) l.
Definition mk_world (home : option path) (cwd : path) (ex dirs : list path) : world :=
  {| w_home := home; w_origin := None;
     w_exists := fun p => mem_path (absolutize cwd p) ex || mem_path (absolutize cwd p) dirs;
     w_is_dir := fun p => mem_path (absolutize cwd p) dirs |}.

(* ------------------------------------------------------------------ trees *)
Definition dec_call (e : sexp) : option call :=
  match e with
  | SList [t; q; n; ar] =>
      if atom_is "f" t then
        match (if atom_is "-" q then Some None else option_map Some (dec_N q)), dec_N n, dec_N ar with
        | Some q, Some n, Some ar => Some (CallF q n ar)
        | _, _, _ => None
        end
      else None
  | SList [t; a; b] =>
      if atom_is "v" t then match dec_N a, dec_N b with Some a, Some b => Some (CallV a (negb (b =? 0))) | _, _ => None end
      else None
  | _ => None
  end.
Definition dec_def (e : sexp) : option fdef :=
  match e with
  | SList (t :: n :: ar :: id :: cs) =>
      if atom_is "d" t then
        match dec_N n, dec_N ar, dec_N id, dec_list dec_call cs with
        | Some n, Some ar, Some id, Some cs => Some {| d_name := n; d_ar := ar; d_id := id; d_calls := cs |}
        | _, _, _, _ => None
        end
      else None
  | _ => None
  end.

Fixpoint dec_module (fuel : nat) (e : sexp) : option module :=
  match fuel with
  | O => None
  | S k =>
      match e with
      | SList [t; is; ds] =>
          if atom_is "m" t then
            match tagged "imps" is, tagged "defs" ds with
            | Some is, Some ds =>
                let dec_imp (x : sexp) : option import :=
                  match x with
                  | SList [t; m] => if atom_is "inc" t then option_map Include (dec_module k m) else None
                  | SList [t; a; m] =>
                      if atom_is "imp" t then
                        match dec_N a, dec_module k m with Some a, Some m => Some (ImportAs a m) | _, _ => None end
                      else if atom_is "data" t then
                        match dec_N a, dec_N m with Some a, Some id => Some (ImportData a id) | _, _ => None end
                      else None
                  | _ => None
                  end in
                match dec_list dec_imp is, dec_list dec_def ds with
                | Some is, Some ds => Some (Mod (fold_right ICons INil is) ds)
                | _, _ => None
                end
            | _, _ => None
            end
          else None
      | _ => None
      end
  end.

Fixpoint enc_desc (fuel : nat) (d : desc) : sexp :=
  match fuel with
  | O => A "deep"
  | S k =>
      match d with
      | DUnbound => A "unbound"
      | DSelf id => SList [A "self"; Atom (print_N id)]
      | DVar id => SList [A "var"; Atom (print_N id)]
      | DFun id cs => SList (A "fun" :: Atom (print_N id) :: map (enc_desc k) cs)
      end
  end.

Fixpoint desc_agrees (fuel : nat) (d : desc) (e : sexp) : bool :=
  match fuel with
  | O => false
  | S k =>
      match d, e with
      | DUnbound, _ => atom_is "unbound" e
      | DSelf id, SList [t; x] => atom_is "self" t && match dec_N x with Some y => y =? id | None => false end
      | DVar id, SList [t; x] => atom_is "var" t && match dec_N x with Some y => y =? id | None => false end
      | DFun id cs, SList (t :: x :: es) =>
          atom_is "fun" t && match dec_N x with Some y => y =? id | None => false end
          && (fix all2 (a : list desc) (b : list sexp) : bool :=
                match a, b with
                | [], [] => true
                | u :: a', v :: b' => desc_agrees k u v && all2 a' b'
                | _, _ => false
                end) cs es
      | _, _ => false
      end
  end.

Definition is_unbound (d : desc) : bool := match d with DUnbound => true | _ => false end.
Definition entry_has_unbound (e : fentry) : bool :=
  match fdesc e with DFun _ cs => existsb is_unbound cs | _ => false end.

(* compile error expected: some call site of some compiled definition, or the main call, is unbound *)
Definition vis_verdict (fs : list fentry) (main : desc) (impl : sexp) : sexp :=
  if existsb entry_has_unbound fs || is_unbound main then
    (if atom_is "cerr" impl then A "ok" else bad (A "cerr"))
  else if desc_agrees 40 main impl then A "ok" else bad (enc_desc 40 main).

Definition dec_na (e : sexp) : option name_arity :=
  match e with SList [n; a] => match dec_hex n, dec_N a with Some n, Some a => Some (n, a) | _, _ => None end | _ => None end.
Definition enc_na (x : name_arity) : sexp := SList [enc_hex (fst x); Atom (print_N (snd x))].
Fixpoint nas_eqb (a b : list name_arity) : bool :=
  match a, b with
  | [], [] => true
  | x :: a', y :: b' => MetaModel.bytes_eqb (fst x) (fst y) && (snd x =? snd y) && nas_eqb a' b'
  | _, _ => false
  end.
Fixpoint paths_eqb (a b : list path) : bool :=
  match a, b with
  | [], [] => true
  | x :: a', y :: b' => PathModel.bytes_eqb x y && paths_eqb a' b'
  | _, _ => false
  end.

Definition run_sexp (spec : bool) (e : sexp) : sexp :=
  match e with
  | SList [k; a; b] =>
      if atom_is "clean" k then match dec_hex a, dec_hex b with Some a, Some b => path_verdict (clean a) b | _, _ => A "undecodable" end
      else if atom_is "base" k then match dec_hex a, dec_hex b with Some a, Some b => path_verdict (base a) b | _, _ => A "undecodable" end
      else if atom_is "dir" k then match dec_hex a, dec_hex b with Some a, Some b => path_verdict (dir a) b | _, _ => A "undecodable" end
      else if atom_is "join" k then
        match a, dec_hex b with
        | SList l, Some b => match dec_list dec_hex l with Some l => path_verdict (join l) b | None => A "undecodable" end
        | _, _ => A "undecodable"
        end
      else if atom_is "meta" k then
        match tagged "defs" a, tagged "impl" b with
        | Some ds, Some im =>
            match dec_list dec_na ds, dec_list dec_na im with
            | Some ds, Some im => let m := list_module_defs ds in
                                  if nas_eqb m im then A "ok" else bad (SList (map enc_na m))
            | _, _ => A "undecodable"
            end
        | _, _ => A "undecodable"
        end
      else A "undecodable"
  | SList [k; t; c; impl] =>
      if atom_is "vis" k then
        match dec_module 12 t, dec_call c with
        | Some m, Some c =>
            if spec then let '(fs, vs) := spec_main m in vis_verdict fs (sresolve fs vs c) impl
            else let st := impl_main m in vis_verdict (funcs st) (resolve (funcs st) (vars st) c) impl
        | _, _ => A "undecodable"
        end
      else A "undecodable"
  | SList [k; ps; hm; cw; ex; ds; impl] =>
      if atom_is "init" k then
        match dec_hexs "paths" ps, dec_opt_hex "home" hm, dec_hexs "cwd" cw, dec_hexs "exists" ex, dec_hexs "dirs" ds, dec_hexs "impl" impl with
        | Some ps, Some hm, Some [cw], Some ex, Some ds, Some impl =>
            let w := mk_world hm cw ex ds in
            let m := map (absolutize cw) (init_modules w (new_loader w ps)) in
            if paths_eqb m impl then A "ok" else bad (SList (map enc_hex m))
        | _, _, _, _, _, _ => A "undecodable"
        end
      else A "undecodable"
  | SList [k; ps; se; im; nm; ext; hm; cw; ex; ds; res] =>
      if atom_is "lookup" k then
        match dec_hexs "paths" ps, dec_opt_hex "search" se, dec_opt_hex "importer" im, dec_hex nm, dec_hex ext with
        | Some ps, Some se, Some im, Some nm, Some ext =>
            match dec_opt_hex "home" hm, dec_hexs "cwd" cw, dec_hexs "exists" ex, dec_hexs "dirs" ds with
            | Some hm, Some [cw], Some ex, Some ds =>
                let w := mk_world hm cw ex ds in
                (* a search entry written inside a module file is rewritten when that file is loaded *)
                let se' := match se, im with
                           | Some s, Some file => rewrite_search w file s
                           | _, _ => se
                           end in
                let r := option_map (absolutize cw) (lookup_module w (new_loader w ps) se' nm ext) in
                match r with
                | None => if atom_is "none" res then A "ok" else bad (A "none")
                | Some p => match dec_hex res with
                            | Some q => path_verdict p q
                            | None => bad (enc_hex p)
                            end
                end
            | _, _, _, _ => A "undecodable"
            end
        | _, _, _, _, _ => A "undecodable"
        end
      else A "undecodable"
  | _ => A "undecodable"
  end.

Definition run_line (l : list N) : list N :=
  match parse l with
  | Some (SList [k; e]) => if atom_is "spec" k then print (run_sexp true e) else print (run_sexp false (SList [k; e]))
  | Some e => print (run_sexp false e)
  | None => codes "unparsable"
  end.
