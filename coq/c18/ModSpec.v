(* C18 specification of static name visibility: lexical scoping + alias:: namespaces + textual inclusion.

   The meaning of a module text in a context is the list of names it adds to that context, in order:
     include "m";        the names that m's text adds when put at this point (same context: m sees what
                         precedes the include, and everything m brings — its imports and definitions — stays)
     import "m" as a;    the names that m's text adds ON ITS OWN (empty context), each prefixed with a::
                         (so m's own imports end up under a::c::… which no call site can write)
     import "d" as $a;   the data variable $a (= $a::a)
     def f(…): body;     f/arity; the body sees every name before it and f itself
   A call binds to the LAST matching name before it (later definitions shadow earlier ones). *)
From Coq Require Import List NArith Bool.
From Verif Require Import c18.ModModel.
Import ListNotations.
Open Scope N_scope.

Definition names := list fentry.
Definition datas := list (N * N).

Definition last_opt {A} (l : list A) : option A := match rev l with x :: _ => Some x | [] => None end.

(* the last name with that qualification, base name and arity *)
Definition slookup_f (fs : names) (q : option N) (name ar : N) : option desc :=
  option_map fdesc
    (last_opt (filter (fun e => ns_eqb (qlist q) (fq e) && (fname e =? name) && (far e =? ar)) fs)).
Definition slookup_v (vs : datas) (a : N) : option N :=
  option_map snd (last_opt (filter (fun p => fst p =? a) vs)).

Definition sresolve (fs : names) (vs : datas) (c : call) : desc :=
  match c with
  | CallF q n ar => match slookup_f fs q n ar with Some d => d | None => DUnbound end
  | CallV a _ => match slookup_v vs a with Some id => DVar id | None => DUnbound end
  end.

Definition spec_def (fs : names) (vs : datas) (d : fdef) : fentry :=
  {| fq := []; fname := d_name d; far := d_ar d;
     fdesc := DFun (d_id d) (map (sresolve (fs ++ [self_entry d]) vs) (d_calls d)) |}.

Fixpoint spec_defs (ds : list fdef) (fs : names) (vs : datas) : names :=
  match ds with
  | [] => []
  | d :: r => let e := spec_def fs vs d in e :: spec_defs r (fs ++ [e]) vs
  end.

Definition qualify (a : N) (e : fentry) : fentry :=
  {| fq := a :: fq e; fname := fname e; far := far e; fdesc := fdesc e |}.

(* the names a text adds to the context (fs, vs) *)
Fixpoint spec_module (m : module) (fs : names) (vs : datas) : names * datas :=
  match m with
  | Mod is ds =>
      let '(f1, v1) := spec_imports is fs vs in
      (f1 ++ spec_defs ds (fs ++ f1) (vs ++ v1), v1)
  end
with spec_imports (is : imports) (fs : names) (vs : datas) : names * datas :=
  match is with
  | INil => ([], [])
  | ICons i r =>
      let '(f1, v1) := spec_import i fs vs in
      let '(f2, v2) := spec_imports r (fs ++ f1) (vs ++ v1) in
      (f1 ++ f2, v1 ++ v2)
  end
with spec_import (i : import) (fs : names) (vs : datas) : names * datas :=
  match i with
  | Include m => spec_module m fs vs
  | ImportAs a m => (map (qualify a) (fst (spec_module m [] [])), [])
  | ImportData a id => ([], [(a, id)])
  end.

Definition spec_main (m : module) : names * datas := spec_module m [] [].
Definition spec_root (m : module) (c : call) : desc :=
  let '(fs, vs) := spec_main m in sresolve fs vs c.

(* a description is closed when every call site in it is bound to a function *)
Fixpoint closed (d : desc) : Prop :=
  match d with
  | DUnbound => False
  | DSelf _ => True
  | DVar _ => False   (* data variables: not covered by the theorem, see props/C18.v *)
  | DFun _ cs => (fix all (l : list desc) : Prop := match l with [] => True | x :: r => closed x /\ all r end) cs
  end.

Definition desc_id (d : desc) : option N :=
  match d with DUnbound => None | DSelf id => Some id | DFun id _ => Some id | DVar id => Some id end.
