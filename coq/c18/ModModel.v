(* C18 model, part 2 (definitions only): what compiler.go does to the function / variable tables when it
   compiles imports — the "scope surgery".

   compiler.go  compile (imports, then FuncDefs, then the term)              -> impl_root
                compileImport                                                -> impl_import
                compileModule  scope.depth++ ; defer { depth-- ; variables = variables[:l] } ;
                               if alias != "" defer { for f in funcs[l:] { f.name = alias+"::"+f.name } }
                                                                             -> impl_module
                compileFuncDef scope.funcs = append(scope.funcs, {name, pc, argcnt}) BEFORE the body is
                               compiled (so the body sees itself)            -> compile_def
                compileFunc / lookupFuncOrVariable / lookupVariable: scan the table from the END
                                                                             -> lookup_f, lookup_v
   A qualified name alias::…::name is kept structured: (list of alias prefixes, base name); identifiers do
   not contain ':' so this is the same as comparing the strings.  A call site can only be written with at
   most one prefix (lexer: tokModuleIdent).  Function parameters and nested defs are not modelled (the
   generator never calls a parameter).  pushVariable's slot reuse (same name, same depth: two data imports
   under one alias in ONE file) is modelled as a fresh entry: later references agree, earlier compiled
   references would observe the second file at run time — outside the generated domain.

   What a call site binds to is recorded as a description: the bound definition's id together with the
   descriptions of ITS call sites (what the harness observes through marker outputs). *)
From Coq Require Import List NArith Bool.
Import ListNotations.
Open Scope N_scope.

Inductive call := CallF (q : option N) (name ar : N) | CallV (alias : N) (qual : bool).
Record fdef := { d_name : N; d_ar : N; d_id : N; d_calls : list call }.

Inductive module := Mod (imps : imports) (defs : list fdef)
with imports := INil | ICons (i : import) (r : imports)
with import := Include (m : module) | ImportAs (a : N) (m : module) | ImportData (a : N) (id : N).

Inductive desc := DUnbound | DSelf (id : N) | DFun (id : N) (cs : list desc) | DVar (id : N).

Record fentry := { fq : list N; fname : N; far : N; fdesc : desc }.
Record ventry := { valias : N; vdepth : nat; vid : N }.
Record cstate := { funcs : list fentry; vars : list ventry; depth : nat }.

Fixpoint ns_eqb (a b : list N) : bool :=
  match a, b with
  | [], [] => true
  | x :: a', y :: b' => (x =? y) && ns_eqb a' b'
  | _, _ => false
  end.

Definition qlist (q : option N) : list N := match q with Some a => [a] | None => [] end.
Definition key_match (q : list N) (name ar : N) (e : fentry) : bool :=
  ns_eqb q (fq e) && (fname e =? name) && (far e =? ar).

(* for j := len(s.funcs)-1; j >= 0; j-- { if f.name == name && f.argcnt == len(args) … } *)
Definition lookup_f (fs : list fentry) (q : option N) (name ar : N) : option desc :=
  option_map fdesc (find (key_match (qlist q) name ar) (rev fs)).
(* $alias and $alias::alias are pushed together by compileImport; one entry stands for both *)
Definition lookup_v (vs : list ventry) (a : N) : option N :=
  option_map vid (find (fun v => valias v =? a) (rev vs)).

Definition resolve (fs : list fentry) (vs : list ventry) (c : call) : desc :=
  match c with
  | CallF q n ar => match lookup_f fs q n ar with Some d => d | None => DUnbound end
  | CallV a _ => match lookup_v vs a with Some id => DVar id | None => DUnbound end
  end.

Definition self_entry (d : fdef) : fentry :=
  {| fq := []; fname := d_name d; far := d_ar d; fdesc := DSelf (d_id d) |}.

Definition compile_def (st : cstate) (d : fdef) : cstate :=
  let cs := map (resolve (funcs st ++ [self_entry d]) (vars st)) (d_calls d) in
  {| funcs := funcs st ++ [{| fq := []; fname := d_name d; far := d_ar d; fdesc := DFun (d_id d) cs |}];
     vars := vars st; depth := depth st |}.

Definition add_prefix (alias : option N) (e : fentry) : fentry :=
  match alias with
  | Some a => {| fq := a :: fq e; fname := fname e; far := far e; fdesc := fdesc e |}
  | None => e
  end.

Definition push_data (a id : N) (st : cstate) : cstate :=
  {| funcs := funcs st; vars := vars st ++ [{| valias := a; vdepth := depth st; vid := id |}]; depth := depth st |}.

Fixpoint impl_module (m : module) (alias : option N) (st : cstate) : cstate :=
  match m with
  | Mod is ds =>
      let l := length (funcs st) in
      let lv := length (vars st) in
      let st1 := impl_imports is {| funcs := funcs st; vars := vars st; depth := S (depth st) |} in
      let st2 := fold_left compile_def ds st1 in
      {| funcs := firstn l (funcs st2) ++ map (add_prefix alias) (skipn l (funcs st2));
         vars := firstn lv (vars st2);
         depth := depth st |}
  end
with impl_imports (is : imports) (st : cstate) : cstate :=
  match is with
  | INil => st
  | ICons i r => impl_imports r (impl_import i st)
  end
with impl_import (i : import) (st : cstate) : cstate :=
  match i with
  | Include m => impl_module m None st
  | ImportAs a m => impl_module m (Some a) st
  | ImportData a id => push_data a id st
  end.

Definition st0 : cstate := {| funcs := []; vars := []; depth := 0 |}.

(* Compile: the main program's imports and definitions go into the main scope itself (no depth++,
   no truncation); ~/.jq init modules are compileModule(q, "") before them = leading includes *)
Definition impl_main (m : module) : cstate :=
  match m with Mod is ds => fold_left compile_def ds (impl_imports is st0) end.
Definition impl_root (m : module) (c : call) : desc :=
  let st := impl_main m in resolve (funcs st) (vars st) c.

(* funcModulemeta / listModuleDefs / listModuleDeps *)
Inductive depkind := DepInclude | DepImport (alias : list N) | DepData (alias : list N).
Record dep := { dep_relpath : list N; dep_kind : depkind }.
Definition dep_as (d : dep) : option (list N) :=
  match dep_kind d with DepInclude => None | DepImport a => Some a | DepData a => Some a end.
Definition dep_is_data (d : dep) : bool := match dep_kind d with DepData _ => true | _ => false end.
