(* C18 proofs, part 2: the table surgery of compileImport / compileModule against the lexical specification. *)
From Coq Require Import List NArith Bool Lia Arith.
From Verif Require Import c18.ModModel c18.ModSpec.
Import ListNotations.
Open Scope N_scope.

Scheme module_ind' := Induction for module Sort Prop
  with imports_ind' := Induction for imports Sort Prop
  with import_ind' := Induction for import Sort Prop.
Combined Scheme module_mutind from module_ind', imports_ind', import_ind'.

(* ------------------------------------------------------------------ last match *)
Definition lastmatch {A} (p : A -> bool) (l : list A) (acc : option A) : option A :=
  fold_left (fun acc e => if p e then Some e else acc) l acc.

Lemma find_app' : forall {A} (p : A -> bool) l1 l2,
  find p (l1 ++ l2) = match find p l1 with Some x => Some x | None => find p l2 end.
Proof. induction l1; cbn; [reflexivity |]. intros. destruct (p a); auto. Qed.

Lemma lastmatch_find : forall {A} (p : A -> bool) l acc,
  lastmatch p l acc = match find p (rev l) with Some x => Some x | None => acc end.
Proof.
  unfold lastmatch. induction l as [| a r IH]; intro acc; cbn; [reflexivity |].
  rewrite IH, find_app'. destruct (find p (rev r)); [reflexivity |]. cbn. destruct (p a); reflexivity.
Qed.

Lemma last_opt_filter : forall {A} (p : A -> bool) l, last_opt (filter p l) = find p (rev l).
Proof.
  intros A p l. unfold last_opt. induction l as [| a r IH]; [reflexivity |].
  cbn [filter rev]. rewrite find_app'. destruct (p a) eqn:E.
  - cbn [rev]. rewrite <- IH. destruct (rev (filter p r)); cbn; [now rewrite E | reflexivity].
  - rewrite <- IH. destruct (rev (filter p r)); cbn; [now rewrite E | reflexivity].
Qed.

Lemma slookup_f_eq : forall fs q n ar, slookup_f fs q n ar = lookup_f fs q n ar.
Proof. intros. unfold slookup_f, lookup_f, key_match. now rewrite last_opt_filter. Qed.

(* ------------------------------------------------------------------ agreement of tables *)
Definition agree (s i : fentry) : Prop :=
  fq s = fq i /\ fname s = fname i /\ far s = far i /\ desc_id (fdesc s) = desc_id (fdesc i)
  /\ (closed (fdesc s) -> fdesc i = fdesc s).

Lemma agree_key : forall s i q n ar, agree s i -> key_match q n ar s = key_match q n ar i.
Proof. intros s i q n ar (A & B & C & _). unfold key_match. now rewrite A, B, C. Qed.

Definition acc_rel (accs acci : option fentry) : Prop :=
  match accs with Some s => exists i, acci = Some i /\ agree s i | None => True end.

Lemma lastmatch_agree : forall Fs F', Forall2 agree Fs F' -> forall p accs acci,
  (forall s i, agree s i -> p s = p i) -> acc_rel accs acci ->
  acc_rel (lastmatch p Fs accs) (lastmatch p F' acci)
  /\ (lastmatch p Fs accs = None -> accs = None /\ lastmatch p F' acci = acci).
Proof.
  unfold lastmatch. induction 1 as [| s i Fs F' Hsi HF IH]; intros p accs acci Hp R; cbn.
  - split; [exact R | auto].
  - rewrite <- (Hp s i Hsi). destruct (p s) eqn:E.
    + destruct (IH p (Some s) (Some i) Hp) as [A B]; [exists i; auto |].
      split; [exact A |]. intro Hn. destruct (B Hn) as [C _]. discriminate.
    + apply IH; assumption.
Qed.

Lemma lookup_agree : forall Fs F' O q n ar, Forall2 agree Fs F' ->
  (forall ds, lookup_f Fs q n ar = Some ds ->
      exists di, lookup_f (O ++ F') q n ar = Some di /\ desc_id ds = desc_id di /\ (closed ds -> di = ds))
  /\ (lookup_f Fs q n ar = None -> lookup_f (O ++ F') q n ar = lookup_f O q n ar).
Proof.
  intros Fs F' O q n ar HF. unfold lookup_f.
  set (p := key_match (qlist q) n ar).
  assert (E1 : find p (rev Fs) = lastmatch p Fs None) by (rewrite lastmatch_find; destruct (find p (rev Fs)); reflexivity).
  assert (E2 : find p (rev (O ++ F')) = lastmatch p F' (find p (rev O))).
  { rewrite lastmatch_find, rev_app_distr, find_app'. reflexivity. }
  rewrite E1, E2.
  destruct (lastmatch_agree Fs F' HF p None (find p (rev O))) as [A B];
    [intros; now apply agree_key | exact I |].
  split.
  - intros ds H. destruct (lastmatch p Fs None) as [s |] eqn:L; [| discriminate].
    cbn in H. inversion H; subst. cbn in A. destruct A as [i [Ei (_ & _ & _ & Hid & Hc)]].
    exists (fdesc i). rewrite Ei. cbn. auto.
  - intro H. destruct (lastmatch p Fs None) eqn:L; [discriminate |].
    destruct (B eq_refl) as [_ ->]. reflexivity.
Qed.

Lemma closed_fun : forall id cs, closed (DFun id cs) <-> Forall closed cs.
Proof.
  intros id cs. cbn. induction cs as [| c r IH]; split; intro H.
  - constructor.
  - exact I.
  - destruct H as [H1 H2]. constructor; [exact H1 | now apply IH].
  - inversion H; subst. split; [assumption | now apply IH].
Qed.

Lemma agree_self : forall d, agree (self_entry d) (self_entry d).
Proof. intro d. repeat split. Qed.

(* ------------------------------------------------------------------ the code's table as "context ++ contribution" *)
Definition impl_def_entry (fs : list fentry) (vs : list ventry) (d : fdef) : fentry :=
  {| fq := []; fname := d_name d; far := d_ar d;
     fdesc := DFun (d_id d) (map (resolve (fs ++ [self_entry d]) vs) (d_calls d)) |}.
Fixpoint impl_defs (ds : list fdef) (fs : list fentry) (vs : list ventry) : list fentry :=
  match ds with
  | [] => []
  | d :: r => let e := impl_def_entry fs vs d in e :: impl_defs r (fs ++ [e]) vs
  end.

Lemma fold_compile_def : forall ds st,
  fold_left compile_def ds st
  = {| funcs := funcs st ++ impl_defs ds (funcs st) (vars st); vars := vars st; depth := depth st |}.
Proof.
  induction ds as [| d r IH]; intro st; cbn [fold_left impl_defs].
  - rewrite app_nil_r. now destruct st.
  - rewrite IH. unfold compile_def, impl_def_entry. cbn [funcs vars depth]. rewrite <- app_assoc. reflexivity.
Qed.

Lemma resolve_agree : forall Fs F' O vs vi c, Forall2 agree Fs F' ->
  closed (sresolve Fs vs c) -> resolve (O ++ F') vi c = sresolve Fs vs c.
Proof.
  intros Fs F' O vs vi c HF Hc. destruct c as [q n ar | a b]; cbn in *.
  - rewrite slookup_f_eq in *. destruct (lookup_agree Fs F' O q n ar HF) as [A _].
    destruct (lookup_f Fs q n ar) as [ds |] eqn:L; [| contradiction].
    destruct (A ds eq_refl) as (di & -> & _ & Hd). now apply Hd.
  - destruct (slookup_v vs a); contradiction.
Qed.

Lemma defs_agree : forall ds Fs F' O vs vi, Forall2 agree Fs F' ->
  Forall2 agree (spec_defs ds Fs vs) (impl_defs ds (O ++ F') vi).
Proof.
  induction ds as [| d r IH]; intros Fs F' O vs vi HF; cbn; [constructor |].
  assert (Ha : agree (spec_def Fs vs d) (impl_def_entry (O ++ F') vi d)).
  { repeat split. cbn [fdesc spec_def impl_def_entry]. intro Hc. apply closed_fun in Hc. f_equal.
    rewrite <- app_assoc.
    assert (HF' : Forall2 agree (Fs ++ [self_entry d]) (F' ++ [self_entry d])).
    { apply Forall2_app; [exact HF | constructor; [apply agree_self | constructor]]. }
    induction (d_calls d) as [| c cs IHc]; [reflexivity |]. cbn in *. inversion Hc; subst. f_equal.
    - now apply resolve_agree.
    - now apply IHc. }
  constructor; [exact Ha |].
  rewrite <- app_assoc. apply IH. apply Forall2_app; [exact HF | constructor; [exact Ha | constructor]].
Qed.

Lemma agree_prefix : forall a X Xs, Forall2 agree Xs X ->
  Forall2 agree (map (qualify a) Xs) (map (add_prefix (Some a)) X).
Proof.
  induction 1 as [| s i Xs X (A & B & C & D & E) H IH]; cbn; constructor; [| exact IH].
  repeat split; cbn; auto. now rewrite A.
Qed.

Lemma map_add_prefix_none : forall X, map (add_prefix None) X = X.
Proof. induction X; cbn; [reflexivity | now f_equal]. Qed.

Definition P_module (m : module) : Prop :=
  forall alias st Fs Vs O F', funcs st = O ++ F' -> Forall2 agree Fs F' ->
    exists X, impl_module m alias st
              = {| funcs := funcs st ++ map (add_prefix alias) X; vars := vars st; depth := depth st |}
              /\ Forall2 agree (fst (spec_module m Fs Vs)) X.
Definition P_imports (is : imports) : Prop :=
  forall st Fs Vs O F', funcs st = O ++ F' -> Forall2 agree Fs F' ->
    exists X VX, impl_imports is st
                 = {| funcs := funcs st ++ X; vars := vars st ++ VX; depth := depth st |}
                 /\ Forall2 agree (fst (spec_imports is Fs Vs)) X.
Definition P_import (i : import) : Prop :=
  forall st Fs Vs O F', funcs st = O ++ F' -> Forall2 agree Fs F' ->
    exists X VX, impl_import i st
                 = {| funcs := funcs st ++ X; vars := vars st ++ VX; depth := depth st |}
                 /\ Forall2 agree (fst (spec_import i Fs Vs)) X.

Lemma surgery : (forall m, P_module m) /\ (forall is, P_imports is) /\ (forall i, P_import i).
Proof.
  apply module_mutind.
  - (* Mod *)
    intros is IHis ds alias st Fs Vs O F' Hst HF.
    destruct (IHis {| funcs := funcs st; vars := vars st; depth := S (depth st) |} Fs Vs O F' Hst HF)
      as (X1 & VX1 & E1 & A1).
    cbn [funcs vars depth] in E1.
    exists (X1 ++ impl_defs ds (funcs st ++ X1) (vars st ++ VX1)). split.
    + cbn [impl_module]. rewrite E1, fold_compile_def. cbn [funcs vars depth].
      rewrite <- app_assoc.
      rewrite firstn_app, Nat.sub_diag, firstn_all, firstn_O, app_nil_r.
      rewrite skipn_app, Nat.sub_diag, skipn_all, skipn_O. cbn [app].
      rewrite firstn_app, Nat.sub_diag, firstn_all, firstn_O, app_nil_r.
      reflexivity.
    + cbn [spec_module]. destruct (spec_imports is Fs Vs) as [f1 v1] eqn:Es. cbn [fst] in *.
      apply Forall2_app; [exact A1 |].
      rewrite Hst, <- app_assoc. apply defs_agree. apply Forall2_app; assumption.
  - (* INil *)
    intros st Fs Vs O F' Hst HF. exists [], []. split; [| constructor].
    cbn. rewrite !app_nil_r. now destruct st.
  - (* ICons *)
    intros i IHi r IHr st Fs Vs O F' Hst HF.
    destruct (IHi st Fs Vs O F' Hst HF) as (X1 & VX1 & E1 & A1).
    cbn [spec_imports]. destruct (spec_import i Fs Vs) as [f1 v1] eqn:Es1. cbn [fst] in A1.
    destruct (spec_imports r (Fs ++ f1) (Vs ++ v1)) as [f2 v2] eqn:Es2.
    destruct (IHr {| funcs := funcs st ++ X1; vars := vars st ++ VX1; depth := depth st |}
                (Fs ++ f1) (Vs ++ v1) O (F' ++ X1)) as (X2 & VX2 & E2 & A2).
    { cbn. rewrite Hst. now rewrite app_assoc. }
    { now apply Forall2_app. }
    rewrite Es2 in A2. cbn [fst funcs vars depth] in *.
    exists (X1 ++ X2), (VX1 ++ VX2). split.
    + cbn [impl_imports]. rewrite E1, E2. now rewrite <- !app_assoc.
    + now apply Forall2_app.
  - (* Include *)
    intros m IHm st Fs Vs O F' Hst HF.
    destruct (IHm None st Fs Vs O F' Hst HF) as (X & E & A).
    exists X, []. split; [| exact A].
    cbn [impl_import]. rewrite E, map_add_prefix_none, app_nil_r. reflexivity.
  - (* ImportAs: the code passes its whole table down, the specification starts afresh *)
    intros a m IHm st Fs Vs O F' Hst HF.
    destruct (IHm (Some a) st [] [] (funcs st) []) as (X & E & A); [now rewrite app_nil_r | constructor |].
    exists (map (add_prefix (Some a)) X), []. split.
    + cbn [impl_import]. rewrite E, app_nil_r. reflexivity.
    + cbn [spec_import fst]. now apply agree_prefix.
  - (* ImportData *)
    intros a id st Fs Vs O F' Hst HF. eexists [], [_]. split; [| constructor].
    cbn. now rewrite app_nil_r.
Qed.

(* ------------------------------------------------------------------ main program *)
Lemma main_tables : forall m, exists X VX,
  impl_main m = {| funcs := X; vars := VX; depth := 0 |} /\ Forall2 agree (fst (spec_main m)) X.
Proof.
  intros [is ds]. destruct surgery as (_ & Pis & _).
  destruct (Pis is st0 [] [] [] []) as (X1 & VX1 & E1 & A1); [reflexivity | constructor |].
  cbn [funcs vars depth st0 app] in E1.
  exists (X1 ++ impl_defs ds X1 VX1), VX1. split.
  - cbn [impl_main]. rewrite E1, fold_compile_def. reflexivity.
  - unfold spec_main. cbn [spec_module]. destruct (spec_imports is [] []) as [f1 v1]. cbn [fst app] in *.
    apply Forall2_app; [exact A1 |].
    change X1 with ([] ++ X1) at 1. apply defs_agree. exact A1.
Qed.

(* T1: every call of the main program whose specified binding is closed (all nested call sites bound to
   functions) is bound by the code's table surgery to exactly that description — for EVERY module tree. *)
Lemma static_visibility_closed : forall m c, closed (spec_root m c) -> impl_root m c = spec_root m c.
Proof.
  intros m c Hc. destruct (main_tables m) as (X & VX & E & A).
  unfold impl_root. rewrite E. cbn [funcs vars]. unfold spec_root in *. unfold spec_main in *.
  destruct (spec_module m [] []) as [fs vs]. cbn [fst] in A.
  change X with ([] ++ X). now apply resolve_agree.
Qed.

(* T2: at the level of the main program visibility itself agrees in both directions, and the bound
   definition is the specified one: nothing invisible can be called, nothing visible is lost *)
Lemma static_visibility_main : forall m q n ar,
  desc_id (impl_root m (CallF q n ar)) = desc_id (spec_root m (CallF q n ar)).
Proof.
  intros m q n ar. destruct (main_tables m) as (X & VX & E & A).
  unfold impl_root. rewrite E. cbn [funcs vars resolve]. unfold spec_root, spec_main in *.
  destruct (spec_module m [] []) as [fs vs]. cbn [fst sresolve] in *. rewrite slookup_f_eq.
  destruct (lookup_agree fs X [] q n ar A) as [H1 H2]. cbn [app] in *.
  destruct (lookup_f fs q n ar) as [ds |] eqn:L.
  - destruct (H1 ds eq_refl) as (di & -> & Hid & _). now symmetry.
  - rewrite (H2 eq_refl). reflexivity.
Qed.

Lemma ns_eqb_true : forall a b, ns_eqb a b = true -> a = b.
Proof.
  induction a as [| x a IH]; destruct b as [| y b]; cbn; try discriminate; auto.
  intro H. apply andb_true_iff in H. destruct H as [E H]. apply N.eqb_eq in E. subst. f_equal. now apply IH.
Qed.

(* "…and nothing else": a call can only be written with at most one alias prefix, so whatever it binds to
   is an entry with at most one prefix — the names a module itself imported (prefix a::c::…) are unreachable *)
Lemma lookup_prefix_bound : forall fs q n ar d, lookup_f fs q n ar = Some d ->
  exists e, In e fs /\ fdesc e = d /\ fq e = qlist q /\ fname e = n /\ far e = ar.
Proof.
  intros fs q n ar d H. unfold lookup_f in H.
  destruct (find (key_match (qlist q) n ar) (rev fs)) as [e |] eqn:F; [| discriminate].
  apply find_some in F. destruct F as [Hin Hk]. cbn in H. inversion H; subst.
  exists e. split; [now apply in_rev |]. split; [reflexivity |].
  unfold key_match in Hk. apply andb_true_iff in Hk. destruct Hk as [Hk H3].
  apply andb_true_iff in Hk. destruct Hk as [H1 H2].
  apply N.eqb_eq in H2. apply N.eqb_eq in H3. repeat split; auto.
  symmetry. now apply ns_eqb_true.
Qed.
